#!/usr/bin/env python3
"""Lists findings reported on the current tree that KNOWN_FINDINGS.txt does not list for that property.
With --add-shared, appends those whose key is already listed under another property (the same defect seen from another property);
anything else is printed for triage and never added automatically."""
import os, re, subprocess, sys
HERE = os.path.dirname(os.path.dirname(os.path.abspath(__file__)))
out = subprocess.run(["./check", "all", "--list-findings"], cwd=HERE, capture_output=True, text=True).stdout
cur = {}
for l in out.splitlines():
    m = re.match(r"^finding: property=(C\d+) key=(.*?) :: (.*)$", l)
    if m:
        cur[(m.group(1), m.group(2))] = m.group(3)
path = os.path.join(HERE, "KNOWN_FINDINGS.txt")
lines = open(path).read().split("\n")
known = {}
for l in lines:
    m = re.match(r"^finding:\s+property=(C\d+)\s+key=(.*?)\s+::\s*(.*)$", l)
    if m:
        known[(m.group(1), m.group(2))] = m.group(3)
keys_known = {k for _, k in known}
new_shared, new_other = [], []
for (p, k), t in sorted(cur.items()):
    if (p, k) not in known:
        (new_shared if k in keys_known else new_other).append((p, k, t))
stale = [(p, k) for (p, k) in known if (p, k) not in cur]
for p, k, t in new_other:
    print("UNLISTED (triage by hand): property=%s key=%s :: %s" % (p, k, t[:120]))
for p, k in stale:
    print("STALE: property=%s key=%s" % (p, k))
if "--add-shared" in sys.argv and new_shared:
    idx = max(i for i, l in enumerate(lines) if l.startswith("finding:"))
    lines[idx + 1:idx + 1] = ["finding: property=%s key=%s :: %s" % x for x in new_shared]
    open(path, "w").write("\n".join(lines))
print("shared keys %s: %d; unlisted: %d; stale: %d" % ("added" if "--add-shared" in sys.argv else "missing", len(new_shared), len(new_other), len(stale)))
