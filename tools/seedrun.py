#!/usr/bin/env python3
"""Runs every property check against scratch copies of /repo with each seeded change applied.
usage: tools/seedrun.py [seed-root ...]   (default /verif/seeded; a seed dir holds patch.diff + meta.json)
Scratch copies live under $TMPDIR (outside /repo and /verif) and are removed afterwards."""
import json, os, shutil, subprocess, sys, tempfile
from concurrent.futures import ThreadPoolExecutor
HERE = os.path.dirname(os.path.dirname(os.path.abspath(__file__)))
PY = "/venv/bin/python" if os.path.exists("/venv/bin/python") else sys.executable


def seeds(roots):
    out = []
    for r in roots:
        for dp, dn, fs in os.walk(r):
            if "patch.diff" in fs:
                out.append(dp)
    return sorted(out)


def run_one(sd):
    tmp = tempfile.mkdtemp(prefix="cocoseed-")
    try:
        tree = os.path.join(tmp, "repo")
        shutil.copytree("/repo", tree, ignore=shutil.ignore_patterns(".git", "__pycache__", ".benchmarks"))
        r = subprocess.run(["git", "apply", "--unsafe-paths", "--directory=" + tree, os.path.join(sd, "patch.diff")], cwd=tmp, capture_output=True, text=True)
        if r.returncode != 0:
            r = subprocess.run(["patch", "-p1", "-s", "-F0", "-d", tree, "-i", os.path.join(sd, "patch.diff")], capture_output=True, text=True)
            if r.returncode != 0:
                return sd, None, "patch does not apply: " + (r.stderr or r.stdout)[:200]
        r = subprocess.run([PY, "-B", "-m", "cocoverif", "all", "--root", tree, "--no-evidence"], cwd=HERE, capture_output=True, text=True)
        hits = {}
        lines = r.stdout.splitlines()
        for i, l in enumerate(lines):
            if l.startswith("VIOLATION property="):
                pid = l.split("property=")[1].split()[0]
                prev = lines[i - 1] if i else ""
                hits.setdefault(pid, []).append(prev[:200])
        errs = [l for l in lines if l.startswith("ANALYSIS-ERROR")]
        return sd, hits, "; ".join(errs)[:300]
    finally:
        shutil.rmtree(tmp, ignore_errors=True)


def main():
    roots = [os.path.abspath(r) for r in sys.argv[1:]] or [os.path.join(HERE, "seeded")]
    sds = seeds(roots)
    with ThreadPoolExecutor(max_workers=12) as ex:
        results = list(ex.map(run_one, sds))
    caught = 0
    for sd, hits, err in results:
        try:
            meta = json.load(open(os.path.join(sd, "meta.json")))
        except Exception:
            meta = {}
        target = meta.get("property", "?")
        if hits is None:
            print("%-28s ERROR %s" % (sd.replace("/tmp/seed/", "").replace(HERE + "/seeded/", ""), err))
            continue
        status = "CAUGHT" if hits else "missed"
        caught += bool(hits)
        print("%-28s target=%s %s by %s %s" % (sd.replace("/tmp/seed/", "").replace(HERE + "/seeded/", ""), target, status, sorted(hits), ("ERR " + err) if err else ""))
        if "-v" in os.environ.get("SEEDRUN_FLAGS", ""):
            for pid, fs in hits.items():
                for f in fs[:2]:
                    print("      ", pid, f)
    print("caught %d of %d" % (caught, len(results)))


if __name__ == "__main__":
    main()
