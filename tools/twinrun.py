#!/usr/bin/env python3
"""Runs every property check against scratch copies of /repo with each behaviour-preserving refactoring applied: no VIOLATION may be raised.
usage: tools/twinrun.py [dir ...]  (default /verif/twins; a twin dir holds patch.diff)"""
import json, os, shutil, subprocess, sys, tempfile
from concurrent.futures import ThreadPoolExecutor
HERE = os.path.dirname(os.path.dirname(os.path.abspath(__file__)))
PY = "/venv/bin/python" if os.path.exists("/venv/bin/python") else sys.executable


def twins(roots):
    out = []
    for r in roots:
        for dp, dn, fs in os.walk(r):
            if "patch.diff" in fs:
                out.append(dp)
    return sorted(out)


def run_one(sd):
    tmp = tempfile.mkdtemp(prefix="cocotwin-")
    try:
        tree = os.path.join(tmp, "repo")
        shutil.copytree("/repo", tree, ignore=shutil.ignore_patterns(".git", "__pycache__", ".benchmarks"))
        r = subprocess.run(["git", "apply", "--unsafe-paths", "--directory=" + tree, os.path.join(sd, "patch.diff")], cwd=tmp, capture_output=True, text=True)
        if r.returncode != 0:
            r = subprocess.run(["patch", "-p1", "-s", "-F0", "-d", tree, "-i", os.path.join(sd, "patch.diff")], capture_output=True, text=True)
            if r.returncode != 0:
                return sd, None, [], "patch does not apply"
        r = subprocess.run([PY, "-B", "-m", "cocoverif", "all", "--root", tree, "--no-evidence"], cwd=HERE, capture_output=True, text=True)
        lines = r.stdout.splitlines()
        viol = []
        for i, l in enumerate(lines):
            if l.startswith("VIOLATION property="):
                viol.append((l.split("property=")[1].split()[0], lines[i - 1][:260]))
        errs = [l[:200] for l in lines if l.startswith("ANALYSIS-ERROR")]
        undec = sorted({l[:200] for l in lines if l.startswith("UNDECIDED")})
        return sd, viol, undec, "; ".join(errs)
    finally:
        shutil.rmtree(tmp, ignore_errors=True)


def main():
    roots = [os.path.abspath(r) for r in sys.argv[1:] if not r.startswith("-")] or [os.path.join(HERE, "twins")]
    sds = twins(roots)
    with ThreadPoolExecutor(max_workers=12) as ex:
        results = list(ex.map(run_one, sds))
    alarms = 0
    for sd, viol, undec, err in results:
        name = "/".join(sd.split("/")[-2:])
        if viol is None:
            print("%-12s ERROR %s" % (name, err))
            continue
        facts = sorted({v[1].split(" at ")[0].replace("FINDING: ", "") for v in viol})
        if viol or err:
            alarms += 1
        print("%-12s %s  (%d distinct alarms, %d undecided) %s" % (name, "ALARM" if viol or err else "silent", len(facts), len(undec), err))
        for f in facts[:12]:
            print("        " + f[:230])
        if "-v" in sys.argv:
            for u in undec[:10]:
                print("        " + u)
    print("twins with alarms: %d of %d" % (alarms, len(results)))


if __name__ == "__main__":
    main()
