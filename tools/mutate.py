#!/usr/bin/env python3
"""Mutation sweep used to look for gaps in the rules (not a property check).

For every mutation point of the library/CLI sources (integer constants +-1, comparison operators, + / -, and/or, dropped `not`,
deleted simple statements) a scratch copy of /repo is mutated; mutants that the repository's own test suite kills are dropped; the
survivors are run through every property check.  Output: one JSON line per survivor with the checks that flag it.
usage: tools/mutate.py [--files f1,f2] [--jobs N] [--limit N] > survivors.jsonl"""
import ast
import copy
import json
import os
import shutil
import subprocess
import sys
import tempfile
from concurrent.futures import ThreadPoolExecutor

HERE = os.path.dirname(os.path.dirname(os.path.abspath(__file__)))
PY = "/venv/bin/python"
FILES = ["cocoasm/instruction.py", "cocoasm/operands.py", "cocoasm/values.py", "cocoasm/statement.py", "cocoasm/program.py",
         "cocoasm/virtualfiles/cassette.py", "cocoasm/virtualfiles/disk.py", "cocoasm/virtualfiles/virtual_file.py",
         "cocoasm/virtualfiles/virtual_file_container.py", "cocoasm/virtualfiles/source_file.py", "cocoasm/virtualfiles/binary.py",
         "cocoasm/virtualfiles/coco_file.py", "assembler.py", "file_util.py"]

CMP = {ast.Lt: ast.LtE, ast.LtE: ast.Lt, ast.Gt: ast.GtE, ast.GtE: ast.Gt, ast.Eq: ast.NotEq, ast.NotEq: ast.Eq, ast.In: ast.NotIn, ast.NotIn: ast.In}


def points(tree):
    """yield (kind, path-index) mutation points; the index is the ordinal of the node in ast.walk order"""
    out = []
    for i, n in enumerate(ast.walk(tree)):
        if isinstance(n, ast.Constant) and isinstance(n.value, int) and not isinstance(n.value, bool):
            out.append(("const+1", i))
            out.append(("const-1", i))
        elif isinstance(n, ast.Compare) and len(n.ops) == 1 and type(n.ops[0]) in CMP:
            out.append(("cmp", i))
        elif isinstance(n, ast.BinOp) and isinstance(n.op, (ast.Add, ast.Sub)):
            out.append(("addsub", i))
        elif isinstance(n, ast.BoolOp):
            out.append(("andor", i))
        elif isinstance(n, ast.UnaryOp) and isinstance(n.op, ast.Not):
            out.append(("dropnot", i))
        elif isinstance(n, (ast.AugAssign,)) or (isinstance(n, ast.Expr) and isinstance(n.value, ast.Call)) or \
                (isinstance(n, ast.Assign) and not isinstance(n.value, ast.Constant)):
            out.append(("delete", i))
    return out


def apply(tree, kind, idx):
    tree = copy.deepcopy(tree)
    for i, n in enumerate(ast.walk(tree)):
        if i != idx:
            continue
        if kind == "const+1":
            n.value += 1
        elif kind == "const-1":
            n.value -= 1
        elif kind == "cmp":
            n.ops = [CMP[type(n.ops[0])]()]
        elif kind == "addsub":
            n.op = ast.Sub() if isinstance(n.op, ast.Add) else ast.Add()
        elif kind == "andor":
            n.op = ast.Or() if isinstance(n.op, ast.And) else ast.And()
        elif kind == "dropnot":
            n.op = ast.UAdd()      # +x keeps truthiness for bools/ints; for other objects fall back
            return tree, getattr(n, "lineno", 0)
        elif kind == "delete":
            line = n.lineno
            for parent in ast.walk(tree):
                for field in ("body", "orelse", "finalbody"):
                    b = getattr(parent, field, None)
                    if isinstance(b, list) and n in b:
                        b[b.index(n)] = ast.copy_location(ast.Pass(), n)
                        return tree, line
            return None, 0
        return tree, getattr(n, "lineno", 0)
    return None, 0


class NotToBool(ast.NodeTransformer):
    pass


def run_mutant(job):
    rel, kind, idx, src_tree = job
    tree, line = apply(src_tree, kind, idx)
    if tree is None:
        return None
    try:
        code = ast.unparse(tree)
        if kind == "dropnot":
            code = code  # `+x` on non-numeric raises; such mutants die in the suite
        compile(code, rel, "exec")
    except Exception:
        return None
    tmp = tempfile.mkdtemp(prefix="cocomut-")
    try:
        t = os.path.join(tmp, "repo")
        shutil.copytree("/repo", t, ignore=shutil.ignore_patterns(".git", "__pycache__", ".benchmarks"))
        # keep the original text except for the mutated file (ast.unparse of the whole file: layout changes are irrelevant)
        open(os.path.join(t, rel), "w").write(code + "\n")
        r = subprocess.run("%s -m pytest -x -q -p no:cacheprovider --deselect test/test_integration.py::TestIntegration::test_pshu_multi_regression "
                           "--deselect test/test_integration.py::TestIntegration::test_pshu_regression --deselect test/test_integration.py::TestIntegration::test_pulu_multi_regression "
                           "--deselect test/test_integration.py::TestIntegration::test_pulu_regression 2>&1 | tail -1" % PY, shell=True, cwd=t, capture_output=True, text=True, timeout=300)
        if " passed" not in r.stdout or "failed" in r.stdout or "error" in r.stdout.lower():
            return {"file": rel, "kind": kind, "line": line, "killed": True}
        c = subprocess.run([PY, "-B", "-m", "cocoverif", "all", "--root", t, "--no-evidence"], cwd=HERE, capture_output=True, text=True)
        lines = c.stdout.splitlines()
        viol = {}
        for i, l in enumerate(lines):
            if l.startswith("VIOLATION property="):
                viol.setdefault(l.split("property=")[1].split()[0], lines[i - 1][9:160])
        # the mutated source line for the report
        try:
            mline = code.split("\n")[0]
            orig = ast.unparse(src_tree).split("\n")
            new = code.split("\n")
            diff = [(a, b) for a, b in zip(orig, new) if a != b][:2]
        except Exception:
            diff = []
        return {"file": rel, "kind": kind, "line": line, "killed": False, "flagged": sorted(viol), "why": list(viol.values())[:2], "diff": diff}
    except Exception as e:
        return {"file": rel, "kind": kind, "line": line, "error": repr(e)}
    finally:
        shutil.rmtree(tmp, ignore_errors=True)


def main():
    files = FILES
    jobs_n = 14
    limit = None
    args = sys.argv[1:]
    for i, a in enumerate(args):
        if a == "--files":
            files = args[i + 1].split(",")
        if a == "--jobs":
            jobs_n = int(args[i + 1])
        if a == "--limit":
            limit = int(args[i + 1])
    jobs = []
    for rel in files:
        tree = ast.parse(open(os.path.join("/repo", rel)).read())
        for kind, idx in points(tree):
            jobs.append((rel, kind, idx, tree))
    if limit:
        import random
        random.seed(int(os.environ.get("VERIF_SEED", "1")))
        random.shuffle(jobs)
        jobs = jobs[:limit]
    sys.stderr.write("%d mutation points\n" % len(jobs))
    killed = 0
    n = 0
    with ThreadPoolExecutor(max_workers=jobs_n) as ex:
        for r in ex.map(run_mutant, jobs):
            n += 1
            if r is None:
                continue
            if r.get("killed"):
                killed += 1
                continue
            print(json.dumps(r), flush=True)
            if n % 200 == 0:
                sys.stderr.write("%d done, %d killed by the suite\n" % (n, killed))
    sys.stderr.write("done: %d mutants, %d killed by the suite\n" % (n, killed))


if __name__ == "__main__":
    main()
