#!/usr/bin/env python3
"""Confirms behaviour-preserving refactorings: patch applies, the suite keeps its baseline, equiv.py (clean tree vs patched tree) exits 0."""
import json, os, shutil, subprocess, sys, tempfile
from concurrent.futures import ThreadPoolExecutor
PY = "/venv/bin/python"


def sh(cmd, cwd=None, timeout=900):
    r = subprocess.run(cmd, shell=True, cwd=cwd, capture_output=True, text=True, timeout=timeout)
    return r.returncode, (r.stdout + r.stderr)


def confirm(sd):
    tmp = tempfile.mkdtemp(prefix="cocotwinc-")
    res = {"twin": sd}
    try:
        a, b = os.path.join(tmp, "a"), os.path.join(tmp, "b")
        shutil.copytree("/repo", a, ignore=shutil.ignore_patterns(".git", "__pycache__", ".benchmarks"))
        shutil.copytree(a, b)
        rc, out = sh("git apply --unsafe-paths --directory=%s %s" % (b, os.path.join(sd, "patch.diff")), cwd=tmp)
        res["applies"] = rc == 0
        if rc != 0:
            return res
        rc, out = sh("%s -m pytest -q -p no:cacheprovider 2>&1 | tail -1" % PY, cwd=b)
        res["suite"] = out.strip().split(" in ")[0]
        if os.path.exists(os.path.join(sd, "equiv.py")):
            rc, out = sh("%s %s %s %s" % (PY, os.path.join(sd, "equiv.py"), a, b), cwd=tmp)
            res["equiv_rc"] = rc
            res["equiv_tail"] = out[-200:]
        res["confirmed"] = res["suite"] == "4 failed, 490 passed" and res.get("equiv_rc", 0) == 0
        return res
    except Exception as e:
        res["error"] = repr(e)
        return res
    finally:
        shutil.rmtree(tmp, ignore_errors=True)


if __name__ == "__main__":
    sds = [os.path.abspath(x) for x in sys.argv[1:]]
    with ThreadPoolExecutor(max_workers=8) as ex:
        for r in ex.map(confirm, sds):
            print(json.dumps({k: v for k, v in r.items() if k != "equiv_tail" or not r.get("confirmed")}))
            json.dump(r, open(os.path.join(r["twin"], "confirm.json"), "w"), indent=1)
