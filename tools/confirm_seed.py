#!/usr/bin/env python3
"""Confirms seeded changes against the current /repo HEAD in scratch copies (outside /repo and /verif):
demo exits 0 on the clean tree, the patch applies, the unedited suite still gives the baseline result, demo exits 1 on the patched tree.
usage: tools/confirm_seed.py <seed dir> ...   -> prints one line per seed; writes confirm.json into the seed dir"""
import json, os, shutil, subprocess, sys, tempfile
from concurrent.futures import ThreadPoolExecutor
PY = "/venv/bin/python"


def sh(cmd, cwd=None, timeout=600):
    r = subprocess.run(cmd, shell=True, cwd=cwd, capture_output=True, text=True, timeout=timeout)
    return r.returncode, (r.stdout + r.stderr)


def confirm(sd):
    tmp = tempfile.mkdtemp(prefix="cococonfirm-")
    res = {"seed": sd}
    try:
        tree = os.path.join(tmp, "repo")
        shutil.copytree("/repo", tree, ignore=shutil.ignore_patterns(".git", "__pycache__", ".benchmarks"))
        rc, out = sh("%s %s %s" % (PY, os.path.join(sd, "demo.py"), tree), cwd=tmp)
        res["demo_clean_rc"] = rc
        rc, out = sh("git apply --unsafe-paths --directory=%s %s" % (tree, os.path.join(sd, "patch.diff")), cwd=tmp)
        if rc != 0:
            rc, out = sh("patch -p1 -s -d %s -i %s" % (tree, os.path.join(sd, "patch.diff")))
        res["applies"] = rc == 0
        if rc != 0:
            res["error"] = out[-300:]
            return res
        rc, out = sh("%s -m pytest -q -p no:cacheprovider 2>&1 | tail -1" % PY, cwd=tree)
        res["suite"] = out.strip().split(" in ")[0]
        rc, out = sh("%s %s %s" % (PY, os.path.join(sd, "demo.py"), tree), cwd=tmp)
        res["demo_patched_rc"] = rc
        res["demo_patched_tail"] = out[-300:]
        res["confirmed"] = res["demo_clean_rc"] == 0 and res["demo_patched_rc"] == 1 and res["suite"] == "4 failed, 490 passed"
        res["repo_head"] = subprocess.run("git -C /repo rev-parse --short HEAD", shell=True, capture_output=True, text=True).stdout.strip()
        return res
    except Exception as e:
        res["error"] = repr(e)
        return res
    finally:
        shutil.rmtree(tmp, ignore_errors=True)


if __name__ == "__main__":
    sds = [os.path.abspath(x) for x in sys.argv[1:]]
    with ThreadPoolExecutor(max_workers=8) as ex:
        for r in ex.map(confirm, sds):
            print(json.dumps({k: v for k, v in r.items() if k != "demo_patched_tail"}))
            try:
                json.dump(r, open(os.path.join(r["seed"], "confirm.json"), "w"), indent=1)
            except OSError:
                pass
