#!/usr/bin/env python3
"""Regenerates /verif/MANIFEST.json from cocoverif.props (claimed properties) and properties.jsonl."""
import json, os, sys
HERE = os.path.dirname(os.path.dirname(os.path.abspath(__file__)))
sys.path.insert(0, HERE)
from cocoverif import props  # noqa


def technique_of(rules):
    fams = {r.split("~")[0].split("-")[0] for r in rules}
    parts = ["static analysis over the parsed source (ast), no execution of repository code"]
    if fams & {"TAB", "ENC", "WID", "DSK", "REL", "DIR", "EXP"}:
        parts.append("constant folding of tables and pure helpers over finite domains against reference tables")
    if fams & {"ENC", "REL", "DSK", "CAS", "LAY"}:
        parts.append("path-enumerating abstract interpretation (affine / bit-mask / constructor-term domains)")
    if fams & {"CAS"}:
        parts.append("byte-sequence extraction with checksum pairing")
    if fams & {"VF", "CLI", "ESC", "TERM", "LAY", "INC"}:
        parts.append("CFG dominance, typestate of event traces evaluated per configuration, resolved call graph with exception-escape fixpoint")
    if fams & {"DET"}:
        parts.append("effect analysis of module/class-level state with embedded canaries")
    if fams & {"TXT"}:
        parts.append("regular expressions of the source matched against a fixed alphabet")
    return "; ".join(parts)

all_ids = [json.loads(l)["id"] for l in open(os.path.join(HERE, "properties.jsonl"))]
checks = []
for pid in all_ids:
    if pid not in props.PROPS:
        continue
    sp = props.PROPS[pid]
    checks.append({
        "property_id": pid,
        "quick_cmd": "./check %s --tier quick" % pid,
        "thorough_cmd": "./check %s --tier thorough" % pid,
        "evidence_file": "/verif/evidence/%s.json" % pid,
        "replay_cmd_template": "./check %s --replay {path}" % pid,
        "engine": "cocoverif",
        "level_claimed": {
            "category": "other",
            "text": ("Static conformance of the current source to repository-specific rules (%s). Decides: %s "
                     "Does not decide: %s The behaviour as a whole is not decided; each rule is a necessary condition of it.")
                    % (", ".join(r.split("~")[0] + ("(part)" if "~" in r else "") for r in sp["rules"]), sp["explanation"], sp["not_decided"]),
            "design_ref": "DESIGN.md section 4, %s" % pid,
        },
        "level_note": "Trusted base: " + "; ".join(sp["assumptions"]),
        "technique": sp.get("technique", technique_of(sp["rules"])),
    })
na = [{"property_id": pid, "reason": props.NOT_APPLICABLE.get(pid, "check not built yet in this session; see DESIGN.md")}
      for pid in all_ids if pid not in props.PROPS]
man = {
    "version": 1,
    "setup_cmd": "/venv/bin/python -m compileall -q cocoverif || python3 -m compileall -q cocoverif",
    "hooks": {
        "guard": "COCOASM_VERIF",
        "enable": "none needed: the analysis reads /repo's source text and never runs it; no hook commits exist",
        "baseline_off_cmd": "cd /repo && /venv/bin/python -m pytest -ra -q -p no:cacheprovider --timeout=900 --continue-on-collection-errors",
        "source_commits": [],
        "add_only": True,
    },
    "engines": [{"name": "cocoverif", "path": "/verif/cocoverif", "serves_properties": [c["property_id"] for c in checks],
                 "kind_free_text": "repository-specific static analyser (ast + re._parser; constant folding, abstract interpretation over paths, CFG, call graph, byte-sequence extraction); stdlib only"}],
    "checks": checks,
    "not_applicable": na,
    "notes": "All checks are static analyses of /repo's working tree; see DESIGN.md. KNOWN_FINDINGS.txt lists genuine defects recorded or fixed.",
}
json.dump(man, open(os.path.join(HERE, "MANIFEST.json"), "w"), indent=1)
print("checks:", len(checks), "not_applicable:", len(na))
