#!/usr/bin/env python
"""
Differential check for property C09 (adding or appending a file never disturbs files already stored).

usage: equiv.py <treeA> <treeB>

The PROBE below is run once per tree in a subprocess (tree at the front of
sys.path, a private scratch directory as cwd).  It prints one JSON document
with every observable result; the two documents must be identical.
"""
import json
import os
import subprocess
import sys
import tempfile

PROBE = r'''
import hashlib, io, json, os, subprocess, sys, contextlib
TREE = sys.argv[1]
sys.path.insert(0, TREE)
from cocoasm.virtualfiles.disk import DiskFile, DiskConstants
from cocoasm.virtualfiles.cassette import CassetteFile
from cocoasm.virtualfiles.binary import BinaryFile
from cocoasm.virtualfiles.coco_file import CoCoFile
from cocoasm.virtualfiles.virtual_file import VirtualFile, VirtualFileType
from cocoasm.virtualfiles.virtual_file_container import VirtualFileContainer
from cocoasm.virtualfiles.source_file import SourceFile, SourceFileType
from cocoasm.values import NumericValue, NoneValue

RESULTS = []
FAT = 78592
DIR = 78848
GRAN = 2304

def digest(buf):
    raw = bytes(bytearray(buf))
    return {"len": len(raw), "sha": hashlib.sha256(raw).hexdigest(), "head": raw[:48].hex(), "tail": raw[-24:].hex()}

def image(buf):
    out = digest(buf)
    if len(buf) == DiskConstants.IMAGE_SIZE:
        raw = bytes(bytearray(buf))
        out["fat"] = raw[FAT:FAT + 256].hex()
        out["dirsha"] = hashlib.sha256(raw[DIR:DIR + 72 * 32]).hexdigest()
    return out

def val(v):
    if v is None or not hasattr(v, "hex"):
        return repr(v)
    return [type(v).__name__, v.int, v.hex(), v.hex(size=4), v.negative]

def show_file(f):
    return {"name": f.name, "ext": f.extension, "type": val(f.type), "dtype": val(f.data_type), "gaps": val(f.gaps),
            "load": val(f.load_addr), "exec": val(f.exec_addr), "data": digest(f.data), "str": str(f)}

def case(label, fn):
    try:
        out = fn()
        RESULTS.append([label, "ok", out])
    except BaseException as error:
        RESULTS.append([label, "exc", type(error).__name__, str(error)])

def pattern(length, seed):
    marker = [0x55, 0x3C, 0x00, 0x55, 0x3C, 0x01, 0x55, 0x3C, 0xFF, 0x00, 0x0F]
    if seed % 4 == 0:
        return [marker[(i + seed) % len(marker)] for i in range(length)]
    return [((i * (seed + 7)) + seed * 31 + (i >> 8)) & 0xFF for i in range(length)]

ML, BASIC, ASCII, DATA = (2, 0), (0, 0), (0, 0xFF), (1, 0)
def mkfile(name, length, seed=1, kind=ML, load=0x0E00, exe=0x0E10, ext="BIN"):
    return CoCoFile(name=name, extension=ext, type=NumericValue(kind[0]), data_type=NumericValue(kind[1]), gaps=NumericValue(0),
                    load_addr=NumericValue(load), exec_addr=NumericValue(exe), data=pattern(length, seed))

def disk_bytes(filename):
    with open(filename, "rb") as handle:
        return handle.read()

# ---- histories through VirtualFile on real files
def history(filename, vtype, steps):
    """steps: list of (list of files to add, append_mode); each step opens, adds, saves; then re-opens untyped and lists"""
    log = []
    for number, (files, append_mode) in enumerate(steps):
        entry = {"step": number}
        try:
            target = VirtualFile(SourceFile(filename, file_type=SourceFileType.BINARY), virtual_file_type=vtype)
            target.open_virtual_file()
            entry["opened"] = [target.file_exists, repr(target.virtual_file_type), [f.name for f in target.list_files()]]
            for coco_file in files:
                target.add_coco_file(coco_file)
            entry["save"] = target.save_virtual_file(append_mode=append_mode) if append_mode is not None else target.save_virtual_file()
        except Exception as error:
            entry["error"] = [type(error).__name__, str(error)]
        entry["image"] = image(disk_bytes(filename)) if os.path.exists(filename) else None
        try:
            probe = VirtualFile(SourceFile(filename, file_type=SourceFileType.BINARY))
            probe.open_virtual_file()
            entry["sniffed"] = [probe.file_exists, repr(probe.virtual_file_type), [show_file(f) for f in probe.list_files()]]
            entry["filtered"] = [f.name for f in probe.list_files(filenames=[files[0].name.upper() if files else "NONE", "ZZ"])]
        except Exception as error:
            entry["sniff_error"] = [type(error).__name__, str(error)]
        log.append(entry)
    return log

CAS, DSK, BIN = VirtualFileType.CASSETTE, VirtualFileType.DISK, VirtualFileType.BINARY
BOUNDARY = [0, 1, 254, 255, 256, 510, 511, 2293, 2294, 2295, 2298, 2299, 2300, 2303, 2304, 4602, 4603, 4604]
for length in BOUNDARY:
    for tname, vtype, ext in (("cas", CAS, ".cas"), ("dsk", DSK, ".dsk")):
        case("hist-%s-two-%d" % (tname, length), lambda: history("two%d%s" % (length, ext), vtype,
             [([mkfile("FIRST", length, length & 7)], False), ([mkfile("SECOND", 300, 5, BASIC, ext="BAS")], True), ([mkfile("THIRD", length, 2, ASCII, ext="TXT")], True)]))
case("hist-cas-exists-noappend", lambda: history("exists.cas", CAS, [([mkfile("A", 10)], False), ([mkfile("B", 10)], False), ([mkfile("C", 10)], None), ([mkfile("D", 10)], True)]))
case("hist-dsk-exists-noappend", lambda: history("exists.dsk", DSK, [([mkfile("A", 10)], False), ([mkfile("B", 10)], False), ([mkfile("C", 10)], None), ([mkfile("D", 10)], True)]))
case("hist-bin", lambda: history("prog.bin", BIN, [([mkfile("A", 10)], False), ([mkfile("B", 20, 2)], False), ([mkfile("C", 30, 3)], True), ([], True)]))
case("hist-cas-many-per-step", lambda: history("many.cas", CAS, [([mkfile("A%d" % n, 100 * n + 1, n) for n in range(5)], True), ([], True), ([mkfile("B%d" % n, 255 * n, n) for n in range(4)], True)]))
case("hist-dsk-many-per-step", lambda: history("many.dsk", DSK, [([mkfile("A%d" % n, 1000 * n + 1, n) for n in range(5)], True), ([], True), ([mkfile("B%d" % n, 2304 * n + 5, n) for n in range(4)], True)]))
case("hist-cas-huge", lambda: history("huge.cas", CAS, [([mkfile("BIG1", 65535, 1)], False), ([mkfile("BIG2", 65535, 2)], True), ([mkfile("BIG3", 65535, 3)], True), ([mkfile("SMALL", 7, 4)], True)]))
case("hist-cas-size-of-disk", lambda: history("disksize.cas", CAS, [([mkfile("PAD%d" % n, 65535, n) for n in range(2)] + [mkfile("FIT", 161280 - 2 * (65535 + 257 * 8 + 2 * 256 + 21 + 6) - (2 * 256 + 21 + 6 + 8), 3)], False), ([mkfile("MORE", 5)], True)]))
case("hist-cas-ff-payload", lambda: history("ff.cas", CAS, [([CoCoFile(name="FF%d" % n, extension="BIN", type=NumericValue(2), data_type=NumericValue(0), gaps=NumericValue(0), load_addr=NumericValue(0), exec_addr=NumericValue(0), data=[0xFF] * 60000) for n in range(3)], False), ([mkfile("AFTER", 9)], True)]))
case("hist-dsk-fill", lambda: history("fill.dsk", DSK, [([mkfile("F%d" % n, 2304 * 3, n) for n in range(10)], False), ([mkfile("G%d" % n, 2304 * 2, n) for n in range(10)], True), ([mkfile("H%d" % n, 2304, n) for n in range(10)], True), ([mkfile("LAST", 1)], True)]))
case("hist-dsk-capacity", lambda: history("cap.dsk", DSK, [([mkfile("N%d" % n, 10 + n, n, (ML, BASIC, ASCII)[n % 3]) for n in range(60)], False), ([mkfile("M%d" % n, 10, n) for n in range(8)], True), ([mkfile("OVER", 5)], True)]))
case("hist-dsk-kinds", lambda: history("kinds.dsk", DSK, [([mkfile("ML", 3000, 1, ML), mkfile("BAS", 3000, 2, BASIC, ext="BAS")], False), ([mkfile("ASC", 3000, 3, ASCII, ext="TXT"), mkfile("DAT", 3000, 5, DATA, ext="DAT")], True)]))
case("hist-type-mismatch-cas-as-dsk", lambda: history("mismatch.cas", CAS, [([mkfile("A", 10)], False)]) + history("mismatch.cas", DSK, [([mkfile("B", 10)], True)]) + history("mismatch.cas", BIN, [([mkfile("C", 10)], True)]))
case("hist-type-mismatch-dsk-as-cas", lambda: history("mismatch.dsk", DSK, [([mkfile("A", 10)], False)]) + history("mismatch.dsk", CAS, [([mkfile("B", 10)], True)]) + history("mismatch.dsk", BIN, [([mkfile("C", 10)], True)]))
case("hist-type-mismatch-bin", lambda: history("mismatch.bin", BIN, [([mkfile("A", 10)], False)]) + history("mismatch.bin", CAS, [([mkfile("B", 10)], True)]) + history("mismatch.bin", DSK, [([mkfile("C", 10)], True)]))
case("hist-untyped", lambda: history("untyped.img", None, [([mkfile("A", 10)], False), ([mkfile("B", 10)], True)]))
case("hist-unknown-type", lambda: history("unknown.img", VirtualFileType.UNKNOWN, [([mkfile("A", 10)], False), ([mkfile("B", 10)], True)]))
def preexisting(filename, content, vtype, append=True):
    with open(filename, "wb") as handle:
        handle.write(bytearray(content))
    return history(filename, vtype, [([mkfile("NEW", 12)], append)])
case("hist-empty-existing-cas", lambda: preexisting("empty0.cas", [], CAS))
case("hist-empty-existing-dsk", lambda: preexisting("empty0.dsk", [], DSK))
case("hist-junk-existing-cas", lambda: preexisting("junk.cas", [1, 2, 3] * 100, CAS))
case("hist-junk-existing-dsk", lambda: preexisting("junk.dsk", [1, 2, 3] * 100, DSK))
case("hist-blank-disk-existing", lambda: preexisting("blank.dsk", [0xFF] * 161280, DSK))
case("hist-blank-disk-as-cas", lambda: preexisting("blank2.dsk", [0xFF] * 161280, CAS))
case("hist-zero-disk-existing", lambda: preexisting("zero.dsk", [0x00] * 161280, DSK))
case("hist-oversize-disk", lambda: preexisting("over.dsk", [0xFF] * 161281, DSK))
case("hist-undersize-disk", lambda: preexisting("under.dsk", [0xFF] * 161279, DSK))
case("hist-bad-tape-existing", lambda: preexisting("bad.cas", [0x55, 0x3C, 0x00, 0x0F] + [65] * 8 + [2, 0, 0, 0, 0, 0, 0, 0, 0x55] + [0x55, 0x3C, 0x01, 0x05, 1, 2], CAS))
case("hist-trunc-tape-existing", lambda: preexisting("trunc.cas", [0x55, 0x3C, 0x00, 0x0F] + [65] * 8 + [2, 0, 0, 0, 0, 0, 0, 0, 0x55] + [0x55, 0x3C, 0x07, 0x05, 1, 2], CAS))

# ---- VirtualFile method by method
def vf_state(vf):
    return [vf.file_exists, repr(vf.virtual_file_type), [f.name for f in vf.coco_file_list]]
def methods():
    out = []
    vf = VirtualFile()
    out.append(vf_state(vf))
    out.append([len(vf.list_files()), vf.list_files(filenames=["A"]), len(vf.list_files(filenames=[])), vf.delete_coco_file("X")])
    vf.add_coco_file(mkfile("A", 3)); vf.add_coco_file(mkfile("B", 3)); vf.add_coco_file(mkfile("A", 4))
    out.append([[f.name for f in vf.list_files()], [len(f.data) for f in vf.list_files(filenames=["A"])], [f.name for f in vf.list_files(filenames=("B", "C"))], vf.list_files() is vf.coco_file_list])
    out.append(vf.save_virtual_file())
    try:
        vf.open_virtual_file()
    except Exception as error:
        out.append([type(error).__name__, str(error)])
    return out
case("vf-methods", methods)
def get_coco(content, vtype=None):
    with open("probe.img", "wb") as handle:
        handle.write(bytearray(content))
    source = SourceFile("probe.img", file_type=SourceFileType.BINARY)
    source.read_file()
    vf = VirtualFile(source, virtual_file_type=vtype)
    files, kind = vf.get_coco_files()
    return [[show_file(f) for f in files], repr(kind), vf_state(vf)]
def cas_image(files):
    cas = CassetteFile(); cas.add_files(files); return cas.get_buffer()
def dsk_image(files):
    dsk = DiskFile(); dsk.add_files(files); return dsk.get_buffer()
case("sniff-empty", lambda: get_coco([]))
case("sniff-junk", lambda: get_coco([7] * 50))
case("sniff-cas", lambda: get_coco(cas_image([mkfile("T", 50)])))
case("sniff-dsk", lambda: get_coco(dsk_image([mkfile("D", 50)])))
case("sniff-dsk-bad-file", lambda: get_coco(dsk_image([mkfile("D", 2299)])))
case("sniff-dsk-then-tape", lambda: get_coco(list(dsk_image([mkfile("D", 2299)])) + list(cas_image([mkfile("T", 5)]))))
case("sniff-tape-padded-to-disk", lambda: get_coco(list(cas_image([mkfile("T", 5)])) + [0xFF] * 161280))
case("sniff-tape-padded-zero", lambda: get_coco(list(cas_image([mkfile("T", 5)])) + [0x00] * 161280))
case("sniff-tape-broken", lambda: get_coco(list(cas_image([mkfile("T", 5)]))[:-8]))
case("sniff-tape-unknown-block", lambda: get_coco([0x55, 0x3C, 0x00, 0x0F] + [65] * 8 + [2, 0, 0, 0, 0, 0, 0, 0, 0x55, 0x55, 0x3C, 0x09, 0x00]))
case("sniff-tape-truncated", lambda: get_coco([0x55, 0x3C, 0x00, 0x0F] + [65] * 4))

# ---- disk allocation state queries
def fragment(disk):
    for granule in (32, 33, 34, 30, 36, 28, 0, 67, 40, 41, 42):
        disk.buffer[FAT + granule] = 0xC1
def nearly_full(disk):
    for granule in range(68):
        if granule not in (3, 50, 33, 34, 12):
            disk.buffer[FAT + granule] = 0xC9
def full(disk):
    for granule in range(68):
        disk.buffer[FAT + granule] = 0xC9
def dir_used(count):
    def prepare(disk):
        for entry in range(count):
            disk.buffer[DIR + 32 * entry] = 0x41
    return prepare
def dir_holes(disk):
    for entry in range(72):
        if entry not in (5, 9):
            disk.buffer[DIR + 32 * entry] = 0x41
def dir_deleted(disk):
    for entry in range(0, 10):
        disk.buffer[DIR + 32 * entry] = 0x00 if entry % 2 else 0x42
def queries(prepare, order=None):
    disk = DiskFile(granule_fill_order=order)
    prepare(disk)
    out = {"dir": [], "gran": []}
    for entry in (-2, -1, 0, 1, 35, 70, 71, 72, 100, 70.5, 71.5, -0.5):
        try:
            out["dir"].append([entry, disk.directory_entry_in_use(entry)])
        except Exception as error:
            out["dir"].append([entry, type(error).__name__, str(error)])
    for granule in (-2, -1, 0, 1, 33, 34, 66, 67, 68, 100, 66.5, 67.5, -0.5):
        try:
            out["gran"].append([granule, disk.granule_in_use(granule)])
        except Exception as error:
            out["gran"].append([granule, type(error).__name__, str(error)])
    for name in ("find_empty_directory_entry", "find_empty_granule"):
        try:
            out[name] = getattr(disk, name)()
        except Exception as error:
            out[name] = [type(error).__name__, str(error)]
    return out
PREP = {"fresh": lambda d: None, "fragment": fragment, "nearly-full": nearly_full, "full": full, "dir70": dir_used(70), "dir71": dir_used(71), "dir72": dir_used(72),
        "dir-holes": dir_holes, "dir-deleted": dir_deleted, "fat-zero": lambda d: d.buffer.__setitem__(FAT + 32, 0), "fat-99": lambda d: d.buffer.__setitem__(FAT + 32, 0x99)}
ORDERS = {"default": None, "ascending": list(range(68)), "descending": list(range(67, -1, -1)), "short": list(range(10)), "empty": [], "long": list(range(68)) + [0, 1],
          "bad-entry": [68] + list(range(68)), "neg-entry": [-1] + list(range(68)), "tuple": tuple(range(68))}
for label, prepare in PREP.items():
    for oname, order in ORDERS.items():
        case("queries-%s-%s" % (label, oname), lambda: queries(prepare, order))

def write_and_list(files, order=None, prepare=None, filenames=None, buffer=None):
    disk = DiskFile(buffer=buffer, granule_fill_order=order)
    if prepare:
        prepare(disk)
    error = None
    try:
        disk.add_files(files)
    except Exception as failure:
        error = [type(failure).__name__, str(failure)]
    buf = list(disk.get_buffer())
    try:
        back = [show_file(f) for f in DiskFile(buffer=list(buf)).list_files(filenames)]
    except Exception as failure:
        back = [type(failure).__name__, str(failure)]
    return {"error": error, "image": image(buf), "files": back}
MANY = [mkfile("ONE", 10, 1), mkfile("TWO", 2304, 2, BASIC, ext="BAS"), mkfile("THREE", 7000, 3, ASCII, ext="TXT"), mkfile("FOUR", 2293, 5), mkfile("FIVE", 12000, 7, DATA, ext="DAT")]
for oname, order in ORDERS.items():
    case("disk-many-" + oname, lambda: write_and_list(MANY, order))
for label, prepare in PREP.items():
    case("disk-prepared-" + label, lambda: write_and_list(MANY, prepare=prepare))
    case("disk-prepared-small-" + label, lambda: write_and_list([mkfile("S1", 5, 1), mkfile("S2", 5, 2), mkfile("S3", 5, 3)], prepare=prepare))
case("disk-fill-70", lambda: write_and_list([mkfile("N%d" % n, 100 + n, n, (ML, BASIC, ASCII)[n % 3]) for n in range(70)]))
def disk_incremental():
    out = []
    buf = None
    for number in range(6):
        disk = DiskFile(buffer=buf)
        disk.add_file(mkfile("INC%d" % number, 1500 * number + 3, number, (ML, BASIC, ASCII)[number % 3]))
        buf = list(disk.get_buffer())
        out.append([image(buf), [f.name for f in DiskFile(buffer=list(buf)).list_files()], digest(disk.original_buffer)])
    return out
case("disk-incremental", disk_incremental)
for size in (0, 1, 161279, 161280, 161281):
    case("disk-list-size-%d" % size, lambda: [show_file(f) for f in DiskFile(buffer=[0xFF] * size).list_files()])
    case("disk-list-zero-size-%d" % size, lambda: [show_file(f) for f in DiskFile(buffer=bytes(size)).list_files()])

# ---- cassette: write, re-read, extend the same buffer
def cassette_incremental():
    out = []
    buf = None
    for number, length in enumerate((0, 1, 255, 256, 600, 5)):
        cas = CassetteFile(buffer=buf)
        cas.add_file(mkfile("TAPE%d" % number, length, number))
        buf = list(cas.get_buffer())
        out.append([digest(buf), [show_file(f) for f in CassetteFile(buffer=list(buf)).list_files()], digest(cas.original_buffer)])
    return out
case("cassette-incremental", cassette_incremental)
def cassette_pieces():
    cas = CassetteFile()
    out = []
    out.append(cas.append_header(mkfile("HEADNAME12", 0, 1, (1, 0xFF), 0xFFFF, 0x8001)))
    out.append(digest(cas.buffer))
    out.append(cas.append_eof()); out.append(digest(cas.buffer))
    out.append(cas.append_name("ab")); out.append(cas.append_leader()); out.append(cas.append_blank()); out.append(digest(cas.buffer))
    out.append(cas.append_data_blocks(pattern(600, 4), gaps=True)); out.append(digest(cas.buffer))
    out.append([cas.skip_to_sequence([0x55, 0x3C, 0x01]), cas.skip_to_sequence([0x55, 0x3C, 0x01], start=400), cas.skip_to_sequence([9, 9, 9]), cas.read_word(3).int])
    return out
case("cassette-pieces", cassette_pieces)
for header in ([mkfile("N", 1, 1, (t, d), l, e) for t in (0, 1, 2, 3) for d in (0, 0xFF) for l, e in ((0, 0), (0xFF, 0x100), (0xFFFF, 0x1234))]):
    case("cassette-header-%s-%s-%s" % (header.type.hex(), header.data_type.hex(), header.load_addr.hex()), lambda: (lambda c: [c.append_header(header), bytes(bytearray(c.buffer)).hex()])(CassetteFile()))
case("cassette-header-nonevalue", lambda: (lambda c: [c.append_header(CoCoFile(name="NV")), bytes(bytearray(c.buffer)).hex()])(CassetteFile()))
case("cassette-header-onto", lambda: (lambda c: [c.append_header(mkfile("ON", 1)), bytes(bytearray(c.buffer)).hex()])(CassetteFile(buffer=[1, 2, 3, 0x55, 0x3C])))
case("cassette-header-bytearray", lambda: (lambda c: [c.append_header(mkfile("ON", 1)), bytes(bytearray(c.buffer)).hex()])(CassetteFile(buffer=bytearray([1, 2, 3]))))
case("cassette-header-bad", lambda: CassetteFile().append_header(CoCoFile(name="X", type=5)))
for buf in (None, [], [1], [1, 2, 3], bytearray(b"ab"), b"xyz"):
    case("container-%r" % (buf,), lambda: (lambda c: [digest(c.buffer), digest(c.original_buffer), c.buffer is buf, c.get_buffer() is c.buffer, c.add_files([]), c.add_file(None), c.list_files()])(VirtualFileContainer(buffer=buf)))
case("binary-container", lambda: (lambda b: [b.add_files([mkfile("A", 3), mkfile("B", 4)]), digest(b.get_buffer()), b.list_files()])(BinaryFile()))

# ---- command line front ends
def run(args):
    proc = subprocess.run([sys.executable] + args, stdout=subprocess.PIPE, stderr=subprocess.PIPE, universal_newlines=True)
    return [proc.returncode, proc.stdout, proc.stderr.replace(TREE, "<TREE>")]
def files_here():
    out = {}
    for name in sorted(os.listdir(".")):
        if name.startswith("cli"):
            out[name] = image(disk_bytes(name))
    return out
FILE_UTIL = os.path.join(TREE, "file_util.py")
ASSEMBLER = os.path.join(TREE, "assembler.py")
def source(name, origin, words, named=None):
    with open(name, "w") as handle:
        handle.write(("        NAM %s\n" % named if named else "") + "        ORG $%04X\nSTART   LDA #$55\n        LDB #$3C\n" % origin + "        FDB $553C,$0155,$3CFF\n" * words + "LOOP    JMP LOOP\n        END START\n")
source("cli_a.asm", 0x0E00, 1)
source("cli_b.asm", 0x2000, 380)
source("cli_c.asm", 0x3000, 766, named="INNAME")
source("cli_d.asm", 0x4000, 42)
with open("cli_bad.asm", "w") as handle:
    handle.write("        ORG $0E00\n        FOO #1\n")
with open("cli_undefined.asm", "w") as handle:
    handle.write("        ORG $0E00\n        JMP NOWHERE\n")
SEQUENCE = [
    ("asm-a-cas", [ASSEMBLER, "cli_a.asm", "--to_cas", "cli_tape.cas", "--name", "first"]),
    ("list-tape-1", [FILE_UTIL, "--list", "cli_tape.cas"]),
    ("asm-b-cas-noappend", [ASSEMBLER, "cli_b.asm", "--to_cas", "cli_tape.cas", "--name", "second"]),
    ("asm-b-cas-append", [ASSEMBLER, "cli_b.asm", "--to_cas", "cli_tape.cas", "--name", "second", "--append"]),
    ("list-tape-2", [FILE_UTIL, "--list", "cli_tape.cas"]),
    ("asm-c-cas-append", [ASSEMBLER, "cli_c.asm", "--to_cas", "cli_tape.cas", "--name", "ignored", "--append"]),
    ("asm-d-cas-append-noname", [ASSEMBLER, "cli_d.asm", "--to_cas", "cli_tape.cas", "--append"]),
    ("asm-d-cas-append", [ASSEMBLER, "cli_d.asm", "--to_cas", "cli_tape.cas", "--append", "--name", "fourthfile"]),
    ("list-tape-3", [FILE_UTIL, "--list", "cli_tape.cas"]),
    ("asm-a-dsk", [ASSEMBLER, "cli_a.asm", "--to_dsk", "cli_disk.dsk", "--name", "first"]),
    ("list-disk-1", [FILE_UTIL, "--list", "cli_disk.dsk"]),
    ("asm-b-dsk-noappend", [ASSEMBLER, "cli_b.asm", "--to_dsk", "cli_disk.dsk", "--name", "second"]),
    ("asm-b-dsk-append", [ASSEMBLER, "cli_b.asm", "--to_dsk", "cli_disk.dsk", "--name", "second", "--append"]),
    ("list-disk-2", [FILE_UTIL, "--list", "cli_disk.dsk"]),
    ("asm-c-dsk-append", [ASSEMBLER, "cli_c.asm", "--to_dsk", "cli_disk.dsk", "--append"]),
    ("asm-d-dsk-append", [ASSEMBLER, "cli_d.asm", "--to_dsk", "cli_disk.dsk", "--append", "--name", "fourthfile"]),
    ("list-disk-3", [FILE_UTIL, "--list", "cli_disk.dsk"]),
    ("asm-all-three", [ASSEMBLER, "cli_a.asm", "--to_bin", "cli_all.bin", "--to_cas", "cli_all.cas", "--to_dsk", "cli_all.dsk", "--name", "all"]),
    ("asm-all-three-again", [ASSEMBLER, "cli_d.asm", "--to_bin", "cli_all.bin", "--to_cas", "cli_all.cas", "--to_dsk", "cli_all.dsk", "--name", "again"]),
    ("asm-all-three-append", [ASSEMBLER, "cli_d.asm", "--to_bin", "cli_all.bin", "--to_cas", "cli_all.cas", "--to_dsk", "cli_all.dsk", "--name", "again", "--append"]),
    ("asm-all-noname", [ASSEMBLER, "cli_d.asm", "--to_bin", "cli_nn.bin", "--to_cas", "cli_nn.cas", "--to_dsk", "cli_nn.dsk"]),
    ("asm-dsk-noname", [ASSEMBLER, "cli_d.asm", "--to_dsk", "cli_nn2.dsk"]),
    ("asm-cas-onto-dsk", [ASSEMBLER, "cli_a.asm", "--to_cas", "cli_disk.dsk", "--name", "x", "--append"]),
    ("asm-dsk-onto-cas", [ASSEMBLER, "cli_a.asm", "--to_dsk", "cli_tape.cas", "--name", "x", "--append"]),
    ("asm-bin-onto-cas", [ASSEMBLER, "cli_a.asm", "--to_bin", "cli_tape.cas", "--append"]),
    ("asm-cas-onto-bin", [ASSEMBLER, "cli_a.asm", "--to_cas", "cli_all.bin", "--name", "x", "--append"]),
    ("asm-symbols-print", [ASSEMBLER, "cli_a.asm", "--symbols", "--print", "--to_cas", "cli_sp.cas", "--name", "sp"]),
    ("asm-bad", [ASSEMBLER, "cli_bad.asm", "--to_cas", "cli_bad.cas", "--name", "bad"]),
    ("asm-undefined", [ASSEMBLER, "cli_undefined.asm", "--to_dsk", "cli_bad.dsk", "--name", "bad"]),
    ("asm-unwritable", [ASSEMBLER, "cli_a.asm", "--to_cas", "nodir/cli_x.cas", "--to_dsk", "nodir/cli_x.dsk", "--to_bin", "nodir/cli_x.bin", "--name", "x"]),
    ("list-all-cas", [FILE_UTIL, "--list", "cli_all.cas"]),
    ("list-all-dsk", [FILE_UTIL, "--list", "cli_all.dsk"]),
    ("list-all-bin", [FILE_UTIL, "--list", "cli_all.bin"]),
    ("util-disk-to-cas", [FILE_UTIL, "cli_disk.dsk", "--to_cas", "cli_copy.cas"]),
    ("util-tape-to-dsk", [FILE_UTIL, "cli_tape.cas", "--to_dsk", "cli_copy.dsk"]),
    ("util-tape-to-dsk-append", [FILE_UTIL, "cli_all.cas", "--to_dsk", "cli_copy.dsk", "--append"]),
    ("util-disk-to-cas-append", [FILE_UTIL, "cli_all.dsk", "--to_cas", "cli_copy.cas", "--append", "--files", "all"]),
    ("list-copy-cas", [FILE_UTIL, "--list", "cli_copy.cas"]),
    ("list-copy-dsk", [FILE_UTIL, "--list", "cli_copy.dsk"]),
]
for label, args in SEQUENCE:
    case("cli-" + label, lambda: run(args))
case("cli-files-written", files_here)

json.dump(RESULTS, sys.stdout, indent=0, sort_keys=True, default=repr)
'''


def run_probe(tree):
    tree = os.path.abspath(tree)
    with tempfile.TemporaryDirectory() as scratch:
        env = dict(os.environ, PYTHONDONTWRITEBYTECODE="1", PYTHONHASHSEED="0")
        env.pop("PYTHONPATH", None)
        proc = subprocess.run([sys.executable, "-c", PROBE, tree], cwd=scratch, env=env,
                              stdout=subprocess.PIPE, stderr=subprocess.PIPE, universal_newlines=True)
    if proc.returncode != 0:
        print("probe failed for %s:\n%s" % (tree, proc.stderr))
        sys.exit(1)
    return json.loads(proc.stdout)


def main():
    if len(sys.argv) != 3:
        print(__doc__)
        sys.exit(2)
    from concurrent.futures import ThreadPoolExecutor
    with ThreadPoolExecutor(max_workers=2) as pool:
        first, second = pool.map(run_probe, sys.argv[1:3])
    labels_a = [entry[0] for entry in first]
    labels_b = [entry[0] for entry in second]
    bad = 0
    if labels_a != labels_b:
        print("case lists differ")
        bad += 1
    for left, right in zip(first, second):
        if left != right:
            bad += 1
            print("DIFF %s\n  A: %s\n  B: %s" % (left[0], json.dumps(left)[:600], json.dumps(right)[:600]))
    errors = sum(1 for entry in first if entry[1] == "exc")
    print("%d cases (%d raising), %d differences" % (len(first), errors, bad))
    sys.exit(1 if bad else 0)


if __name__ == "__main__":
    main()
