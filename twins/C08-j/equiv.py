#!/usr/bin/env python
"""
Differential check for a refactoring of the disk image reader/writer.

usage: equiv.py <treeA> <treeB>

Runs the same driver in one subprocess per tree (tree as cwd and at the front
of sys.path), collects every observable (image bytes, listed files, printed
listings, exception type and message, CLI stdout / exit code / files written)
as JSON and compares the two results case by case.
"""
import json
import os
import subprocess
import sys
import tempfile

DRIVER = r'''
import sys, os, json, hashlib, random, subprocess, tempfile, shutil
tree = os.getcwd()
sys.path.insert(0, tree)
from cocoasm.virtualfiles import disk as diskmod
from cocoasm.virtualfiles.disk import DiskFile, DiskConstants, MLPreamble, BasicPreamble, ASCIIPreamble, Postamble
from cocoasm.virtualfiles.coco_file import CoCoFile
from cocoasm.values import NumericValue, NoneValue

results = {}
FAT = DiskConstants.FAT_OFFSET
DIR = DiskConstants.DIR_OFFSET
G = DiskConstants.HALF_TRACK_LEN

def digest(seq):
    try:
        return [len(seq), hashlib.sha256(bytes(bytearray(seq))).hexdigest()]
    except Exception:
        return [len(seq), hashlib.sha256(repr(list(seq)).encode()).hexdigest()]

def show_value(value):
    return [type(value).__name__, getattr(value, "int", None), value.hex() if hasattr(value, "hex") else None,
            getattr(value, "size_hint", None)]

def show_file(f):
    return {"name": f.name, "ext": f.extension, "type": show_value(f.type), "data_type": show_value(f.data_type),
            "gaps": show_value(f.gaps), "load": show_value(f.load_addr), "exec": show_value(f.exec_addr),
            "data": digest(f.data), "str": str(f)}

def show_image(buf):
    return {"image": digest(buf), "fat": list(buf[FAT:FAT + 256]) if len(buf) >= DIR else None,
            "dir": digest(buf[DIR:DIR + 72 * 32])}

def case(name, fn):
    try:
        results[name] = {"ok": fn()}
    except BaseException as error:
        results[name] = {"exc": type(error).__name__, "msg": str(error)}

def payload(length, seed=0):
    rnd = random.Random(seed * 7919 + length)
    return [rnd.randrange(256) for _ in range(length)]

def make(name, ext, length, kind="ml", load=0x0E00, exe=0x0E10, seed=0):
    ftype, dtype = {"ml": (2, 0), "basic": (0, 0), "ascii": (0, 0xFF), "data": (1, 0), "dataascii": (1, 0xFF),
                    "text": (3, 0xFF), "mlascii": (2, 0xFF)}[kind]
    return CoCoFile(name=name, extension=ext, type=NumericValue(ftype), data_type=NumericValue(dtype),
                    load_addr=NumericValue(load), exec_addr=NumericValue(exe), data=payload(length, seed))

def write_read(files, fill=None, base=None, filenames=None):
    dsk = DiskFile(buffer=base, granule_fill_order=fill)
    error = None
    try:
        dsk.add_files(files)
    except BaseException as exc:
        error = [type(exc).__name__, str(exc)]
    buf = dsk.get_buffer()
    out = show_image(buf)
    out["write_error"] = error
    try:
        out["files"] = [show_file(f) for f in DiskFile(buffer=list(buf)).list_files(filenames=filenames)]
    except BaseException as exc:
        out["read_error"] = [type(exc).__name__, str(exc)]
    return out

LENGTHS = sorted(set([0, 1, 2, 3, 100, 65535, 40000]
    + [m + d for m in (256, 512, 2304, 4608, 6912) for d in (-11, -10, -9, -6, -5, -4, -3, -2, -1, 0, 1, 2, 5, 10)]))
KINDS = ["ml", "basic", "ascii", "data", "text", "mlascii", "dataascii"]
NAMES = [("A", ""), ("HELLO", "BIN"), ("EIGHTCHR", "BAS"), ("NINECHARS", "TXT"), ("TWELVECHARS1", "DATA"),
         ("lower", "b"), ("Mixed9", "Xy")]
SEQ = list(range(68))
REV = list(reversed(range(68)))
ODD = [g for g in range(68) if g % 2] + [g for g in range(68) if not g % 2]

n = 0
for length in LENGTHS:
    for kind in (KINDS[n % 7], KINDS[(n + 3) % 7]):
        name, ext = NAMES[n % len(NAMES)]
        load = [0, 1, 0xFF, 0x100, 0x0E00, 0x7FFF, 0x8000, 0xFFFF][n % 8]
        exe = [0xFFFF, 0x1234, 0, 0x00FF, 0x0100][n % 5]
        fill = [None, SEQ, REV, ODD][n % 4]
        case("roundtrip len=%d kind=%s" % (length, kind),
             lambda: write_read([make(name, ext, length, kind, load, exe, n)], fill=fill))
        n += 1

many = [make("F%d" % i, "BIN" if i % 2 else "BAS", [10, 2304, 5000, 0, 2299, 2294, 7000, 255, 256, 2301][i % 10],
             KINDS[i % 7], seed=i) for i in range(14)]
for label, fill in (("default", None), ("seq", SEQ), ("rev", REV), ("odd", ODD)):
    case("many files fill=%s" % label, lambda: write_read(many, fill=fill))
case("many files filter", lambda: write_read(many, filenames=["F3", "F12", "NOPE"]))
case("no files", lambda: write_read([]))

# fragmentation: start from an image that already holds files, free some granules by hand
def fragmented():
    dsk = DiskFile(granule_fill_order=SEQ)
    dsk.add_files([make("P%d" % i, "BIN", 2000, "ml", seed=i) for i in range(20)])
    buf = dsk.get_buffer()
    for slot in (1, 4, 5, 9, 13):
        buf[DIR + 32 * slot] = 0x00
        buf[FAT + slot] = 0xFF
    return buf
case("fragmented seq", lambda: write_read([make("BIG", "BIN", 30000, "ml", seed=3), make("B2", "BAS", 5000, "basic", seed=4)], fill=SEQ, base=fragmented()))
case("fragmented default", lambda: write_read([make("BIG", "BIN", 30000, "ascii", seed=3), make("B2", "BIN", 2299, "ml", seed=4)], base=fragmented()))
case("fragmented rev", lambda: write_read([make("BIG", "BIN", 9000, "ml", seed=5)], fill=REV, base=fragmented()))

# capacity
case("disk exactly full", lambda: write_read([make("FULL", "BIN", 68 * G - 11, "ml")]))
case("disk one too many", lambda: write_read([make("FULL", "BIN", 68 * G - 10, "ml")]))
case("disk full ascii", lambda: write_read([make("FULL", "TXT", 68 * G - 1, "ascii")]))
case("disk overfull ascii", lambda: write_read([make("FULL", "TXT", 68 * G, "ascii")]))
case("69 tiny files", lambda: write_read([make("T%d" % i, "BIN", i, "ml", seed=i) for i in range(69)]))
case("68 tiny files", lambda: write_read([make("T%d" % i, "BAS", i, "basic", seed=i) for i in range(68)]))
def dir_full():
    dsk = DiskFile()
    buf = dsk.get_buffer()
    for slot in range(71):
        buf[DIR + 32 * slot] = 0x41
    return buf
case("directory full", lambda: write_read([make("X", "BIN", 5, "ml")], base=dir_full()))
case("short fill order", lambda: write_read([make("X", "BIN", 5, "ml")], fill=[1, 2, 3]))
case("bad fill order", lambda: write_read([make("X", "BIN", 5000, "ml")], fill=[99] + SEQ))
case("file without values", lambda: write_read([CoCoFile(name="NOVAL", extension="BIN")]))
case("ml without exec", lambda: write_read([CoCoFile(name="NOEXEC", extension="BIN", type=NumericValue(2), data_type=NumericValue(0), load_addr=NumericValue(3), data=[1, 2])]))
case("ml without load", lambda: write_read([CoCoFile(name="NOLOAD", extension="BIN", type=NumericValue(2), data_type=NumericValue(0), exec_addr=NumericValue(3), data=[1, 2])]))
case("odd data values", lambda: write_read([CoCoFile(name="ODD", extension="BIN", type=NumericValue(2), data_type=NumericValue(0), load_addr=NumericValue(3), exec_addr=NumericValue(4), data=[1, 300, 2])]))
case("data as bytes", lambda: write_read([CoCoFile(name="BYT", extension="BIN", type=NumericValue(2), data_type=NumericValue(0), load_addr=NumericValue(3), exec_addr=NumericValue(4), data=bytes(payload(3000, 1)))]))
case("small base buffer", lambda: write_read([make("X", "BIN", 5, "ml")], base=[0xFF] * 1000))
case("base just short", lambda: write_read([make("X", "BIN", 5, "ml")], base=[0xFF] * (DIR + 100)))

# hand made images for the reader
def blank():
    return [0xFF] * DiskConstants.IMAGE_SIZE
def put_dir(buf, slot, name, ext, ftype, flag, first, last_bytes):
    p = DIR + 32 * slot
    entry = list(name.ljust(8).encode()) + list(ext.ljust(3).encode()) + [ftype, flag, first, last_bytes >> 8, last_bytes & 0xFF] + [0] * 16
    buf[p:p + 32] = entry
def put_chain(buf, chain, last_sectors):
    for a, b in zip(chain, chain[1:]):
        buf[FAT + a] = b
    buf[FAT + chain[-1]] = 0xC0 + last_sectors
def put_stream(buf, chain, stream):
    for i, g in enumerate(chain):
        part = stream[i * G:(i + 1) * G]
        p = DiskFile.seek_granule(g)
        buf[p:p + len(part)] = part
def ml_stream(data, load=0x2000, exe=0x2010, declared=None):
    n = len(data) if declared is None else declared
    return [0, n >> 8, n & 0xFF, load >> 8, load & 0xFF] + list(data) + [0xFF, 0, 0, exe >> 8, exe & 0xFF]
def basic_stream(data, declared=None):
    n = len(data) if declared is None else declared
    return [0xFF, n >> 8, n & 0xFF] + list(data)
def listing(buf, filenames=None):
    return [show_file(f) for f in DiskFile(buffer=buf).list_files(filenames=filenames)]
def image(chain, stream, ftype=2, flag=0, slot=0, last_bytes=None, last_sectors=None, name="HAND", ext="BIN"):
    buf = blank()
    tail = len(stream) - (len(chain) - 1) * G
    put_dir(buf, slot, name, ext, ftype, flag, chain[0], tail % 256 if last_bytes is None else last_bytes)
    put_chain(buf, chain, tail // 256 + 1 if last_sectors is None else last_sectors)
    put_stream(buf, chain, stream)
    return buf

CHAINS = {"one": [5], "adjacent": [10, 11, 12], "backwards": [40, 20, 3], "across dir": [33, 34, 67, 0], "jumpy": [66, 1, 35, 32, 50], "scattered": [34, 2, 50, 20], "low": [33, 1, 34, 0]}
for label, chain in CHAINS.items():
    room = len(chain) * G
    for cut in (0, 1, 5, 6, 10, 11, 300):
        length = room - 10 - cut
        if length < 0 or (len(chain) > 1 and length + 10 <= (len(chain) - 1) * G):
            continue
        case("hand ml chain=%s len=%d" % (label, length), lambda: listing(image(chain, ml_stream(payload(length, 2)))))
    blen = room - 3 - 7
    case("hand basic chain=%s" % label, lambda: listing(image(chain, basic_stream(payload(blen, 3)), ftype=0, ext="BAS")))
    case("hand basic undeclared chain=%s" % label, lambda: listing(image(chain, basic_stream(payload(blen, 3), declared=0), ftype=0, ext="BAS")))
    case("hand ascii chain=%s" % label, lambda: listing(image(chain, payload(room - 77, 4), ftype=1, flag=0xFF, ext="TXT")))
    case("hand ml undeclared chain=%s" % label, lambda: listing(image(chain, ml_stream(payload(room - 40, 5), declared=0))))
case("hand ascii empty last sector", lambda: listing(image([7], [], ftype=1, flag=0xFF, last_bytes=0, last_sectors=0)))
case("hand ascii zero sectors some bytes", lambda: listing(image([7], [1, 2, 3], ftype=1, flag=0xFF, last_bytes=300, last_sectors=0)))
case("hand ascii full granule", lambda: listing(image([7], payload(G, 1), ftype=1, flag=0xFF, last_bytes=256, last_sectors=9)))
case("hand ascii two full granules", lambda: listing(image([7, 9], payload(2 * G, 1), ftype=1, flag=0xFF, last_bytes=256, last_sectors=9)))
case("hand bad ml flag", lambda: listing(image([7], [1] + ml_stream([1, 2, 3])[1:])))
case("hand bad basic flag", lambda: listing(image([7], [0, 0, 2, 5, 6], ftype=0)))
for i, bad in enumerate(([0xFE, 0, 0], [0xFF, 1, 0], [0xFF, 0, 2])):
    def bad_post():
        stream = ml_stream([1, 2, 3])
        stream[8:11] = bad
        return listing(image([7], stream))
    case("hand bad postamble %d" % i, bad_post)
case("hand chain into free granule", lambda: listing(image([7, 8], ml_stream(payload(3000, 1)))[:FAT + 7] + [0xFF] + image([7, 8], ml_stream(payload(3000, 1)))[FAT + 8:]))
case("hand declared too long", lambda: listing(image([67], ml_stream([1, 2, 3], declared=60000))))
case("hand declared past image", lambda: listing(image([67], ml_stream([1, 2, 3], declared=2400))))
case("hand first granule invalid", lambda: listing(image([7], ml_stream([1, 2]))[:DIR + 13] + [200] + image([7], ml_stream([1, 2]))[DIR + 14:]))
case("hand bad name bytes", lambda: listing(image([7], ml_stream([1, 2]))[:DIR] + [0xC3, 0x28] + image([7], ml_stream([1, 2]))[DIR + 2:]))
def two_files():
    buf = image([3, 60], ml_stream(payload(4000, 8)), slot=2, name="FIRST")
    put_dir(buf, 40, "SECOND", "BAS", 0, 0, 20, 13)
    put_chain(buf, [20], 1)
    put_stream(buf, [20], basic_stream(payload(10, 9)))
    put_dir(buf, 71, "LASTSLOT", "TXT", 1, 0xFF, 21, 50)
    put_chain(buf, [21], 2)
    put_stream(buf, [21], payload(306, 10))
    buf[DIR + 32 * 5] = 0x00
    return buf
case("hand three files", lambda: listing(two_files()))
case("hand three files filter", lambda: listing(two_files(), filenames=["SECOND"]))
case("hand as bytes", lambda: listing(bytes(two_files())))
case("hand as bytearray", lambda: listing(bytearray(two_files())))
case("hand longer image", lambda: listing(two_files() + [0] * 5000))
for size in (0, 1000, FAT, DIR, DiskConstants.IMAGE_SIZE - 1):
    case("hand short image %d" % size, lambda: listing(two_files()[:size]))
case("hand empty image", lambda: listing(blank()))
case("hand zero image", lambda: listing([0] * DiskConstants.IMAGE_SIZE))

# arithmetic helpers
class Amble(object):
    def __init__(self, length):
        self.length = length
for length in LENGTHS:
    data = [0] * length
    for pre, post in ((MLPreamble(), Postamble()), (BasicPreamble(), None), (ASCIIPreamble(), None), (Amble(7), Amble(0))):
        case("calc len=%d %s" % (length, type(pre).__name__), lambda: [
            DiskFile.calculate_granules_needed(data, pre, post),
            DiskFile.calculate_last_sector_bytes_used(data, pre, post),
            DiskFile.calculate_last_granules_sectors_used(data, pre, post)])
case("sectors needed", lambda: [DiskFile.calculate_sectors_needed(x) for x in (0, 1, 255, 256, 257, 2303, 2304, 2305)])
case("seek", lambda: [DiskFile.seek_granule(g) for g in range(-1, 80)])
def fat_of(entries):
    fat = [0xFF] * 256
    for k, v in entries.items():
        fat[k] = v
    return fat
case("file length one", lambda: DiskFile.calculate_file_length(3, fat_of({3: 0xC4}), 17))
case("file length chain", lambda: DiskFile.calculate_file_length(3, fat_of({3: 9, 9: 1, 1: 0xC9}), 256))
case("file length zero sectors", lambda: DiskFile.calculate_file_length(3, fat_of({3: 0xC0}), 0))
case("file length E0 entry", lambda: DiskFile.calculate_file_length(3, fat_of({3: 4, 4: 0xE3}), 5))
case("file length free", lambda: DiskFile.calculate_file_length(3, fat_of({3: 4}), 5))
case("file length short fat", lambda: DiskFile.calculate_file_length(3, [4, 4, 4, 70], 5))
case("file length bytes fat", lambda: DiskFile.calculate_file_length(0, bytes([1, 2, 0xC3]), 5))
case("file length bad fat", lambda: DiskFile.calculate_file_length(0, [None], 5))

# pieces of the writer
def fat_written(granules, sectors):
    dsk = DiskFile()
    try:
        dsk.write_to_fat(granules, sectors)
    except BaseException as exc:
        return [type(exc).__name__, str(exc), list(dsk.get_buffer()[FAT:FAT + 80])]
    return list(dsk.get_buffer()[FAT:FAT + 80])
case("fat empty", lambda: fat_written([], 3))
case("fat one", lambda: fat_written([5], 3))
case("fat two", lambda: fat_written([5, 2], 9))
case("fat many", lambda: fat_written([67, 0, 33, 34, 1], 1))
case("fat repeated", lambda: fat_written([5, 6, 5, 7], 1))
case("fat tuple", lambda: fat_written((5, 6, 7), 1))
case("fat bad", lambda: fat_written([5, "x", 7], 1))
case("fat none", lambda: fat_written(None, 1))

def granules_written(data, granules, pre, post, **kw):
    dsk = DiskFile()
    error = None
    try:
        dsk.write_to_granules(data, granules, pre, post, **kw)
    except BaseException as exc:
        error = [type(exc).__name__, str(exc)]
    return [error, digest(dsk.get_buffer())]
def ambles(n):
    pre, post = MLPreamble(), Postamble()
    pre.data_length, pre.load_addr, post.exec_addr = NumericValue(n), NumericValue(0x1234), NumericValue(0xABCD)
    return pre, post
for length in (0, 10, 2293, 2294, 2295, 2298, 2299, 2300, 2304, 4603, 4604, 5000):
    case("write_to_granules %d" % length, lambda: granules_written(payload(length, 1), [4, 40, 2], *ambles(length)))
    case("write_to_granules %d not first" % length, lambda: granules_written(payload(length, 1), [4, 40, 2], *ambles(length), first_granule=False))
case("write_to_granules too few", lambda: granules_written(payload(5000, 1), [4], *ambles(5000)))
case("write_to_granules none", lambda: granules_written(payload(50, 1), [], *ambles(50)))
case("write_to_granules None list", lambda: granules_written(payload(50, 1), None, *ambles(50)))
case("write_to_granules data None", lambda: granules_written(None, [3], *ambles(50)))
case("write_to_granules data None no granules", lambda: granules_written(None, [], *ambles(50)))
case("write_to_granules no ambles", lambda: granules_written(payload(3000, 1), [1, 2], None, None))

# preamble / postamble objects on small buffers
def amble_io(obj, buf, pointer, attrs):
    out = {}
    try:
        out["write"] = obj.write(buf, pointer)
    except BaseException as exc:
        out["write_exc"] = [type(exc).__name__, str(exc)]
    out["buf"] = list(buf)
    fresh = type(obj)()
    try:
        out["read"] = fresh.read(buf, pointer)
    except BaseException as exc:
        out["read_exc"] = [type(exc).__name__, str(exc)]
    out["attrs"] = [show_value(getattr(fresh, a)) for a in attrs]
    out["misc"] = [fresh.length, fresh.is_ml() if hasattr(fresh, "is_ml") else None]
    return out
def with_values(obj, **kw):
    for k, v in kw.items():
        setattr(obj, k, v)
    return obj
for size in (0, 2, 3, 4, 5, 6, 9):
    for pointer in (0, 1, 4):
        case("mlpre io size=%d p=%d" % (size, pointer), lambda: amble_io(with_values(MLPreamble(), data_length=NumericValue(0x1234), load_addr=NumericValue(0xFE)), [9] * size, pointer, ["data_length", "load_addr"]))
        case("basicpre io size=%d p=%d" % (size, pointer), lambda: amble_io(with_values(BasicPreamble(), data_length=NumericValue(0xFFFF)), [9] * size, pointer, ["data_length", "load_addr"]))
        case("asciipre io size=%d p=%d" % (size, pointer), lambda: amble_io(ASCIIPreamble(), [9] * size, pointer, ["data_length", "load_addr"]))
        case("post io size=%d p=%d" % (size, pointer), lambda: amble_io(with_values(Postamble(), exec_addr=NumericValue(0x100)), [9] * size, pointer, ["exec_addr"]))
case("mlpre unset", lambda: amble_io(MLPreamble(), [9] * 8, 1, ["data_length", "load_addr"]))
case("mlpre half set", lambda: amble_io(with_values(MLPreamble(), data_length=NumericValue(7)), [9] * 8, 1, ["data_length", "load_addr"]))
case("post unset", lambda: amble_io(Postamble(), [9] * 8, 1, ["exec_addr"]))
case("mlpre read big values", lambda: amble_io(with_values(MLPreamble(), data_length=NumericValue(7), load_addr=NumericValue(1)), [9] * 8, 1, ["data_length", "load_addr"]) and [show_value(x) for x in [MLPreamble().read([0, 300, 0, 0, 0], 0)]])
def read_only(obj, buf, pointer, attrs):
    try:
        ret = obj.read(buf, pointer)
    except BaseException as exc:
        ret = [type(exc).__name__, str(exc)]
    return [ret] + [show_value(getattr(obj, a)) for a in attrs]
case("mlpre read overflow", lambda: read_only(MLPreamble(), [0, 0, 1, 300, 0], 0, ["data_length", "load_addr"]))
case("mlpre read overflow first", lambda: read_only(MLPreamble(), [0, 300, 1, 0, 9], 0, ["data_length", "load_addr"]))
case("post read overflow", lambda: read_only(Postamble(), [0xFF, 0, 0, 300, 0], 0, ["exec_addr"]))
case("post read bytes", lambda: read_only(Postamble(), bytes([1, 0xFF, 0, 0, 0x12, 0x34, 7]), 1, ["exec_addr"]))
case("basic read bytes", lambda: read_only(BasicPreamble(), bytes([1, 0xFF, 0x12, 0x34, 7]), 1, ["data_length"]))
case("get_data_length", lambda: [with_values(MLPreamble(), data_length=NumericValue(99)).get_data_length()])

# read_data directly
def direct_read(buf, *args, **kw):
    data, pointer = DiskFile(buffer=buf).read_data(*args, **kw)
    return [digest(data), pointer]
rd = image([33, 34, 2], ml_stream(payload(6000, 6)))
for length in (0, 1, 2298, 2299, 2300, 4603, 4604, 6000, 6902, 6903, 7000):
    case("read_data ml %d" % length, lambda: direct_read(list(rd), 33, rd[FAT:FAT + 256], MLPreamble(), data_length=length))
    case("read_data nopre %d" % length, lambda: direct_read(list(rd), 33, rd[FAT:FAT + 256], None, data_length=length))
case("read_data default length", lambda: direct_read(list(rd), 33, rd[FAT:FAT + 256], BasicPreamble()))
case("read_data negative length", lambda: direct_read(list(rd), 33, rd[FAT:FAT + 256], BasicPreamble(), data_length=-256))
case("read_data end of image", lambda: direct_read(list(rd), 67, rd[FAT:FAT + 256], MLPreamble(), data_length=2304))
case("read_data end of image 2", lambda: direct_read(list(rd), 67, rd[FAT:FAT + 256], MLPreamble(), data_length=2300))
case("read_data end of image 3", lambda: direct_read(list(rd)[:DiskFile.seek_granule(67) + 2303], 67, rd[FAT:FAT + 256], MLPreamble(), data_length=2301))
case("read_data end of image 4", lambda: direct_read(list(rd)[:DiskFile.seek_granule(67) + 2303], 67, rd[FAT:FAT + 256], MLPreamble(), data_length=2299))
case("read_data short fat", lambda: direct_read(list(rd), 33, [1, 2], MLPreamble(), data_length=5000))

# other primitives
def prim(buf, method, *args, **kw):
    return getattr(DiskFile(buffer=buf), method)(*args, **kw)
case("read_sequence", lambda: prim([1, 2, 65, 66, 67], "read_sequence", 2, 3, decode=True))
case("read_sequence raw", lambda: prim([1, 2, 65, 66, 67], "read_sequence", 1, 3))
case("read_sequence long", lambda: prim([1, 2, 65, 66, 67], "read_sequence", 3, 3))
case("validate_sequence", lambda: [prim([1, 2, 3], "validate_sequence", 1, [2, 3]), prim([1, 2, 3], "validate_sequence", 1, [2, 4])])
case("validate_sequence short", lambda: prim([1, 2, 3], "validate_sequence", 2, [2, 3]))
case("dir in use", lambda: [prim(two_files(), "directory_entry_in_use", n) for n in (0, 2, 5, 40, 71)])
case("dir in use bad", lambda: prim(two_files(), "directory_entry_in_use", 72))
case("granule in use", lambda: [prim(two_files(), "granule_in_use", n) for n in (0, 3, 20, 60, 67)])
case("granule in use bad", lambda: prim(two_files(), "granule_in_use", 68))
case("find empty", lambda: [prim(two_files(), "find_empty_directory_entry"), prim(two_files(), "find_empty_granule")])
case("write_bytes", lambda: prim([0] * 5, "write_bytes_to_buffer", 1, [7, 8]))
case("write_bytes overflow", lambda: prim([0] * 5, "write_bytes_to_buffer", 4, [7, 8]))
def dir_entry(*args):
    dsk = DiskFile()
    dsk.write_dir_entry(*args)
    return list(dsk.get_buffer()[DIR:DIR + 96])
case("write_dir_entry", lambda: dir_entry(1, make("na\0me", "x", 3), 9, 0x1FF))
case("write_dir_entry big", lambda: dir_entry(2, make("averylongname", "extension", 3, "ascii"), 67, 256))

# allocation details
DUP = [5, 5, 6, 6, 7] + list(range(68))
case("fill order duplicates", lambda: write_read([make("D%d" % i, "BIN", 3000, "ml", seed=i) for i in range(4)], fill=DUP))
case("fill order invalid late", lambda: write_read([make("D%d" % i, "BIN", 3000, "ml", seed=i) for i in range(4)], fill=[1, 2, 3, 99] + list(range(68))))
case("fill order negative", lambda: write_read([make("D", "BIN", 3000, "ml")], fill=[1, -1] + list(range(68))))
case("fill order strings", lambda: write_read([make("D", "BIN", 3000, "ml")], fill=[1, "2"] + list(range(68))))
case("fill order tuple", lambda: write_read([make("D", "BIN", 7000, "basic")], fill=tuple(REV)))
case("fill order long", lambda: write_read([make("D", "BIN", 7000, "basic")], fill=REV + REV))
def history():
    dsk = DiskFile(granule_fill_order=ODD)
    steps = []
    for i, f in enumerate(many + many[:6]):
        try:
            dsk.add_file(f)
            steps.append(show_image(dsk.get_buffer()))
        except BaseException as exc:
            steps.append([type(exc).__name__, str(exc), show_image(dsk.get_buffer())])
    return steps
case("history step by step", history)
def nearly_full(free):
    dsk = DiskFile()
    buf = dsk.get_buffer()
    for g in range(68):
        if g not in free:
            buf[FAT + g] = 0xC1
    return buf
def find(buf, fill=None):
    dsk = DiskFile(buffer=buf, granule_fill_order=fill)
    out = []
    for _ in range(3):
        try:
            out.append(dsk.find_empty_granule())
        except BaseException as exc:
            out.append([type(exc).__name__, str(exc)])
    return out
case("find_empty_granule blank", lambda: find(None))
case("find_empty_granule two left", lambda: find(nearly_full([0, 67])))
case("find_empty_granule none left", lambda: find(nearly_full([])))
case("find_empty_granule short order", lambda: find(None, fill=[4, 5]))
case("find_empty_granule rev", lambda: find(nearly_full([10, 50]), fill=REV))
case("add to nearly full ok", lambda: write_read([make("N", "BIN", 4000, "ml")], base=nearly_full([0, 67])))
case("add to nearly full too big", lambda: write_read([make("N", "BIN", 5000, "ml")], base=nearly_full([0, 67])))
case("add to nearly full twice", lambda: write_read([make("N", "BIN", 100, "ml"), make("M", "BAS", 100, "basic"), make("O", "BAS", 1, "basic")], base=nearly_full([0, 67])))
def dir_slots(used):
    dsk = DiskFile()
    buf = dsk.get_buffer()
    for slot in used:
        buf[DIR + 32 * slot] = 0x41
    return buf
def find_dir(buf):
    return DiskFile(buffer=buf).find_empty_directory_entry()
case("find dir blank", lambda: find_dir(None))
case("find dir first used", lambda: find_dir(dir_slots([0, 1, 2])))
case("find dir only 70 free", lambda: find_dir(dir_slots(range(70))))
case("find dir only 71 free", lambda: find_dir(dir_slots(range(71))))
case("find dir zero marks", lambda: find_dir([0x41] * DIR + [0x41, 0] * 16 + [0x00] * 2000))
case("find dir short buffer", lambda: find_dir([0x41] * (DIR + 40)))
case("add when only slot 71 free", lambda: write_read([make("S", "BIN", 10, "ml")], base=dir_slots(range(71))))
case("add when slot 70 free", lambda: write_read([make("S", "BIN", 10, "ml"), make("T", "BIN", 10, "ml")], base=dir_slots(range(70))))
for length in (2290, 2293, 2294, 2296, 2298, 2299, 2300, 2301, 2304, 4598, 4603, 4604):
    case("granules no postamble %d" % length, lambda: granules_written(payload(length, 2), [9, 3, 60], BasicPreamble(), None))
    case("granules ascii %d" % length, lambda: granules_written(payload(length, 2), [9, 3, 60], ASCIIPreamble(), None))
    case("granules two only %d" % length, lambda: granules_written(payload(length, 2), (66, 67), *ambles(length)))
case("granules bytes data", lambda: granules_written(bytes(payload(5000, 2)), [9, 3, 60], *ambles(5000)))
case("granules bad granule", lambda: granules_written(payload(5000, 2), [9, "x", 60], *ambles(5000)))
case("granules last of image", lambda: granules_written(payload(2298, 2), [67], *ambles(2298)))
case("granules past image", lambda: granules_written(payload(2304, 2), [67, 68], *ambles(2304)))

# command line front end
def cli(argv, setup):
    work = tempfile.mkdtemp()
    try:
        for fname, content in setup.items():
            with open(os.path.join(work, fname), "wb") as handle:
                handle.write(bytes(bytearray(content)))
        proc = subprocess.run([sys.executable, os.path.join(tree, "file_util.py")] + argv, cwd=work,
                              stdout=subprocess.PIPE, stderr=subprocess.PIPE, universal_newlines=True,
                              env=dict(os.environ, PYTHONPATH=tree))
        produced = {}
        for fname in sorted(os.listdir(work)):
            with open(os.path.join(work, fname), "rb") as handle:
                produced[fname] = hashlib.sha256(handle.read()).hexdigest()
        err = proc.stderr.strip().splitlines()
        return {"rc": proc.returncode, "out": proc.stdout, "err": err[-1:] if err else [], "files": produced}
    finally:
        shutil.rmtree(work)
def written(files, fill=None):
    dsk = DiskFile(granule_fill_order=fill)
    dsk.add_files(files)
    return dsk.get_buffer()
case("cli list", lambda: cli(["in.dsk", "--list"], {"in.dsk": written(many)}))
case("cli list hand", lambda: cli(["in.dsk", "--list"], {"in.dsk": two_files()}))
case("cli list bad postamble", lambda: cli(["in.dsk", "--list"], {"in.dsk": image([7], ml_stream([1, 2, 3])[:8] + [0xFE, 0, 0, 0, 0])}))
case("cli list short", lambda: cli(["in.dsk", "--list"], {"in.dsk": two_files()[:90000]}))
case("cli to_dsk", lambda: cli(["in.dsk", "--to_dsk", "out.dsk"], {"in.dsk": written(many, REV)}))
case("cli to_dsk files", lambda: cli(["in.dsk", "--to_dsk", "out.dsk", "--files", "f3", "F11"], {"in.dsk": written(many)}))
case("cli to_dsk append", lambda: cli(["in.dsk", "--to_dsk", "out.dsk", "--append"], {"in.dsk": written(many[:5]), "out.dsk": two_files()}))
case("cli to_dsk exists", lambda: cli(["in.dsk", "--to_dsk", "out.dsk"], {"in.dsk": written(many[:5]), "out.dsk": two_files()}))
case("cli to_cas", lambda: cli(["in.dsk", "--to_cas", "out.cas"], {"in.dsk": two_files()}))
case("cli to_bin", lambda: cli(["in.dsk", "--to_bin", "out.bin"], {"in.dsk": written(many[:1])}))

json.dump(results, sys.stdout, sort_keys=True)
'''


def run(tree):
    tree = os.path.abspath(tree)
    with tempfile.NamedTemporaryFile("w", suffix=".py", delete=False) as handle:
        handle.write(DRIVER)
        script = handle.name
    try:
        env = dict(os.environ, PYTHONPATH=tree, PYTHONDONTWRITEBYTECODE="1")
        proc = subprocess.run([sys.executable, script], cwd=tree, env=env, stdout=subprocess.PIPE,
                              stderr=subprocess.PIPE, universal_newlines=True)
    finally:
        os.unlink(script)
    if proc.returncode != 0:
        print("driver failed in", tree)
        print(proc.stderr)
        sys.exit(1)
    return json.loads(proc.stdout)


def main():
    if len(sys.argv) != 3:
        print(__doc__)
        sys.exit(2)
    left, right = run(sys.argv[1]), run(sys.argv[2])
    bad = [name for name in sorted(set(left) | set(right)) if left.get(name) != right.get(name)]
    for name in bad:
        print("DIFFERENT:", name)
        print("   A:", json.dumps(left.get(name))[:600])
        print("   B:", json.dumps(right.get(name))[:600])
    errors = sum(1 for value in left.values() if "exc" in value)
    print("%d cases compared (%d of them error cases), %d differ" % (len(left), errors, len(bad)))
    sys.exit(1 if bad else 0)


if __name__ == "__main__":
    main()
