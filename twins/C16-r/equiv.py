#!/venv/bin/python
"""
Differential check for property C16 (file_util conversions carry every
selected file across unchanged).

usage:  equiv.py <treeA> <treeB>

The script re-invokes itself once per tree ("--drive <tree> <workdir>") so that
each tree's code is imported in its own interpreter, with the tree at the front
of sys.path.  Each driver run

  * builds the same set of cassette / disk fixtures (with the tree's own
    writers and with a small independent cassette builder for odd tapes),
  * runs the tree's file_util.py as a command-line tool on many argument
    combinations (listing, --to_cas, --to_dsk, --to_bin, --files in several
    cases, --append, existing targets, wrong-typed targets, missing sources,
    conversion chains) and records exit status, stdout, stderr and the sha256
    of every file present afterwards,
  * calls the anchored library functions directly (file_util.main,
    VirtualFile.*, CassetteFile.append_name / read_coco_file_name / list_files,
    DiskFile.write_dir_entry / list_files / add_file) on boundary and error
    inputs and records results, buffers, exception type and message.

The parent compares the two JSON records case by case; exit 0 if every case
agrees, 1 otherwise.
"""
import concurrent.futures
import contextlib
import hashlib
import io
import json
import os
import shutil
import subprocess
import sys
import tempfile

PYTHON = sys.executable


# --------------------------------------------------------------------------
# helpers shared by the driver
# --------------------------------------------------------------------------

def sha(data):
    return hashlib.sha256(bytes(bytearray(data))).hexdigest()


def snapshot(directory):
    """name -> (length, sha256) for every regular file under directory"""
    result = {}
    for root, _, names in os.walk(directory):
        for name in sorted(names):
            path = os.path.join(root, name)
            with open(path, "rb") as handle:
                data = handle.read()
            result[os.path.relpath(path, directory)] = [len(data), hashlib.sha256(data).hexdigest()]
    return result


def pattern(length, seed):
    return [(seed + index * 7 + (index >> 8)) & 0xFF for index in range(length)]


def raw_cassette(files, leader=128, eof=True):
    """
    Independent cassette writer. files: list of dicts with name (bytes, 8),
    type, data_type, gaps, load, exec, data (list of ints).
    """
    out = []
    for entry in files:
        out += [0x00] * leader + [0x55] * leader
        body = [0x00, 0x0F] + list(entry["name"]) + [entry["type"], entry["data_type"], entry["gaps"],
                                                     entry["load"] >> 8, entry["load"] & 0xFF,
                                                     entry["exec"] >> 8, entry["exec"] & 0xFF]
        out += [0x55, 0x3C] + body + [sum(body) & 0xFF, 0x55]
        out += [0x00] * leader + [0x55] * leader
        data = entry["data"]
        while data:
            chunk, data = data[:255], data[255:]
            body = [0x01, len(chunk)] + chunk
            out += [0x55, 0x3C] + body + [sum(body) & 0xFF, 0x55]
        if entry.get("eof", eof):
            out += [0x55, 0x3C, 0xFF, 0x00, 0xFF, 0x55]
    return out


# --------------------------------------------------------------------------
# driver (runs inside one tree)
# --------------------------------------------------------------------------

def drive(tree, workdir):
    tree = os.path.realpath(tree)
    sys.path.insert(0, tree)
    os.chdir(workdir)

    import cocoasm.virtualfiles.cassette as cassette_module
    import cocoasm.virtualfiles.disk as disk_module
    import cocoasm.virtualfiles.virtual_file as virtual_file_module
    import file_util as file_util_module
    from cocoasm.values import NumericValue, NoneValue
    from cocoasm.virtualfiles.coco_file import CoCoFile
    from cocoasm.virtualfiles.source_file import SourceFile, SourceFileType

    for module in (cassette_module, disk_module, virtual_file_module, file_util_module):
        assert os.path.realpath(module.__file__).startswith(tree + os.sep), module.__file__

    CassetteFile = cassette_module.CassetteFile
    DiskFile = disk_module.DiskFile
    VirtualFile = virtual_file_module.VirtualFile
    VirtualFileType = virtual_file_module.VirtualFileType

    results = []

    def record(case_id, value):
        results.append([case_id, value])

    def describe(coco_file):
        if coco_file is None:
            return None
        return {
            "name": coco_file.name, "extension": coco_file.extension,
            "type": coco_file.type.hex(), "data_type": coco_file.data_type.hex(),
            "gaps": coco_file.gaps.hex(), "load": coco_file.load_addr.hex(),
            "exec": coco_file.exec_addr.hex(), "ignore_gaps": coco_file.ignore_gaps,
            "len": len(coco_file.data), "data": sha(coco_file.data), "str": str(coco_file),
        }

    def attempt(function):
        """returns a JSON-able description of the outcome of function()"""
        out = io.StringIO()
        try:
            with contextlib.redirect_stdout(out):
                value = function()
            return {"ok": value, "stdout": out.getvalue()}
        except SystemExit as error:
            return {"exit": repr(error.code), "stdout": out.getvalue()}
        except BaseException as error:
            return {"raised": type(error).__name__, "message": str(error).replace(tree, "<TREE>").replace(workdir, "<WORK>"),
                    "stdout": out.getvalue()}

    def coco(name, extension, file_type, data_type, data, load=0x0E00, exec_addr=0x0E10, gaps=0x00):
        return CoCoFile(
            name=name, extension=extension, type=NumericValue(file_type), data_type=NumericValue(data_type),
            gaps=NumericValue(gaps), load_addr=NumericValue(load), exec_addr=NumericValue(exec_addr), data=data,
        )

    # ---------------- file sets ------------------------------------------
    file_sets = {
        "one": [coco("HELLO", "BIN", 2, 0, pattern(10, 1))],
        "three": [
            coco("ALPHA", "BIN", 2, 0, pattern(300, 2), load=0x1234, exec_addr=0x1240),
            coco("beta", "bas", 0, 0, pattern(20, 3)),
            coco("GAMMA678", "BAS", 0, 0xFF, [0x41 + (i % 26) for i in range(600)]),
        ],
        "sizes": [
            coco("B254", "BIN", 2, 0, pattern(254, 4)),
            coco("B255", "BIN", 2, 0, pattern(255, 5)),
            coco("B256", "BIN", 2, 0, pattern(256, 6)),
            coco("B510", "BIN", 2, 0, pattern(510, 7)),
            coco("G2293", "BIN", 2, 0, pattern(2293, 8)),
            coco("G2294", "BIN", 2, 0, pattern(2294, 9)),
            coco("G2295", "BIN", 2, 0, pattern(2295, 10)),
            coco("BIG", "BIN", 2, 0, pattern(2304 * 2 + 17, 11), load=0x2000, exec_addr=0x2003),
            coco("ONEBYTE", "BIN", 2, 0, [0xAA]),
        ],
        "names": [
            coco("A B", "BIN", 2, 0, pattern(12, 12)),
            coco("mixedCse", "BIN", 2, 0, pattern(13, 13)),
            coco("TOOLONGNAME", "BINARY", 2, 0, pattern(14, 14)),
            coco("X", "B", 2, 0, pattern(15, 15)),
            coco("NUL\0\0\0\0\0", "BI\0", 2, 0, pattern(16, 16)),
            coco("  LEAD", "BIN", 2, 0, pattern(17, 17)),
            coco("DATAFILE", "DAT", 1, 0xFF, pattern(18, 18)),
        ],
        "dups": [
            coco("SAME", "BIN", 2, 0, pattern(30, 19)),
            coco("SAME", "BIN", 2, 0, pattern(31, 20)),
            coco("same", "BIN", 2, 0, pattern(32, 21)),
        ],
    }

    fixtures = os.path.join(workdir, "fixtures")
    os.mkdir(fixtures)

    def write(name, data):
        with open(os.path.join(fixtures, name), "wb") as handle:
            handle.write(bytearray(data))

    for set_name, files in file_sets.items():
        outcome = attempt(lambda: (lambda c: (c.add_files(files), sha(c.get_buffer()), write(set_name + ".cas", c.get_buffer()))[1])(CassetteFile()))
        record("fixture-cas-" + set_name, outcome)
        outcome = attempt(lambda: (lambda d: (d.add_files(files), sha(d.get_buffer()), write(set_name + ".dsk", d.get_buffer()))[1])(DiskFile()))
        record("fixture-dsk-" + set_name, outcome)

    def raw_entry(name, file_type=2, data_type=0, gaps=0, load=0x3000, exec_addr=0x3001, data=None, **extra):
        entry = {"name": name, "type": file_type, "data_type": data_type, "gaps": gaps, "load": load,
                 "exec": exec_addr, "data": data if data is not None else pattern(40, len(name))}
        entry.update(extra)
        return entry

    write("rawnul.cas", raw_cassette([
        raw_entry(b"NULPAD\0\0"), raw_entry(b"lower   ", file_type=0, gaps=0xFF), raw_entry(b"FULLNAME", file_type=1, data_type=0xFF),
    ]))
    write("rawshort.cas", raw_cassette([raw_entry(b"SHORTLDR")], leader=4))
    write("rawnodata.cas", raw_cassette([raw_entry(b"FIRST   "), raw_entry(b"EMPTY   ", data=[]), raw_entry(b"AFTER   ")]))
    write("rawnoeof.cas", raw_cassette([raw_entry(b"OK      "), raw_entry(b"NOEOF   ", eof=False)]))
    write("rawutf.cas", raw_cassette([raw_entry(b"BAD\xff\xfe   ")]))
    write("rawtrunc.cas", raw_cassette([raw_entry(b"TRUNCATE")])[:128 + 128 + 9])
    write("rawhdronly.cas", [0x55, 0x3C, 0x00, 0x0F, 0x41, 0x42])
    write("empty.cas", [])
    write("junk.bin", pattern(500, 99))
    write("blank.dsk", [0xFF] * 161280)
    write("zeros.dsk", [0x00] * 161280)
    write("shortimage.dsk", [0xFF] * 161279)

    # disk images with hand-patched directory entries
    with open(os.path.join(fixtures, "three.dsk"), "rb") as handle:
        three = list(handle.read())
    patched = list(three)
    patched[78848:78848 + 8] = list(b"al pha  ")
    patched[78848 + 32 + 8:78848 + 32 + 11] = list(b"b s")
    write("patched.dsk", patched)
    patched = list(three)
    patched[78848 + 3] = 0xC3
    write("badutf.dsk", patched)
    patched = list(three)
    patched[78848 + 32] = 0x00
    write("deleted.dsk", patched)
    record("fixtures", snapshot(fixtures))

    # ---------------- command line cases ---------------------------------
    case_counter = [0]

    cli_jobs = []

    def cli(case_id, setup, *commands):
        case_counter[0] += 1
        cli_jobs.append((case_id, os.path.join(workdir, "case%03d" % case_counter[0]), setup, commands))

    def run_cli_job(job):
        case_id, case_dir, setup, commands = job
        os.mkdir(case_dir)
        for source, target in setup:
            shutil.copyfile(os.path.join(fixtures, source), os.path.join(case_dir, target))
        steps = []
        for command in commands:
            process = subprocess.run(
                [PYTHON, os.path.join(tree, "file_util.py")] + list(command), cwd=case_dir,
                stdout=subprocess.PIPE, stderr=subprocess.PIPE, universal_newlines=True,
            )
            steps.append({
                "args": list(command), "rc": process.returncode,
                "stdout": process.stdout.replace(tree, "<TREE>"),
                "stderr": process.stderr.replace(tree, "<TREE>"),
                "files": snapshot(case_dir),
            })
        shutil.rmtree(case_dir, ignore_errors=True)
        return "cli-" + case_id, steps

    sources = []
    for set_name in file_sets:
        sources.append(set_name + ".cas")
        sources.append(set_name + ".dsk")
    sources += ["rawnul.cas", "rawshort.cas", "rawnodata.cas", "rawnoeof.cas", "rawutf.cas", "rawtrunc.cas",
                "rawhdronly.cas", "empty.cas", "junk.bin", "blank.dsk", "zeros.dsk", "shortimage.dsk",
                "patched.dsk", "badutf.dsk", "deleted.dsk"]

    for source in sources:
        cli("list-" + source, [(source, source)], [source, "--list"])
        cli("all-targets-" + source, [(source, source)],
            [source, "--to_cas", "o.cas"], [source, "--to_dsk", "o.dsk"], [source, "--to_bin", "o.bin"],
            ["o.cas", "--list"], ["o.dsk", "--list"])
        cli("chain-" + source, [(source, source)],
            [source, "--to_cas", "a.cas"], ["a.cas", "--to_dsk", "b.dsk"], ["b.dsk", "--to_cas", "c.cas"],
            ["c.cas", "--to_dsk", "d.dsk"], ["d.dsk", "--list"], ["c.cas", "--list"])

    selections = [
        ["alpha"], ["ALPHA"], ["Alpha", "gamma678"], ["BETA"], ["beta", "BETA", "beta"], ["nomatch"],
        ["GAMMA678", "ALPHA", "BETA"], ["alpha "], [" ALPHA"], ["ALPH"], ["ALPHA.BIN"], [""],
    ]
    for index, selection in enumerate(selections):
        for source in ("three.cas", "three.dsk"):
            cli("select-%d-%s" % (index, source), [(source, source)],
                [source, "--to_cas", "o.cas", "--files"] + selection,
                [source, "--to_dsk", "o.dsk", "--files"] + selection,
                [source, "--to_bin", "o.bin", "--files"] + selection,
                ["o.cas", "--list"], ["o.dsk", "--list"])
    for index, selection in enumerate([["a b"], ["MIXEDCSE", "x"], ["nul"], ["lead"], ["  LEAD"], ["toolongn"],
                                       ["TOOLONGNAME"], ["datafile", "A B"]]):
        for source in ("names.cas", "names.dsk"):
            cli("select-names-%d-%s" % (index, source), [(source, source)],
                [source, "--to_cas", "o.cas", "--files"] + selection,
                [source, "--to_dsk", "o.dsk", "--files"] + selection,
                ["o.cas", "--to_dsk", "p.dsk"], ["o.dsk", "--to_cas", "p.cas"],
                ["p.cas", "--list"], ["p.dsk", "--list"])
    for index, selection in enumerate([["same"], ["SAME"], ["hello"], ["HELLO", "x"], ["nul"], ["al pha"], ["alpha"], ["lower"]]):
        for source in ("dups.cas", "dups.dsk", "one.cas", "one.dsk", "rawnul.cas", "patched.dsk"):
            cli("select-misc-%d-%s" % (index, source), [(source, source)],
                [source, "--to_bin", "o.bin", "--files"] + selection,
                [source, "--to_dsk", "o.dsk", "--to_cas", "o.cas", "--files"] + selection,
                ["o.cas", "--list"], ["o.dsk", "--list"])

    # existing targets, --append, wrong kinds, several targets at once
    for source in ("three.cas", "three.dsk", "one.cas", "one.dsk"):
        for existing in ("one.cas", "one.dsk", "junk.bin", "empty.cas", "blank.dsk", "rawnoeof.cas"):
            for flag, option in (("cas", "--to_cas"), ("dsk", "--to_dsk"), ("bin", "--to_bin")):
                cli("existing-%s-%s-%s" % (source, existing, flag), [(source, "src.img"), (existing, "target.img")],
                    ["src.img", option, "target.img"],
                    ["src.img", option, "target.img", "--append"],
                    ["src.img", option, "target.img", "--append", "--files", "alpha", "hello"],
                    ["target.img", "--list"])
    cli("multi-target", [("three.dsk", "s.dsk")],
        ["s.dsk", "--to_cas", "o.cas", "--to_dsk", "o.dsk", "--to_bin", "o.bin"],
        ["s.dsk", "--to_bin", "o.bin", "--to_cas", "o2.cas", "--files", "beta"])
    cli("multi-target-one", [("one.cas", "s.cas")],
        ["s.cas", "--to_cas", "o.cas", "--to_dsk", "o.dsk", "--to_bin", "o.bin"],
        ["s.cas", "--to_cas", "o.cas", "--to_dsk", "o.dsk", "--to_bin", "o.bin"],
        ["s.cas", "--append", "--to_cas", "o.cas", "--to_dsk", "o.dsk", "--to_bin", "o.bin"],
        ["o.cas", "--list"], ["o.dsk", "--list"], ["o.bin", "--list"])
    cli("list-wins", [("three.cas", "s.cas")], ["s.cas", "--list", "--to_cas", "o.cas", "--to_bin", "o.bin"])
    cli("missing-source", [], ["nothere.cas", "--list"], ["nothere.cas", "--to_cas", "o.cas"],
        ["nothere.cas", "--to_dsk", "o.dsk"], ["nothere.cas", "--to_bin", "o.bin"], ["nothere.cas"])
    cli("same-file", [("three.cas", "s.cas")], ["s.cas", "--to_cas", "s.cas"], ["s.cas", "--to_cas", "s.cas", "--append"],
        ["s.cas", "--list"])
    cli("unwritable", [("one.cas", "s.cas")], ["s.cas", "--to_cas", "nodir/o.cas"], ["s.cas", "--to_dsk", "nodir/o.dsk"],
        ["s.cas", "--to_bin", "nodir/o.bin"])
    cli("source-is-dir", [], [".", "--list"], [".", "--to_cas", "o.cas"])
    cli("usage", [], [], ["--list"], ["x.cas", "--files"], ["x.cas", "--to_cas"], ["x.cas", "--bogus"], ["-h"])
    # disk filling up: append until no granules / directory entries are left
    cli("disk-full", [("sizes.dsk", "s.dsk"), ("sizes.cas", "s.cas")],
        *([["s.cas", "--to_dsk", "full.dsk", "--append"]] * 9 + [["full.dsk", "--list"], ["full.dsk", "--to_cas", "back.cas"]]))

    with concurrent.futures.ThreadPoolExecutor(max_workers=4) as pool:
        for case_id, steps in pool.map(run_cli_job, cli_jobs):
            record(case_id, steps)

    # ---------------- file_util.main in process ---------------------------
    import argparse

    def namespace(host, **options):
        values = {"host_filename": host, "append": False, "list": False, "to_bin": None, "to_cas": None,
                  "to_dsk": None, "files": None}
        values.update(options)
        return argparse.Namespace(**values)

    inproc_dir = os.path.join(workdir, "inproc")
    os.mkdir(inproc_dir)
    for name in os.listdir(fixtures):
        shutil.copyfile(os.path.join(fixtures, name), os.path.join(inproc_dir, name))
    os.chdir(inproc_dir)
    main_cases = [
        namespace("three.cas", list=True),
        namespace("three.cas", to_cas="m1.cas", files=[]),
        namespace("three.cas", to_cas="m2.cas", files=["alpha"]),
        namespace("three.cas", to_dsk="m3.dsk", files=("beta", "GAMMA678")),
        namespace("three.dsk", to_bin="m4.bin"),
        namespace("one.dsk", to_bin="m5.bin", files=["nope"]),
        namespace("one.dsk", to_bin="m6.bin", files=["hello"]),
        namespace("empty.cas", to_bin="m7.bin"),
        namespace("three.dsk", to_cas="", to_dsk="", to_bin=""),
        namespace("three.dsk", to_cas="m8.cas", files=[1, 2]),
        namespace("three.dsk", to_cas="m9.cas", append=True),
        namespace("three.dsk", to_cas="m9.cas", append=True),
        namespace("three.dsk", to_cas="m9.cas", append=False),
        namespace(None, list=True),
        namespace("three.dsk", to_dsk="one.cas"),
        namespace("three.dsk", to_cas="one.dsk", append=True),
    ]
    for index, arguments in enumerate(main_cases):
        record("main-%d" % index, [attempt(lambda: file_util_module.main(arguments)), snapshot(inproc_dir)])
    os.chdir(workdir)

    # ---------------- VirtualFile ----------------------------------------
    def virtual(path, kind=None):
        return VirtualFile(SourceFile(path, file_type=SourceFileType.BINARY), virtual_file_type=kind)

    vf_dir = os.path.join(workdir, "vf")
    os.mkdir(vf_dir)
    os.chdir(vf_dir)
    for kind in (None, VirtualFileType.CASSETTE, VirtualFileType.BINARY, VirtualFileType.DISK, VirtualFileType.UNKNOWN):
        kind_name = kind.name if kind else "None"
        for set_name in ("one", "three", "names", "dups"):
            for append in (False, True):
                def run():
                    target = virtual("%s-%s.out" % (kind_name, set_name), kind)
                    target.open_virtual_file()
                    before = len(target.list_files())
                    for coco_file in file_sets[set_name]:
                        target.add_coco_file(coco_file)
                    listing = [describe(x) for x in target.list_files()]
                    selected = [describe(x) for x in target.list_files(filenames=["ALPHA", "SAME", "A B", "nomatch"])]
                    empty_filter = [describe(x) for x in target.list_files(filenames=[])]
                    identity = target.list_files() is target.coco_file_list
                    saved = target.save_virtual_file(append_mode=append)
                    return [before, listing, selected, empty_filter, identity, saved, target.file_exists,
                            str(target.virtual_file_type)]
                record("vf-%s-%s-%s" % (kind_name, set_name, append), [attempt(run), snapshot(vf_dir)])
    for source in sorted(os.listdir(fixtures)):
        for kind in (None, VirtualFileType.CASSETTE, VirtualFileType.BINARY, VirtualFileType.DISK):
            def run():
                opened = virtual(os.path.join(fixtures, source), kind)
                opened.open_virtual_file()
                return [[describe(x) for x in opened.list_files()], str(opened.virtual_file_type), opened.file_exists]
            record("vf-open-%s-%s" % (source, kind.name if kind else "None"), attempt(run))
    os.chdir(workdir)

    # ---------------- CassetteFile name handling --------------------------
    names = ["", "A", "AB", "ABCDEFG", "ABCDEFGH", "ABCDEFGHI", "abc def", " pad ", "x\0y", "\0\0\0\0\0\0\0\0",
             "\xff", "Āname", "TESTFILETESTFILE", "tab\tnl\n", None, 123]
    for name in names:
        def run():
            cassette = CassetteFile()
            cassette.buffer = [0x01, 0x02]
            checksum = cassette.append_name(name)
            return [checksum, list(cassette.get_buffer())]
        record("append-name-%r" % (name,), attempt(run))

        def run():
            cassette = CassetteFile()
            cassette.append_header(coco(name, "BIN", 2, 0, [1, 2, 3], load=0xABCD, exec_addr=0x00FF))
            return list(cassette.get_buffer())
        record("append-header-%r" % (name,), attempt(run))

        def run():
            cassette = CassetteFile()
            cassette.add_file(coco(name, "BIN", 2, 0, pattern(300, 5)))
            cassette.add_file(coco("SECOND", "BAS", 0, 0xFF, pattern(3, 6)))
            reread = CassetteFile(buffer=list(cassette.get_buffer()))
            return [sha(cassette.get_buffer()), [describe(x) for x in reread.list_files()]]
        record("cassette-roundtrip-%r" % (name,), attempt(run))

    name_buffers = {
        "exact": list(b"TESTFILE"), "longer": list(b"..TESTFILE.."), "seven": list(b"SEVENCH"), "empty": [],
        "spaces": list(b"        "), "nuls": [0] * 8, "highbit": [0x41, 0xC3, 0xA9, 0x42, 0x20, 0x20, 0x20, 0x20],
        "badutf": [0x41, 0xFF, 0x42, 0x20, 0x20, 0x20, 0x20, 0x20], "splitutf": [0x41] * 7 + [0xC3, 0xA9],
        "bytes": b"BYTESBUF!!", "big": [0x141] + [0x41] * 7,
    }
    for label, buffer in name_buffers.items():
        for pointer in (0, 1, 2, 4, 9, -1):
            def run():
                cassette = CassetteFile(buffer=buffer)
                return list(cassette.read_coco_file_name(pointer))
            record("read-name-%s-%d" % (label, pointer), attempt(run))

    for source in sorted(os.listdir(fixtures)):
        with open(os.path.join(fixtures, source), "rb") as handle:
            data = list(handle.read())
        if len(data) > 100000 and not source.endswith(".dsk"):
            continue
        if source.endswith(".dsk"):
            for filenames in (None, ["ALPHA"], ["beta", "BETA"]):
                record("disk-list-%s-%r" % (source, filenames),
                       attempt(lambda: [describe(x) for x in DiskFile(buffer=list(data)).list_files(filenames=filenames)]))
        else:
            for filenames in (None, [], ["ALPHA   "], ["ALPHA"], ["lower   ", "FULLNAME"]):
                record("cassette-list-%s-%r" % (source, filenames),
                       attempt(lambda: [describe(x) for x in CassetteFile(buffer=list(data)).list_files(filenames=filenames)]))

    # ---------------- DiskFile directory entries --------------------------
    extensions = ["BIN", "bas", "", "B", "TOOLONG", "a\0c", "\xdf\xdf\xdf"]
    for name in names + ["stra\xdfe", "\xdf\xdf\xdf\xdf\xdf\xdf\xdf\xdf", "ﬁle", "na me", "lower"]:
        for index, extension in enumerate(extensions):
            if index > 1 and name not in ("", "ABCDEFGHI", "x\0y", "lower", "stra\xdfe"):
                continue

            def run():
                disk = DiskFile()
                disk.buffer[78848 + 64:78848 + 96] = list(range(32))
                disk.write_dir_entry(2, coco(name, extension, 2, 0xFF, [1]), 0x21, 0x100)
                return [sha(disk.get_buffer()), list(disk.get_buffer()[78848 + 32:78848 + 140])]
            record("dir-entry-%r-%r" % (name, extension), attempt(run))

            def run():
                disk = DiskFile()
                disk.add_file(coco(name, extension, 2, 0, pattern(2400, 3), load=0x0102, exec_addr=0x0304))
                disk.add_file(coco("other", "bas", 0, 0, pattern(5, 4)))
                reread = DiskFile(buffer=list(disk.get_buffer()))
                return [sha(disk.get_buffer()), [describe(x) for x in reread.list_files()]]
            record("disk-roundtrip-%r-%r" % (name, extension), attempt(run))

    for entry_number, granule, last in ((0, 0, 0), (71, 67, 256), (72, 1, 1), (5040, 1, 1), (-1, 3, 5), (3, 300, 7),
                                        (3, 1, 70000), (3, 1, -1), (3, None, 2), (3, 1, "$1F")):
        def run():
            disk = DiskFile()
            disk.write_dir_entry(entry_number, coco("entry", "dat", 1, 0xFF, []), granule, last)
            return [sha([x if isinstance(x, int) and 0 <= x < 256 else 0xEE for x in disk.get_buffer()]), len(disk.get_buffer())]
        record("dir-entry-args-%r-%r-%r" % (entry_number, granule, last), attempt(run))

    for file_type, data_type in ((NoneValue(), NoneValue()), (NumericValue(0x03), NumericValue(0x00))):
        def run():
            disk = DiskFile(buffer=[0x11] * 40)
            disk_module.DiskConstants.DIR_OFFSET, saved = 0, disk_module.DiskConstants.DIR_OFFSET
            try:
                disk.write_dir_entry(0, CoCoFile(name="short", extension="x", type=file_type, data_type=data_type), 9, 8)
            finally:
                disk_module.DiskConstants.DIR_OFFSET = saved
            return list(disk.get_buffer())
        record("dir-entry-small-%s" % file_type.hex(), attempt(run))

    def run():
        disk = DiskFile(buffer=[0x11] * 20)
        disk_module.DiskConstants.DIR_OFFSET, saved = 0, disk_module.DiskConstants.DIR_OFFSET
        try:
            disk.write_dir_entry(0, coco("overflow", "bin", 2, 0, []), 9, 8)
        except Exception as error:
            return [type(error).__name__, str(error), list(disk.get_buffer())]
        finally:
            disk_module.DiskConstants.DIR_OFFSET = saved
        return list(disk.get_buffer())
    record("dir-entry-overflow", attempt(run))

    # 72 files: the directory fills up
    def run():
        disk = DiskFile()
        outcomes = []
        for number in range(74):
            try:
                disk.add_file(coco("F%d" % number, "bin", 2, 0, [number]))
                outcomes.append("ok")
            except Exception as error:
                outcomes.append([type(error).__name__, str(error)])
        reread = DiskFile(buffer=list(disk.get_buffer()))
        return [outcomes, sha(disk.get_buffer()), [x.name for x in reread.list_files()]]
    record("disk-many-files", attempt(run))

    json.dump(results, sys.stdout)


# --------------------------------------------------------------------------
# parent
# --------------------------------------------------------------------------

def main():
    if len(sys.argv) == 4 and sys.argv[1] == "--drive":
        drive(sys.argv[2], sys.argv[3])
        return 0
    if len(sys.argv) != 3:
        print(__doc__)
        return 2

    records = []
    base = tempfile.mkdtemp(prefix="c16-equiv-")
    try:
        processes = []
        for label, tree in zip("AB", sys.argv[1:3]):
            workdir = os.path.join(base, label, "work")
            os.makedirs(workdir)
            environment = dict(os.environ, PYTHONDONTWRITEBYTECODE="1", PYTHONHASHSEED="0")
            processes.append((tree, subprocess.Popen(
                [PYTHON, os.path.abspath(__file__), "--drive", os.path.abspath(tree), workdir], cwd=workdir, env=environment,
                stdout=subprocess.PIPE, stderr=subprocess.PIPE, universal_newlines=True,
            )))
        for tree, process in processes:
            stdout, stderr = process.communicate()
            if process.returncode != 0:
                print("driver failed for tree %s\n%s" % (tree, stderr))
                return 1
            records.append(json.loads(stdout))
    finally:
        shutil.rmtree(base, ignore_errors=True)

    first, second = records
    differences = 0
    if [case for case, _ in first] != [case for case, _ in second]:
        print("case lists differ")
        differences += 1
    for (case, left), (_, right) in zip(first, second):
        if left != right:
            differences += 1
            print("DIFFERENT: %s\n  A: %s\n  B: %s" % (case, json.dumps(left)[:1500], json.dumps(right)[:1500]))
    print("%d cases compared, %d differences" % (len(first), differences))
    return 1 if differences else 0


if __name__ == "__main__":
    sys.exit(main())
