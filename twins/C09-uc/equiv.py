"""
Differential demonstration: runs the same battery of cases against two source
trees (one subprocess per tree, tree at the front of sys.path, cwd = a fresh
scratch directory) and compares every observable result.

usage: equiv.py <treeA> <treeB>        exit 0 = all agree, 1 = differences
"""
import sys
import os
import json
import hashlib
import subprocess
import tempfile
import shutil

PY = sys.executable

ASM_SRC = "        NAM HELLO\n        ORG $0E00\nSTART   LDA #$01\n        LDB #$02\nLOOP    STA $0400\n        BRA LOOP\n        END START\n"
ASM_NONAME = "        ORG $1000\n        LDA #$55\n        RTS\n"


def sha(seq):
    return hashlib.sha256(bytes(bytearray(seq))).hexdigest()


def dump_value(v):
    out = [type(v).__name__]
    for attr in ("int",):
        try:
            out.append(getattr(v, attr))
        except Exception as e:  # pragma: no cover
            out.append("ERR " + type(e).__name__)
    try:
        out.append(v.hex())
    except Exception as e:
        out.append("ERR " + type(e).__name__)
    return out


def dump_file(f):
    if f is None:
        return None
    return {
        "name": f.name, "ext": f.extension, "type": dump_value(f.type),
        "load": dump_value(f.load_addr), "exec": dump_value(f.exec_addr),
        "dtype": dump_value(f.data_type), "gaps": dump_value(f.gaps),
        "ascii": f.ascii, "len": len(f.data), "data": sha(f.data),
        "ig": f.ignore_gaps, "str": str(f),
    }


def pattern(n, kind):
    if kind == 0:
        return [(i * 7 + 3) & 0xFF for i in range(n)]
    if kind == 1:
        return [[0x55, 0x3C, 0x00, 0x55, 0x3C, 0x01, 0x55, 0x3C, 0xFF][i % 9] for i in range(n)]
    if kind == 2:
        return [0xFF] * n
    return [0x00] * n


def drive(tree):
    sys.path.insert(0, tree)
    from cocoasm.virtualfiles.coco_file import CoCoFile
    from cocoasm.virtualfiles.cassette import CassetteFile
    from cocoasm.virtualfiles.disk import (DiskFile, DiskConstants, MLPreamble, BasicPreamble,
                                           ASCIIPreamble, Postamble)
    from cocoasm.virtualfiles.binary import BinaryFile
    from cocoasm.virtualfiles.virtual_file_container import VirtualFileContainer
    from cocoasm.virtualfiles.virtual_file import VirtualFile, VirtualFileType
    from cocoasm.virtualfiles.source_file import SourceFile, SourceFileType
    from cocoasm.values import NumericValue, NoneValue

    results = []

    def case(label, fn):
        try:
            res = fn()
        except SystemExit as e:
            res = ["SystemExit", str(e.code)]
        except BaseException as e:
            res = ["EXC", type(e).__name__, str(e)]
        results.append([label, res])

    def mk(name, n, kind=0, ftype=2, dtype=0, load=0x0E00, exe=0x0E10, ext="BIN"):
        return CoCoFile(name=name, extension=ext, type=NumericValue(ftype), data_type=NumericValue(dtype),
                        load_addr=NumericValue(load), exec_addr=NumericValue(exe), data=pattern(n, kind))

    # ---------------------------------------------------------------- cassette
    names = ["", "A", "AB", "HELLO", "EIGHTCHR", "NINECHARS", "TWELVECHARS1", "a.b", "lower", "X1", "~!@#", "Z"]
    lengths = [0, 1, 2, 254, 255, 256, 509, 510, 511, 765, 766, 1020, 1275, 3000, 65535]

    def cas_round(files, filenames=None):
        c = CassetteFile()
        c.add_files(files)
        buf = c.get_buffer()
        r = CassetteFile(buffer=list(buf))
        listed = r.list_files(filenames=filenames) if filenames is not None else r.list_files()
        return [len(buf), sha(buf), [dump_file(f) for f in listed], sha(r.original_buffer)]

    for i, n in enumerate(lengths):
        for kind in (0, 1):
            nm = names[(i + kind) % len(names)]
            case("cas-single-%d-%d" % (n, kind),
                 lambda n=n, kind=kind, nm=nm, i=i: cas_round(
                     [mk(nm, n, kind, ftype=i % 4, dtype=(0xFF if i % 3 == 0 else 0),
                         load=(i * 4099) & 0xFFFF, exe=(0xFFFF - i * 257) & 0xFFFF)]))
    case("cas-multi", lambda: cas_round([mk(names[i], lengths[i], i % 4, ftype=i % 4) for i in range(1, 10)]))
    case("cas-multi-with-empty", lambda: cas_round([mk("ONE", 10), mk("EMPTY", 0), mk("TWO", 300)]))
    case("cas-filter", lambda: cas_round([mk("ONE", 10), mk("TWO", 300), mk("THREE", 5)], ["TWO     ", "THREE   "]))
    case("cas-filter-none", lambda: cas_round([mk("ONE", 10), mk("TWO", 300)], ["NOPE"]))
    case("cas-filter-empty", lambda: cas_round([mk("ONE", 10), mk("TWO", 300)], []))
    case("cas-none-files", lambda: cas_round([]))
    case("cas-unicode-name", lambda: cas_round([mk("éX", 3)]))
    case("cas-big-ord-name", lambda: cas_round([mk("ĀX", 3)]))
    case("cas-nonevalue-type", lambda: cas_round([CoCoFile(name="N", data=[1, 2, 3])]))
    case("cas-bytes-data", lambda: cas_round([CoCoFile(name="B", type=NumericValue(2), data_type=NumericValue(0),
                                                       load_addr=NumericValue(1), exec_addr=NumericValue(2),
                                                       data=bytes(range(256)) * 2)]))

    def cas_gaps(n):
        c = CassetteFile()
        c.append_data_blocks(pattern(n, 1), gaps=True)
        return [len(c.buffer), sha(c.buffer)]
    for n in (0, 1, 254, 255, 256, 510, 511, 800):
        case("cas-gaps-%d" % n, lambda n=n: cas_gaps(n))

    def cas_prims():
        c = CassetteFile()
        out = []
        out.append(c.append_name("ABC"))
        out.append(c.append_name("ABCDEFGHIJK"))
        out.append(c.append_name(""))
        c.append_eof()
        c.append_leader()
        c.append_blank()
        out.append(c.append_header(mk("HDR", 0, load=0x1234, exe=0xFEDC, ftype=1, dtype=0xFF)))
        out.append(list(c.get_buffer()))
        return out
    case("cas-prims", cas_prims)

    def tape(leader1, leader2, blocks, name=b"TAPEFILE", ftype=2, dtype=0, gapflag=0, load=0x2000, exe=0x2001,
             eof=True, tail=0):
        b = [0x55] * leader1 + [0x55, 0x3C, 0x00, 0x0F] + list(name) + [ftype, dtype, gapflag, load >> 8, load & 255,
                                                                    exe >> 8, exe & 255, 0x00, 0x55]
        for blk in blocks:
            b += [0x55] * leader2 + [0x55, 0x3C, 0x01, len(blk)] + list(blk) + [sum(blk) & 255, 0x55]
        if eof:
            b += [0x55] * leader2 + [0x55, 0x3C, 0xFF, 0x00, 0xFF, 0x55]
        b += [0x00] * tail
        return b

    def cas_list(buf, filenames=None):
        c = CassetteFile(buffer=buf)
        return [dump_file(f) for f in c.list_files(filenames)]

    for l1 in (0, 1, 128, 300):
        for l2 in (0, 1, 5, 128):
            case("tape-%d-%d" % (l1, l2), lambda l1=l1, l2=l2: cas_list(
                tape(l1, l2, [pattern(255, 1), pattern(255, 0), pattern(7, 1)], gapflag=0xFF if l2 else 0)))
    case("tape-two", lambda: cas_list(tape(10, 3, [pattern(10, 0)]) + [0] * 40 + tape(0, 0, [pattern(3, 1)], name=b"SECOND  ", ftype=0)))
    case("tape-empty-data", lambda: cas_list(tape(10, 3, []) + tape(3, 3, [pattern(3, 1)], name=b"SECOND  ")))
    case("tape-zero-len-block", lambda: cas_list(tape(10, 3, [[], [1, 2, 3]])))
    case("tape-no-eof", lambda: cas_list(tape(10, 3, [pattern(10, 0)], eof=False)))
    case("tape-no-eof-tail", lambda: cas_list(tape(10, 3, [pattern(10, 0)], eof=False, tail=50)))
    case("tape-trunc-header", lambda: cas_list(tape(10, 3, [pattern(10, 0)])[:20]))
    case("tape-trunc-header2", lambda: cas_list(tape(0, 3, [pattern(10, 0)])[:17]))
    case("tape-trunc-header3", lambda: cas_list(tape(0, 3, [pattern(10, 0)])[:16]))
    case("tape-trunc-name", lambda: cas_list(tape(0, 3, [pattern(10, 0)])[:9]))
    case("tape-trunc-data", lambda: cas_list(tape(10, 3, [pattern(200, 0)])[:100]))
    case("tape-trunc-blocktype", lambda: cas_list(tape(0, 0, [pattern(2, 0)], eof=False) + [0x55, 0x3C]))
    case("tape-bad-block", lambda: cas_list(tape(10, 3, [pattern(10, 0)], eof=False) + [0x55, 0x3C, 0x02, 0, 0]))
    case("tape-bad-name", lambda: cas_list(tape(10, 3, [pattern(10, 0)], name=b"\xff\xfeABCDEF")))
    case("tape-empty", lambda: cas_list([]))
    case("tape-garbage", lambda: cas_list(pattern(500, 0)))
    case("tape-bytes-buffer", lambda: cas_list(bytes(tape(10, 3, [pattern(10, 0)]))))
    case("tape-filter", lambda: cas_list(tape(10, 3, [pattern(10, 0)]), ["TAPEFILE"]))

    def cas_skip():
        c = CassetteFile(buffer=tape(5, 2, [pattern(4, 1)]))
        out = []
        for seq in ([0x55, 0x3C], [0x55, 0x3C, 0x00], [0x55, 0x3C, 0x01], [0x55, 0x3C, 0xFF], [0x99], []):
            for st in (0, 1, 6, 30, 40, 1000, -1):
                out.append(c.skip_to_sequence(seq, start=st) if st else c.skip_to_sequence(seq))
        return out
    case("cas-skip", cas_skip)

    def cas_part(fn):
        c = CassetteFile(buffer=tape(5, 2, [pattern(4, 1), pattern(3, 0)]))
        return fn(c)
    case("cas-readname", lambda: cas_part(lambda c: [c.read_coco_file_name(9), c.read_coco_file_name(0)]))
    case("cas-readname-short", lambda: cas_part(lambda c: c.read_coco_file_name(len(c.buffer) - 3)))
    case("cas-readword", lambda: cas_part(lambda c: [dump_value(c.read_word(p)) for p in (0, 5, 20, -2)]))
    for st in (0, 3, 5, 6, 10, 30, 1000):
        case("cas-readfile-%d" % st, lambda st=st: cas_part(lambda c: [[dump_file(f), p] for f, p in [c.read_file(st)]]))
    for st in (0, 26, 27, 35, 44, 1000):
        case("cas-readblocks-%d" % st, lambda st=st: cas_part(lambda c: c.read_blocks(st)))
    case("cas-skip", cas_skip)

    def rw(buf, p):
        return dump_value(VirtualFileContainer(buffer=buf).read_word(p))
    for buf, p in (([], 0), ([1], 0), ([1, 2], 0), ([1, 2], 1), ([1, 2, 3], 1), ([1, 2, 3], 2), ([1, 2, 3], 3),
                   ([1, 2, 3], -1), ([1, 2, 3], -2), ([1, 2, 3], -3), ([1, 2, 3], -4), ([1, 2, 3], -9), ([1, "2"], 0), ([1.0, 2], 0), (b"\x12\x34", 0), ([255, 255], 0), ([0, 0], 0)):
        case("read_word-%r-%d" % (buf, p), lambda buf=buf, p=p: rw(buf, p))

    def container_prims():
        src = [1, 2, 3]
        v = VirtualFileContainer(buffer=src)
        w = VirtualFileContainer()
        x = VirtualFileContainer(buffer=[])
        return [v.buffer is src, v.original_buffer, v.original_buffer is src, w.buffer, w.original_buffer,
                x.buffer, v.get_buffer() is v.buffer, v.add_file(None), v.list_files()]
    case("container-prims", container_prims)

    # ---------------------------------------------------------------- disk
    G = 2304

    def dsk_round(files, order=None, pre=None, filenames=None):
        d = DiskFile(granule_fill_order=order) if order else DiskFile()
        if pre:
            d.add_files(pre)
        d.add_files(files)
        buf = d.get_buffer()
        r = DiskFile(buffer=list(buf))
        listed = r.list_files(filenames) if filenames is not None else r.list_files()
        return [len(buf), sha(buf), sha(buf[DiskConstants.FAT_OFFSET:DiskConstants.FAT_OFFSET + 256]),
                sha(buf[DiskConstants.DIR_OFFSET:DiskConstants.DIR_OFFSET + 72 * 32]),
                [dump_file(f) for f in listed]]

    dlens = [0, 1, 5, 250, 251, 255, 256, 257, G - 11, G - 10, G - 9, G - 6, G - 5, G - 4, G - 1, G, G + 1,
             2 * G - 10, 2 * G - 5, 2 * G, 3 * G + 100, 34 * G - 10, 40000, 65535]
    for i, n in enumerate(dlens):
        kind = i % 3
        ftype, dtype = [(2, 0), (0, 0), (1, 0xFF)][kind]
        case("dsk-single-%d" % n, lambda n=n, i=i, ftype=ftype, dtype=dtype: dsk_round(
            [mk(names[1 + i % 9], n, i % 4, ftype=ftype, dtype=dtype, load=(i * 777) & 0xFFFF,
                exe=(i * 1999) & 0xFFFF, ext=["BIN", "BAS", "", "TX"][i % 4])]))
    case("dsk-multi", lambda: dsk_round([mk("F%d" % i, dlens[i], i % 4, ftype=[2, 0, 1][i % 3],
                                            dtype=[0, 0, 0xFF][i % 3], ext="E%d" % i) for i in range(1, 18)]))
    rev = list(range(67, -1, -1))
    case("dsk-rev-order", lambda: dsk_round([mk("A", 3 * G), mk("B", G - 5), mk("lower", 5000, 1)], order=rev))
    case("dsk-seq-order", lambda: dsk_round([mk("A", 40 * G), mk("B", 10)], order=list(range(68))))
    case("dsk-frag", lambda: dsk_round([mk("NEW", 4 * G + 7, 1)], pre=[mk("P%d" % i, G - 20 + i * 5) for i in range(6)]))
    case("dsk-short-order", lambda: dsk_round([mk("A", 3)], order=[1, 2, 3]))
    case("dsk-full", lambda: dsk_round([mk("BIG", 65535), mk("BIG2", 65535), mk("BIG3", 65535)]))
    case("dsk-many", lambda: dsk_round([mk("M%d" % i, i) for i in range(69)]))
    case("dsk-filter", lambda: dsk_round([mk("ONE", 10), mk("TWO", 300)], filenames=["TWO"]))
    case("dsk-nulname", lambda: dsk_round([mk("A\0B", 10, ext="\0\0")]))
    case("dsk-longname", lambda: dsk_round([mk("TWELVECHARS1", 10, ext="LONGEXT")]))
    case("dsk-short-buffer", lambda: [dump_file(f) for f in DiskFile(buffer=[0xFF] * 1000).list_files()])
    case("dsk-empty-buffer", lambda: [dump_file(f) for f in DiskFile(buffer=[]).list_files()])
    case("dsk-blank-image", lambda: [dump_file(f) for f in DiskFile().list_files()])
    case("dsk-garbage-image", lambda: [dump_file(f) for f in DiskFile(buffer=pattern(161280, 0)).list_files()])
    case("dsk-zero-image", lambda: [dump_file(f) for f in DiskFile(buffer=[0] * 161280).list_files()])
    case("dsk-long-image", lambda: [dump_file(f) for f in DiskFile(buffer=[0xFF] * 170000).list_files()])

    def dsk_helpers():
        d = DiskFile()
        out = []
        ml, ba, asc, po = MLPreamble(), BasicPreamble(), ASCIIPreamble(), Postamble()
        for n in (0, 1, 245, 246, 247, 255, 256, G - 11, G - 10, G - 9, G - 5, G - 4, G - 3, G, 2 * G - 10, 5000):
            data = [0] * n
            for pre, post in ((ml, po), (ba, None), (asc, None)):
                out.append([DiskFile.calculate_granules_needed(data, pre, post),
                            DiskFile.calculate_last_sector_bytes_used(data, pre, post),
                            DiskFile.calculate_last_granules_sectors_used(data, pre, post)])
            out.append(DiskFile.calculate_sectors_needed(n))
        out.append([DiskFile.seek_granule(g) for g in range(0, 68)])
        for g in (-1, 0, 67, 68):
            try:
                out.append(d.granule_in_use(g))
            except Exception as e:
                out.append([type(e).__name__, str(e)])
        for g in (-1, 0, 71, 72):
            try:
                out.append(d.directory_entry_in_use(g))
            except Exception as e:
                out.append([type(e).__name__, str(e)])
        out.append([d.find_empty_granule(), d.find_empty_directory_entry()])
        d.write_to_fat([], 3)
        d.write_to_fat([5], 3)
        d.write_to_fat([7, 9, 8], 9)
        out.append(d.buffer[DiskConstants.FAT_OFFSET:DiskConstants.FAT_OFFSET + 68])
        d.write_dir_entry(3, mk("nm", 3, ext="x"), 9, 0x1FF)
        out.append(d.buffer[DiskConstants.DIR_OFFSET + 96:DiskConstants.DIR_OFFSET + 128])
        out.append([d.find_empty_granule(), d.find_empty_directory_entry(), d.directory_entry_in_use(3)])
        out.append(d.write_bytes_to_buffer(10, [1, 2, 3]))
        out.append(d.read_sequence(9, 5))
        out.append(d.validate_sequence(10, [1, 2, 3]))
        out.append(d.validate_sequence(10, [1, 2, 4]))
        fat = [0xFF] * 256
        fat[3] = 4
        fat[4] = 0xC2
        fat[6] = 0xC1
        out.append([DiskFile.calculate_file_length(3, fat, 17), DiskFile.calculate_file_length(6, fat, 0),
                    DiskFile.calculate_file_length(4, fat, 256)])
        for fn in (lambda: d.read_sequence(161279, 5), lambda: d.read_sequence(0, 200000),
                   lambda: d.validate_sequence(161279, [1, 2]), lambda: ml.read([0, 1], 0),
                   lambda: ml.read([1, 0, 0, 0, 0], 0), lambda: ba.read([0, 0, 0], 0), lambda: ba.read([0], 0),
                   lambda: po.read([0xFF, 0, 1, 0, 0], 0), lambda: po.read([0xFF, 1, 0, 0, 0], 0),
                   lambda: po.read([0, 0, 0, 0, 0], 0), lambda: po.read([0], 0), lambda: po.write([0], 0),
                   lambda: ml.write([0], 0), lambda: ba.write([0], 0),
                   lambda: [ml.read([0, 1, 2, 3, 4, 9], 0), ml.data_length.int, ml.load_addr.int, ml.get_data_length()],
                   lambda: [po.read([9, 0xFF, 0, 0, 3, 4], 1), po.exec_addr.int],
                   lambda: [ba.read([0xFF, 3, 4], 0), ba.data_length.int, asc.read([], 5), asc.write([], 6)],
                   lambda: d.read_data(0, fat, None, data_length=200000)):
            try:
                out.append(fn())
            except Exception as e:
                out.append([type(e).__name__, str(e)])
        return out
    case("dsk-helpers", dsk_helpers)

    def w2g(n, grans, pre_kind, with_post, first):
        d = DiskFile()
        pre = [None, MLPreamble, BasicPreamble, ASCIIPreamble][pre_kind]
        pre = pre() if pre else None
        if pre is not None:
            pre.data_length = NumericValue(n & 0xFFFF)
            if pre_kind == 1:
                pre.load_addr = NumericValue(0x1234)
        post = None
        if with_post:
            post = Postamble()
            post.exec_addr = NumericValue(0xBEEF)
        src = list(grans)
        ret = d.write_to_granules(pattern(n, 1), src, pre, post, first_granule=first) if not first else \
            d.write_to_granules(pattern(n, 1), src, pre, post)
        return [ret, src == list(grans), sha(d.buffer)]
    for n in (0, 1, G - 6, G - 5, G - 4, G - 1, G, G + 1, 2 * G - 5, 2 * G, 2 * G + 30):
        for grans in ([], [5], [33, 34, 2], [67, 0, 40]):
            for pre_kind, with_post, first in ((1, True, True), (2, False, True), (3, False, True), (0, True, False),
                                               (1, True, False), (0, False, True)):
                case("w2g-%d-%r-%d-%s-%s" % (n, grans, pre_kind, with_post, first),
                     lambda n=n, grans=grans, pre_kind=pre_kind, with_post=with_post, first=first:
                     w2g(n, grans, pre_kind, with_post, first))
    case("w2g-end-of-image", lambda: w2g(G - 3, [67], 1, True, True))
    case("w2g-end-of-image2", lambda: w2g(G - 7, [67], 0, True, False))

    def fat_dir(fn):
        d = DiskFile()
        try:
            r = fn(d)
        except Exception as e:
            r = ["EXC", type(e).__name__, str(e)]
        return [r, sha(d.buffer)]
    case("fat-badcount", lambda: fat_dir(lambda d: d.write_to_fat([3, 1, 2], None)))
    case("fat-badgranule", lambda: fat_dir(lambda d: d.write_to_fat([3, 1, 10 ** 7, 5], 1)))
    case("fat-empty", lambda: fat_dir(lambda d: d.write_to_fat([], 1)))
    case("fat-one", lambda: fat_dir(lambda d: d.write_to_fat([67], 0)))
    case("fat-chain", lambda: fat_dir(lambda d: d.write_to_fat([3, 1, 2, 60], 9)))
    case("fat-tuple", lambda: fat_dir(lambda d: d.write_to_fat((3, 1), 2)))
    case("fat-dup", lambda: fat_dir(lambda d: d.write_to_fat([3, 3, 4], 2)))
    case("dir-0", lambda: fat_dir(lambda d: d.write_dir_entry(0, mk("a", 1, ext=""), 0, 0)))
    case("dir-71", lambda: fat_dir(lambda d: d.write_dir_entry(71, mk("LONGLONGNAME", 1, ext="EXTX", ftype=1, dtype=0xFF), 67, 256)))
    case("dir-big", lambda: fat_dir(lambda d: d.write_dir_entry(1, mk("A", 1), 5, 70000)))
    case("dir-uni", lambda: fat_dir(lambda d: d.write_dir_entry(1, mk("é", 1), 5, 1)))
    case("wbuf", lambda: fat_dir(lambda d: [d.write_bytes_to_buffer(161278, [1, 2]), d.write_bytes_to_buffer(5, []),
                                            d.write_bytes_to_buffer(7, b"ab")]))
    case("wbuf-over", lambda: fat_dir(lambda d: d.write_bytes_to_buffer(161279, [1, 2])))

    def alloc_state():
        d = DiskFile()
        out = []
        for i in range(70):
            try:
                g = d.find_empty_granule()
                d.buffer[DiskConstants.FAT_OFFSET + g] = 0x99 if i % 2 else 0xC1
                out.append(g)
            except Exception as e:
                out.append([type(e).__name__, str(e)])
        for i in range(73):
            e = d.find_empty_directory_entry()
            out.append(e)
            if e >= 0:
                d.buffer[DiskConstants.DIR_OFFSET + 32 * e] = 0x41
        d.buffer[DiskConstants.DIR_OFFSET + 32 * 5] = 0x00
        out.append(d.find_empty_directory_entry())
        try:
            d.add_file(mk("X", 1))
        except Exception as e:
            out.append([type(e).__name__, str(e)])
        out.append(sha(d.buffer))
        return out
    case("alloc-state", alloc_state)

    def dir_full():
        d = DiskFile()
        for e in range(72):
            d.buffer[DiskConstants.DIR_OFFSET + 32 * e] = 0x41
        try:
            d.add_file(mk("X", 1))
        except Exception as e:
            return [type(e).__name__, str(e), sha(d.buffer)]
        return sha(d.buffer)
    case("dir-full", dir_full)

    def init_variants():
        out = []
        for kwargs in ({}, {"buffer": None}, {"buffer": []}, {"buffer": [1, 2]}, {"granule_fill_order": []},
                       {"granule_fill_order": [1]}, {"granule_fill_order": list(range(68))}, {"buffer": b""}):
            d = DiskFile(**kwargs)
            out.append([len(d.buffer), len(d.original_buffer), d.granule_fill_order is DiskConstants.GRANULE_FILL_ORDER,
                        list(d.granule_fill_order), type(d.buffer).__name__])
        return out
    case("dsk-init", init_variants)

    # ---------------------------------------------------------------- virtual file on host files
    def put(path, content):
        with open(path, "wb") as f:
            f.write(bytes(bytearray(content)))

    def get(path):
        if not os.path.exists(path):
            return None
        with open(path, "rb") as f:
            data = f.read()
        return [len(data), hashlib.sha256(data).hexdigest()]

    def cas_image(files):
        c = CassetteFile()
        c.add_files(files)
        return list(c.get_buffer())

    def dsk_image(files):
        d = DiskFile()
        d.add_files(files)
        return list(d.get_buffer())

    big_cas = cas_image([mk("BIG%d" % i, 60000, i) for i in range(3)])
    existing = {
        "absent": None,
        "empty": [],
        "cas": cas_image([mk("OLD1", 300, 1), mk("OLD2", 0), mk("OLD3", 255)]),
        "dsk": dsk_image([mk("OLD1", 3000, 1), mk("OLD2", 0), mk("OLD3", G - 5, ftype=0)]),
        "raw": pattern(100, 0),
        "junk": pattern(5000, 1),
        "bigcas": big_cas,
        "bigjunk": pattern(170000, 0),
    }
    kinds = {"bin": VirtualFileType.BINARY, "cas": VirtualFileType.CASSETTE, "dsk": VirtualFileType.DISK,
             "none": None}

    def vf_run(kind, append, pre, twice=False):
        path = "t_%s_%s_%s.img" % (kind, append, pre)
        if existing[pre] is not None:
            put(path, existing[pre])
        before = get(path)
        out = [before]
        for rnd in range(2 if twice else 1):
            vf = VirtualFile(SourceFile(path, file_type=SourceFileType.BINARY), kinds[kind])
            try:
                vf.open_virtual_file()
                out.append(["opened", vf.file_exists, str(vf.virtual_file_type), len(vf.coco_file_list),
                            [dump_file(f) for f in vf.list_files()], [dump_file(f) for f in vf.list_files(["OLD2"])]])
                vf.add_coco_file(mk("NEW%d" % rnd, 700 + rnd, 1))
                vf.save_virtual_file(append_mode=append) if append else vf.save_virtual_file()
                out.append("saved")
            except BaseException as e:
                out.append(["EXC", type(e).__name__, str(e)])
            out.append(get(path))
            if os.path.exists(path):
                v2 = VirtualFile(SourceFile(path, file_type=SourceFileType.BINARY))
                try:
                    v2.open_virtual_file()
                    out.append([str(v2.virtual_file_type), [dump_file(f) for f in v2.list_files()]])
                except BaseException as e:
                    out.append(["EXC", type(e).__name__, str(e)])
        return out

    for kind in ("bin", "cas", "dsk", "none"):
        for append in (False, True):
            for pre in existing:
                case("vf-%s-%s-%s" % (kind, append, pre), lambda kind=kind, append=append, pre=pre: vf_run(kind, append, pre))
    for kind in ("cas", "dsk"):
        case("vf-twice-%s" % kind, lambda kind=kind: vf_run(kind, True, "absent", twice=True))

    def sf_prims():
        put("sf.bin", [1, 2, 3, 255, 0])
        with open("sf.asm", "w") as f:
            f.write(ASM_SRC)
        s = SourceFile("sf.bin", file_type=SourceFileType.BINARY)
        out = [s.get_file_name(), s.get_buffer(), str(s.file_type)]
        s.read_file()
        out.append(s.get_buffer())
        s.set_buffer([9, 8, 7])
        s.write_file()
        out.append(get("sf.bin"))
        a = SourceFile("sf.asm")
        a.read_file()
        out.append(a.get_buffer())
        a.set_buffer([1])
        a.write_file()
        out.append(get("sf.asm"))
        out.append(SourceFile.read_binary_contents("sf.bin"))
        try:
            SourceFile("missing.bin", file_type=SourceFileType.BINARY).read_file()
        except Exception as e:
            out.append([type(e).__name__, str(e)])
        return out
    case("sf-prims", sf_prims)

    # ---------------------------------------------------------------- command line tools
    with open("prog.asm", "w") as f:
        f.write(ASM_SRC)
    with open("noname.asm", "w") as f:
        f.write(ASM_NONAME)
    with open("bad.asm", "w") as f:
        f.write("        FOO #1\n")

    def cli(script, args):
        p = subprocess.run([PY, os.path.join(tree, script)] + args, stdout=subprocess.PIPE, stderr=subprocess.PIPE,
                           universal_newlines=True)
        err = p.stderr.replace(tree, "<TREE>")
        return [p.returncode, p.stdout.replace(tree, "<TREE>"), err.strip().splitlines()[-1:] if err else []]

    n = [0]

    def cli_case(script, flag, append, pre, src="prog.asm", extra=()):
        n[0] += 1
        path = "c%d_%s_%s.img" % (n[0], flag, pre)
        if existing[pre] is not None:
            put(path, existing[pre])
        before = get(path)
        args = [src, "--" + flag, path] + (["--append"] if append else []) + list(extra)
        r1 = cli(script, args)
        after = get(path)
        r2 = cli("file_util.py", [path, "--list"]) if after else None
        return [before, r1, after, before == after, r2]

    pres = ["absent", "empty", "cas", "dsk", "raw", "junk", "bigcas"]
    for flag in ("to_bin", "to_cas", "to_dsk"):
        for append in (False, True):
            for pre in pres:
                case("asm-%s-%s-%s" % (flag, append, pre),
                     lambda flag=flag, append=append, pre=pre: cli_case("assembler.py", flag, append, pre))
    case("asm-noname-cas", lambda: cli_case("assembler.py", "to_cas", False, "absent", src="noname.asm"))
    case("asm-noname-dsk", lambda: cli_case("assembler.py", "to_dsk", False, "absent", src="noname.asm"))
    case("asm-noname-bin", lambda: cli_case("assembler.py", "to_bin", False, "absent", src="noname.asm"))
    case("asm-name-cas", lambda: cli_case("assembler.py", "to_cas", False, "absent", src="noname.asm", extra=["--name", "GIVEN"]))
    case("asm-print", lambda: cli("assembler.py", ["prog.asm", "--print", "--symbols"]))
    case("asm-bad", lambda: cli("assembler.py", ["bad.asm", "--to_cas", "never.cas"]) + [get("never.cas")])

    def all3():
        r = cli("assembler.py", ["prog.asm", "--to_bin", "a3.bin", "--to_cas", "a3.cas", "--to_dsk", "a3.dsk"])
        r2 = cli("assembler.py", ["prog.asm", "--to_bin", "a3.bin", "--to_cas", "a3.cas", "--to_dsk", "a3.dsk", "--append"])
        r3 = cli("assembler.py", ["prog.asm", "--to_bin", "a3.bin", "--to_cas", "a3.cas", "--to_dsk", "a3.dsk"])
        return [r, r2, r3, get("a3.bin"), get("a3.cas"), get("a3.dsk"), cli("file_util.py", ["a3.cas", "--list"]),
                cli("file_util.py", ["a3.dsk", "--list"])]
    case("asm-all3", all3)

    put("src.cas", existing["cas"])
    put("src.dsk", existing["dsk"])
    put("one.cas", cas_image([mk("ONLY", 20)]))
    put("src.raw", existing["raw"])
    put("src.empty", [])
    for src in ("src.cas", "src.dsk", "one.cas", "src.raw", "src.empty", "src.missing"):
        case("fu-list-%s" % src, lambda src=src: cli("file_util.py", [src, "--list"]))
        for flag in ("to_bin", "to_cas", "to_dsk"):
            for append in (False, True):
                for pre in ("absent", "cas", "dsk", "raw"):
                    if src in ("src.raw", "src.empty", "src.missing") and pre != "absent":
                        continue
                    case("fu-%s-%s-%s-%s" % (src, flag, append, pre),
                         lambda src=src, flag=flag, append=append, pre=pre: cli_case("file_util.py", flag, append, pre, src=src))
    case("fu-files", lambda: cli_case("file_util.py", "to_cas", False, "absent", src="src.cas", extra=["--files", "old1", "OLD3"]))
    case("fu-files-dsk", lambda: cli_case("file_util.py", "to_dsk", False, "absent", src="src.dsk", extra=["--files", "old2"]))
    case("fu-files-bin", lambda: cli_case("file_util.py", "to_bin", False, "absent", src="one.cas", extra=["--files", "zzz"]))
    case("fu-noargs", lambda: cli("file_util.py", [])[0])

    leftovers = sorted(os.listdir("."))
    results.append(["files-produced", [[p, get(p)] for p in leftovers]])
    json.dump(results, sys.stdout)


def main():
    if len(sys.argv) == 4 and sys.argv[1] == "--drive":
        tree = os.path.abspath(sys.argv[2])
        os.chdir(sys.argv[3])
        drive(tree)
        return 0
    if len(sys.argv) != 3:
        print(__doc__)
        return 2
    outs = []
    procs = []
    env = dict(os.environ, PYTHONDONTWRITEBYTECODE="1", PYTHONHASHSEED="0")
    for tree in sys.argv[1:3]:
        tree = os.path.abspath(tree)
        work = tempfile.mkdtemp(prefix="equiv_")
        procs.append((tree, work, subprocess.Popen(
            [PY, os.path.abspath(__file__), "--drive", tree, work], cwd=tree,
            stdout=subprocess.PIPE, stderr=subprocess.PIPE, universal_newlines=True, env=env)))
    failed = False
    for tree, work, proc in procs:
        stdout, stderr = proc.communicate()
        shutil.rmtree(work, ignore_errors=True)
        if proc.returncode != 0:
            print("driver failed for", tree)
            print(stderr[-3000:])
            failed = True
        else:
            outs.append(json.loads(stdout))
    if failed:
        return 1
    a, b = outs
    bad = 0
    if len(a) != len(b):
        print("different number of cases", len(a), len(b))
        bad += 1
    for (la, ra), (lb, rb) in zip(a, b):
        if la != lb or ra != rb:
            bad += 1
            print("DIFF in case", la, lb)
            print("  A:", json.dumps(ra)[:600])
            print("  B:", json.dumps(rb)[:600])
    print("%d cases compared, %d differ" % (len(a), bad))
    return 1 if bad else 0


if __name__ == "__main__":
    sys.exit(main())
