#!/usr/bin/env python
"""
Differential demonstration: runs the same inputs through the code of two source
trees (one subprocess per tree, the tree first on sys.path and as cwd) and
compares every observable result.

usage: equiv.py <treeA> <treeB>      exit 0 = all cases agree, 1 = a difference
"""
import json
import os
import subprocess
import sys
import tempfile

WORKER = r'''
import contextlib, io, json, os, subprocess, sys, tempfile

tree = os.path.abspath(sys.argv[1])
sys.path.insert(0, tree)
os.chdir(tree)
cases = json.load(sys.stdin)

from cocoasm.program import Program


def describe_exc(error):
    info = {"type": type(error).__name__, "str": str(error)}
    if hasattr(error, "value"):
        info["value"] = str(error.value)
    statement = getattr(error, "statement", None)
    if statement is not None:
        try:
            info["statement"] = str(statement)
        except Exception as inner:
            info["statement"] = "unprintable " + type(inner).__name__
    return info


def guarded(function):
    try:
        return function()
    except Exception as error:
        return {"error": describe_exc(error)}


def observe_program(lines):
    program = Program()
    try:
        program.process(lines)
    except Exception as error:
        return {"error": describe_exc(error)}
    return {
        "binary": guarded(program.get_binary_array),
        "listing": guarded(program.get_statements),
        "symbols": guarded(program.get_symbol_table),
        "origin": guarded(lambda: program.origin.hex()),
        "name": program.name,
        "detail": guarded(lambda: [
            [s.code_pkg.size, s.code_pkg.max_size, s.fixed_size, s.pcr_size_hint,
             type(s.operand).__name__, list(s.code_pkg.post_byte_choices),
             s.code_pkg.additional_needs_resolution, s.code_pkg.op_code.hex(),
             s.code_pkg.post_byte.hex(), s.code_pkg.additional.hex(), s.code_pkg.address.hex()]
            for s in program.statements]),
    }


def observe_call(code):
    namespace = {}
    try:
        exec(code, namespace)
        return {"result": namespace.get("result")}
    except Exception as error:
        return {"error": describe_exc(error)}


def observe_cli(lines, args, tool="assembler.py", extra_files=None):
    with tempfile.TemporaryDirectory() as work:
        with open(os.path.join(work, "prog.asm"), "w") as handle:
            handle.writelines(lines)
        for name, text in (extra_files or {}).items():
            with open(os.path.join(work, name), "w") as handle:
                handle.write(text)
        before = set(os.listdir(work))
        done = subprocess.run(
            [sys.executable, os.path.join(tree, tool)] + args,
            cwd=work, capture_output=True, text=True,
            env=dict(os.environ, PYTHONPATH=tree, PYTHONDONTWRITEBYTECODE="1"),
        )
        files = {}
        for name in sorted(set(os.listdir(work)) - before):
            with open(os.path.join(work, name), "rb") as handle:
                files[name] = handle.read().hex()
        stderr_tail = done.stderr.strip().splitlines()[-1:] if done.stderr.strip() else []
        return {"code": done.returncode, "stdout": done.stdout, "stderr_tail": stderr_tail, "files": files}


results = []
for case in cases:
    kind = case["kind"]
    if kind == "program":
        results.append(observe_program(case["lines"]))
    elif kind == "call":
        results.append(observe_call(case["code"]))
    elif kind == "cli":
        results.append(observe_cli(case["lines"], case["args"], case.get("tool", "assembler.py"),
                                   case.get("extra_files")))
    else:
        raise SystemExit("unknown case kind " + kind)
json.dump(results, sys.stdout)
'''


def prog(*lines):
    """A program case; every line gets its newline like a line read from a file."""
    return {"kind": "program", "lines": [line + "\n" for line in lines]}


def call(code):
    """A direct library call; the snippet leaves a JSON-friendly value in `result`."""
    return {"kind": "call", "code": code}


def cli(lines, args=("prog.asm", "--print", "--symbols", "--to_bin", "out.bin"), extra_files=None):
    return {"kind": "cli", "lines": [line + "\n" for line in lines], "args": list(args),
            "extra_files": extra_files}


def run_tree(tree, cases):
    with tempfile.TemporaryDirectory() as work:
        worker = os.path.join(work, "worker.py")
        with open(worker, "w") as handle:
            handle.write(WORKER)
        done = subprocess.run(
            [sys.executable, worker, tree], input=json.dumps(cases), capture_output=True, text=True,
            cwd=tree, env=dict(os.environ, PYTHONDONTWRITEBYTECODE="1"),
        )
    if done.returncode != 0:
        print("worker failed for", tree)
        print(done.stderr)
        sys.exit(1)
    return json.loads(done.stdout)


def main(cases):
    if len(sys.argv) != 3:
        print(__doc__)
        sys.exit(2)
    tree_a, tree_b = (os.path.abspath(p) for p in sys.argv[1:3])
    results_a = run_tree(tree_a, cases)
    results_b = run_tree(tree_b, cases)
    differences = 0
    accepted = 0
    for number, (case, a, b) in enumerate(zip(cases, results_a, results_b)):
        if "error" not in a:
            accepted += 1
        if a != b:
            differences += 1
            print("DIFFERENCE in case", number, json.dumps(case)[:300])
            print("   A:", json.dumps(a)[:600])
            print("   B:", json.dumps(b)[:600])
    print("{} cases, {} without error in tree A, {} differences".format(len(cases), accepted, differences))
    sys.exit(1 if differences or len(results_a) != len(cases) or len(results_b) != len(cases) else 0)


# ---------------------------------------------------------------------------
# cases
# ---------------------------------------------------------------------------
CASES = []

# one open statement at every distance around the limits, forward and backward, plain and indirect
for gap in (0, 1, 60, 118, 119, 120, 121, 122, 123, 124, 125, 126, 127, 128, 129, 130, 131, 132, 250, 260):
    CASES.append(prog("      ORG $1000", "      LEAX AHEAD,PCR", "      RMB {}".format(gap), "AHEAD NOP ",
                      "      LDD [AHEAD,PCR]", "      RMB {}".format(gap), "      LDY AHEAD,PCR", "      LEAU [AHEAD,PCR]"))

# chains of open statements whose widths depend on each other
for count in (1, 2, 3, 10, 30, 31, 32, 33, 40, 41, 42, 43, 44, 60):
    lines = ["      ORG $2000", "TOP   NOP "]
    lines += ["      LDA END,PCR"] * count
    lines += ["      LDX TOP,PCR"] * count
    lines += ["END   RTS "]
    CASES.append(prog(*lines))
for pad in range(100, 126, 3):
    CASES.append(prog("LA    LDA LC,PCR", "      LDB LD,PCR", "      RMB {}".format(pad), "LB    LDX LA,PCR", "      LDY [LD+1,PCR]",
                      "LC    LEAS LB-1,PCR", "      RMB {}".format(pad), "LD    LEAU [LA,PCR]", "      BRA LD", "      LBRA LA"))

# nothing open at all, and programs that fail before / after the sizes are settled
CASES.append(prog("      LDA #1", "      RTS "))
CASES.append(prog())
CASES.append(prog("      LDA 5,PCR", "      LDA $300,PCR", "      LDA [-3,PCR]"))
CASES.append(prog("      LDA NOWHERE,PCR", "LA    LDA LA,PCR"))
CASES.append(prog("LA    LDA LA,PCR", "      RMB 200", "      BRA LA"))
CASES.append(prog("      ORG $FFF0", "LA    LDA LB,PCR", "      RMB 20", "LB    RTS "))
CASES.append(prog("LA    LDA LA*2,PCR", "      LDA LA/0,PCR"))
CASES.append(prog("LA    LDA LA*2,PCR"))
CASES.append(prog("LA    LDA LA/0,PCR"))
CASES.append(prog("LA    RTS LA,PCR"))

CASES.append(cli(["      NAM SIZES", "      ORG $3000", "GO    LEAX MSG,PCR", "      LDA [PTR,PCR]", "      RMB 121", "PTR   FDB MSG",
                  "MSG   FCC 'OK'", "      LEAY GO,PCR", "      END GO"]))

# the loop itself, driven with stand-in statements: several rounds, failures, already settled
CASES.append(call('''
from cocoasm.program import Program
result = []

class Package(object):
    size = 1
    address = None

class Kind(object):
    is_origin = False
    is_name = False

class Stub(object):
    label = ""
    instruction = Kind()
    def __init__(self, name, rounds, fails=False):
        self.name, self.rounds, self.fails = name, rounds, fails
        self.fixed_size = rounds == 0
        self.code_pkg = Package()
    def get_include_filename(self):
        return None
    def resolve_symbols(self, table):
        pass
    def translate(self):
        pass
    def set_address(self, address):
        return address
    def fix_addresses(self, statements, index):
        pass
    def determine_pcr_relative_sizes(self, statements, index):
        result.append([self.name, index, [s.fixed_size for s in statements]])
        if self.fails:
            raise ValueError("no luck with " + self.name)
        self.rounds -= 1
        self.fixed_size = self.rounds == 0
    def __str__(self):
        return "stub " + self.name

for plan in ([], [0, 0], [1], [1, 0, 1], [2, 1, 3], [0, 3, 0, 1], [1, 2, 1, 2, 1], [1, -1, 1], [2, -1]):
    program = Program()
    program.statements = [Stub("s{}".format(n), abs(rounds), rounds < 0) for n, rounds in enumerate(plan)]
    result.append("plan {}".format(plan))
    try:
        program.translate_statements()
    except Exception as error:
        result.append([type(error).__name__, str(error), str(error.statement)])
    result.append(program.all_sizes_fixed())
'''))
CASES.append(call('''
from cocoasm.program import Program
from cocoasm.exceptions import TranslationError
result = []
lines = ["HERE  LDA THERE,PCR\\n", "      LDX HERE,PCR\\n", "THERE RTS \\n"]
program = Program()
program.statements = Program.parse(lines)
broken = program.statements[1]
def explode(statements, index):
    raise KeyError("boom")
broken.determine_pcr_relative_sizes = explode
try:
    program.translate_statements()
except TranslationError as error:
    result.append([str(error), str(error.statement), error.statement is program.statements[1],
                   [s.fixed_size for s in program.statements]])
'''))

main(CASES)
