#!/usr/bin/env python
"""
Differential check for refactoring C12/l: Statement.parse_line() with guard clauses and split_delimited_string(), Statement.__str__() and set_address().

usage: equiv.py <treeA> <treeB>   (exit 0 = every observable result agrees)
Each tree is exercised in its own subprocess with the tree first on sys.path.
"""
import sys, os, json, subprocess, tempfile

PRELUDE = r'''
# ---- driver prelude: runs inside ONE tree (argv[1]) with a scratch dir (argv[2]) ----
import sys, os, io, json, hashlib, contextlib, importlib, shutil, traceback

TREE = os.path.realpath(sys.argv[1])
SCRATCH = os.path.realpath(sys.argv[2])
sys.path.insert(0, TREE)
os.chdir(TREE)

import cocoasm
assert os.path.realpath(cocoasm.__file__).startswith(TREE + os.sep), cocoasm.__file__

RESULTS = []
_case_no = [0]


def norm(value):
    """Turns any result into something JSON can carry, without losing what is observable."""
    if isinstance(value, (bytes, bytearray)):
        return {"bytes": bytes(value).hex()}
    if isinstance(value, (list, tuple)):
        if len(value) > 64 and all(isinstance(x, int) and not isinstance(x, bool) for x in value):
            blob = ",".join(str(x) for x in value).encode()
            return {"ints": len(value), "sha1": hashlib.sha1(blob).hexdigest()}
        return [norm(x) for x in value]
    if isinstance(value, dict):
        return {str(k): norm(v) for k, v in value.items()}
    if value is None or isinstance(value, (bool, int, float, str)):
        return value
    if hasattr(value, "_asdict"):
        return {"nt": type(value).__name__, "fields": norm(value._asdict())}
    if hasattr(value, "hex") and hasattr(value, "hex_len"):
        try:
            return {"value": type(value).__name__, "hex": value.hex(), "int": getattr(value, "int", None)}
        except Exception as error:      # noqa
            return {"value": type(value).__name__, "hex_error": repr(error)}
    return {"repr": type(value).__name__ + ":" + str(value)}


def snapshot(directory):
    files = {}
    for root, _, names in os.walk(directory):
        for name in sorted(names):
            path = os.path.join(root, name)
            with open(path, "rb") as handle:
                blob = handle.read()
            files[os.path.relpath(path, directory)] = [len(blob), hashlib.sha1(blob).hexdigest()]
    return files


def case(name, fn, workdir=None):
    """Runs fn(), records value / exception / stdout / stderr / files left in workdir."""
    out, err = io.StringIO(), io.StringIO()
    record = {"name": name}
    old_cwd = os.getcwd()
    if workdir:
        os.chdir(workdir)
    try:
        with contextlib.redirect_stdout(out), contextlib.redirect_stderr(err):
            try:
                record["value"] = norm(fn())
            except SystemExit as error:
                record["exit"] = norm(error.code)
            except BaseException as error:      # noqa
                record["exc"] = [type(error).__name__, str(error)]
    finally:
        os.chdir(old_cwd)
    record["stdout"] = out.getvalue()
    record["stderr"] = err.getvalue()
    if workdir:
        record["files"] = snapshot(workdir)
    RESULTS.append(record)
    return record


def fresh_dir(files=None):
    _case_no[0] += 1
    path = os.path.join(SCRATCH, "c%04d" % _case_no[0])
    os.makedirs(path)
    for name, content in (files or {}).items():
        mode = "wb" if isinstance(content, (bytes, bytearray)) else "w"
        with open(os.path.join(path, name), mode) as handle:
            handle.write(content)
    return path


def cli(module_name, argv):
    """Runs a command-line front end the way `python module.py argv...` would."""
    def run():
        module = importlib.import_module(module_name)
        assert os.path.realpath(module.__file__).startswith(TREE + os.sep)
        old = sys.argv
        sys.argv = [module_name + ".py"] + list(argv)
        try:
            module.main(module.parse_arguments())
        finally:
            sys.argv = old
    return run


def cli_case(name, module_name, argv, files=None, workdir=None, then=()):
    """One CLI run in a fresh (or given) directory, optionally followed by more runs in the same directory."""
    workdir = workdir or fresh_dir(files)
    case(name, cli(module_name, argv), workdir)
    for index, (module2, argv2) in enumerate(then):
        case("%s/then%d" % (name, index), cli(module2, argv2), workdir)
    return workdir


def finish():
    json.dump(RESULTS, sys.stdout)
    sys.stdout.write("\n")
# ---- end of prelude ----
'''

CASES = r'''# ---- shared C12 helpers: assemble statements and report everything observable ----
import random
from cocoasm.program import Program
from cocoasm.statement import Statement
from cocoasm.exceptions import TranslationError, ParseError


def describe_error(error):
    info = [type(error).__name__, str(error)]
    if isinstance(error, (TranslationError, ParseError)):
        info.append(str(error.value))
        try:
            info.append(str(error.statement))
        except Exception as inner:      # noqa
            info.append("unprintable statement: " + type(inner).__name__ + ": " + str(inner))
    return info


def assemble(lines):
    """Everything a user can see of one assembly: bytes, listing, symbols, origin, name - or the diagnostic."""
    program = Program()
    try:
        program.process(lines)
    except BaseException as error:      # noqa
        return {"error": describe_error(error)}
    result = {}
    for key, getter in (("bytes", program.get_binary_array), ("listing", program.get_statements),
                        ("symbols", program.get_symbol_table)):
        try:
            result[key] = getter()
        except BaseException as error:      # noqa
            result[key] = {"error": describe_error(error)}
    result["origin"] = norm(program.origin)
    result["name"] = program.name
    result["sizes"] = [[s.code_pkg.size, s.code_pkg.max_size] for s in program.statements]
    return result


def frame(mnemonic, operand, label=""):
    """The statement under test in the middle of a small program with symbols before, after and far away."""
    return [
        "        ORG $1000\n",
        "BACK    NOP\n",
        "K5      EQU 5\n",
        "K0      EQU 0\n",
        "K200    EQU 200\n",
        "K300    EQU 300\n",
        "KADDR   EQU $2000\n",
        "%-7s %s %s\n" % (label, mnemonic, operand),
        "FWD     NOP\n",
        "        RMB 200\n",
        "FAR     NOP\n",
    ]


def statement_cases(prefix, mnemonics, operands, label=""):
    for mnemonic in mnemonics:
        for operand in operands:
            lines = frame(mnemonic, operand, label)
            case("%s %s %s" % (prefix, mnemonic, operand), lambda lines=lines: assemble(lines))


EXPRESSIONS = [
    "1+1", "K5+1", "1+K5", "K5+K5", "K5-1", "1-K5", "K5-K300", "K300-K5", "K5*K5", "K300*K300", "K300*K200", "K5/2", "K300/K5",
    "K5/K0", "4/0", "0/4", "K0*K0", "K0-K0", "K200+56", "K200+55", "K200-73", "K200-72", "KADDR+1", "KADDR-1", "KADDR*2", "KADDR*40",
    "KADDR/2", "KADDR/3", "$10+$10", "$FF+1", "$FF+$1", "$1000+$1", "$FFFF+1", "$FFFF+0", "65535+1", "65535-65535", "0-32768", "0-32769",
    "$1+K5", "K5+$1000", "255+1", "254+1", "7/2", "1/3", "3*0", "9-9",
    "FWD+1", "FWD-1", "1+FWD", "BACK+2", "BACK-1", "BACK-4097", "FAR*2", "FAR*20", "FAR/2", "FWD/K0", "FWD/0", "0/FWD", "FWD+FWD", "FWD-BACK",
    "FWD+K5", "K5+FWD", "FWD*K5", "FWD-K300", "K300-FWD", "2*FWD", "2/FWD", "FWD+NOSUCH", "NOSUCH+1", "1+NOSUCH", "NOSUCH-NOSUCH",
    "FWD+$10", "$10+FWD", "FWD+%00000001", "FWD+'A", "'A+1", "1+'A", "%00000001+1", "%0000000100000000+1", "1+", "+1", "1++1", "1+-1", "K5+-1",
    "K5+1+1", "K5%2", "K5&2", "FWD+1,X", "FWD+1,PCR", "K5+1,X", "K5+1,PCR", "K300+1,Y", "K5-K300,U", "K300*K300,S",
]

PLAIN = [
    "", "0", "1", "15", "16", "17", "127", "128", "129", "255", "256", "257", "32767", "32768", "65535", "65536", "70000",
    "-1", "-15", "-16", "-17", "-127", "-128", "-129", "-255", "-256", "-32768", "-32769", "$0", "$F", "$10", "$FF", "$100", "$0FF", "$00FF",
    "$FFFF", "$10000", "$G", "%1", "%00000001", "%11111111", "%0000000011111111", "%1111111111111111", "%111", "'A", "'", "''", "'AB",
    "K5", "K0", "K200", "K300", "KADDR", "FWD", "BACK", "FAR", "NOSUCH", "A", "B", "D", "X", "PC", "PCR", "@", "@@", "K5K", "5K",
]

PREFIXED = [p + v for p in ("#", "<", ">") for v in
            ("0", "1", "127", "128", "255", "256", "65535", "65536", "-1", "-128", "-129", "$10", "$FF", "$100", "$1234", "$12345",
             "%00000001", "%0000000100000000", "'A", "K5", "K300", "KADDR", "FWD", "BACK", "NOSUCH", "K5+1", "FWD+1", "K300-K5", "", "#1", "<1")]

INDEXED = [
    ",X", ",Y", ",U", ",S", ",PC", ",PCR", ",Z", ",", ",X+", ",X++", ",-X", ",--X", ",Y+", ",--S", ",X+++", ",---X", ",-X+", ",+X", ",XY", ",x",
    "0,X", "1,X", "15,X", "16,X", "17,Y", "127,U", "128,S", "129,X", "255,X", "256,X", "32767,X", "32768,X", "65535,X", "65536,X",
    "-1,X", "-15,X", "-16,X", "-17,X", "-127,Y", "-128,U", "-129,S", "-256,X", "-32768,X", "-32769,X", "$0,X", "$F,X", "$10,X", "$7F,X", "$80,X",
    "$FF,X", "$100,X", "$0010,X", "$FFFF,X", "%00000001,X", "%0000000100000000,X", "'A,X", "A,X", "B,Y", "D,U", "A,S", "E,X", "X,X", "AB,X", "a,X",
    "K5,X", "K0,X", "K200,Y", "K300,U", "KADDR,S", "FWD,X", "BACK,Y", "FAR,U", "NOSUCH,X", "K5,X+", "1,X+", "1,-X", "0,X+", "0,--X", "K0,X++", "FWD,X+",
    "0,PCR", "1,PCR", "127,PCR", "128,PCR", "-1,PCR", "-128,PCR", "-129,PCR", "$10,PCR", "$1000,PCR", "K5,PCR", "K300,PCR", "KADDR,PCR", "FWD,PCR",
    "BACK,PCR", "FAR,PCR", "NOSUCH,PCR", "FWD+1,PCR", "BACK-1,PCR", "FAR+K5,PCR", "A,PCR", ",PCR+", "5,PC", "5,Z", "1,PC", "FWD,PC", "5,", "5,,X", "1,2,X",
    "<5,X", ">5,X", "#5,X", "<$10,X", ">$10,X", "<FWD,X", ">K5,PCR", "<K5,PCR", ">FWD,PCR",
]

INDIRECT = ["[" + text + "]" for text in INDEXED if text not in (",",)] + [
    "[]", "[", "]", "[[,X]]", "[,X", ",X]", "[0]", "[1]", "[$12]", "[$1234]", "[$12345]", "[255]", "[256]", "[65535]", "[65536]", "[-1]", "[K5]", "[K300]",
    "[KADDR]", "[FWD]", "[BACK]", "[NOSUCH]", "[FWD+1]", "[K5+1]", "[K300*K300]", "[#1]", "[<1]", "[>1]", "[A]", "[X]", "['A]", "[%00000001]",
]

REGISTER_LISTS = [
    "A", "B", "D", "X", "Y", "U", "S", "PC", "CC", "DP", "A,B", "A,B,X,Y", "CC,A,B,DP,X,Y,U,PC", "CC,A,B,DP,X,Y,S,PC", "D,A", "A,A", "X,X", "Z", "A,Z",
    "A,", ",A", "a", "A, B", "PCR", "A,B,C", "D,X", "X,D", "A,X", "X,A", "A,CC", "CC,DP", "DP,A", "PC,S", "S,PC", "U,S", "Y,U", "D,D", "B,B", "PC,PC",
    "A,D", "D,B", "CC,X", "X,CC", "A,B,X", "X", "1", "#1", "$10", "", "A;B", "A+B", "AA", "DPP",
]


def random_operands(seed, count):
    rng = random.Random(seed)
    alphabet = "0123456789$%#<>[],+-*/'ABDXYUSPCRK@ FWN"
    atoms = ["$", "%", "#", "<", ">", "[", "]", ",", "+", "-", "*", "/", "X", "Y", "U", "S", "PCR", "PC", "A", "B", "D", "K5", "K300", "FWD",
             "BACK", "KADDR", "0", "1", "16", "127", "128", "255", "256", "$10", "$1000", "++", "--", "'A", "%00000001"]
    out = []
    for _ in range(count):
        if rng.random() < 0.5:
            out.append("".join(rng.choice(atoms) for _ in range(rng.randint(1, 5))))
        else:
            out.append("".join(rng.choice(alphabet) for _ in range(rng.randint(1, 7))).strip())
    return [text for text in out if " " not in text and ";" not in text]
# ---- end of shared C12 helpers ----
# ---- cases for C12/l: Statement.parse_line() / split_delimited_string() / __str__() / set_address() ----
from cocoasm.values import NumericValue, NoneValue


def dump_statement(statement):
    out = {
        "is_empty": statement.is_empty, "is_comment_only": statement.is_comment_only, "label": statement.label,
        "mnemonic": statement.mnemonic, "comment": statement.comment, "fixed_size": statement.fixed_size,
        "instruction": None if statement.instruction is None else statement.instruction.mnemonic,
        "state": statement.state, "pcr_size_hint": statement.pcr_size_hint,
    }
    for key in ("operand", "original_operand"):
        operand = getattr(statement, key)
        out[key] = None if operand is None else [type(operand).__name__, operand.operand_string, str(operand.type), norm(operand.value),
                                                  norm(operand.left), norm(operand.right)]
    out["same_operand_object"] = statement.operand is statement.original_operand
    try:
        out["str"] = str(statement)
    except BaseException as error:      # noqa
        out["str"] = describe_error(error)
    try:
        out["include"] = statement.get_include_filename()
    except BaseException as error:      # noqa
        out["include"] = describe_error(error)
    return out


def parse(line):
    def run():
        try:
            statement = Statement(line)
        except BaseException as error:      # noqa
            return {"error": describe_error(error)}
        return dump_statement(statement)
    return run


LINES = [
    "", " ", "\n", "\t\n", "   \t  ", ";", "; a comment", "   ; indented comment   ", ";;double", "*star comment", "LABEL", "LABEL ", "LABEL  NOP", "LABEL  NOP ",
    " NOP", "  NOP", "\tNOP", "NOP", "  nop  ", "  Lda #1", "  lda  #$ff  ; lower case", "L1 LDA #1;tight comment", "L1 LDA #1 ;comment", "L1 LDA #1 ; ; two",
    "L1 LDA #1 no semicolon comment", "L1  LDA", "L1  LDA  ", "L@1 LDA <$10", "@ RTS", "1LABEL RTS", "LABEL: RTS", "LA-BEL RTS", "  FROB #1", "  FROB", "X FROB 1,2 ; c",
    "  LDA #1\n", "  LDA #1\r\n", "  LDA   #1   \t ; tabs\t", "  LDA #1 ; trailing   ", "  LDA\t#1", "  LDA ,X ; idx", "  LDA [,X]", "  LDA 'A", "  LDA #'A", "  LDA #';",
    "  LDA #'; ; c", "  LDA \"A\"", "  LDA {1}", "  LDA #1 #2", "  LDA é", "  LDA #1 ; é", "é LDA #1", "  LD A #1", "  RTS ; only comment", "  RTS extra", "  ABX 1",
    "  PSHS A,B ; regs", "  TFR A,B", "  BRA L1", "  LBRA  L1 ; far", "  ORG $1000", "L EQU 5", "L EQU $1000 ; sixteen", "L SET 5", "  END", "  END L1", "  NAM prog",
    "  NAM", "  INCLUDE file.asm", "  INCLUDE", "  INCLUDE a b", "  SETDP $10", "  RMB 10", "  FCB 1,2,3", "  FCB 1, 2", "  FDB $1234,5", "  FDB", "  FCB",
    "  FCC \"HELLO\"", "  FCC 'HELLO'", "  FCC /HELLO/", "  FCC \"HELLO WORLD\"", "  FCC \"HELLO WORLD\" ; greet", "  FCC \"HELLO WORLD\" greet", "  FCC \"HELLO  WORLD\"",
    "  FCC \"A;B\"", "  FCC \"A ; B\"", "  FCC \"A\";c", "  FCC \"A\" ;c", "  FCC \"A\"  ;  c  ", "  FCC \"UNTERMINATED", "  FCC \"UNTERMINATED ; c", "  FCC UNQUOTED",
    "  FCC UNQUOTEDU", "  FCC U U", "  FCC \"\"", "  FCC \"\" ; empty", "  FCC \"", "  FCC \" ", "  FCC", "  FCC ", "  FCC ;", "  FCC ; c", "  FCC ;;", "  FCC ;A;B", "  FCC \"A\"\"B\"",
    "  FCC \"A\" \"B\"", "  FCC 'A' ; 'B'", "  FCC \"é\"", "  FCC \"TAB\tIN\"", "  FCC 1ABC1", "  FCC 1ABC1 x1", "  FCC ,A,", "  FCC #A#", "L  FCC \"LABELLED\" ; c", "  fcc \"lower\"",
    "  FCC \"A\"x", "  FCC \"A\"xy ; z", "  FCC \"A B\"x y", "  FCC \"A   B\"   ;   spaced", "  FCC {A}", "  FCC \"A\\\"B\"",
]
for index, line in enumerate(LINES):
    case("parse %03d %r" % (index, line), parse(line))
    if not line.endswith("\n"):
        case("parse-nl %03d %r" % (index, line), parse(line + "\n"))

rng = random.Random(5)
PIECES = ["", " ", "  ", "\t", "L1", "LDA", "FCC", "NOP", "FCB", "#1", "$10", ",X", "\"", "'", "A B", ";", "; c", "x", "\"S T\"", "/a b/", "1,2", "[", "]", "+", "@"]
for index in range(400):
    line = "".join(rng.choice(PIECES) + rng.choice(["", " ", " "]) for _ in range(rng.randint(1, 7)))
    case("parse random %03d %r" % (index, line), parse(line + rng.choice(["", "\n", "\n", " \n"])))

# whole programs: listing lines come from __str__, addresses from set_address
statement_cases("stmt", ["LDA", "STA", "LDX", "JMP", "LEAX", "BRA", "LBRA", "PSHS", "TFR", "ABX", "FCB", "FDB", "RMB", "ORG", "FCC", "END", "NAM", "SETDP"],
                PLAIN[::2] + PREFIXED[::4] + INDEXED[::6] + INDIRECT[::9] + REGISTER_LISTS[::4] + ["\"TEXT\"", "'T'", "/A,B/", "\"A B\" c"])
statement_cases("stmt-labelled", ["EQU", "SET", "FCC", "RMB", "ORG", "LDA"], PLAIN[::3] + ["\"TEXT\"", "*", "K5+1"], label="LBL")

PROGRAMS = {
    "orgs": ["  ORG $1000\n", "A NOP\n", "  ORG $2000\n", "B NOP\n", "  ORG $0\n", "C NOP\n", "  ORG $FFFF\n", "D NOP\n", "E NOP\n"],
    "org-overflow": ["  ORG $FFFE\n", "  LDX #1\n", "  NOP\n"],
    "rmb-overflow": ["  RMB 40000\n", "  RMB 30000\n", "X NOP\n"],
    "strings": ["  NAM s\n", "S1 FCC \"ONE TWO\" first\n", "S2 FCC /THREE/\n", "S3 FCC 'A'\n", "  FCB 0\n"],
    "comments": ["; head\n", "\n", "L LDA #1 ; one\n", "   ; middle\n", "  RTS\n", ";tail"],
    "org-symbol": ["BASE EQU $3000\n", "  ORG BASE\n", "S NOP\n"],
    "org-expr": ["BASE EQU $3000\n", "  ORG BASE+16\n", "S NOP\n"],
    "org-label": ["  ORG $100\n", "HERE ORG $200\n", "  JMP HERE\n"],
}
for name, lines in PROGRAMS.items():
    case("program " + name, lambda lines=lines: assemble(lines))


def addressing(initial, requested):
    def run():
        statement = Statement("  NOP\n")
        if initial is not None:
            statement.code_pkg.address = NumericValue(initial)
        returned = statement.set_address(requested)
        return [returned, norm(statement.code_pkg.address), str(statement)]
    return run


for initial in [None, 0, 1, 0x1000, 0xFFFF]:
    for requested in [0, 5, 255, 256, 0x8000, 0xFFFF, 0x10000, 70000, -1, -40000]:
        case("set_address %r %r" % (initial, requested), addressing(initial, requested))
'''


def run_tree(tree):
    tree = os.path.realpath(tree)
    with tempfile.TemporaryDirectory(prefix="equiv_") as tmp:
        driver = os.path.join(tmp, "driver.py")
        with open(driver, "w") as handle:
            handle.write(PRELUDE + "\n" + CASES + "\nfinish()\n")
        scratch = os.path.join(tmp, "scratch")
        os.mkdir(scratch)
        env = dict(os.environ, PYTHONDONTWRITEBYTECODE="1", PYTHONHASHSEED="0")
        env.pop("PYTHONPATH", None)
        proc = subprocess.run(
            [sys.executable, "-B", driver, tree, scratch],
            cwd=tree, env=env, capture_output=True, text=True,
        )
        if proc.returncode != 0:
            print("driver failed in", tree)
            print(proc.stderr[-4000:])
            sys.exit(2)
        return json.loads(proc.stdout.splitlines()[-1])


def main():
    if len(sys.argv) != 3:
        print("usage: equiv.py <treeA> <treeB>")
        sys.exit(2)
    res_a = run_tree(sys.argv[1])
    res_b = run_tree(sys.argv[2])
    bad = 0
    if [r["name"] for r in res_a] != [r["name"] for r in res_b]:
        print("case lists differ")
        bad += 1
    for rec_a, rec_b in zip(res_a, res_b):
        if rec_a != rec_b:
            bad += 1
            print("DIFF in case", rec_a["name"])
            for key in sorted(set(rec_a) | set(rec_b)):
                if rec_a.get(key) != rec_b.get(key):
                    print("   ", key, ":", repr(rec_a.get(key))[:300], "!=", repr(rec_b.get(key))[:300])
    errors = sum(1 for r in res_a if "exc" in r or "exit" in r)
    print("%d cases compared (%d of them end in an exception/exit), %d differ" % (len(res_a), errors, bad))
    sys.exit(1 if bad else 0)


if __name__ == "__main__":
    main()
