#!/usr/bin/env python
"""
Differential check for refactoring C11/j: DiskFile.write_to_granules() as a loop over the allocated granules and the granule reservation of add_file() in allocate_granules().

usage: equiv.py <treeA> <treeB>   (exit 0 = every observable result agrees)
Each tree is exercised in its own subprocess with the tree first on sys.path.
"""
import sys, os, json, subprocess, tempfile

PRELUDE = r'''
# ---- driver prelude: runs inside ONE tree (argv[1]) with a scratch dir (argv[2]) ----
import sys, os, io, json, hashlib, contextlib, importlib, shutil, traceback

TREE = os.path.realpath(sys.argv[1])
SCRATCH = os.path.realpath(sys.argv[2])
sys.path.insert(0, TREE)
os.chdir(TREE)

import cocoasm
assert os.path.realpath(cocoasm.__file__).startswith(TREE + os.sep), cocoasm.__file__

RESULTS = []
_case_no = [0]


def norm(value):
    """Turns any result into something JSON can carry, without losing what is observable."""
    if isinstance(value, (bytes, bytearray)):
        return {"bytes": bytes(value).hex()}
    if isinstance(value, (list, tuple)):
        if len(value) > 64 and all(isinstance(x, int) and not isinstance(x, bool) for x in value):
            blob = ",".join(str(x) for x in value).encode()
            return {"ints": len(value), "sha1": hashlib.sha1(blob).hexdigest()}
        return [norm(x) for x in value]
    if isinstance(value, dict):
        return {str(k): norm(v) for k, v in value.items()}
    if value is None or isinstance(value, (bool, int, float, str)):
        return value
    if hasattr(value, "_asdict"):
        return {"nt": type(value).__name__, "fields": norm(value._asdict())}
    if hasattr(value, "hex") and hasattr(value, "hex_len"):
        try:
            return {"value": type(value).__name__, "hex": value.hex(), "int": getattr(value, "int", None)}
        except Exception as error:      # noqa
            return {"value": type(value).__name__, "hex_error": repr(error)}
    return {"repr": type(value).__name__ + ":" + str(value)}


def snapshot(directory):
    files = {}
    for root, _, names in os.walk(directory):
        for name in sorted(names):
            path = os.path.join(root, name)
            with open(path, "rb") as handle:
                blob = handle.read()
            files[os.path.relpath(path, directory)] = [len(blob), hashlib.sha1(blob).hexdigest()]
    return files


def case(name, fn, workdir=None):
    """Runs fn(), records value / exception / stdout / stderr / files left in workdir."""
    out, err = io.StringIO(), io.StringIO()
    record = {"name": name}
    old_cwd = os.getcwd()
    if workdir:
        os.chdir(workdir)
    try:
        with contextlib.redirect_stdout(out), contextlib.redirect_stderr(err):
            try:
                record["value"] = norm(fn())
            except SystemExit as error:
                record["exit"] = norm(error.code)
            except BaseException as error:      # noqa
                record["exc"] = [type(error).__name__, str(error)]
    finally:
        os.chdir(old_cwd)
    record["stdout"] = out.getvalue()
    record["stderr"] = err.getvalue()
    if workdir:
        record["files"] = snapshot(workdir)
    RESULTS.append(record)
    return record


def fresh_dir(files=None):
    _case_no[0] += 1
    path = os.path.join(SCRATCH, "c%04d" % _case_no[0])
    os.makedirs(path)
    for name, content in (files or {}).items():
        mode = "wb" if isinstance(content, (bytes, bytearray)) else "w"
        with open(os.path.join(path, name), mode) as handle:
            handle.write(content)
    return path


def cli(module_name, argv):
    """Runs a command-line front end the way `python module.py argv...` would."""
    def run():
        module = importlib.import_module(module_name)
        assert os.path.realpath(module.__file__).startswith(TREE + os.sep)
        old = sys.argv
        sys.argv = [module_name + ".py"] + list(argv)
        try:
            module.main(module.parse_arguments())
        finally:
            sys.argv = old
    return run


def cli_case(name, module_name, argv, files=None, workdir=None, then=()):
    """One CLI run in a fresh (or given) directory, optionally followed by more runs in the same directory."""
    workdir = workdir or fresh_dir(files)
    case(name, cli(module_name, argv), workdir)
    for index, (module2, argv2) in enumerate(then):
        case("%s/then%d" % (name, index), cli(module2, argv2), workdir)
    return workdir


def finish():
    json.dump(RESULTS, sys.stdout)
    sys.stdout.write("\n")
# ---- end of prelude ----
'''

CASES = r'''# ---- cases for C11/j: DiskFile.write_to_granules (loop) and DiskFile.allocate_granules ----
from cocoasm.virtualfiles.disk import DiskFile, DiskConstants, MLPreamble, BasicPreamble, ASCIIPreamble, Postamble
from cocoasm.virtualfiles.cassette import CassetteFile
from cocoasm.virtualfiles.coco_file import CoCoFile
from cocoasm.values import NumericValue, NoneValue


def program(size, name="prog", origin="$0E00", end=None):
    lines = []
    if name is not None:
        lines.append("        NAM %s\n" % name)
    if origin is not None:
        lines.append("        ORG %s\n" % origin)
    lines.append("START   LDA #$01\n")
    left = size - 2
    value = 0
    while left > 0:
        chunk = min(left, 40)
        lines.append("        FCB %s\n" % ",".join(str((value + i) % 251) for i in range(chunk)))
        value += chunk
        left -= chunk
    lines.append("        END START\n" if end is None else "        END %s\n" % end)
    return "".join(lines)


# 1. end to end: sizes around the granule boundaries (2304 bytes per granule, 5+5 bytes of amble)
SIZES = [2, 3, 255, 256, 2293, 2294, 2295, 2298, 2299, 2300, 2303, 2304, 2305,
         4597, 4598, 4599, 4603, 4604, 4608, 6902, 6903, 6907, 6908, 9300, 20000]
for size in SIZES:
    cli_case("cli-dsk-%d" % size, "assembler", ["p.asm", "--to_dsk", "p.dsk", "--to_cas", "p.cas", "--to_bin", "p.bin"],
             files={"p.asm": program(size)},
             then=[("file_util", ["p.dsk", "--list"]), ("file_util", ["p.cas", "--list"])])

# 2. several programs appended to the same disk, then listed and extracted again
work = cli_case("append-1", "assembler", ["a.asm", "--to_dsk", "multi.dsk"],
                files={"a.asm": program(2299, "first"), "b.asm": program(5000, "second", "$3F00"),
                       "c.asm": program(2, "third", None), "d.asm": program(4603, None)})
cli_case("append-2", "assembler", ["b.asm", "--to_dsk", "multi.dsk", "--append"], workdir=work)
cli_case("append-3", "assembler", ["c.asm", "--to_dsk", "multi.dsk", "--append"], workdir=work)
cli_case("append-4", "assembler", ["d.asm", "--to_dsk", "multi.dsk", "--append", "--name", "FromArg"], workdir=work)
cli_case("append-5-noappend", "assembler", ["a.asm", "--to_dsk", "multi.dsk"], workdir=work)
cli_case("append-6-noname", "assembler", ["d.asm", "--to_dsk", "multi.dsk", "--append"], workdir=work)
cli_case("append-list", "file_util", ["multi.dsk", "--list"], workdir=work)
cli_case("append-to-cas", "file_util", ["multi.dsk", "--to_cas", "multi.cas"], workdir=work,
         then=[("file_util", ["multi.cas", "--list"])])


# 3. library level
def ml_file(size, name="LIB", load=0x2000, execute=0x2010, seed=7):
    return CoCoFile(name=name, extension="BIN", type=NumericValue(2), data_type=NumericValue(0),
                    load_addr=NumericValue(load), exec_addr=NumericValue(execute),
                    data=[(seed * i + 3) % 256 for i in range(size)])


def basic_file(size, ascii_flag=0x00, name="BASPROG"):
    return CoCoFile(name=name, extension="BAS", type=NumericValue(0), data_type=NumericValue(ascii_flag),
                    data=[(5 * i + 1) % 256 for i in range(size)])


def add_and_dump(files, **kwargs):
    def run():
        disk = DiskFile(**kwargs)
        for coco_file in files:
            disk.add_file(coco_file)
        listing = DiskFile(buffer=list(disk.get_buffer())).list_files()
        return [disk.get_buffer(), listing]
    return run


for size in [0, 1, 2293, 2294, 2298, 2299, 2300, 2301, 2304, 4602, 4603, 4604, 11515, 65535]:
    case("lib-ml-%d" % size, add_and_dump([ml_file(size)]))
for size in [0, 1, 2300, 2301, 2302, 2304, 4605, 4606]:
    case("lib-basic-%d" % size, add_and_dump([basic_file(size)]))
    case("lib-ascii-%d" % size, add_and_dump([basic_file(size, 0xFF)]))
case("lib-mixed", add_and_dump([ml_file(3000, "ONE"), basic_file(10, 0, "TWO"), basic_file(2304, 0xFF, "THREE"), ml_file(2299, "FOUR")]))
case("lib-fill-order", add_and_dump([ml_file(7000, "ORDER")], granule_fill_order=list(range(68))))
case("lib-fill-order-short", add_and_dump([ml_file(10, "ORDER")], granule_fill_order=[1, 2, 3]))
case("lib-fill-order-bad", add_and_dump([ml_file(10, "ORDER")], granule_fill_order=list(range(1, 69))))
case("lib-disk-full", add_and_dump([ml_file(60000, "BIG1"), ml_file(60000, "BIG2"), ml_file(40000, "BIG3")]))
case("lib-disk-exactly-full", add_and_dump([ml_file(2304 * 68 - 11, "ALL")]))
case("lib-disk-one-too-many", add_and_dump([ml_file(2304 * 68 - 10, "ALL")]))
case("lib-dir-full", add_and_dump([basic_file(1, 0, "F%d" % i) for i in range(40)]))


def full_disk_state():
    disk = DiskFile()
    out = []
    for i in range(70):
        try:
            disk.add_file(basic_file(3, 0, "N%d" % i))
            out.append("ok")
        except Exception as error:
            out.append([type(error).__name__, str(error)])
    return [out, disk.get_buffer()]


case("lib-seventy-small-files", full_disk_state)


def allocation(count, taken=()):
    def run():
        disk = DiskFile()
        for granule in taken:
            disk.buffer[DiskConstants.FAT_OFFSET + granule] = 0xC1
        helper = getattr(disk, "allocate_granules", None)
        if helper is None:
            reserved = []
            while len(reserved) < count:
                granule = disk.find_empty_granule()
                reserved.append(granule)
                disk.buffer[DiskConstants.FAT_OFFSET + granule] = 0x99
        else:
            reserved = helper(count)
        return [reserved, disk.buffer[DiskConstants.FAT_OFFSET:DiskConstants.FAT_OFFSET + 68]]
    return run


case("alloc-0", allocation(0))
case("alloc-1", allocation(1))
case("alloc-68", allocation(68))
case("alloc-69", allocation(69))
case("alloc-taken", allocation(5, taken=[32, 33, 34, 30]))


def direct_write(size, granules, with_pre=True, with_post=True, first=True, basic=False):
    def run():
        disk = DiskFile()
        preamble = None
        if with_pre:
            preamble = BasicPreamble() if basic else MLPreamble()
            preamble.data_length = NumericValue(size)
            if not basic:
                preamble.load_addr = NumericValue(0x1234)
        postamble = None
        if with_post:
            postamble = Postamble()
            postamble.exec_addr = NumericValue(0xABCD)
        data = [(i * 3 + 1) % 256 for i in range(size)]
        granule_list = None if granules is None else list(granules)
        result = disk.write_to_granules(data, granule_list, preamble, postamble, first_granule=first)
        return [result, granule_list, disk.get_buffer()]
    return run


case("direct-none-list", direct_write(10, None))
case("direct-empty-list", direct_write(10, []))
case("direct-one", direct_write(10, [0]))
case("direct-not-first", direct_write(10, [0], first=False))
case("direct-not-first-long", direct_write(5000, [3, 9, 4], first=False))
case("direct-no-preamble", direct_write(5000, [3, 9, 4], with_pre=False))
case("direct-no-postamble", direct_write(5000, [3, 9, 4], with_post=False))
case("direct-neither", direct_write(2304, [66, 67], with_pre=False, with_post=False))
case("direct-too-few-granules", direct_write(5000, [5]))
case("direct-too-few-granules-2", direct_write(2299, [5]))
case("direct-extra-granules", direct_write(100, [5, 6, 7]))
case("direct-exact-fit", direct_write(2299, [10, 20]))
case("direct-exact-fit-2", direct_write(2299 + 2304, [10, 20, 40]))
case("direct-postamble-straddles", direct_write(2297, [10, 20]))
case("direct-last-granule", direct_write(2299, [67]))
case("direct-last-granule-overflow", direct_write(2304, [66, 67, 68]))
case("direct-bad-granule", direct_write(10, [70]))
case("direct-basic-preamble", direct_write(2301, [1, 0], basic=True, with_post=False))
case("direct-high-granules", direct_write(7000, [33, 34, 35, 36]))
'''


def run_tree(tree):
    tree = os.path.realpath(tree)
    with tempfile.TemporaryDirectory(prefix="equiv_") as tmp:
        driver = os.path.join(tmp, "driver.py")
        with open(driver, "w") as handle:
            handle.write(PRELUDE + "\n" + CASES + "\nfinish()\n")
        scratch = os.path.join(tmp, "scratch")
        os.mkdir(scratch)
        env = dict(os.environ, PYTHONDONTWRITEBYTECODE="1", PYTHONHASHSEED="0")
        env.pop("PYTHONPATH", None)
        proc = subprocess.run(
            [sys.executable, "-B", driver, tree, scratch],
            cwd=tree, env=env, capture_output=True, text=True,
        )
        if proc.returncode != 0:
            print("driver failed in", tree)
            print(proc.stderr[-4000:])
            sys.exit(2)
        return json.loads(proc.stdout.splitlines()[-1])


def main():
    if len(sys.argv) != 3:
        print("usage: equiv.py <treeA> <treeB>")
        sys.exit(2)
    res_a = run_tree(sys.argv[1])
    res_b = run_tree(sys.argv[2])
    bad = 0
    if [r["name"] for r in res_a] != [r["name"] for r in res_b]:
        print("case lists differ")
        bad += 1
    for rec_a, rec_b in zip(res_a, res_b):
        if rec_a != rec_b:
            bad += 1
            print("DIFF in case", rec_a["name"])
            for key in sorted(set(rec_a) | set(rec_b)):
                if rec_a.get(key) != rec_b.get(key):
                    print("   ", key, ":", repr(rec_a.get(key))[:300], "!=", repr(rec_b.get(key))[:300])
    errors = sum(1 for r in res_a if "exc" in r or "exit" in r)
    print("%d cases compared (%d of them end in an exception/exit), %d differ" % (len(res_a), errors, bad))
    sys.exit(1 if bad else 0)


if __name__ == "__main__":
    main()
