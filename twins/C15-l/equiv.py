#!/usr/bin/env python
"""
Differential check for refactoring C15/l: VirtualFile.get_coco_files() over PROBE_ORDER, save_virtual_file() over SAVE_AS with write_image().

usage: equiv.py <treeA> <treeB>   (exit 0 = every observable result agrees)
Each tree is exercised in its own subprocess with the tree first on sys.path.
"""
import sys, os, json, subprocess, tempfile

PRELUDE = r'''
# ---- driver prelude: runs inside ONE tree (argv[1]) with a scratch dir (argv[2]) ----
import sys, os, io, json, hashlib, contextlib, importlib, shutil, traceback

TREE = os.path.realpath(sys.argv[1])
SCRATCH = os.path.realpath(sys.argv[2])
sys.path.insert(0, TREE)
os.chdir(TREE)

import cocoasm
assert os.path.realpath(cocoasm.__file__).startswith(TREE + os.sep), cocoasm.__file__

RESULTS = []
_case_no = [0]


def norm(value):
    """Turns any result into something JSON can carry, without losing what is observable."""
    if isinstance(value, (bytes, bytearray)):
        return {"bytes": bytes(value).hex()}
    if isinstance(value, (list, tuple)):
        if len(value) > 64 and all(isinstance(x, int) and not isinstance(x, bool) for x in value):
            blob = ",".join(str(x) for x in value).encode()
            return {"ints": len(value), "sha1": hashlib.sha1(blob).hexdigest()}
        return [norm(x) for x in value]
    if isinstance(value, dict):
        return {str(k): norm(v) for k, v in value.items()}
    if isinstance(value, float):
        return {"float": repr(value)}
    if value is None or isinstance(value, (bool, int, str)):
        return value
    if hasattr(value, "_asdict"):
        return {"nt": type(value).__name__, "fields": norm(value._asdict())}
    if hasattr(value, "hex") and hasattr(value, "hex_len"):
        try:
            return {"value": type(value).__name__, "hex": value.hex(), "int": getattr(value, "int", None)}
        except Exception as error:      # noqa
            return {"value": type(value).__name__, "hex_error": repr(error)}
    return {"repr": type(value).__name__ + ":" + str(value)}


def snapshot(directory):
    files = {}
    for root, _, names in os.walk(directory):
        for name in sorted(names):
            path = os.path.join(root, name)
            with open(path, "rb") as handle:
                blob = handle.read()
            files[os.path.relpath(path, directory)] = [len(blob), hashlib.sha1(blob).hexdigest()]
    return files


def case(name, fn, workdir=None):
    """Runs fn(), records value / exception / stdout / stderr / files left in workdir."""
    out, err = io.StringIO(), io.StringIO()
    record = {"name": name}
    old_cwd = os.getcwd()
    if workdir:
        os.chdir(workdir)
    try:
        with contextlib.redirect_stdout(out), contextlib.redirect_stderr(err):
            try:
                record["value"] = norm(fn())
            except SystemExit as error:
                record["exit"] = norm(error.code)
            except BaseException as error:      # noqa
                record["exc"] = [type(error).__name__, str(error)]
    finally:
        os.chdir(old_cwd)
    record["stdout"] = out.getvalue()
    record["stderr"] = err.getvalue()
    if workdir:
        record["files"] = snapshot(workdir)
    RESULTS.append(record)
    return record


def fresh_dir(files=None):
    _case_no[0] += 1
    path = os.path.join(SCRATCH, "c%04d" % _case_no[0])
    os.makedirs(path)
    for name, content in (files or {}).items():
        mode = "wb" if isinstance(content, (bytes, bytearray)) else "w"
        os.makedirs(os.path.dirname(os.path.join(path, name)), exist_ok=True)
        with open(os.path.join(path, name), mode) as handle:
            handle.write(content)
    return path


def cli(module_name, argv):
    """Runs a command-line front end the way `python module.py argv...` would."""
    def run():
        module = importlib.import_module(module_name)
        assert os.path.realpath(module.__file__).startswith(TREE + os.sep)
        old = sys.argv
        sys.argv = [module_name + ".py"] + list(argv)
        try:
            module.main(module.parse_arguments())
        finally:
            sys.argv = old
    return run


def cli_case(name, module_name, argv, files=None, workdir=None, then=()):
    """One CLI run in a fresh (or given) directory, optionally followed by more runs in the same directory."""
    workdir = workdir or fresh_dir(files)
    case(name, cli(module_name, argv), workdir)
    for index, (module2, argv2) in enumerate(then):
        case("%s/then%d" % (name, index), cli(module2, argv2), workdir)
    return workdir


def finish():
    json.dump(RESULTS, sys.stdout)
    sys.stdout.write("\n")
# ---- end of prelude ----
'''

CASES = r'''# ---- shared C15 helpers: disk histories and everything observable about the image after each step ----
import random
from cocoasm.virtualfiles.disk import DiskFile, DiskConstants, MLPreamble, BasicPreamble, ASCIIPreamble, Postamble
from cocoasm.virtualfiles.cassette import CassetteFile
from cocoasm.virtualfiles.coco_file import CoCoFile
from cocoasm.virtualfiles.virtual_file import VirtualFile, VirtualFileType
from cocoasm.virtualfiles.source_file import SourceFile, SourceFileType
from cocoasm.values import NumericValue, NoneValue


def pattern(size, seed=7):
    return [(seed * i + 3) % 256 for i in range(size)]


def ml_file(size, name="LIB", load=0x2000, execute=0x2010, seed=7):
    return CoCoFile(name=name, extension="BIN", type=NumericValue(2), data_type=NumericValue(0),
                    load_addr=NumericValue(load), exec_addr=NumericValue(execute), data=pattern(size, seed))


def basic_file(size, name="BASPROG", ascii_flag=0x00, seed=5):
    return CoCoFile(name=name, extension="BAS", type=NumericValue(0), data_type=NumericValue(ascii_flag), data=pattern(size, seed))


def image_digest(buffer):
    blob = ",".join(str(x) for x in buffer).encode()
    fat = list(buffer[DiskConstants.FAT_OFFSET:DiskConstants.FAT_OFFSET + 68]) if len(buffer) >= DiskConstants.FAT_OFFSET + 68 else None
    slots = None
    if len(buffer) >= DiskConstants.DIR_OFFSET + 72 * 32:
        slots = [buffer[DiskConstants.DIR_OFFSET + 32 * n] for n in range(72)]
    return {"len": len(buffer), "sha1": hashlib.sha1(blob).hexdigest(), "fat": fat, "slot_first_bytes": slots}


def describe_files(files):
    return [[f.name, f.extension, norm(f.type), norm(f.data_type), norm(f.load_addr), norm(f.exec_addr), len(f.data),
             hashlib.sha1(",".join(map(str, f.data)).encode()).hexdigest()] for f in files]


def history(files, **kwargs):
    """Adds the files one after the other to one image; after every step reports outcome, image and listing."""
    def run():
        disk = DiskFile(**kwargs)
        steps = []
        for coco_file in files:
            step = {"file": [coco_file.name, len(coco_file.data)]}
            try:
                step["returned"] = norm(disk.add_file(coco_file))
            except BaseException as error:      # noqa
                step["raised"] = [type(error).__name__, str(error)]
            step["image"] = image_digest(disk.get_buffer())
            steps.append(step)
        try:
            listing = describe_files(DiskFile(buffer=list(disk.get_buffer())).list_files())
        except BaseException as error:      # noqa
            listing = [type(error).__name__, str(error)]
        return {"steps": steps, "listing": listing}
    return run


def asm_program(size, name="prog", origin="$0E00"):
    lines = []
    if name is not None:
        lines.append("        NAM %s\n" % name)
    if origin is not None:
        lines.append("        ORG %s\n" % origin)
    lines.append("START   LDA #$01\n")
    left, value = size - 2, 0
    while left > 0:
        chunk = min(left, 40)
        lines.append("        FCB %s\n" % ",".join(str((value + i) % 251) for i in range(chunk)))
        value += chunk
        left -= chunk
    lines.append("        END START\n")
    return "".join(lines)


GRANULE = 2304
EDGE_SIZES = [0, 1, 245, 246, 247, 255, 256, GRANULE - 11, GRANULE - 10, GRANULE - 9, GRANULE - 6, GRANULE - 5, GRANULE - 4, GRANULE - 1, GRANULE, GRANULE + 1,
              2 * GRANULE - 11, 2 * GRANULE - 10, 2 * GRANULE - 9, 2 * GRANULE - 5, 2 * GRANULE, 3 * GRANULE - 10, 5 * GRANULE + 17, 30000, 65535]
REVERSED_ORDER = list(reversed(DiskConstants.GRANULE_FILL_ORDER))
ASCENDING_ORDER = list(range(68))
SHUFFLED_ORDER = list(DiskConstants.GRANULE_FILL_ORDER)
random.Random(3).shuffle(SHUFFLED_ORDER)


def standard_histories(label):
    for size in EDGE_SIZES:
        case("%s single ml %d" % (label, size), history([ml_file(size)]))
        case("%s single basic %d" % (label, size), history([basic_file(size)]))
        case("%s single ascii %d" % (label, size), history([basic_file(size, "TEXT", 0xFF)]))
    case(label + " slots: 75 one-byte files", history([basic_file(1, "F%d" % i) for i in range(75)]))
    case(label + " slots: 75 empty ml files", history([ml_file(0, "E%d" % i) for i in range(75)]))
    case(label + " granules: 40 two-granule files", history([ml_file(GRANULE + 10, "G%d" % i) for i in range(40)]))
    case(label + " granules: big files", history([ml_file(60000, "BIG1"), ml_file(60000, "BIG2"), ml_file(40000, "BIG3"), ml_file(10, "TINY"), ml_file(30000, "MID")]))
    case(label + " granules: exactly full", history([basic_file(GRANULE * 68 - 1, "ALL", 0xFF), ml_file(0, "MORE")]))
    case(label + " granules: one byte too many", history([basic_file(GRANULE * 68, "ALL", 0xFF), ml_file(0, "MORE")]))
    case(label + " granules: ml over 64K", history([ml_file(65536, "TOOBIG"), ml_file(65535, "MAX"), ml_file(65535, "MAX2"), ml_file(65535, "MAX3")]))
    case(label + " granules: 67 then 1 then 1", history([basic_file(GRANULE * 67 - 1, "MOST", 0xFF), ml_file(GRANULE - 11, "LAST"), ml_file(0, "NONE")]))
    case(label + " granules: 67 then 2", history([basic_file(GRANULE * 67 - 1, "MOST", 0xFF), ml_file(GRANULE - 10, "TWO"), ml_file(0, "ONE")]))
    case(label + " mixture", history([ml_file(3000, "ONE"), basic_file(10, "TWO"), basic_file(GRANULE, "THREE", 0xFF), ml_file(GRANULE - 5, "FOUR"),
                                      ml_file(70000 % 65536, "FIVE"), basic_file(GRANULE - 3, "SIX"), ml_file(50000, "SEVEN"), ml_file(50000, "EIGHT"), ml_file(5, "NINE")]))
    rng = random.Random(99)
    for index in range(6):
        files = [rng.choice([ml_file, basic_file])(rng.choice([0, 5, 300, GRANULE - 10, GRANULE, 5000, 12000, 30000]), "R%d" % n) for n in range(rng.randint(8, 30))]
        case("%s random history %d" % (label, index), history(files))
    for name, order in [("reversed", REVERSED_ORDER), ("ascending", ASCENDING_ORDER), ("shuffled", SHUFFLED_ORDER)]:
        case("%s %s order: mixture" % (label, name), history([ml_file(7000, "A"), basic_file(GRANULE, "B"), ml_file(100, "C"), ml_file(60000, "D"), ml_file(60000, "E"), ml_file(30000, "F")],
                                                              granule_fill_order=order))
        case("%s %s order: to full" % (label, name), history([ml_file(GRANULE + 10, "G%d" % i) for i in range(36)], granule_fill_order=order))
    case(label + " short fill order", history([ml_file(10, "A")], granule_fill_order=[1, 2, 3]))
    case(label + " fill order with bad granule", history([ml_file(10, "A"), ml_file(GRANULE * 3, "B")], granule_fill_order=list(range(1, 69))))
    case(label + " fill order with duplicates", history([ml_file(GRANULE * 3, "A"), ml_file(GRANULE * 3, "B")], granule_fill_order=[5] * 68))
# ---- end of shared C15 helpers ----
# ---- cases for C15/l: VirtualFile.get_coco_files() over PROBE_ORDER, save_virtual_file() over SAVE_AS and write_image() ----
def disk_image(files, **kwargs):
    disk = DiskFile(**kwargs)
    disk.add_files(files)
    return bytes(disk.get_buffer())


def tape_image(files):
    tape = CassetteFile()
    tape.add_files(files)
    return bytes(tape.get_buffer())


SMALL = [ml_file(10, "ALPHA"), basic_file(300, "BETA"), basic_file(40, "GAMMA", 0xFF)]
FULL_SLOTS = [basic_file(1, "F%d" % i) for i in range(68)]
NEARLY_FULL = [basic_file(GRANULE * 66 - 1, "MOST", 0xFF)]
HOSTS = {
    "disk": disk_image(SMALL), "disk-empty": disk_image([]), "disk-full-slots": disk_image(FULL_SLOTS), "disk-nearly-full": disk_image(NEARLY_FULL),
    "tape": tape_image(SMALL), "tape-one": tape_image([ml_file(5000, "BIGTAPE")]), "empty": b"", "text": b"hello world\n" * 10, "zeros": bytes(4000),
    "short-disk": disk_image(SMALL)[:161279], "long-disk": disk_image(SMALL) + b"\x00" * 10, "ff-disk": b"\xff" * 161280, "sync-only": bytes([0x55, 0x3C, 0x00] * 30),
    "tape-truncated": tape_image(SMALL)[:400], "tape-bad-block": tape_image(SMALL)[:256 + 21 + 256 + 2] + b"\x07" + tape_image(SMALL)[256 + 21 + 256 + 3:],
}


def describe_virtual(virtual_file):
    return [str(virtual_file.virtual_file_type), virtual_file.file_exists, describe_files(virtual_file.list_files()),
            describe_files(virtual_file.list_files(["BETA"])), describe_files(virtual_file.list_files(["ALPHA   ", "BETA"]))]


def open_host(declared=None):
    def run():
        source = SourceFile("host.img", file_type=SourceFileType.BINARY)
        virtual_file = VirtualFile(source) if declared is None else VirtualFile(source, declared)
        try:
            virtual_file.open_virtual_file()
        except BaseException as error:      # noqa
            return [[type(error).__name__, str(error)], describe_virtual(virtual_file)]
        probe = virtual_file.get_coco_files()
        return ["opened", describe_virtual(virtual_file), [describe_files(probe[0]), str(probe[1])]]
    return run


for host, blob in HOSTS.items():
    case("open %s" % host, open_host(), fresh_dir({"host.img": blob}))
    for declared in [VirtualFileType.DISK, VirtualFileType.CASSETTE, VirtualFileType.BINARY, VirtualFileType.UNKNOWN]:
        case("open %s declared %s" % (host, declared.name), open_host(declared), fresh_dir({"host.img": blob}))
case("open missing", open_host(), fresh_dir({}))
case("open missing declared disk", open_host(VirtualFileType.DISK), fresh_dir({}))
case("open directory", open_host(), fresh_dir({"host.img/inner": b"x"}))


def save(declared, to_add, append_mode=None, open_first=True):
    def run():
        source = SourceFile("host.img", file_type=SourceFileType.BINARY)
        virtual_file = VirtualFile(source, declared)
        out = []
        try:
            if open_first:
                virtual_file.open_virtual_file()
            for coco_file in to_add:
                virtual_file.add_coco_file(coco_file)
            if append_mode is None:
                out.append(["saved", virtual_file.save_virtual_file()])
            else:
                out.append(["saved", virtual_file.save_virtual_file(append_mode=append_mode)])
        except BaseException as error:      # noqa
            out.append([type(error).__name__, str(error)])
        out.append(str(virtual_file.virtual_file_type))
        out.append(len(source.get_buffer()))
        return out
    return run


ADDITIONS = {
    "nothing": [], "one small": [ml_file(100, "NEW")], "two": [ml_file(100, "NEW"), basic_file(5000, "NEW2")], "three granules": [ml_file(GRANULE * 2 + 10, "THREE")],
    "too big": [ml_file(60000, "BIG1"), ml_file(60000, "BIG2"), ml_file(60000, "BIG3")], "ml over 64K": [ml_file(70000, "OVER")],
}
TYPES = [VirtualFileType.DISK, VirtualFileType.CASSETTE, VirtualFileType.BINARY, VirtualFileType.UNKNOWN, None, "DISK", 3]
for declared in TYPES:
    for add_label, to_add in ADDITIONS.items():
        label = getattr(declared, "name", repr(declared))
        case("save new %s %s" % (label, add_label), save(declared, to_add), fresh_dir({}))
        case("save new %s %s append" % (label, add_label), save(declared, to_add, True), fresh_dir({}))
for host in ["disk", "disk-empty", "disk-full-slots", "disk-nearly-full", "tape", "tape-one", "empty", "text", "ff-disk"]:
    for declared in [VirtualFileType.DISK, VirtualFileType.CASSETTE, VirtualFileType.BINARY, None]:
        label = getattr(declared, "name", repr(declared))
        for add_label in ["nothing", "one small", "three granules", "too big"]:
            for append_mode in [False, True]:
                case("save onto %s as %s %s append=%s" % (host, label, add_label, append_mode), save(declared, ADDITIONS[add_label], append_mode),
                     fresh_dir({"host.img": HOSTS[host]}))
case("save without opening onto disk", save(VirtualFileType.DISK, ADDITIONS["one small"], False, open_first=False), fresh_dir({"host.img": HOSTS["disk"]}))
case("save without opening onto disk append", save(VirtualFileType.DISK, ADDITIONS["one small"], True, open_first=False), fresh_dir({"host.img": HOSTS["disk"]}))
case("save into missing directory", lambda: save(VirtualFileType.DISK, ADDITIONS["one small"])(), fresh_dir({}))


def save_elsewhere():
    source = SourceFile("no/such/dir/host.img", file_type=SourceFileType.BINARY)
    virtual_file = VirtualFile(source, VirtualFileType.DISK)
    virtual_file.open_virtual_file()
    virtual_file.add_coco_file(ml_file(5, "X"))
    virtual_file.save_virtual_file()


case("save into missing directory 2", save_elsewhere, fresh_dir({}))


def assembly_source_as_host():
    source = SourceFile("host.img")
    virtual_file = VirtualFile(source, VirtualFileType.CASSETTE)
    virtual_file.add_coco_file(ml_file(5, "X"))
    virtual_file.save_virtual_file()
    return len(source.get_buffer())


case("save through an ASSEMBLY source file", assembly_source_as_host, fresh_dir({}))

# through the tools: the host file must stay as it was when the save fails
for host in ["disk", "disk-full-slots", "disk-nearly-full", "tape", "text"]:
    files = {"d.img": HOSTS[host], "small.asm": asm_program(100, "small"), "big.asm": asm_program(9000, "big", "$1000"), "src.dsk": disk_image([ml_file(20000, "L1"), ml_file(20000, "L2")]),
             "src.cas": tape_image(SMALL)}
    for label, module, argv in [
        ("asm small", "assembler", ["small.asm", "--to_dsk", "d.img"]), ("asm small append", "assembler", ["small.asm", "--to_dsk", "d.img", "--append"]),
        ("asm big append", "assembler", ["big.asm", "--to_dsk", "d.img", "--append"]), ("asm big cas append", "assembler", ["big.asm", "--to_cas", "d.img", "--append"]),
        ("asm big bin append", "assembler", ["big.asm", "--to_bin", "d.img", "--append"]),
        ("copy dsk append", "file_util", ["src.dsk", "--to_dsk", "d.img", "--append"]), ("copy dsk", "file_util", ["src.dsk", "--to_dsk", "d.img"]),
        ("copy cas append", "file_util", ["src.cas", "--to_dsk", "d.img", "--append"]), ("copy to cas append", "file_util", ["src.dsk", "--to_cas", "d.img", "--append"]),
        ("copy one file", "file_util", ["src.cas", "--to_dsk", "d.img", "--append", "--files", "beta"]), ("list", "file_util", ["d.img", "--list"]),
        ("to bin", "file_util", ["d.img", "--to_bin", "out.bin"]), ("to bin one", "file_util", ["d.img", "--to_bin", "out.bin", "--files", "ALPHA"]),
    ]:
        cli_case("tool %s: %s" % (host, label), module, argv, files=files, then=[("file_util", ["d.img", "--list"])])
'''


def run_tree(tree):
    tree = os.path.realpath(tree)
    with tempfile.TemporaryDirectory(prefix="equiv_") as tmp:
        driver = os.path.join(tmp, "driver.py")
        with open(driver, "w") as handle:
            handle.write(PRELUDE + "\n" + CASES + "\nfinish()\n")
        scratch = os.path.join(tmp, "scratch")
        os.mkdir(scratch)
        env = dict(os.environ, PYTHONDONTWRITEBYTECODE="1", PYTHONHASHSEED="0")
        env.pop("PYTHONPATH", None)
        proc = subprocess.run(
            [sys.executable, "-B", driver, tree, scratch],
            cwd=tree, env=env, capture_output=True, text=True,
        )
        if proc.returncode != 0:
            print("driver failed in", tree)
            print(proc.stderr[-4000:])
            sys.exit(2)
        return json.loads(proc.stdout.splitlines()[-1])


def main():
    if len(sys.argv) != 3:
        print("usage: equiv.py <treeA> <treeB>")
        sys.exit(2)
    res_a = run_tree(sys.argv[1])
    res_b = run_tree(sys.argv[2])
    bad = 0
    if [r["name"] for r in res_a] != [r["name"] for r in res_b]:
        print("case lists differ")
        bad += 1
    for rec_a, rec_b in zip(res_a, res_b):
        if rec_a != rec_b:
            bad += 1
            print("DIFF in case", rec_a["name"])
            for key in sorted(set(rec_a) | set(rec_b)):
                if rec_a.get(key) != rec_b.get(key):
                    print("   ", key, ":", repr(rec_a.get(key))[:300], "!=", repr(rec_b.get(key))[:300])
    errors = sum(1 for r in res_a if "exc" in r or "exit" in r)
    print("%d cases compared (%d of them end in an exception/exit), %d differ" % (len(res_a), errors, bad))
    sys.exit(1 if bad else 0)


if __name__ == "__main__":
    main()
