#!/usr/bin/env python
"""
Differential check for property C07 (disk images round-trip every file).

usage: equiv.py <treeA> <treeB>

The PROBE below is run once per tree in a subprocess (tree at the front of
sys.path, a private scratch directory as cwd).  It prints one JSON document
with every observable result; the two documents must be identical.
"""
import json
import os
import subprocess
import sys
import tempfile

PROBE = r'''
import hashlib, io, json, os, subprocess, sys, contextlib
TREE = sys.argv[1]
sys.path.insert(0, TREE)
from cocoasm.virtualfiles.disk import (DiskFile, DiskConstants, MLPreamble, BasicPreamble, ASCIIPreamble, Postamble,
                                        Preamble, DirectoryEntry)
from cocoasm.virtualfiles.coco_file import CoCoFile
from cocoasm.virtualfiles.cassette import CassetteFile
from cocoasm.values import NumericValue, NoneValue

RESULTS = []
FAT = 78592
DIR = 78848
GRAN = 2304

def digest(buf):
    raw = bytes(bytearray(buf))
    return {"len": len(raw), "sha": hashlib.sha256(raw).hexdigest(), "head": raw[:64].hex(), "tail": raw[-32:].hex()}

def image(buf):
    out = digest(buf)
    if len(buf) >= DiskConstants.IMAGE_SIZE:
        raw = bytes(bytearray(buf))
        out["fat"] = raw[FAT:FAT + 256].hex()
        directory = raw[DIR:DIR + 72 * 32]
        out["dir"] = [directory[i:i + 32].hex() for i in range(0, len(directory), 32) if directory[i] not in (0x00, 0xFF)]
        out["dirsha"] = hashlib.sha256(directory).hexdigest()
    return out

def val(v):
    if v is None or not hasattr(v, "hex"):
        return repr(v)
    return [type(v).__name__, v.int, v.hex(), v.hex(size=4), v.negative]

def show_file(f):
    return {"name": f.name, "ext": f.extension, "type": val(f.type), "dtype": val(f.data_type), "gaps": val(f.gaps),
            "load": val(f.load_addr), "exec": val(f.exec_addr), "data": digest(f.data), "ascii": f.ascii,
            "ignore_gaps": f.ignore_gaps, "str": str(f)}

def case(label, fn):
    try:
        out = fn()
        RESULTS.append([label, "ok", out])
    except BaseException as error:
        RESULTS.append([label, "exc", type(error).__name__, str(error)])

def pattern(length, seed):
    return [((i * (seed + 7)) + seed * 31 + (i >> 8)) & 0xFF for i in range(length)]

ML, BASIC, ASCII, DATA, TEXT = (2, 0), (0, 0), (0, 0xFF), (1, 0), (3, 0xFF)

def mkfile(name, length, seed=1, kind=ML, load=0x0E00, exe=0x0E10, ext="BIN"):
    return CoCoFile(name=name, extension=ext, type=NumericValue(kind[0]), data_type=NumericValue(kind[1]),
                    load_addr=NumericValue(load), exec_addr=NumericValue(exe), data=pattern(length, seed))

def write_and_list(files, order=None, prepare=None, filenames=None):
    disk = DiskFile(granule_fill_order=order)
    if prepare:
        prepare(disk)
    error = None
    try:
        disk.add_files(files)
    except Exception as failure:
        error = [type(failure).__name__, str(failure)]
    buf = list(disk.get_buffer())
    try:
        back = [show_file(f) for f in DiskFile(buffer=list(buf)).list_files(filenames)]
    except Exception as failure:
        back = [type(failure).__name__, str(failure)]
    return {"error": error, "image": image(buf), "files": back}

# ---- round trips around sector / granule boundaries, for each file kind
LENGTHS = set([0, 1, 2, 3, 5, 10, 100, 65535, 65530, 30000])
for multiple in (256, 512, 2304, 4608, 6912, 9216):
    for delta in range(-11, 3):
        LENGTHS.add(multiple + delta)
for length in sorted(LENGTHS):
    for kname, kind in (("ml", ML), ("basic", BASIC), ("ascii", ASCII)):
        if length > 10000 and kname != "ml":
            continue
        case("rt-%s-%d" % (kname, length), lambda: write_and_list([mkfile("F%d" % (length % 1000), length, length & 15, kind)]))
for kname, kind in (("data", DATA), ("text", TEXT), ("t2ascii", (2, 0xFF)), ("t1ascii", (1, 0xFF)), ("t4", (4, 0)), ("t0x7f", (0, 0x7F))):
    case("rt-kind-" + kname, lambda: write_and_list([mkfile("KIND", 3000, 3, kind)]))

NAMES = [("A", "B"), ("lower", "bas"), ("ABCDEFGH", "BIN"), ("ABCDEFGHIJKL", "LONGEXT"), ("MiXeD123", ""), ("X", "A"), ("", "BIN"), ("A B", "C D"), ("NUL\0X", "B\0N")]
for name, ext in NAMES:
    case("rt-name-%r-%r" % (name, ext), lambda: write_and_list([mkfile(name, 300, 2, ML, ext=ext)]))
for load, exe in [(0, 0), (0xFF, 0x100), (0xFFFF, 0xFFFF), (0x1234, 0xABCD), (1, 2)]:
    case("rt-addr-%04X-%04X" % (load, exe), lambda: write_and_list([mkfile("ADDR", 40, 3, ML, load, exe)]))

MANY = [mkfile("ONE", 10, 1), mkfile("TWO", 2304, 2, BASIC, ext="BAS"), mkfile("THREE", 7000, 3, ASCII, ext="TXT"), mkfile("FOUR", 2294, 4),
        mkfile("FIVE", 2293, 5), mkfile("SIX", 0, 6), mkfile("SEVEN", 12000, 7, DATA, ext="DAT")]
ORDERS = {"default": None, "ascending": list(range(68)), "descending": list(range(67, -1, -1)),
          "interleaved": [g for pair in zip(range(0, 34), range(67, 33, -1)) for g in pair],
          "around-dir": [33, 34, 32, 35, 31, 36] + [g for g in range(68) if g not in (31, 32, 33, 34, 35, 36)],
          "short": list(range(10)), "empty": [], "long": list(range(68)) + [0, 1], "bad-entry": [68] + list(range(68)), "neg-entry": [-1] + list(range(68))}
for oname, order in ORDERS.items():
    case("rt-many-" + oname, lambda: write_and_list(MANY, order))
    case("rt-big-" + oname, lambda: write_and_list([mkfile("BIG", 65535, 9)], order))
case("rt-many-filter", lambda: write_and_list(MANY, filenames=["TWO", "SIX"]))
case("rt-none", lambda: write_and_list([]))
case("rt-dup", lambda: write_and_list([mkfile("SAME", 5, 1), mkfile("SAME", 6, 2)]))
case("rt-nonevalues", lambda: write_and_list([CoCoFile(name="NV", extension="X", data=[1, 2, 3])]))
case("rt-bytes-data", lambda: write_and_list([CoCoFile(name="BY", extension="BIN", type=NumericValue(2), data_type=NumericValue(0), load_addr=NumericValue(1), exec_addr=NumericValue(2), data=bytes(range(256)) * 10)]))

def fragment(disk):
    for granule in (32, 33, 34, 30, 36, 28, 0, 67, 40, 41, 42):
        disk.buffer[FAT + granule] = 0xC1
def nearly_full(disk):
    for granule in range(68):
        if granule not in (3, 50, 33, 34, 12):
            disk.buffer[FAT + granule] = 0xC9
def full(disk):
    for granule in range(68):
        disk.buffer[FAT + granule] = 0xC9
def dir_used(count):
    def prepare(disk):
        for entry in range(count):
            disk.buffer[DIR + 32 * entry] = 0x41
    return prepare
def dir_holes(disk):
    for entry in range(72):
        if entry not in (5, 9):
            disk.buffer[DIR + 32 * entry] = 0x41
def dir_deleted(disk):
    for entry in range(0, 10):
        disk.buffer[DIR + 32 * entry] = 0x00 if entry % 2 else 0x42
case("rt-fragmented", lambda: write_and_list(MANY, prepare=fragment))
case("rt-fragmented-asc", lambda: write_and_list(MANY, list(range(68)), prepare=fragment))
case("rt-nearly-full-fits", lambda: write_and_list([mkfile("FITS", 5 * GRAN - 11, 3)], prepare=nearly_full))
case("rt-nearly-full-exact", lambda: write_and_list([mkfile("EXACT", 5 * GRAN - 10, 3)], prepare=nearly_full))
case("rt-nearly-full-two", lambda: write_and_list([mkfile("P1", 3 * GRAN, 3), mkfile("P2", GRAN, 4), mkfile("P3", 1, 5)], prepare=nearly_full))
case("rt-full", lambda: write_and_list([mkfile("NOROOM", 1, 3)], prepare=full))
case("rt-fill-68", lambda: write_and_list([mkfile("N%d" % n, 100 + n, n, (ML, BASIC, ASCII)[n % 3]) for n in range(70)]))
for count in (69, 70, 71, 72):
    case("rt-dir-used-%d" % count, lambda: write_and_list([mkfile("D1", 10, 1), mkfile("D2", 10, 2), mkfile("D3", 10, 3)], prepare=dir_used(count)))
case("rt-dir-holes", lambda: write_and_list([mkfile("D1", 10, 1), mkfile("D2", 10, 2), mkfile("D3", 10, 3)], prepare=dir_holes))
case("rt-dir-deleted", lambda: write_and_list([mkfile("D1", 10, 1), mkfile("D2", 10, 2)], prepare=dir_deleted))
case("rt-bad-file", lambda: write_and_list([None]))
case("rt-bad-data", lambda: write_and_list([CoCoFile(name="BAD", extension="BIN", type=NumericValue(2), data_type=NumericValue(0), load_addr=NumericValue(1), exec_addr=NumericValue(2), data=None)]))
case("rt-too-long", lambda: write_and_list([CoCoFile(name="LONG", extension="BIN", type=NumericValue(2), data_type=NumericValue(0), load_addr=NumericValue(1), exec_addr=NumericValue(2), data=[1] * 70000)]))
case("rt-ascii-huge", lambda: write_and_list([CoCoFile(name="HUGE", extension="TXT", type=NumericValue(1), data_type=NumericValue(0xFF), data=[65] * (68 * GRAN - 1))]))
case("rt-ascii-toobig", lambda: write_and_list([CoCoFile(name="HUGE", extension="TXT", type=NumericValue(1), data_type=NumericValue(0xFF), data=[65] * (68 * GRAN))]))

def add_to_existing(buffer_type):
    first = DiskFile()
    first.add_files(MANY[:3])
    second = DiskFile(buffer=buffer_type(first.get_buffer()))
    second.add_files(MANY[3:])
    return {"image": image(second.get_buffer()), "files": [show_file(f) for f in second.list_files()], "orig": digest(second.original_buffer)}
case("append-list", lambda: add_to_existing(list))
case("append-bytearray", lambda: add_to_existing(bytearray))
case("append-bytes", lambda: add_to_existing(bytes))
case("add-short-buffer", lambda: image(DiskFile(buffer=[0xFF] * 1000).add_file(mkfile("S", 5)) or []))
case("init-default", lambda: [image(DiskFile().buffer), DiskFile().granule_fill_order, DiskFile().original_buffer])
case("init-order", lambda: [DiskFile(granule_fill_order=[1, 2]).granule_fill_order, DiskFile(granule_fill_order=[]).granule_fill_order, DiskFile(granule_fill_order=()).granule_fill_order])
case("init-empty-buffer", lambda: image(DiskFile(buffer=[]).buffer))

# ---- hand made images for the reader
def blank():
    return [0xFF] * DiskConstants.IMAGE_SIZE
def seek(granule):
    return GRAN * granule + (2 * GRAN if granule > 33 else 0)
def put_dir(buf, entry, name, ext, ftype, flag, first, last_bytes, clear=True):
    raw = [ord(c) for c in name.ljust(8)[:8]] + [ord(c) for c in ext.ljust(3)[:3]] + [ftype, flag, first, last_bytes >> 8, last_bytes & 255] + [0] * 16
    buf[DIR + 32 * entry:DIR + 32 * entry + 32] = raw
def put_chain(buf, chain, last_sectors):
    for here, there in zip(chain, chain[1:]):
        buf[FAT + here] = there
    buf[FAT + chain[-1]] = 0xC0 + last_sectors
def put_stream(buf, chain, stream):
    for number, granule in enumerate(chain):
        part = stream[number * GRAN:(number + 1) * GRAN]
        buf[seek(granule):seek(granule) + len(part)] = part
def ml_stream(data, load=0x2000, exe=0x2002, declared=None):
    n = len(data) if declared is None else declared
    return [0x00, n >> 8, n & 255, load >> 8, load & 255] + list(data) + [0xFF, 0x00, 0x00, exe >> 8, exe & 255]
def bas_stream(data, declared=None):
    n = len(data) if declared is None else declared
    return [0xFF, n >> 8, n & 255] + list(data)
def sectors_of(stream_len):
    tail = stream_len % GRAN
    return tail // 256 + 1, tail % 256

def handmade(files, as_type=list, filenames=None):
    buf = blank()
    for entry, (name, ext, ftype, flag, chain, stream, fix) in enumerate(files):
        sectors, last = sectors_of(len(stream))
        put_dir(buf, entry * 2, name, ext, ftype, flag, chain[0], last)
        put_chain(buf, chain, sectors)
        put_stream(buf, chain, stream)
        if fix:
            fix(buf)
    return [show_file(f) for f in DiskFile(buffer=as_type(buf)).list_files(filenames)]

D5000 = pattern(5000, 3)
D2299 = pattern(2299, 4)
HAND = {
    "one-granule": [("ONE", "BIN", 2, 0, [10], ml_stream(pattern(100, 1)), None)],
    "reverse-chain": [("REV", "BIN", 2, 0, [40, 20, 5], ml_stream(D5000), None)],
    "across-dir": [("DIRX", "BIN", 2, 0, [33, 34, 32], ml_stream(D5000), None)],
    "ends-67": [("END", "BIN", 2, 0, [66, 0, 67], ml_stream(D5000), None)],
    "exact-granule": [("EXA", "BIN", 2, 0, [7, 3], ml_stream(pattern(GRAN - 10, 2)), None)],
    "exact-data-granule": [("EXD", "BIN", 2, 0, [7, 3], ml_stream(D2299), None)],
    "trailer-straddles": [("STR", "BIN", 2, 0, [7, 3], ml_stream(pattern(GRAN - 7, 2)), None)],
    "basic": [("BAS", "BAS", 0, 0, [12, 60, 13], bas_stream(D5000), None)],
    "ascii": [("TXT", "TXT", 1, 0xFF, [12, 60, 13], list(D5000), None)],
    "ascii-exact-sector": [("TXT", "TXT", 1, 0xFF, [12], [65] * 512, None)],
    "ml-zero-declared": [("ZERO", "BIN", 2, 0, [9, 8, 1], ml_stream(D5000, declared=0), None)],
    "basic-zero-declared": [("ZERO", "BAS", 0, 0, [9, 8], bas_stream(pattern(3000, 1), declared=0), None)],
    "ml-short-declared": [("SHORT", "BIN", 2, 0, [9, 8, 1], ml_stream(D5000, declared=4000), None)],
    "ml-bad-flag": [("BADF", "BIN", 2, 0, [9], [0x01] + ml_stream(pattern(10, 1))[1:], None)],
    "basic-bad-flag": [("BADF", "BAS", 0, 0, [9], [0x00] + bas_stream(pattern(10, 1))[1:], None)],
    "post-bad-0": [("BADP", "BIN", 2, 0, [9], ml_stream(pattern(10, 1))[:-5] + [0xFE, 0, 0, 1, 2], None)],
    "post-bad-1": [("BADP", "BIN", 2, 0, [9], ml_stream(pattern(10, 1))[:-5] + [0xFF, 7, 0, 1, 2], None)],
    "post-bad-2": [("BADP", "BIN", 2, 0, [9], ml_stream(pattern(10, 1))[:-5] + [0xFF, 0, 9, 1, 2], None)],
    "three-files": [("AAA", "BIN", 2, 0, [1, 2], ml_stream(pattern(3000, 1)), None), ("BBB", "BAS", 0, 0, [67], bas_stream(pattern(20, 2)), None),
                    ("CCC", "TXT", 3, 0xFF, [34, 33], pattern(2400, 3), None)],
    "granule-0-first": [("G0", "BIN", 2, 0, [0], ml_stream(pattern(5, 5)), None)],
    "fat-out-of-range": [("OOR", "BIN", 2, 0, [5, 6], ml_stream(pattern(3000, 1)), lambda buf: buf.__setitem__(FAT + 5, 0x50))],
    "fat-free-in-chain": [("FREE", "BIN", 2, 0, [5, 6], ml_stream(pattern(3000, 1)), lambda buf: buf.__setitem__(FAT + 5, 0xFF))],
    "first-granule-200": [("G200", "BIN", 2, 0, [5], ml_stream(pattern(30, 1)), lambda buf: buf.__setitem__(DIR + 13, 200))],
    "first-granule-69": [("G69", "BIN", 2, 0, [5], ml_stream(pattern(30, 1)), lambda buf: buf.__setitem__(DIR + 13, 69))],
    "bad-name-utf8": [("UTF", "BIN", 2, 0, [5], ml_stream(pattern(30, 1)), lambda buf: buf.__setitem__(DIR + 1, 0xFF))],
    "deleted-entry": [("DEL", "BIN", 2, 0, [5], ml_stream(pattern(30, 1)), lambda buf: buf.__setitem__(DIR, 0x00))],
    "name-with-spaces": [("A B C", "X Y", 2, 0, [5], ml_stream(pattern(30, 1)), None)],
}
for label, files in HAND.items():
    case("hand-" + label, lambda: handmade(files))
    case("hand-bytes-" + label, lambda: handmade(files, as_type=bytes))
case("hand-filter", lambda: handmade(HAND["three-files"], filenames=["BBB"]))
case("hand-last-entry", lambda: (lambda buf: (put_dir(buf, 71, "LAST", "BIN", 2, 0, 4, 40), put_chain(buf, [4], 1), put_stream(buf, [4], ml_stream(pattern(30, 2))), [show_file(f) for f in DiskFile(buffer=buf).list_files()])[-1])(blank()))
for size in (0, 1, 100, 161279, 161280, 161281, 170000):
    case("list-size-%d" % size, lambda: [show_file(f) for f in DiskFile(buffer=[0xFF] * size).list_files()])
    case("list-size-zeros-%d" % size, lambda: [show_file(f) for f in DiskFile(buffer=[0x00] * size).list_files()])
case("list-fresh", lambda: [show_file(f) for f in DiskFile().list_files()])

# ---- the arithmetic helpers
class FakeAmble(object):
    def __init__(self, length):
        self.length = length
PRE = {"ml": MLPreamble(), "basic": BasicPreamble(), "ascii": ASCIIPreamble(), "fake7": FakeAmble(7)}
POST = {"none": None, "post": Postamble(), "fake0": FakeAmble(0), "fake3": FakeAmble(3)}
SIZES = sorted(set(list(range(0, 30)) + [m + d for m in (256, 512, 768, 2048, 2304, 4608, 6912, 65536, 156672) for d in range(-12, 13)]))
def arithmetic(pname, qname):
    out = []
    for size in SIZES:
        data = bytes(size)
        out.append([size, DiskFile.calculate_granules_needed(data, PRE[pname], POST[qname]),
                    DiskFile.calculate_last_sector_bytes_used(data, PRE[pname], POST[qname]),
                    DiskFile.calculate_last_granules_sectors_used(data, PRE[pname], POST[qname])])
    return out
for pname in PRE:
    for qname in POST:
        case("arith-%s-%s" % (pname, qname), lambda: arithmetic(pname, qname))
case("arith-instance", lambda: [DiskFile(buffer=[1]).calculate_granules_needed([1] * 5000, MLPreamble(), None), DiskFile(buffer=[1]).calculate_last_sector_bytes_used([1] * 5000, MLPreamble(), Postamble()), DiskFile(buffer=[1]).calculate_last_granules_sectors_used([1] * 5000, BasicPreamble(), None)])
case("arith-none-data", lambda: DiskFile.calculate_granules_needed(None, MLPreamble(), None))
case("arith-none-data-2", lambda: DiskFile.calculate_last_sector_bytes_used(None, MLPreamble(), None))
case("arith-none-data-3", lambda: DiskFile.calculate_last_granules_sectors_used(None, MLPreamble(), None))
case("arith-none-preamble", lambda: DiskFile.calculate_granules_needed([1], None, None))
case("arith-none-preamble-2", lambda: DiskFile.calculate_last_sector_bytes_used([1], None, None))
case("arith-none-preamble-3", lambda: DiskFile.calculate_last_granules_sectors_used([1], None, None))
case("sectors-needed", lambda: [[n, DiskFile.calculate_sectors_needed(n)] for n in list(range(-600, 700, 7)) + [255, 256, 257, 511, 512, 2303, 2304, 65535, 0.5, 255.9, 256.0, -0.5, -256.5]])
case("seek-granule", lambda: [[g, DiskFile.seek_granule(g)] for g in list(range(-3, 72)) + [33.5, 255]])
def file_length(entries, start, last):
    fat = [0xFF] * 256
    for index, value in entries.items():
        fat[index] = value
    return DiskFile.calculate_file_length(start, fat, last)
for label, (entries, start, last) in {
    "single-1": ({4: 0xC1}, 4, 0), "single-9": ({4: 0xC9}, 4, 255), "single-0": ({4: 0xC0}, 4, 10), "single-ca": ({4: 0xCA}, 4, 1),
    "single-df": ({4: 0xDF}, 4, 1), "single-e1": ({4: 0xE1}, 4, 1), "single-ff": ({}, 4, 7), "chain": ({4: 5, 5: 67, 67: 0xC3}, 4, 100),
    "chain-rev": ({60: 2, 2: 0, 0: 0xC9}, 60, 256), "oor": ({4: 0x80}, 4, 1), "oor-big": ({4: 0xBF}, 4, 1), "start-oor": ({}, 300, 1), "start-neg": ({255: 0xC2}, -1, 9),
}.items():
    case("file-length-" + label, lambda: file_length(entries, start, last))
case("file-length-bytes-fat", lambda: DiskFile.calculate_file_length(1, bytes([0xFF, 2, 0xC4]), 77))

# ---- allocation queries
def queries(prepare):
    disk = DiskFile()
    prepare(disk)
    out = {"dir": [], "gran": []}
    for entry in (-2, -1, 0, 1, 35, 70, 71, 72, 100):
        try:
            out["dir"].append([entry, disk.directory_entry_in_use(entry)])
        except Exception as error:
            out["dir"].append([entry, type(error).__name__, str(error)])
    for granule in (-2, -1, 0, 1, 33, 34, 66, 67, 68, 100):
        try:
            out["gran"].append([granule, disk.granule_in_use(granule)])
        except Exception as error:
            out["gran"].append([granule, type(error).__name__, str(error)])
    for name in ("find_empty_directory_entry", "find_empty_granule"):
        try:
            out[name] = getattr(disk, name)()
        except Exception as error:
            out[name] = [type(error).__name__, str(error)]
    return out
for label, prepare in {"fresh": lambda d: None, "fragment": fragment, "nearly-full": nearly_full, "full": full, "dir70": dir_used(70), "dir71": dir_used(71), "dir72": dir_used(72), "dir-holes": dir_holes, "dir-deleted": dir_deleted,
                       "fat-zero": lambda d: d.buffer.__setitem__(FAT + 32, 0), "fat-99": lambda d: d.buffer.__setitem__(FAT + 32, 0x99)}.items():
    case("queries-" + label, lambda: queries(prepare))
case("queries-float-dir", lambda: DiskFile().directory_entry_in_use(71.5))
case("queries-float-gran", lambda: DiskFile().granule_in_use(67.5))
case("queries-float-dir-ok", lambda: DiskFile().directory_entry_in_use(70.5))

# ---- writer pieces
def piece(fn, buffer=None, order=None):
    disk = DiskFile(buffer=buffer, granule_fill_order=order)
    ret = fn(disk)
    return {"ret": ret if not isinstance(ret, tuple) else list(ret), "image": image(disk.buffer)}
for granules, sectors in [([], 3), ([5], 1), ([5], 9), ([5, 6], 4), ([67, 0, 33, 34], 2), ([1, 1], 3), ([3, 4, 5], 0), ([3, 4, 5], 63), ([3, 4, 5], 64), ([70], 1), ((7, 8), 2)]:
    case("write_to_fat-%r-%d" % (granules, sectors), lambda: piece(lambda d: d.write_to_fat(granules, sectors)))
case("write_to_fat-none", lambda: piece(lambda d: d.write_to_fat(None, 1)))
case("write_to_fat-short", lambda: piece(lambda d: d.write_to_fat([1, 2], 1), buffer=[0xFF] * 100))
for entry in (0, 1, 35, 70, 71, 72, -1):
    case("write_dir_entry-%d" % entry, lambda: piece(lambda d: d.write_dir_entry(entry, mkfile("dirName", 3, 1, ML, ext="ex"), 40, 0x1FE)))
for used in (0, 1, 255, 256, 257, 65535, 65536, -1):
    case("write_dir_entry-used-%d" % used, lambda: piece(lambda d: d.write_dir_entry(3, mkfile("N", 3, 1, BASIC, ext="BAS"), 0, used)))
case("write_dir_entry-badname", lambda: piece(lambda d: d.write_dir_entry(3, CoCoFile(name=None, extension="X"), 0, 1)))
case("write_dir_entry-nonevalue", lambda: piece(lambda d: d.write_dir_entry(3, CoCoFile(name="NV", extension="X"), 0, 1)))
case("write_dir_entry-short", lambda: piece(lambda d: d.write_dir_entry(3, mkfile("N", 3), 0, 1), buffer=[0xFF] * (DIR + 100)))
for pointer, data in [(0, [1, 2, 3]), (161277, [1, 2, 3]), (161278, [1, 2, 3]), (5, []), (5, b"abc"), (-1, [9]), (0, None)]:
    case("write_bytes-%d-%r" % (pointer, data), lambda: piece(lambda d: d.write_bytes_to_buffer(pointer, data)))
def granules_case(length, granules, pre, post, first=True):
    def run(disk):
        if pre is not None and hasattr(pre, "data_length"):
            pre.data_length = NumericValue(length & 0xFFFF)
            pre.load_addr = NumericValue(0x1234)
        if post is not None:
            post.exec_addr = NumericValue(0x4321)
        return disk.write_to_granules(pattern(length, 3), granules, pre, post, first_granule=first)
    return piece(run)
for length in (0, 1, 2293, 2294, 2295, 2298, 2299, 2300, 2301, 2303, 2304, 2305, 4602, 4603, 4604, 4608, 5000):
    case("write_to_granules-ml-%d" % length, lambda: granules_case(length, [10, 33, 34, 2], MLPreamble(), Postamble()))
    case("write_to_granules-basic-%d" % length, lambda: granules_case(length, [67, 0, 5], BasicPreamble(), None))
    case("write_to_granules-ascii-%d" % length, lambda: granules_case(length, [1, 66, 5], ASCIIPreamble(), None))
    case("write_to_granules-nopre-%d" % length, lambda: granules_case(length, [1, 66, 5], None, Postamble(), first=False))
case("write_to_granules-too-few", lambda: granules_case(5000, [10], MLPreamble(), Postamble()))
case("write_to_granules-none", lambda: granules_case(50, [], MLPreamble(), Postamble()))
case("write_to_granules-notfirst", lambda: granules_case(50, [4], MLPreamble(), Postamble(), first=False))
case("write_to_granules-last-granule", lambda: granules_case(2300, [67], MLPreamble(), Postamble()))
case("write_to_granules-bad-granule", lambda: granules_case(2300, [68], MLPreamble(), Postamble()))

# ---- reader pieces
READBUF = list(range(256)) * 40
def reader(fn, buffer=READBUF):
    disk = DiskFile(buffer=list(buffer))
    ret = fn(disk)
    if isinstance(ret, tuple):
        ret = [digest(ret[0]), ret[1]]
    return ret
for pointer, length in [(0, 0), (0, 8), (10239, 1), (10239, 2), (10240, 0), (10240, 1), (5, 10240), (0, 10240), (0, 10241), (-3, 3), (-3, 4), (20000, 0)]:
    case("read_sequence-%d-%d" % (pointer, length), lambda: reader(lambda d: d.read_sequence(pointer, length)))
case("read_sequence-decode", lambda: reader(lambda d: d.read_sequence(65, 26, decode=True)))
case("read_sequence-decode-bad", lambda: reader(lambda d: d.read_sequence(250, 6, decode=True)))
case("read_sequence-decode-empty", lambda: reader(lambda d: d.read_sequence(250, 0, True)))
for pointer, sequence in [(0, [0, 1, 2]), (0, [0, 1, 3]), (1, [1]), (10238, [254, 255]), (10238, [254, 255, 0]), (3, []), (-2, [254, 255]), (5, (5, 6)), (5, b"\x05\x06"), (5, [5, 6.0])]:
    case("validate_sequence-%d-%r" % (pointer, sequence), lambda: reader(lambda d: d.validate_sequence(pointer, sequence)))
def read_data_case(start, fat_entries, preamble, length, size=DiskConstants.IMAGE_SIZE):
    buf = [(i * 7 + (i >> 9)) & 0xFF for i in range(size)]
    fat = [0xFF] * 256
    for index, value in fat_entries.items():
        fat[index] = value
    disk = DiskFile(buffer=buf)
    data, pointer = disk.read_data(start, fat, preamble, data_length=length) if length is not None else disk.read_data(start, fat, preamble)
    return [digest(data), pointer]
for length in (None, 0, 1, 2298, 2299, 2300, 2301, 2303, 2304, 2305, 4603, 4604, 4608, 6000):
    case("read_data-ml-%s" % length, lambda: read_data_case(33, {33: 34, 34: 2, 2: 0xC1}, MLPreamble(), length))
    case("read_data-basic-%s" % length, lambda: read_data_case(67, {67: 0, 0: 66, 66: 0xC1}, BasicPreamble(), length))
    case("read_data-ascii-%s" % length, lambda: read_data_case(5, {5: 6, 6: 7}, ASCIIPreamble(), length))
    case("read_data-none-%s" % length, lambda: read_data_case(5, {5: 6, 6: 7}, None, length))
case("read_data-chain-free", lambda: read_data_case(5, {5: 0xFF}, MLPreamble(), 3000))
case("read_data-chain-last", lambda: read_data_case(5, {5: 0xC2}, MLPreamble(), 3000))
case("read_data-short-buffer", lambda: read_data_case(1, {1: 2}, MLPreamble(), 3000, size=5000))
case("read_data-short-buffer-2", lambda: read_data_case(1, {1: 2}, MLPreamble(), 2000, size=4000))
case("read_data-end-of-image", lambda: read_data_case(67, {67: 67}, MLPreamble(), 2304))

def amble(obj, method, buf, pointer):
    buf = list(buf)
    if hasattr(obj, "data_length") and method == "write":
        obj.data_length = NumericValue(0x1234)
        obj.load_addr = NumericValue(0xABCD)
    if hasattr(obj, "exec_addr") and method == "write":
        obj.exec_addr = NumericValue(0x00FE)
    ret = getattr(obj, method)(buf, pointer)
    return {"ret": ret, "buf": bytes(bytearray(buf)).hex(), "data_length": val(getattr(obj, "data_length", None)), "load": val(getattr(obj, "load_addr", None)),
            "exec": val(getattr(obj, "exec_addr", None)), "length": obj.length, "is_ml": obj.is_ml() if hasattr(obj, "is_ml") else None,
            "get_data_length": obj.get_data_length() if hasattr(obj, "get_data_length") else None}
AMBUF = {"ml": [9, 0x00, 0x12, 0x34, 0x56, 0x78, 9, 9], "bas": [9, 0xFF, 0x01, 0x02, 9, 9, 9, 9], "post": [9, 0xFF, 0x00, 0x00, 0xAB, 0xCD, 9, 9],
         "post1": [9, 0xFF, 0x01, 0x00, 0xAB, 0xCD, 9, 9], "post2": [9, 0xFF, 0x00, 0x02, 0xAB, 0xCD, 9, 9], "zeros": [0] * 8, "ffs": [0xFF] * 8}
for cname, factory in (("ml", MLPreamble), ("basic", BasicPreamble), ("ascii", ASCIIPreamble), ("post", Postamble)):
    for bname, buf in AMBUF.items():
        for pointer in (0, 1, 3, 4, 5, 6, 7, 8, 9, -5, -3):
            for method in ("read", "write"):
                case("amble-%s-%s-%s-%d" % (cname, method, bname, pointer), lambda: amble(factory(), method, buf, pointer))

# ---- command line front ends
def run(args):
    proc = subprocess.run([sys.executable] + args, stdout=subprocess.PIPE, stderr=subprocess.PIPE, universal_newlines=True)
    return [proc.returncode, proc.stdout, proc.stderr.replace(TREE, "<TREE>")]
def files_here():
    out = {}
    for name in sorted(os.listdir(".")):
        with open(name, "rb") as handle:
            raw = handle.read()
            out[name] = image(raw) if name.endswith(".dsk") else digest(raw)
    return out
def write_dsk(filename, files, order=None, prepare=None):
    disk = DiskFile(granule_fill_order=order)
    if prepare:
        prepare(disk)
    disk.add_files(files)
    with open(filename, "wb") as handle:
        handle.write(bytearray(disk.get_buffer()))
FILE_UTIL = os.path.join(TREE, "file_util.py")
ASSEMBLER = os.path.join(TREE, "assembler.py")
write_dsk("many.dsk", MANY)
write_dsk("asc.dsk", MANY, list(range(68)), fragment)
write_dsk("one.dsk", [mkfile("ONLY", 4600, 3)])
write_dsk("empty.dsk", [])
cas = CassetteFile()
cas.add_files([mkfile("TAPE1", 2294, 1), mkfile("TAPE2", 300, 2, BASIC), mkfile("TAPE3", 5000, 3, ASCII)])
with open("tape.cas", "wb") as handle:
    handle.write(bytearray(cas.get_buffer()))
buf = blank()
put_dir(buf, 0, "HAND", "BIN", 2, 0, 33, sectors_of(5010)[1]); put_chain(buf, [33, 34, 32], sectors_of(5010)[0]); put_stream(buf, [33, 34, 32], ml_stream(D5000))
with open("hand.dsk", "wb") as handle:
    handle.write(bytearray(buf))
with open("short.dsk", "wb") as handle:
    handle.write(bytearray(buf[:100000]))
bad = list(buf); bad[seek(33)] = 0x01
with open("badflag.dsk", "wb") as handle:
    handle.write(bytearray(bad))
with open("prog.asm", "w") as handle:
    handle.write("        ORG $0E00\nSTART   LDA #$55\n        LDB #$3C\n        STD $0400\nLOOP    JMP LOOP\n        END START\n")
with open("big.asm", "w") as handle:
    handle.write("        ORG $1000\nSTART   NOP\n" + "        FDB $553C,$0155,$3CFF\n" * 390 + "        END START\n")
for dsk in ("many.dsk", "asc.dsk", "one.dsk", "empty.dsk", "hand.dsk", "short.dsk", "badflag.dsk", "missing.dsk"):
    case("cli-list-" + dsk, lambda: run([FILE_UTIL, "--list", dsk]))
case("cli-to_dsk", lambda: run([FILE_UTIL, "tape.cas", "--to_dsk", "fromtape.dsk"]))
case("cli-to_dsk-exists", lambda: run([FILE_UTIL, "tape.cas", "--to_dsk", "fromtape.dsk"]))
case("cli-to_dsk-append", lambda: run([FILE_UTIL, "one.dsk", "--to_dsk", "fromtape.dsk", "--append"]))
case("cli-to_dsk-files", lambda: run([FILE_UTIL, "many.dsk", "--to_dsk", "some.dsk", "--files", "three", "SIX"]))
case("cli-dsk-to-dsk", lambda: run([FILE_UTIL, "asc.dsk", "--to_dsk", "copy.dsk"]))
case("cli-list-fromtape", lambda: run([FILE_UTIL, "--list", "fromtape.dsk"]))
case("cli-list-some", lambda: run([FILE_UTIL, "--list", "some.dsk"]))
case("cli-list-copy", lambda: run([FILE_UTIL, "--list", "copy.dsk"]))
case("cli-to_cas", lambda: run([FILE_UTIL, "many.dsk", "--to_cas", "fromdisk.cas"]))
case("cli-to_bin", lambda: run([FILE_UTIL, "one.dsk", "--to_bin", "one.bin"]))
case("cli-asm-to_dsk", lambda: run([ASSEMBLER, "prog.asm", "--to_dsk", "prog.dsk", "--name", "prog"]))
case("cli-asm-to_dsk-exists", lambda: run([ASSEMBLER, "prog.asm", "--to_dsk", "prog.dsk", "--name", "prog"]))
case("cli-asm-to_dsk-append", lambda: run([ASSEMBLER, "big.asm", "--to_dsk", "prog.dsk", "--name", "bigprogram", "--append"]))
case("cli-asm-to_dsk-noname", lambda: run([ASSEMBLER, "prog.asm", "--to_dsk", "noname.dsk"]))
case("cli-asm-to_dsk-onto-cas", lambda: run([ASSEMBLER, "prog.asm", "--to_dsk", "tape.cas", "--name", "X", "--append"]))
case("cli-list-prog", lambda: run([FILE_UTIL, "--list", "prog.dsk"]))
case("files-written", files_here)

json.dump(RESULTS, sys.stdout, indent=0, sort_keys=True, default=repr)
'''


def run_probe(tree):
    tree = os.path.abspath(tree)
    with tempfile.TemporaryDirectory() as scratch:
        env = dict(os.environ, PYTHONDONTWRITEBYTECODE="1", PYTHONHASHSEED="0")
        env.pop("PYTHONPATH", None)
        proc = subprocess.run([sys.executable, "-c", PROBE, tree], cwd=scratch, env=env,
                              stdout=subprocess.PIPE, stderr=subprocess.PIPE, universal_newlines=True)
    if proc.returncode != 0:
        print("probe failed for %s:\n%s" % (tree, proc.stderr))
        sys.exit(1)
    return json.loads(proc.stdout)


def main():
    if len(sys.argv) != 3:
        print(__doc__)
        sys.exit(2)
    from concurrent.futures import ThreadPoolExecutor
    with ThreadPoolExecutor(max_workers=2) as pool:
        first, second = pool.map(run_probe, sys.argv[1:3])
    labels_a = [entry[0] for entry in first]
    labels_b = [entry[0] for entry in second]
    bad = 0
    if labels_a != labels_b:
        print("case lists differ")
        bad += 1
    for left, right in zip(first, second):
        if left != right:
            bad += 1
            print("DIFF %s\n  A: %s\n  B: %s" % (left[0], json.dumps(left)[:600], json.dumps(right)[:600]))
    errors = sum(1 for entry in first if entry[1] == "exc")
    print("%d cases (%d raising), %d differences" % (len(first), errors, bad))
    sys.exit(1 if bad else 0)


if __name__ == "__main__":
    main()
