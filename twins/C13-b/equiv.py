#!/usr/bin/env python
"""
Differential demonstration: runs the same set of cases against two source
trees (one subprocess per tree, the tree at the front of sys.path and as the
working directory) and compares every observable result.

usage: equiv.py <treeA> <treeB>      exit 0 = all cases agree, 1 = otherwise
"""
import json
import os
import subprocess
import sys

PYTHON = "/venv/bin/python" if os.path.exists("/venv/bin/python") else sys.executable

DRIVER_HEAD = r'''
import contextlib, enum, hashlib, io, json, os, shutil, subprocess, sys, tempfile
TREE = os.path.abspath(sys.argv[1])
PYTHON = sys.argv[2]
sys.path.insert(0, TREE)
os.chdir(TREE)
RESULTS = []


def norm(text):
    return str(text).replace(TREE, "<TREE>")


def show(obj, depth=0):
    """Canonical, address-free, JSON-able rendering of a result."""
    if depth > 20:
        return "<deep>"
    if obj is None or isinstance(obj, (bool, int, float)):
        return obj
    if isinstance(obj, str):
        return norm(obj)
    if isinstance(obj, (bytes, bytearray)):
        return {"bytes": bytes(obj).hex()}
    if isinstance(obj, enum.Enum):
        return str(obj)
    if isinstance(obj, dict):
        return {"dict": [[show(k, depth), show(v, depth)] for k, v in obj.items()]}
    if hasattr(obj, "_asdict"):
        if type(obj).__name__ in ("Instruction", "Mode") and depth > 0:
            return "<{} {}>".format(type(obj).__name__, getattr(obj, "mnemonic", ""))
        return {"nt": type(obj).__name__, "f": show(obj._asdict(), depth + 1)}
    if isinstance(obj, (list, tuple, set, frozenset)):
        items = list(obj)
        if len(items) > 600 and all(isinstance(i, int) and not isinstance(i, bool) for i in items):
            blob = ",".join(map(str, items)).encode()
            return {type(obj).__name__: len(items), "sha": hashlib.sha256(blob).hexdigest(),
                    "head": items[:24], "tail": items[-24:]}
        return {type(obj).__name__: [show(i, depth + 1) for i in items]}
    if hasattr(obj, "__dict__"):
        return {"obj": type(obj).__name__, "vars": show(vars(obj), depth + 1)}
    return norm(repr(obj))


def case(label, fn):
    out_buf, err_buf = io.StringIO(), io.StringIO()
    try:
        with contextlib.redirect_stdout(out_buf), contextlib.redirect_stderr(err_buf):
            value = fn()
        out = {"ok": show(value)}
    except SystemExit as error:
        out = {"exit": show(error.code)}
    except BaseException as error:
        out = {"exc": type(error).__name__, "msg": norm(error)}
    out["stdout"] = norm(out_buf.getvalue())
    out["stderr"] = norm(err_buf.getvalue())
    RESULTS.append([label, out])


def cli(tool, argv, files=None, keep=None):
    """
    Runs <TREE>/<tool> with argv inside a fresh temporary directory that first
    receives `files` (name -> str or bytes). Returns return code, stdout, the
    last line of stderr and name/size/sha256 of every file left behind.
    """
    work = keep or tempfile.mkdtemp(prefix="equiv")
    try:
        for name, content in (files or {}).items():
            mode = "wb" if isinstance(content, (bytes, bytearray)) else "w"
            with open(os.path.join(work, name), mode) as handle:
                handle.write(content)
        env = dict(os.environ, PYTHONPATH=TREE, PYTHONDONTWRITEBYTECODE="1", COLUMNS="80")
        done = subprocess.run([PYTHON, os.path.join(TREE, tool)] + list(argv), cwd=work, env=env,
                              capture_output=True, text=True, timeout=600)
        left = {}
        for name in sorted(os.listdir(work)):
            with open(os.path.join(work, name), "rb") as handle:
                blob = handle.read()
            left[name] = [len(blob), hashlib.sha256(blob).hexdigest()]
        err_lines = [line for line in done.stderr.splitlines() if line.strip()]
        return {"rc": done.returncode, "stdout": norm(done.stdout).replace(work, "<WORK>"),
                "stderr_last": norm(err_lines[-1]).replace(work, "<WORK>") if err_lines else "",
                "files": left}
    finally:
        if not keep:
            shutil.rmtree(work, ignore_errors=True)


def read_back(work, name):
    with open(os.path.join(work, name), "rb") as handle:
        return handle.read()

'''

DRIVER_TAIL = r'''
print("@@RESULTS@@" + json.dumps(RESULTS))
'''

DRIVER_ASM = r'''
import signal
from cocoasm.exceptions import TranslationError, ParseError
from cocoasm.instruction import INSTRUCTIONS
from cocoasm.program import Program


WATCHDOG_SECONDS = 20


class OutOfTime(BaseException):
    pass


def out_of_time(signum, frame):
    raise OutOfTime()


def safe(fn):
    try:
        return fn()
    except Exception as error:
        return "<{}: {}>".format(type(error).__name__, error)


def assemble(lines):
    """Everything observable about assembling `lines` (a list of source lines)."""
    program = Program()
    signal.signal(signal.SIGALRM, out_of_time)
    signal.alarm(WATCHDOG_SECONDS)
    try:
        program.process([line + "\n" for line in lines])
    except (TranslationError, ParseError) as error:
        return ["diagnostic", type(error).__name__, str(error.value), str(error), safe(lambda: str(error.statement))]
    except OutOfTime:
        return ["does not terminate"]
    except Exception as error:
        return ["crash", type(error).__name__, str(error)]
    finally:
        signal.alarm(0)
    shape = [[safe(lambda: s.code_pkg.size), safe(lambda: s.code_pkg.max_size), s.fixed_size, s.pcr_size_hint,
              type(s.operand).__name__, safe(lambda: s.code_pkg.address.hex(size=4))] for s in program.statements]
    return ["ok", safe(program.get_binary_array), safe(program.get_statements), safe(program.get_symbol_table),
            safe(lambda: program.origin.hex()), program.name, shape]


MNEMONICS = [instruction.mnemonic for instruction in INSTRUCTIONS]

OPERANDS = [
    "", "#0", "#1", "#$7F", "#$FF", "#255", "#256", "#-1", "#-128", "#-129", "#$1234", "#65535", "#65536", "#70000",
    "#%10101010", "#%1010", "#'A", "#SYM", "#BYTE", "#WORD", "#HERE",
    "0", "1", "$12", "$1234", "$12345", "255", "256", "65535", "65536", "70000", "-1", "-32768", "-32769",
    "<$12", "<$1234", "<256", "<WORD", "<BYTE", ">$12", ">$1234", ">1", ">BYTE", "<", ">",
    "%00001111", "%0000111100001111", "%101", "'A", "BYTE", "WORD", "HERE", "THERE", "UNDEFINED", "HERE+1", "WORD-BYTE",
    "BYTE+HERE", "HERE-THERE",
    "[$12]", "[$1234]", "[70000]", "[HERE]", "[WORD]", "[BYTE]", "[UNDEFINED]", "[,X]", "[,Y++]", "[,--U]", "[,S+]",
    "[,-X]", "[A,X]", "[B,Y]", "[D,U]", "[5,X]", "[-5,Y]", "[$7F,U]", "[$80,S]", "[$1234,X]", "[-129,Y]", "[HERE,X]",
    "[HERE,PCR]", "[5,PCR]", "[$1234,PCR]", "[WORD,X]", "[BYTE,Y]", "[0,X]", "[5,Z]", "[1,PC]", "[,X++]", "[]", "[,]",
    ",X", ",Y", ",U", ",S", ",X+", ",X++", ",-X", ",--X", ",Y+", ",--S", ",Z", ",PC", ",PCR", ",", "0,X", "1,X", "15,X",
    "16,X", "-16,X", "-17,Y", "127,U", "128,S", "-128,X", "-129,X", "255,X", "256,X", "$7FFF,Y", "65535,X", "70000,X",
    "-32768,X", "A,X", "B,Y", "D,U", "E,X", "5,Z", "1,PC", "5,PCR", "-5,PCR", "$1234,PCR", "HERE,PCR", "THERE,PCR",
    "HERE,X", "WORD,X", "BYTE,X", "UNDEFINED,X", "HERE+1,PCR", "HERE+1,X", "5,X+", "5,-X", "A,X+", "X,Y", "A,B",
    "A", "B", "D", "X", "Y", "U", "S", "PC", "CC", "DP", "Z", "A,B,X", "CC,A,B,DP,X,Y,U,PC", "CC,A,B,DP,X,Y,S,PC",
    "D,X", "X,D", "A,X ", "PC,X", "A,CC", "DP,B", "U,S", "a,b", "A,,B", ",A", "A,", "X,Y,U", "D,D", "A,D",
    '"text"', "/text/", "1,2,3", "$1234,$5678", "1,", "'", "#", "#,", "[", "]", "++", "--", "+", "-", "*", "*+2", "$", "%", "!",
]

PROLOGUE = ["BYTE EQU $12", "WORD EQU $1234", "SYM EQU 5"]


def wrap(mnemonic, operand):
    """A program with a label before and after the statement under test."""
    return PROLOGUE + ["HERE NOP", " {} {}".format(mnemonic, operand), "THERE NOP", " NOP"]


def sweep(mnemonic):
    return [[operand, assemble(wrap(mnemonic, operand))] for operand in OPERANDS]

'''

DRIVER_MUTATE = r'''
VALID_PROGRAM = [
    "; sample program",
    "        NAM     SAMPLE",
    "SCREEN  EQU     $0400",
    "COUNT   EQU     10",
    "        ORG     $0E00",
    "START   LDA     #$01        ; load",
    "        LDB     <$12",
    "        LDX     #SCREEN",
    "LOOP    STA     ,X+",
    "        LEAY    TABLE,PCR",
    "        LDA     [VECTOR,PCR]",
    "        LDD     COUNT+1",
    "        STD     -5,Y",
    "        DECB",
    "        BNE     LOOP",
    "        LBRA    START",
    "        PSHS    A,B,X",
    "        TFR     X,Y",
    "        JSR     [VECTOR]",
    "        JMP     >START",
    "TABLE   FCB     1,2,3",
    "TEXT    FCC     \"HELLO\"    ; greeting",
    "BUFFER  RMB     4",
    "VECTOR  FDB     START",
    "        END     START",
]


def mutations(line):
    """Single-line mutations: fields deleted or duplicated, operands emptied or damaged."""
    fields = line.split()
    out = [line, "", " ", line.strip(), line.upper(), line.lower(), line + line, line[: len(line) // 2], line[::-1],
           line.replace(" ", "", 1), line.replace(" ", ""), "X" + line, line + " ;", ";" + line, line.replace(",", ""),
           line.replace(",", ",,"), line.replace("$", ""), line.replace("$", "$$"), line.replace("#", ""),
           line.replace("\"", "", 1), line.replace("[", ""), line.replace("]", ""), line + ",", line + "+", line + "\"",
           line + "'", line + "]", line + "[", line + ")", line + "#", line + "<", line.replace("START", "NOWHERE"),
           line.replace("START", ""), line.replace("1", "99999"), line.replace("1", "-1"), line.replace("X", "Z"),
           line.replace("A", "Q"), line.replace("PCR", "PC"), line.replace("+", "++"), line.replace("-", "--")]
    for index in range(len(fields)):
        out.append("        " + " ".join(fields[:index] + fields[index + 1:]))
        out.append("        " + " ".join(fields[:index] + [fields[index]] * 2 + fields[index + 1:]))
        out.append(" ".join(fields[:index] + [fields[index]] * 2 + fields[index + 1:]))
    return out


def mutated_programs(position):
    programs = []
    for changed in mutations(VALID_PROGRAM[position]):
        programs.append(VALID_PROGRAM[:position] + [changed] + VALID_PROGRAM[position + 1:])
    programs.append(VALID_PROGRAM[:position] + VALID_PROGRAM[position + 1:])
    programs.append(VALID_PROGRAM[:position] + [VALID_PROGRAM[position]] * 2 + VALID_PROGRAM[position + 1:])
    return programs

'''

DRIVER_CASES = DRIVER_ASM + DRIVER_MUTATE + r'''
from cocoasm.statement import Statement
from cocoasm.values import NumericValue, AddressValue, NoneValue, StringValue, SymbolValue

# 1. the valid program and every single-line mutation of it
case("valid", lambda: assemble(VALID_PROGRAM))
for position in range(len(VALID_PROGRAM)):
    case("mutated line {}".format(position), lambda: [assemble(lines) for lines in mutated_programs(position)])

# 2. every mnemonic with the general operand list
for mnemonic in MNEMONICS:
    case("sweep-" + mnemonic, lambda: sweep(mnemonic))

# 3. symbols, labels and addresses
SYMBOL_PROGRAMS = {
    "forward and backward": ["A1 LDA C1", "B1 LDX #A1", "C1 JMP B1", " BRA A1", " LBRA C1"],
    "label on last statement": [" LDA LAST", "LAST NOP"],
    "label only on equ": ["V1 EQU 5", "V2 EQU $1234", "V3 EQU V1", " LDA #V1", " LDX #V2", " LDA V3"],
    "equ of later equ": ["V1 EQU V2", "V2 EQU 5", " LDA #V1"],
    "equ of label": ["V1 EQU HERE", "HERE NOP", " LDX #V1"],
    "equ expression": ["V1 EQU 2+3", " LDA #V1"],
    "equ string": ["V1 EQU \"A\"", " LDA #V1"],
    "duplicate label": ["A1 NOP", "B1 NOP", "A1 NOP"],
    "duplicate equ": ["A1 EQU 1", "A1 EQU 2"],
    "label on org": ["A1 ORG $2000", " LDX #A1", "B1 NOP", " LDX #B1"],
    "two orgs": [" ORG $2000", "A1 NOP", " ORG $1000", "B1 NOP", " LDX #A1", " LDX #B1"],
    "label on end": [" NOP", "FIN END"], "label on nam": ["N1 NAM PROG", " LDX #N1"],
    "label on fcc": ["T1 FCC /AB/", " LDX #T1", " LDA T1"], "label on rmb": ["R1 RMB 300", "R2 NOP", " LDX #R2"],
    "many labels": ["L{} NOP".format(n) for n in range(300)] + [" LDX #L{}".format(n) for n in range(0, 300, 7)],
    "branch too far forward": [" BRA FAR"] + [" NOP"] * 128 + ["FAR NOP"],
    "branch just in reach": [" BRA FAR"] + [" NOP"] * 127 + ["FAR NOP"],
    "branch too far backward": ["FAR NOP"] + [" NOP"] * 128 + [" BRA FAR"],
    "branch backward in reach": ["FAR NOP"] + [" NOP"] * 126 + [" BRA FAR"],
    "long branch far": [" LBRA FAR"] + [" NOP"] * 40000 + ["FAR NOP"],
    "branch to equ": ["V1 EQU 5", " BRA V1"], "branch to number": [" BRA 5"], "branch to itself": ["A1 BRA A1"],
    "branch to undefined": [" BRA NOWHERE"], "branch to expression": ["A1 NOP", " BRA A1+1"],
    "address expression": ["A1 NOP", " LDA A1+1", " LDX #A1+2", " JMP A1-1", " LDA A1*2", " LDA A1/0"],
    "address expression forward": [" LDA A1+1", " NOP", "A1 NOP"],
    "pcr": ["A1 LEAX B1,PCR", " LEAY A1,PCR"] + [" NOP"] * 130 + ["B1 LDA [A1,PCR]"],
    "address plus register": ["A1 LDA A1,X"], "lowercase label": ["abc nop", " lda abc"],
    "at label": ["@A NOP", " LDA @A"], "include missing": [" INCLUDE nothere.asm"], "include empty name": [" INCLUDE "],
    "only name": [" NAM ONLY"], "only org": [" ORG $100"], "name twice": [" NAM ONE", " NAM TWO", " NOP"],
    "name without operand": [" NAM ", " NOP"], "org symbol": ["V1 EQU $3000", " ORG V1", " NOP"],
    "org label": ["A1 NOP", " ORG A1", " NOP"], "org undefined": [" ORG NOWHERE", " NOP"],
}
for name, lines in SYMBOL_PROGRAMS.items():
    case("program " + name, lambda: assemble(lines))


# 4. the Program methods on their own
def parsing(contents):
    def run():
        parsed = Program.parse(contents)
        return [type(parsed).__name__, [show(statement) for statement in parsed]]
    return run


case("parse empty", parsing([]))
case("parse tuple", parsing((" NOP \n", "; c\n", "\n", "A1 LDA #1 ; x\n")))
case("parse generator", parsing(line for line in [" NOP \n", "  \n", " RTS \n"]))
case("parse string", parsing(" NOP \n"))
case("parse bad line in the middle", parsing([" NOP \n", "LDA#1\n", " RTS \n"]))
case("parse bad mnemonic", parsing([" NOP \n", " XYZ 1\n"]))
case("parse none", parsing(None))
case("parse none line", parsing([" NOP \n", None]))
case("parse bytes line", parsing([b" NOP \n"]))
case("parse number line", parsing([5]))


def listing_of(table):
    def run():
        program = Program()
        program.symbol_table = table
        return program.get_symbol_table()
    return run


case("symbols empty", listing_of({}))
case("symbols values", listing_of({"A": NumericValue(1), "LONGNAME": NumericValue("$1234"), "C": AddressValue(300),
                                   "D": NoneValue(), "E": StringValue("/AB/"), "F": SymbolValue("Q"), "": NumericValue(0)}))
case("symbols not values", listing_of({"A": NumericValue(1), "B": 5}))
case("symbols none table", listing_of(None))


def by_hand(lines, table=None, drop_code=False, break_statement=None):
    def run():
        program = Program()
        program.statements = Program.parse([line + "\n" for line in lines])
        if table:
            program.symbol_table.update(table)
        if break_statement is not None:
            program.statements[break_statement].original_operand = None
        outcome = []
        for step in (program.translate_statements, program.get_statements, program.get_symbol_table,
                     program.get_binary_array):
            try:
                outcome.append(show(step()))
            except Exception as error:
                outcome.append(["raised", type(error).__name__, str(error), safe(lambda: str(getattr(error, "value", "")))])
        return [outcome, show(program.symbol_table), safe(lambda: program.origin.hex()), program.name]
    return run


case("by hand plain", by_hand(["A1 LDA #1", " BRA A1"]))
case("by hand preset number", by_hand([" LDA #V1"], table={"V1": NumericValue(7)}))
case("by hand preset address out of range", by_hand([" NOP"], table={"V1": AddressValue(50)}))
case("by hand preset address used", by_hand([" LDX #V1", " NOP"], table={"V1": AddressValue(1)}))
case("by hand preset address used out of range", by_hand([" LDX #V1", " NOP"], table={"V1": AddressValue(9)}))
case("by hand preset clash", by_hand(["V1 NOP"], table={"V1": NumericValue(7)}))
case("by hand preset not a value", by_hand([" NOP"], table={"V1": 5}))
case("by hand preset string", by_hand([" LDA #V1"], table={"V1": StringValue("/A/")}))
case("by hand listing breaks", by_hand([" NOP", " RTS"], break_statement=1))
case("by hand twice", lambda: [by_hand(["A1 LDA #1", " BRA A1"])(), by_hand(["A1 LDA #1", " BRA A1"])()])


def process_twice():
    program = Program()
    first = safe(lambda: program.process(["A1 NOP \n", " BRA A1\n"]))
    second = safe(lambda: program.process(["A1 NOP \n", " BRA A1\n"]))
    return [first, second, safe(program.get_binary_array), safe(program.get_symbol_table)]


case("process twice on one object", process_twice)


# 5. INCLUDE, through the command line front end so that relative names resolve
def front_end(files, switches=("--print", "--symbols", "--to_bin", "p.bin", "--to_cas", "p.cas", "--to_dsk", "p.dsk")):
    return cli("assembler.py", ["p.asm"] + list(switches), files=files)


MAIN = " NAM INC\nSTART NOP\n INCLUDE other.asm\n BRA START\n"
case("cli include", lambda: front_end({"p.asm": MAIN, "other.asm": "INNER LDA #1\n BRA INNER\n"}))
case("cli include missing", lambda: front_end({"p.asm": MAIN}))
case("cli include itself", lambda: front_end({"p.asm": " NAM INC\n INCLUDE p.asm\n"}))
case("cli include cycle", lambda: front_end({"p.asm": MAIN, "other.asm": " INCLUDE third.asm\n", "third.asm": " INCLUDE other.asm\n"}))
case("cli include twice", lambda: front_end({"p.asm": " NAM INC\n INCLUDE other.asm\n INCLUDE other.asm\n", "other.asm": " NOP\n"}))
case("cli include twice labels", lambda: front_end({"p.asm": " NAM INC\n INCLUDE other.asm\n INCLUDE other.asm\n", "other.asm": "A1 NOP\n"}))
case("cli include bad line", lambda: front_end({"p.asm": MAIN, "other.asm": "LDA#1\n"}))
case("cli include directory", lambda: front_end({"p.asm": " NAM INC\n INCLUDE .\n"}))
case("cli valid", lambda: front_end({"p.asm": "\n".join(VALID_PROGRAM) + "\n"}))
for position in (5, 9, 10, 14, 20, 21, 23):
    for changed in mutations(VALID_PROGRAM[position])[::5]:
        lines = VALID_PROGRAM[:position] + [changed] + VALID_PROGRAM[position + 1:]
        case("cli mutated {} {!r}".format(position, changed), lambda: front_end({"p.asm": "\n".join(lines) + "\n"}))
case("cli no file", lambda: cli("assembler.py", ["missing.asm", "--to_bin", "p.bin"]))
case("cli diagnostic keeps old output", lambda: front_end({"p.asm": " NAM X\n LDA 5,Z\n", "p.bin": b"old", "p.cas": b"old", "p.dsk": b"old"}))
'''


def run_tree(tree):
    tree = os.path.abspath(tree)
    env = dict(os.environ, PYTHONDONTWRITEBYTECODE="1")
    done = subprocess.run([PYTHON, "-c", DRIVER_HEAD + DRIVER_CASES + DRIVER_TAIL, tree, PYTHON],
                          cwd=tree, env=env, capture_output=True, text=True)
    marker = done.stdout.rfind("@@RESULTS@@")
    if done.returncode != 0 or marker < 0:
        print("driver failed for", tree)
        print(done.stdout[-2000:])
        print(done.stderr[-4000:])
        sys.exit(1)
    return json.loads(done.stdout[marker + len("@@RESULTS@@"):])


def main():
    if len(sys.argv) != 3:
        print(__doc__)
        sys.exit(2)
    first, second = run_tree(sys.argv[1]), run_tree(sys.argv[2])
    bad = 0
    if [label for label, _ in first] != [label for label, _ in second]:
        print("case lists differ")
        bad += 1
    for (label, left), (_, right) in zip(first, second):
        if left != right:
            bad += 1
            print("DIFF in case", label)
            print("  A:", json.dumps(left)[:1500])
            print("  B:", json.dumps(right)[:1500])
    print("{} cases compared, {} differ".format(len(first), bad))
    sys.exit(1 if bad or len(first) < 30 else 0)


if __name__ == "__main__":
    main()
