#!/usr/bin/env python
"""
Differential check for property C19 (INCLUDE is textual inclusion).

usage: equiv.py <treeA> <treeB>

For each tree a worker subprocess is started with the tree as cwd and at the
front of sys.path (the two workers run concurrently). The worker assembles a
corpus of accepted and rejected programs through the library (fresh objects,
warm histories, reversed order, after rejected programs), through
<tree>/assembler.py as a real subprocess under several hash seeds (stdout,
exit status, files written), through INCLUDE splits of the same programs
(flat, sequential, nested, in the middle, missing, cyclic), and calls the
anchored functions directly (CodePackage, Statement parsing, Program helpers,
SourceFile). Every observable is printed as JSON; the two documents must be
identical.
"""
import json
import os
import subprocess
import sys

WORKER = r'''
import contextlib, hashlib, io, json, os, shutil, subprocess, sys, tempfile
tree = os.getcwd()
sys.path.insert(0, tree)

from cocoasm.program import Program
from cocoasm.statement import Statement
from cocoasm.instruction import CodePackage, INSTRUCTIONS, Instruction, Mode
from cocoasm.values import NoneValue, NumericValue, Value
from cocoasm.exceptions import TranslationError, ParseError
from cocoasm.virtualfiles.source_file import SourceFile, SourceFileType

results = []
work = tempfile.mkdtemp(prefix="asmw_")


def record(label, value):
    results.append([label, value])


def scrub(text):
    return text.replace(work, "<work>").replace(tree, "<tree>")


def lines_of(text):
    return [line + "\n" for line in text.strip("\n").split("\n")]


# ------------------------------------------------------------------ corpus
BASE = """
            NAM     DEMO
            ORG     $0E00
SCREEN      EQU     $0400
COUNT       EQU     $20
START       LDX     #SCREEN         ; point at the screen
            LDA     #COUNT
            LDB     #$60
LOOP        STB     ,X+             ; clear one cell
            DECA
            BNE     LOOP
            LDD     VALUE
            ADDD    VALUE+2
            STD     RESULT
            LDA     <COUNT
            STA     >SCREEN
            JSR     SUB
            LBSR    SUB
            BRA     DONE
SUB         PSHS    A,B,X
            LDA     TABLE,PCR
            LEAX    TABLE,PCR
            LDB     2,X
            LDB     -2,Y
            LDB     100,U
            LDB     -100,S
            LDB     1000,X
            LDD     [TABLE]
            LDD     [$1234]
            LDA     [4,X]
            LDA     A,X
            LDA     [D,Y]
            LDA     ,--S
            LDA     ,U++
            LDA     [,X++]
            CMPX    #TABLE
            CMPX    #TABLE+4
            CMPX    #TABLE-1
            JMP     SUB+2
            TFR     A,B
            EXG     X,Y
            PULS    A,B,X,PC
VALUE       FDB     $1234,$5678
RESULT      RMB     2
TABLE       FCB     1,2,3,$FF
MSG         FCC     "HELLO, WORLD"  ; a message
            FCB     0
DONE        SWI
            LBRA    START
            END     START
"""

BRANCHY = """
            ORG     $2000
TOP         NOP
FWD         BEQ     NEAR
            LBEQ    FAR
            BSR     NEAR
NEAR        LDA     #1
            BRA     TOP
            LEAY    FAR,PCR
            LDA     [FAR,PCR]
            LEAX    TOP,PCR
            LDX     FAR+2,PCR
PAD         RMB     140
FAR         RTS
            LEAX    TOP,PCR
            LEAU    NEAR-1,PCR
            LBNE    TOP
            LBRN    FAR
"""

NO_ORG = """
BEGIN   LDA #$01
        STA $10
        STA $0110
        LDB #%00001111
        LDX #%1111000011110000
        LDA #'A
        CMPA #'z
        ADDA 5
        ADDA 500
        SUBD #1000
        NEGA
        COM  <$20
        INC  >$20
        ASL  $1234
NEXT    BNE BEGIN
        BLO NEXT
        FDB BEGIN
        FDB 10
        FCB 255
        FCB 'A
        RMB 0
        RMB 3
LAST    RTS
"""

LOWPAGE = """
        ORG  $0080
ZP      FCB  1
ZP2     RMB  1
        LDA  ZP
        STA  ZP2
        LDX  #ZP
        JMP  ZP
HERE    LDA  HERE
        LDD  #HERE+1
"""

EXPRS = """
        ORG   $1000
A1      EQU   10
A2      EQU   $0100
A3      EQU   A1
        LDA   #A1+1
        LDA   #A1-1
        LDA   #A1*2
        LDA   #A2/2
        LDX   #A2+A1
        LDA   A1+1
        LDX   A2+1
        LDX   #$10+$20
L1      LDX   #L1
        LDX   #L1+A1
        LDD   L1+1
        STD   L1-1
        LDA   A1,X
        LDA   A2,X
"""

SPECIALS = """
        PSHS  A
        PSHS  D
        PSHS  CC,A,B,DP,X,Y,U,PC
        PSHU  S,X
        PULU  A,B
        PULS  PC
        TFR   X,D
        TFR   DP,CC
        EXG   A,B
        EXG   PC,S
        ABX
        MUL
        SEX
        DAA
        SYNC
        CWAI  #$EF
        ORCC  #$50
        ANDCC #$AF
        SWI2
        SWI3
        RTI
"""

CASES = """
start   lda   #1    ; lower case mnemonic
Start2  Ldb   #2
        sta   start
        bra   Start2
        fcc   /slash delimited/
        fcc   'quote' trailing comment
        FCC   "semi;colon"
"""

AT_LABELS = """
        ORG $3000
@LOOP   DECA
        BNE @LOOP
L@2     INCB
        BNE L@2
X1      LDX #X1
Y2      LDY #Y2
PCX     LDA PCX
BAKER   LDA BAKER,PCR
DOG     LEAX DOG,PCR
"""

ERRORS = {
    "dup_label": "L1 NOP\nL1 NOP\n",
    "bad_mnemonic": " FOO 1\n",
    "bad_mnemonic_label": "HERE XYZZY #1 ; what\n",
    "undefined_symbol": " LDA NOWHERE\n",
    "undefined_branch": " BRA NOWHERE\n",
    "undefined_in_expr": " LDX #NOWHERE+1\n",
    "inherent_with_operand": " NOP 5\n",
    "needs_operand": " LDA\n",
    "no_immediate": " STA #5\n",
    "no_indexed": " BRA ,X\n",
    "bad_register": " PSHS Q\n",
    "own_stack": " PSHS S\n",
    "no_registers": " PSHS\n",
    "bad_tfr": " TFR A,X\n",
    "tfr_one": " TFR A\n",
    "tfr_unknown": " TFR A,Q\n",
    "unparsable": "NOSPACE\n",
    "hex_too_long": " LDA $12345\n",
    "int_too_big": " LDX #70000\n",
    "bad_binary": " LDA #%101\n",
    "fcc_no_string": " FCC\n",
    "fcc_unterminated": ' FCC "abc\n',
    "bad_indexed": " LDA 5,X+\n",
    "ext_ind_inc": " LDA [,X+]\n",
    "ext_ind_dec": " LDA [,-X]\n",
    "branch_range_fwd": " BRA FAR\n RMB 200\nFAR NOP\n",
    "branch_range_back": "BACK NOP\n RMB 200\n BRA BACK\n",
    "bad_value": " LDA #!!\n",
    "equ_dup": "V EQU 1\nV EQU 2\n",
    "include_missing": " INCLUDE nonexistent_file.asm\n NOP\n",
    "empty_operand_fcb": " FCB\n",
    "three_commas": " LDA 1,2,X\n",
    "div_zero": "Z EQU 0\n LDA #4/0\n",
    "lea_imm": " LEAX #5\n",
}

ODD_OK = {
    "sum_equ": "SUM EQU 4+5\n LDB SUM\n",
    "sum_equ_imm": "SUM EQU 4+5\n LDB #SUM\n",
    "label_indexed": " ORG $3000\nABLE LDA ABLE,X\n",
    "label_indexed_back": " ORG $3000\nABLE NOP\n LDA ABLE,X\n LDA ABLE,Y\n",
    "empty": "",
    "blank_only": "\n   \n\t\n",
    "comments_only": "; one\n   ; two\n;\n",
    "single": " NOP\n",
    "label_only_ops": "A1 NOP\nB1 NOP\n",
    "tabs": "L\tLDA\t#1\t; tabbed\n\tSTA\tL\n",
    "no_newline": " RTS",
    "crlf": " LDA #1\r\n RTS\r\n",
    "end_only": " END\n",
    "two_orgs": " ORG $1000\n NOP\n ORG $2000\nL NOP\n JMP L\n",
    "two_names": " NAM ONE\n NAM TWO\n NOP\n",
    "setdp": " SETDP $10\n LDA $1020\n SET 5\n",
    "equ_forward": " LDA #LATER\nLATER EQU 7\n",
    "equ_hex2": "V EQU $20\n LDA V\n LDA #V\n",
    "equ_hex4": "V EQU $0020\n LDA V\n LDA #V\n",
    "equ_int": "V EQU 300\n LDA V\n LDX #V\n",
    "big_rmb": " ORG $4000\nBUF RMB 300\n LDX #BUF\nE LDX #E\n",
    "comment_star": "* star comment\n NOP\n",
    "many_pcr": "\n".join(["L%d LEAX L%d,PCR" % (i, (i * 7) % 40) for i in range(40)]) + "\n",
    "long_chain": "\n".join(["N%d BNE N%d" % (i, (i + 3) % 30) for i in range(30)]) + "\n",
    "registers_as_labels": "A NOP\nB NOP\nD NOP\nX NOP\n LDA A\n LDA B,X\n LDA D,X\n JMP X\n",
    "fcc_variants": ' FCC "a b c"\n FCC /x/ ; c\n FCC "" \n FCC "1"\n',
    "fdb_mix": "L FDB L,1\n FDB $1,$22,$333,$4444\n FCB 1,\n FCB $1,10,'A\n",
    "neg_values": " LDA #-1\n LDB #-128\n LDX #-129\n LDD #-32768\n LDA -1,X\n LDA -16,X\n LDA -17,X\n LDA -128,X\n LDA -129,X\n",
    "index_bounds": " LDA 0,X\n LDA 15,X\n LDA 16,X\n LDA 127,X\n LDA 128,X\n LDA $10,X\n LDA $0010,X\n LDA [0,X]\n LDA [127,Y]\n LDA [128,Y]\n LDA [-5,U]\n LDA [-200,S]\n",
    "pcr_numeric": " LDA 10,PCR\n LDA $1000,PCR\n LDA [10,PCR]\n LEAX 0,PCR\n",
}


def shift_origin(text, origin):
    return text.replace("$0E00", origin).replace("$2000", origin)


def variants():
    progs = {}
    progs["base"] = BASE
    progs["branchy"] = BRANCHY
    progs["no_org"] = NO_ORG
    progs["lowpage"] = LOWPAGE
    progs["exprs"] = EXPRS
    progs["specials"] = SPECIALS
    progs["cases"] = CASES
    progs["at_labels"] = AT_LABELS
    for name, text in ODD_OK.items():
        progs["odd_" + name] = text
    for name, text in ERRORS.items():
        progs["err_" + name] = text
    # metamorphic variants (relocation, renaming, white space, comments, case, suffixes)
    for origin in ("$0100", "$0E05", "$7F00", "$FF00", "$00F0", "$0200"):
        progs["base_at_" + origin] = shift_origin(BASE, origin)
        progs["branchy_at_" + origin] = shift_origin(BRANCHY, origin)
    renames = {"START": "BEGIN1", "LOOP": "AGAIN", "SUB": "ROUTINE", "TABLE": "TBL", "VALUE": "VAL2", "DONE": "FIN",
               "RESULT": "R", "MSG": "TEXT1", "SCREEN": "VID", "COUNT": "N"}
    renamed = BASE
    for old, new in renames.items():
        renamed = "\n".join(
            line.replace(old, new) if not line.strip().startswith("MSG") or old == "MSG" else line
            for line in renamed.split("\n"))
    progs["base_renamed"] = renamed
    regnames = BASE
    for old, new in {"LOOP": "SPOT", "SUB": "DUX", "TABLE": "XTAB", "VALUE": "PCV", "DONE": "YS"}.items():
        regnames = regnames.replace(old, new)
    progs["base_register_like_names"] = regnames
    progs["base_squeezed"] = "\n".join(
        " ".join(line.split(";")[0].split()) if line[:1].strip() else " " + " ".join(line.split(";")[0].split())
        for line in BASE.split("\n") if "FCC" not in line) + "\n"
    progs["base_tabs"] = "\n".join(
        "\t".join(line.split(None, 2)) if line[:1].strip() else "\t" + "\t".join(line.split(None, 1))
        for line in (full.split(";")[0].rstrip() for full in BASE.split("\n") if "FCC" not in full)) + "\n"
    progs["base_nocomments"] = "\n".join(line.split(";")[0].rstrip() for line in BASE.split("\n")) + "\n"
    progs["base_morecomments"] = "\n".join(
        line if (";" in line or "FCC" in line or not line.strip()) else line.rstrip().ljust(40) + "; LDA #1 X,PCR $FFFF"
        for line in BASE.split("\n")) + "\n"
    progs["base_lowercase_ops"] = "\n".join(
        (line[:12] + line[12:20].lower() + line[20:]) if "FCC" not in line else line for line in BASE.split("\n")) + "\n"
    progs["base_suffix"] = BASE.replace("            END     START\n", "") + \
        "EXTRA       LDA     START\n            BRA     EXTRA\nMORE        FDB     EXTRA\n            FDB     1,2\n            FCC     /tail/\n"
    progs["branchy_suffix"] = BRANCHY + "NEWLBL      LBRA    TOP\n            LEAX    NEWLBL,PCR\n            FCB     1,2\n"
    progs["base_interleaved_blank"] = "\n\n".join(BASE.split("\n")) + "\n; trailing comment\n"
    # size boundary sweeps around the short / long PCR decision and branch limits
    for gap in (120, 121, 122, 123, 124, 125, 126, 127, 128, 129, 130, 131, 250, 255, 256):
        progs["pcr_fwd_%d" % gap] = " ORG $1000\nS LEAX T,PCR\n RMB %d\nT NOP\n LDA S,PCR\n" % gap
        progs["bra_fwd_%d" % gap] = " ORG $1000\nS BRA T\n RMB %d\nT NOP\n" % gap
        progs["bra_back_%d" % gap] = " ORG $1000\nT NOP\n RMB %d\nS BRA T\n LBRA T\n" % (gap - 4)
        progs["pcr_back_%d" % gap] = " ORG $1000\nT NOP\n RMB %d\nS LEAX T,PCR\n LDA [T,PCR]\n" % (gap - 4)
    return progs


PROGRAMS = variants()


# ------------------------------------------------------------------ observers
def observe_program(text_or_lines, cwd=None):
    # strings keep odd line endings (no trailing newline, CRLF) exactly as given
    lines = text_or_lines.splitlines(keepends=True) if isinstance(text_or_lines, str) else text_or_lines
    before = list(lines)
    program = Program()
    old = os.getcwd()
    if cwd:
        os.chdir(cwd)
    try:
        try:
            program.process(lines)
        except (TranslationError, ParseError) as error:
            try:
                shown = scrub(str(error.statement))
            except BaseException as inner:
                shown = ["unprintable statement", type(inner).__name__, str(inner)]
            return ["diagnostic", type(error).__name__, scrub(str(error.value)), shown, lines == before]
        except BaseException as error:
            return ["raise", type(error).__name__, scrub(str(error)), lines == before]
        binary = program.get_binary_array()
        return ["ok", binary, program.get_statements(), program.get_symbol_table(),
                program.origin.hex(), str(program.origin.is_none()), program.name, lines == before,
                [[s.code_pkg.size, s.code_pkg.max_size, s.fixed_size, s.pcr_size_hint,
                  s.code_pkg.additional_needs_resolution, s.code_pkg.post_byte_choices] for s in program.statements],
                list(program.symbol_table.keys())]
    finally:
        os.chdir(old)


def cli(directory, *argv, seed="0"):
    proc = subprocess.run([sys.executable, os.path.join(tree, "assembler.py")] + list(argv), cwd=directory,
                          capture_output=True, text=True,
                          env=dict(os.environ, PYTHONPATH=tree, PYTHONDONTWRITEBYTECODE="1", PYTHONHASHSEED=seed))
    # of a crash only the final "ExceptionType: message" line is kept (not the source line numbers)
    return [proc.returncode, scrub(proc.stdout), scrub(proc.stderr).strip().split("\n")[-1]]


def snapshot(directory):
    out = {}
    for root, _, names in os.walk(directory):
        for name in sorted(names):
            path = os.path.join(root, name)
            with open(path, "rb") as handle:
                raw = handle.read()
            out[os.path.relpath(path, directory)] = [len(raw), hashlib.sha256(raw).hexdigest()]
    return out


def write_text(path, text):
    os.makedirs(os.path.dirname(path), exist_ok=True)
    with open(path, "w", newline="") as handle:
        handle.write(text)


# 1. every program in a fresh Program object -------------------------------
for name, text in PROGRAMS.items():
    record("fresh " + name, observe_program(text))

# 2. histories: warm process, repeated, reversed, interleaved with rejected ones
names = list(PROGRAMS)
history = []
for name in names:
    history.append(observe_program(PROGRAMS[name]))
for name in reversed(names):
    again = observe_program(PROGRAMS[name])
    record("history reversed same-as-first " + name, again == history[names.index(name)])
for name in ("base", "branchy", "exprs", "no_org", "at_labels"):
    for bad in ("err_dup_label", "err_undefined_symbol", "err_branch_range_fwd", "err_bad_mnemonic"):
        observe_program(PROGRAMS[bad])
        record("after %s: %s" % (bad, name), observe_program(PROGRAMS[name]) == history[names.index(name)])
shared = lines_of(BASE)
first = observe_program(shared)
record("same list object twice", [first == observe_program(shared), shared == lines_of(BASE)])

# 3. INCLUDE: split programs over files ------------------------------------
def split_case(label, text, cut_points, nested=False):
    directory = os.path.join(work, label)
    os.makedirs(directory)
    lines = [line for line in text.strip("\n").split("\n")]
    pieces, last = [], 0
    for cut in cut_points + [len(lines)]:
        pieces.append(lines[last:cut])
        last = cut
    main_lines = list(pieces[0])
    if nested:
        # main includes inc1, inc1 includes inc2 at its end, ...
        for number in range(1, len(pieces)):
            body = list(pieces[number])
            if number + 1 < len(pieces):
                body.append("            INCLUDE inc%d.asm" % (number + 1))
            write_text(os.path.join(directory, "inc%d.asm" % number), "\n".join(body) + "\n")
        main_lines.append("            INCLUDE inc1.asm")
    else:
        for number in range(1, len(pieces)):
            write_text(os.path.join(directory, "inc%d.asm" % number), "\n".join(pieces[number]) + "\n")
            main_lines.append("            INCLUDE inc%d.asm    ; piece %d" % (number, number))
    write_text(os.path.join(directory, "main.asm"), "\n".join(main_lines) + "\n")
    write_text(os.path.join(directory, "flat.asm"), "\n".join(lines) + "\n")
    record(label + " lib main", observe_program(open(os.path.join(directory, "main.asm")).read(), cwd=directory))
    record(label + " lib flat", observe_program(open(os.path.join(directory, "flat.asm")).read(), cwd=directory))
    record(label + " cli main", cli(directory, "main.asm", "--print", "--symbols", "--to_bin", "main.bin"))
    record(label + " cli flat", cli(directory, "flat.asm", "--print", "--symbols", "--to_bin", "flat.bin"))
    record(label + " files", snapshot(directory))


count = 0
for pname in ("base", "branchy", "exprs", "at_labels"):
    total = len(PROGRAMS[pname].strip("\n").split("\n"))
    for cuts in ([1], [total // 2], [total - 1], [3, 9], [2, total // 2, total - 2], [5, 6, 7]):
        for nested in (False, True):
            count += 1
            split_case("inc%02d_%s" % (count, pname), PROGRAMS[pname], list(cuts), nested)

# include in the middle (include line replaced in place), and include error cases
directory = os.path.join(work, "incmid")
write_text(os.path.join(directory, "mid.asm"), "MIDDLE      LDA     #2\n            BRA     TAIL\n            BRA     HEAD\n")
write_text(os.path.join(directory, "sub", "deep.asm"), "DEEP        NOP\n")
write_text(os.path.join(directory, "usesub.asm"), " INCLUDE sub/deep.asm\n JMP DEEP\n")
write_text(os.path.join(directory, "main.asm"),
           "            ORG     $1000\nHEAD        LDA     #1\n            INCLUDE mid.asm\nTAIL        LDA     #3\n"
           "            LEAX    MIDDLE,PCR\n            INCLUDE usesub.asm\n")
write_text(os.path.join(directory, "twice.asm"), " INCLUDE sub/deep.asm\n INCLUDE sub/deep.asm\n")
write_text(os.path.join(directory, "self.asm"), " NOP\n INCLUDE self.asm\n")
write_text(os.path.join(directory, "ping.asm"), " NOP\n INCLUDE pong.asm\n")
write_text(os.path.join(directory, "pong.asm"), " NOP\n INCLUDE ping.asm\n")
write_text(os.path.join(directory, "missing.asm"), " NOP\n INCLUDE not_there.asm\n")
write_text(os.path.join(directory, "missing_nested.asm"), " INCLUDE missing.asm\n")
write_text(os.path.join(directory, "badinside.asm"), " INCLUDE bad.asm\n")
write_text(os.path.join(directory, "bad.asm"), " FROB 1\n")
write_text(os.path.join(directory, "noname.asm"), " INCLUDE\n NOP\n")
write_text(os.path.join(directory, "isdir.asm"), " INCLUDE sub\n")
write_text(os.path.join(directory, "labelled.asm"), "LBL INCLUDE mid.asm ; comment\nHEAD NOP\nTAIL NOP\n")
write_text(os.path.join(directory, "lower.asm"), " include sub/deep.asm\n")
write_text(os.path.join(directory, "empty.asm"), "")
write_text(os.path.join(directory, "incempty.asm"), " NOP\n INCLUDE empty.asm\n RTS\n")
for name in ("main", "twice", "self", "ping", "missing", "missing_nested", "badinside", "noname", "isdir",
             "labelled", "lower", "incempty"):
    record("incmid lib " + name, observe_program(open(os.path.join(directory, name + ".asm")).read(), cwd=directory))
    record("incmid cli " + name, cli(directory, name + ".asm", "--print", "--symbols"))
record("incmid cli from other cwd", cli(work, os.path.join("incmid", "main.asm"), "--print"))

# 4. CLI on the corpus (fresh process, several hash seeds) --------------------
directory = os.path.join(work, "cli")
os.makedirs(directory)
for number, (name, text) in enumerate(PROGRAMS.items()):
    if name.startswith(("pcr_fwd", "bra_fwd", "bra_back", "pcr_back")) and not name.endswith(("126", "127", "128", "129")):
        continue
    source = "p%03d.asm" % number
    write_text(os.path.join(directory, source), text)
    record("cli " + name, cli(directory, source, "--print", "--symbols", seed=str(number % 5)))
for name in ("base", "branchy", "no_org", "err_dup_label"):
    source = name + ".asm"
    write_text(os.path.join(directory, source), PROGRAMS[name])
    record("cli out " + name, [
        cli(directory, source, "--to_bin", name + ".bin", "--to_cas", name + ".cas", "--to_dsk", name + ".dsk",
            "--name", "PROG"),
        cli(directory, source, "--to_cas", name + ".cas", "--name", "SECOND", "--append", "--symbols"),
        cli(directory, source, "--to_dsk", name + ".dsk"),
        cli(directory, source, "--to_bin", name + ".bin"),
        cli(directory, source, "--print", seed="random"),
    ])
record("cli missing source", cli(directory, "nothere.asm")[0])
record("cli files", snapshot(directory))


# 5. direct calls on the anchored pieces -------------------------------------
def value_view(value):
    return [type(value).__name__, value.hex(), value.hex_len(), value.int, str(value.is_none())]


def package_view(package):
    return [value_view(package.op_code), value_view(package.address), value_view(package.post_byte),
            value_view(package.additional), package.size, package.additional_needs_resolution,
            package.post_byte_choices, package.max_size, sorted(vars(package))]


def guarded(label, func):
    try:
        record(label, ["ok", func()])
    except BaseException as error:
        record(label, ["raise", type(error).__name__, scrub(str(error))])


guarded("CodePackage()", lambda: package_view(CodePackage()))
guarded("CodePackage positional", lambda: package_view(
    CodePackage(NumericValue(0x86), NumericValue(0x1000), NumericValue(0x8C), NumericValue(5), 3, True, [1, 2], 5)))
guarded("CodePackage keywords", lambda: package_view(
    CodePackage(max_size=9, size=4, post_byte_choices=[0x8C, 0x8D], additional_needs_resolution=True,
                additional=NumericValue(7), post_byte=NumericValue(1), address=NumericValue(2),
                op_code=NumericValue(3))))
guarded("CodePackage bad keyword", lambda: CodePackage(bogus=1))


def package_isolation():
    first, second = CodePackage(), CodePackage()
    first.post_byte_choices.append(1)
    first.size += 3
    choices = [4, 5]
    third = CodePackage(post_byte_choices=choices)
    empty = []
    fourth = CodePackage(post_byte_choices=empty)
    return [second.post_byte_choices, second.size, CodePackage().post_byte_choices, third.post_byte_choices is choices,
            fourth.post_byte_choices is empty]
guarded("CodePackage isolation", package_isolation)


def statement_view(statement):
    view = {}
    for key, value in sorted(vars(statement).items()):
        if key == "code_pkg":
            view[key] = package_view(value)
        elif key in ("operand", "original_operand"):
            view[key] = None if value is None else [type(value).__name__, value.operand_string, str(value.type),
                                                    value_view(value.value)]
        elif key == "instruction":
            view[key] = None if value is None else value.mnemonic
        else:
            view[key] = value if isinstance(value, (str, int, bool, type(None))) else repr(type(value))
    return view


LINES = ["", "   ", "; only a comment", "   ;indented   comment  ", "LABEL LDA #1 ; c", " NOP", " nop ; lower", "L NOP",
         " INCLUDE some/file.asm", " include x.asm ; c", " INCLUDE", "LBL INCLUDE f.asm", " FCC /a b/ rest",
         ' FCC "x;y" ; c', " FCC", " BOGUS 1 ; c", "garbage", " LDA", " LDA $12345", "@L LDA ,X", "L@ LDA [,X]",
         " LDA #1;nospace", " LDA #1 comment without semicolon", "TOOLONGLABELNAME12345 NOP", " ORG $1000", " NAM ABC",
         "V EQU 5", " FCB 1,2", " FDB 1,2", " RMB 4", "\tLDA\t#1", " LDA #1\r\n", " END", " END START", " PSHS A,B"]
for line in LINES:
    def parse(line=line):
        statement = Statement(line)
        view = statement_view(statement)
        if statement.instruction is not None:
            view["include_filename"] = statement.get_include_filename()
        if not statement.is_empty and not statement.is_comment_only:
            view["str"] = str(statement)
        return view
    guarded("Statement %r" % line, parse)


def program_defaults():
    first, second = Program(), Program()
    first.symbol_table["X"] = 1
    first.statements.append(1)
    return [second.symbol_table, second.statements, second.address, value_view(second.origin), second.name,
            sorted(vars(second))]
guarded("Program defaults", program_defaults)


def parse_only():
    statements = Program.parse(lines_of(BASE) + ["\n", "; c\n"])
    return [len(statements), [s.mnemonic for s in statements]]
guarded("Program.parse", parse_only)


def binary_of_unusual():
    program = Program()
    program.process(lines_of(' FCC "A\tB"\n FCC /0123456789/\n RMB 2\n FDB 1,2\n'))
    return [program.get_binary_array(), program.get_statements(), program.get_symbol_table()]
guarded("binary of unusual values", binary_of_unusual)


def empty_program_views():
    program = Program()
    return [program.get_binary_array(), program.get_statements(), program.get_symbol_table(), program.all_sizes_fixed()]
guarded("empty program views", empty_program_views)


def process_mnemonics_direct():
    statements = Program.parse(lines_of(" NOP\n RTS\n"))
    out = Program.process_mnemonics(statements)
    return [len(out), [a is b for a, b in zip(out, statements)], out is statements,
            Program.process_mnemonics([]), Program.process_mnemonics([], including=("a",))]
guarded("process_mnemonics direct", process_mnemonics_direct)


def include_cycle_direct():
    directory = os.path.join(work, "incmid")
    old = os.getcwd()
    os.chdir(directory)
    try:
        statements = Program.parse([" INCLUDE sub/deep.asm\n"])
        try:
            Program.process_mnemonics(statements, including=("sub/deep.asm",))
        except TranslationError as error:
            first = [error.value, str(error.statement)]
        second = [s.mnemonic for s in Program.process_mnemonics(statements, ("other.asm",))]
        third = [s.mnemonic for s in Program.process_mnemonics(statements, including=())]
        return [first, second, third]
    finally:
        os.chdir(old)
guarded("include cycle direct", include_cycle_direct)


def source_file_direct():
    directory = os.path.join(work, "incmid")
    out = []
    for name in ("main.asm", "empty.asm", "not_there.asm", "sub"):
        source = SourceFile(os.path.join(directory, name))
        try:
            source.read_file()
            out.append([name, source.get_buffer(), source.get_file_name() == os.path.join(directory, name)])
        except OSError as error:
            out.append([name, type(error).__name__, scrub(str(error))])
    out.append(SourceFile.read_assembly_contents(os.path.join(directory, "mid.asm")))
    binary = SourceFile(os.path.join(directory, "mid.asm"), file_type=SourceFileType.BINARY)
    binary.read_file()
    out.append(binary.get_buffer()[:20])
    return out
guarded("SourceFile direct", source_file_direct)

guarded("INSTRUCTIONS table", lambda: [len(INSTRUCTIONS), hashlib.sha256(repr(INSTRUCTIONS).encode()).hexdigest()])


# 6. values and operands directly -----------------------------------------------
from cocoasm.values import AddressValue, ExpressionValue, SymbolValue, LeftRightValue, StringValue, \
    DirectNumericValue, ExtendedNumericValue, MultiByteValue, MultiWordValue
from cocoasm.operands import Operand


def full_value_view(value):
    view = [type(value).__name__, str(value.type), value.hex(), value.hex_len(), value.byte_len(), value.int,
            str(value.explict_addressing_mode), value.size_hint, value.negative, value.resolved,
            value.high_byte(), value.low_byte(), value.is_8_bit(), value.is_16_bit(), str(value), value.ascii()
            if isinstance(value.ascii(), (str, int, type(None))) else repr(value.ascii())]
    if isinstance(value, NumericValue):
        view += [value.is_4_bit(), value.get_negative(), value.hex(size=2), value.hex(size=4), value.hex(size=3)]
    if isinstance(value, AddressValue):
        view += [value.hex(size=2), value.hex(size=4), value.hex(size=1)]
    if isinstance(value, ExpressionValue):
        view += [full_value_view(value.left), full_value_view(value.right), value.operation]
    if isinstance(value, LeftRightValue):
        view += [value.left, value.right]
    return view


INTS = [0, 1, 9, 15, 16, 17, 127, 128, 129, 255, 256, 257, 4095, 4096, 32767, 32768, 65535, 65536, -1, -15, -16, -17,
        -127, -128, -129, -255, -256, -32768, -32769]
for number in INTS:
    guarded("NumericValue(%d)" % number, lambda number=number: full_value_view(NumericValue(number)))
    guarded("NumericValue(%d, size_hint=4)" % number,
            lambda number=number: full_value_view(NumericValue(number, size_hint=4)))
    guarded("DirectNumericValue(%d)" % number, lambda number=number: full_value_view(DirectNumericValue(number)))
    guarded("ExtendedNumericValue(%d)" % number, lambda number=number: full_value_view(ExtendedNumericValue(number)))
    guarded("AddressValue(%d)" % number, lambda number=number: full_value_view(AddressValue(number)))

STRINGS = ["0", "1", "15", "16", "255", "256", "65535", "65536", "-1", "-128", "-129", "-32768", "-32769", "$0", "$F",
           "$10", "$FF", "$0FF", "$100", "$FFFF", "$10000", "$G", "%0", "%00001111", "%1111000011110000", "%101",
           "'A", "'a", "'1", "' ", "''", "A", "a1", "@A", "A@", "LABEL", "la_bel", "LA.BEL", "1A", "A+1", "A-1", "A*2",
           "A/2", "1+1", "$10+$20", "A+B", "A+$FF", "$FFFF+1", "A++1", "A+", "+1", "A,X", ",X", ",X+", ",--Y", "A,B,C",
           "5,PCR", "#5", "#$FF", "#A", "#A+1", "<$20", ">$20", "<A", ">A", "<", "#", "", " ", "A B", "\"str\"", "/s/"]
for text in STRINGS:
    for extended in (True, False):
        guarded("Value.create_from_str(%r, extended=%s)" % (text, extended),
                lambda text=text, extended=extended: full_value_view(
                    Value.create_from_str(text, default_mode_extended=extended)))
    guarded("NumericValue(%r)" % text, lambda text=text: full_value_view(NumericValue(text)))
    guarded("SymbolValue(%r)" % text, lambda text=text: full_value_view(SymbolValue(text)) if text else None)

SYMBOLS = {"ADDR": AddressValue(3), "NUM": NumericValue(5), "BIG": NumericValue(500), "EXT": NumericValue("$0005")}
for text in ["ADDR", "NUM", "BIG", "EXT", "NOPE", "ADDR+1", "1+ADDR", "ADDR-NUM", "NUM+NUM", "BIG*NUM", "BIG/NUM",
             "NUM-BIG", "EXT+1", "ADDR+ADDR", "NOPE+1", "NUM/0"]:
    def resolve(text=text):
        value = Value.create_from_str(text)
        resolved = value.resolve(dict(SYMBOLS))
        return None if resolved is None else full_value_view(resolved)
    guarded("resolve %r" % text, resolve)

MNEMONICS = ["LDA", "LDX", "LEAX", "STA", "BRA", "LBRA", "JMP", "NOP", "FCB", "FDB", "EQU", "ORG", "PSHS", "TFR"]
OPERANDS = ["", "#1", "#$100", "1", "$10", "$100", "<$10", ">$10", "L", "L+1", ",X", "1,X", "A,X", "B,Y", "D,U", "L,X",
            "L,PCR", "1,PCR", "[1,X]", "[L]", "[$1234]", "[,X++]", "[A,S]", "[L,PCR]", ",X+", ",-X", ",--X", "X,Y",
            "A,B", "1,2", "AX,X", "PC,X", "S,PCR", "XY,U", "-1,X", "-17,Y", "$7F,X", "$80,X", "128,U", "[128,U]"]
by_name = dict((entry.mnemonic, entry) for entry in reversed(INSTRUCTIONS))
for mnemonic in MNEMONICS:
    for text in OPERANDS:
        def build(mnemonic=mnemonic, text=text):
            operand = Operand.create_from_str(text, by_name[mnemonic])
            view = [type(operand).__name__, str(operand.type), operand.operand_string, full_value_view(operand.value),
                    operand.left if isinstance(operand.left, str) else full_value_view(operand.left),
                    operand.right if isinstance(operand.right, str) else full_value_view(operand.right)]
            try:
                operand = operand.resolve_symbols({"L": NumericValue(7), "AX": NumericValue(300), "XY": NumericValue(2),
                                                   "S": NumericValue(1), "PC": NumericValue(4), "A": NumericValue(9)})
                view.append([type(operand).__name__, full_value_view(operand.value)])
                view.append(package_view(operand.translate()))
            except BaseException as error:
                view.append(["raise", type(error).__name__, str(error)])
            return view
        guarded("Operand %s %r" % (mnemonic, text), build)

shutil.rmtree(work)
print(json.dumps(results, sort_keys=True))
'''


def start(tree):
    tree = os.path.abspath(tree)
    env = dict(os.environ, PYTHONDONTWRITEBYTECODE="1", PYTHONHASHSEED="0")
    env.pop("PYTHONPATH", None)
    return tree, subprocess.Popen([sys.executable, "-c", WORKER], cwd=tree, env=env,
                                  stdout=subprocess.PIPE, stderr=subprocess.PIPE, text=True)


def finish(started):
    tree, proc = started
    out, err = proc.communicate()
    if proc.returncode != 0:
        print("worker failed in", tree)
        print(err[-3000:])
        sys.exit(2)
    return json.loads(out)


def run(tree):
    return finish(start(tree))


def main():
    if len(sys.argv) != 3:
        print(__doc__)
        sys.exit(2)
    started = [start(sys.argv[1]), start(sys.argv[2])]
    first, second = finish(started[0]), finish(started[1])
    mismatches = 0
    if len(first) != len(second):
        print("different number of observations: {} vs {}".format(len(first), len(second)))
        mismatches += 1
    for (label_a, value_a), (label_b, value_b) in zip(first, second):
        if label_a != label_b or value_a != value_b:
            mismatches += 1
            if mismatches <= 10:
                print("MISMATCH", label_a, "|", label_b)
                print("   A:", json.dumps(value_a)[:600])
                print("   B:", json.dumps(value_b)[:600])
    print("{} observations compared, {} mismatches".format(len(first), mismatches))
    sys.exit(1 if mismatches else 0)


if __name__ == "__main__":
    main()
