#!/usr/bin/env python
"""
Differential check for refactoring C16/e (DiskFile.list_files / read_dir_fields: reading the directory of a disk image).

usage: equiv.py <treeA> <treeB>

A driver is run once per tree in a subprocess (tree at the front of sys.path and as cwd); it prints
one JSON record per case (results, exception type and message, CLI stdout/stderr/exit status, hashes of
the files produced). The two outputs must be identical; exit 0 if so, 1 otherwise.
"""
import json
import os
import subprocess
import sys
import tempfile

DRIVER = r'''
import sys, os, json, subprocess, hashlib
tree, work = sys.argv[1], sys.argv[2]
sys.path.insert(0, tree)
from cocoasm.values import NumericValue, NoneValue
from cocoasm.virtualfiles.coco_file import CoCoFile
from cocoasm.virtualfiles.cassette import CassetteFile
from cocoasm.virtualfiles.disk import DiskFile, DiskConstants
from cocoasm.virtualfiles.virtual_file import VirtualFile, VirtualFileType
from cocoasm.virtualfiles.source_file import SourceFile, SourceFileType

def val(v):
    try:
        return [type(v).__name__, v.int, v.hex()]
    except Exception as e:
        return [type(v).__name__, repr(e)]

def cf(f):
    if f is None:
        return None
    return dict(name=f.name, ext=f.extension, type=val(f.type), data_type=val(f.data_type), gaps=val(f.gaps),
                load=val(f.load_addr), exec=val(f.exec_addr), dlen=len(f.data),
                data=hashlib.sha256(bytes(f.data)).hexdigest(), head=list(f.data[:8]),
                ignore_gaps=f.ignore_gaps, text=str(f))

def attempt(fn):
    try:
        return ["ok", fn()]
    except BaseException as e:
        return ["raise", type(e).__name__, str(e)]

CASES = []
def case(name, fn):
    CASES.append((name, fn))

def mk(name, ftype, dtype, load, exe, data, ext=None):
    return CoCoFile(name=name, extension=ext if ext is not None else ("BIN" if ftype == 2 else "BAS"),
                    type=NumericValue(ftype), data_type=NumericValue(dtype), load_addr=NumericValue(load),
                    exec_addr=NumericValue(exe), data=data)

def pattern(n, seed=7):
    return [(i * seed + 3) & 0xFF for i in range(n)]

def image(files):
    d = DiskFile()
    d.add_files(files)
    return list(d.get_buffer())

FILESETS = {
    "one_ml": [mk("HELLO", 2, 0, 0x0E00, 0x0E10, pattern(10))],
    "one_basic": [mk("PROG", 0, 0, 0, 0, pattern(40))],
    "ascii": [mk("TEXT", 0, 0xFF, 0, 0, [0x41, 0x42, 0x0D], ext="TXT")],
    "ascii_ml_type1": [mk("DATAFILE", 1, 0xFF, 0x1234, 0x5678, pattern(5), ext="DAT")],
    "three": [mk("A", 2, 0, 0x100, 0x100, pattern(3)), mk("LONGNAME", 0, 0, 0, 0, pattern(300)),
              mk("c", 2, 0, 0xFFFF, 0x0000, pattern(255))],
    "granule_minus": [mk("G1", 2, 0, 0x2000, 0x2000, pattern(2304 - 11))],
    "granule_exact": [mk("G2", 2, 0, 0x2000, 0x2000, pattern(2304 - 10))],
    "granule_plus": [mk("G3", 2, 0, 0x2000, 0x2000, pattern(2304 - 9))],
    "granule_pre": [mk("G4", 2, 0, 0x2000, 0x2000, pattern(2304 - 5))],
    "two_granules": [mk("BIG", 2, 0, 0x3000, 0x3001, pattern(5000, 11))],
    "big_basic": [mk("BIGBAS", 0, 0, 0, 0, pattern(7000, 13))],
    "big_ascii": [mk("BIGTXT", 0, 0xFF, 0, 0, [0x41 + (i % 26) for i in range(4700)])],
    "empty_ml": [mk("EMPTY", 2, 0, 1, 2, [])],
    "empty_ascii": [mk("EMPTYA", 0, 0xFF, 0, 0, [])],
    "same_names": [mk("DUP", 2, 0, 1, 2, [1]), mk("DUP", 0, 0, 0, 0, [2, 3])],
    "nul_name": [mk("AB\0\0", 2, 0, 1, 2, [1, 2])],
    "spaces": [mk("A B C", 2, 0, 1, 2, [1, 2], ext="B ")],
    "lower": [mk("lower", 2, 0, 1, 2, [5], ext="bin")],
    "many": [mk("F%d" % i, 2 if i % 2 else 0, 0, i, i + 1, pattern(i + 1, i + 1)) for i in range(30)],
}

def list_all(buf, names=None):
    d = DiskFile(buffer=list(buf))
    return [cf(f) for f in d.list_files(filenames=names)]

for key, fs in FILESETS.items():
    case("list:" + key, lambda fs=fs: list_all(image(fs)))
    case("fields:" + key, lambda fs=fs: [DiskFile(buffer=image(fs)).directory_entry_in_use(n) for n in range(72)])

DIR = DiskConstants.DIR_OFFSET
FAT = DiskConstants.FAT_OFFSET
base = image(FILESETS["three"])

def poke(buf, changes):
    buf = list(buf)
    for offset, value in changes.items():
        buf[offset] = value
    return buf

case("list:filter_ignored", lambda: list_all(base, ["A"]))
case("corrupt:short", lambda: list_all(base[:-1]))
case("corrupt:empty", lambda: list_all([]))
case("corrupt:longer", lambda: list_all(base + [0] * 100))
case("corrupt:deleted_first", lambda: list_all(poke(base, {DIR: 0x00})))
case("corrupt:deleted_second", lambda: list_all(poke(base, {DIR + 32: 0xFF})))
case("corrupt:name_non_utf8", lambda: list_all(poke(base, {DIR + 1: 0xC3, DIR + 2: 0x28})))
case("corrupt:ext_non_utf8", lambda: list_all(poke(base, {DIR + 9: 0xFF})))
case("corrupt:type_to_basic", lambda: list_all(poke(base, {DIR + 11: 0x00})))
case("corrupt:type_to_ml", lambda: list_all(poke(base, {DIR + 32 + 11: 0x02})))
case("corrupt:ascii_flag", lambda: list_all(poke(base, {DIR + 32 + 12: 0xFF})))
case("corrupt:ascii_flag_7f", lambda: list_all(poke(base, {DIR + 32 + 12: 0x7F})))
case("corrupt:granule_67", lambda: list_all(poke(base, {DIR + 13: 67})))
case("corrupt:granule_200", lambda: list_all(poke(base, {DIR + 13: 200})))
case("corrupt:granule_other", lambda: list_all(poke(base, {DIR + 13: 33})))
case("corrupt:last_sector_bytes", lambda: list_all(poke(base, {DIR + 14: 0x01, DIR + 15: 0x02})))
g0 = DiskFile.seek_granule(32)
case("corrupt:preamble_flag", lambda: list_all(poke(base, {g0: 0x01})))
case("corrupt:preamble_len0", lambda: list_all(poke(base, {g0 + 1: 0, g0 + 2: 0})))
case("corrupt:preamble_len_big", lambda: list_all(poke(base, {g0 + 1: 0xFF, g0 + 2: 0xFF})))
case("corrupt:preamble_len_plus1", lambda: list_all(poke(base, {g0 + 2: 4})))
case("corrupt:postamble0", lambda: list_all(poke(base, {g0 + 5 + 3: 0x00})))
case("corrupt:postamble1", lambda: list_all(poke(base, {g0 + 5 + 3 + 1: 0x01})))
case("corrupt:postamble2", lambda: list_all(poke(base, {g0 + 5 + 3 + 2: 0x01})))
case("corrupt:fat_loop_len0", lambda: list_all(poke(image(FILESETS["big_ascii"]), {FAT + 32: 0xC1})))
case("corrupt:fat_c0", lambda: list_all(poke(image(FILESETS["big_ascii"]), {FAT + 33: 0xC0})))

# an entry in the very last (72nd) directory slot, and one in every slot
def in_slot(slot):
    buf = list(base)
    entry = buf[DIR:DIR + 32]
    buf[DIR:DIR + 32] = [0xFF] * 32
    buf[DIR + 32 * slot:DIR + 32 * slot + 32] = entry
    return buf
for slot in (0, 1, 35, 70, 71):
    case("slot:%d" % slot, lambda slot=slot: list_all(in_slot(slot)))

def full_dir():
    buf = list(base)
    entry = buf[DIR:DIR + 32]
    for slot in range(72):
        e = list(entry)
        e[0] = 0x30 + (slot % 10)
        e[1] = 0x41 + (slot // 10)
        buf[DIR + 32 * slot:DIR + 32 * slot + 32] = e
    return buf
case("slot:all72", lambda: list_all(full_dir()))

# command line: conversions from and to disk images
def write(path, data):
    with open(path, "wb") as f:
        f.write(bytearray(data))

def snapshot():
    out = {}
    for n in sorted(os.listdir(work)):
        with open(os.path.join(work, n), "rb") as f:
            out[n] = hashlib.sha256(f.read()).hexdigest() + ":" + str(os.path.getsize(os.path.join(work, n)))
    return out

def cli(*args):
    p = subprocess.run([sys.executable, os.path.join(tree, "file_util.py")] + list(args), cwd=work,
                       capture_output=True, text=True)
    err = p.stderr.replace(tree, "<TREE>")
    if "Traceback" in err:
        err = "Traceback ... " + err.strip().splitlines()[-1]
    return [p.returncode, p.stdout.replace(tree, "<TREE>"), err, snapshot()]

CLI_SETS = ["one_ml", "one_basic", "ascii", "three", "two_granules", "big_basic", "big_ascii", "empty_ml",
            "same_names", "nul_name", "spaces", "lower", "many"]
for key in CLI_SETS:
    write(os.path.join(work, key + ".dsk"), image(FILESETS[key]))
write(os.path.join(work, "badpre.dsk"), poke(base, {g0: 0x01}))
write(os.path.join(work, "badpost.dsk"), poke(base, {g0 + 5 + 3: 0x00}))
write(os.path.join(work, "short.dsk"), base[:-1])
write(os.path.join(work, "slot71.dsk"), in_slot(71))

for key in CLI_SETS:
    case("cli:list:" + key, lambda key=key: cli(key + ".dsk", "--list"))
    case("cli:to_cas:" + key, lambda key=key: cli(key + ".dsk", "--to_cas", key + ".cas"))
    case("cli:cas_list:" + key, lambda key=key: cli(key + ".cas", "--list"))
    case("cli:back_to_dsk:" + key, lambda key=key: cli(key + ".cas", "--to_dsk", key + "_2.dsk"))
    case("cli:back_list:" + key, lambda key=key: cli(key + "_2.dsk", "--list"))
    case("cli:to_dsk:" + key, lambda key=key: cli(key + ".dsk", "--to_dsk", key + "_copy.dsk"))
    case("cli:to_bin:" + key, lambda key=key: cli(key + ".dsk", "--to_bin", key + ".bin"))
case("cli:files_lower", lambda: cli("three.dsk", "--to_cas", "sel1.cas", "--files", "a", "C"))
case("cli:files_mixed", lambda: cli("three.dsk", "--to_dsk", "sel2.dsk", "--files", "LongName"))
case("cli:files_none", lambda: cli("three.dsk", "--to_dsk", "sel3.dsk", "--files", "nothere"))
case("cli:exists", lambda: cli("three.dsk", "--to_dsk", "sel2.dsk"))
case("cli:append", lambda: cli("one_ml.dsk", "--to_dsk", "sel2.dsk", "--append"))
case("cli:append_list", lambda: cli("sel2.dsk", "--list"))
case("cli:badpre", lambda: cli("badpre.dsk", "--list"))
case("cli:badpost", lambda: cli("badpost.dsk", "--to_cas", "badpost.cas"))
case("cli:short", lambda: cli("short.dsk", "--list"))
case("cli:slot71", lambda: cli("slot71.dsk", "--list"))

def vf(name):
    v = VirtualFile(SourceFile(os.path.join(work, name), file_type=SourceFileType.BINARY))
    v.open_virtual_file()
    return [str(v.virtual_file_type), v.file_exists, [cf(f) for f in v.list_files()]]

for name in ("three.dsk", "badpre.dsk", "short.dsk", "many.dsk", "nope.dsk"):
    case("vf:" + name, lambda name=name: vf(name))

for name, fn in CASES:
    print(json.dumps([name, attempt(fn)], sort_keys=True))
print(json.dumps(["#cases", len(CASES)]))
'''


def run(tree):
    tree = os.path.abspath(tree)
    with tempfile.TemporaryDirectory() as tmp:
        driver = os.path.join(tmp, "driver.py")
        work = os.path.join(tmp, "work")
        os.mkdir(work)
        with open(driver, "w") as handle:
            handle.write(DRIVER)
        env = dict(os.environ, PYTHONDONTWRITEBYTECODE="1", PYTHONHASHSEED="0")
        env.pop("PYTHONPATH", None)
        proc = subprocess.run([sys.executable, driver, tree, work], cwd=tree, env=env,
                              capture_output=True, text=True)
        return proc.returncode, proc.stdout.replace(work, "<WORK>"), proc.stderr.replace(tree, "<TREE>")


def main():
    if len(sys.argv) != 3:
        print(__doc__)
        return 2
    a = run(sys.argv[1])
    b = run(sys.argv[2])
    if a[0] != 0 or b[0] != 0:
        print("driver failed:", a[0], a[2][-2000:], b[0], b[2][-2000:])
        return 1
    lines_a, lines_b = a[1].splitlines(), b[1].splitlines()
    bad = 0
    for la, lb in zip(lines_a, lines_b):
        if la != lb:
            bad += 1
            print("DIFF\n  A: %s\n  B: %s" % (la[:600], lb[:600]))
    if len(lines_a) != len(lines_b):
        bad += 1
        print("different number of records: %d vs %d" % (len(lines_a), len(lines_b)))
    count = json.loads(lines_a[-1])[1] if lines_a else 0
    if count < 30:
        print("too few cases:", count)
        return 1
    print("%d cases compared, %d differences" % (count, bad))
    return 1 if bad else 0


if __name__ == "__main__":
    sys.exit(main())
