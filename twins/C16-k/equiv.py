#!/usr/bin/env python
"""
Differential check for property C16 (file_util conversions carry every selected
file across unchanged).

usage: equiv.py <treeA> <treeB>

The driver below is run once per tree in its own interpreter (tree first on
sys.path, scratch directory as cwd).  It builds source images with the tree's
own library, runs the tree's file_util.py on them (list / to_cas / to_dsk /
to_bin, --files in several spellings, --append, existing and mismatching
targets, broken hosts, conversion chains) and exercises the container classes
directly (writers, readers, truncated images, full disks).  Every observable
(stdout, stderr, exit status, bytes of every file produced, returned values,
exception type and message) is recorded per case; the two records must agree.
"""
import json
import os
import subprocess
import sys
import tempfile

DRIVER = r'''
import hashlib, io, json, os, subprocess, sys, contextlib
tree = os.path.abspath(sys.argv[1])
sys.path.insert(0, tree)
import cocoasm
assert os.path.abspath(cocoasm.__file__).startswith(tree + os.sep), cocoasm.__file__
from cocoasm.values import NumericValue, NoneValue
from cocoasm.virtualfiles.coco_file import CoCoFile
from cocoasm.virtualfiles.cassette import CassetteFile
from cocoasm.virtualfiles.disk import DiskFile, DiskConstants, MLPreamble, BasicPreamble, ASCIIPreamble, Postamble
from cocoasm.virtualfiles.binary import BinaryFile
from cocoasm.virtualfiles.source_file import SourceFile, SourceFileType
from cocoasm.virtualfiles.virtual_file import VirtualFile, VirtualFileType

RESULTS = {}

def digest(seq):
    try:
        raw = bytes(seq)
    except Exception as e:
        return "undigestable:" + repr(seq)[:200]
    if len(raw) <= 64:
        return raw.hex()
    return "len=%d sha1=%s" % (len(raw), hashlib.sha1(raw).hexdigest())

def show(v):
    if isinstance(v, CoCoFile):
        return {"name": v.name, "ext": v.extension, "type": v.type.hex(), "dt": v.data_type.hex(),
                "gaps": v.gaps.hex(), "load": v.load_addr.hex(), "exec": v.exec_addr.hex(),
                "data": digest(v.data), "ig": v.ignore_gaps, "str": str(v)}
    if isinstance(v, (list, tuple)):
        if v and all(isinstance(x, int) for x in v) and len(v) > 40:
            return digest(v)
        return [show(x) for x in v]
    if isinstance(v, (int, str, bool)) or v is None:
        return v
    if hasattr(v, "hex") and hasattr(v, "int"):
        return "Value(%s)" % v.hex()
    return type(v).__name__

def case(name, fn):
    assert name not in RESULTS, name
    try:
        RESULTS[name] = {"ok": show(fn())}
    except SystemExit as e:
        RESULTS[name] = {"exit": repr(e.code)}
    except BaseException as e:
        RESULTS[name] = {"exc": type(e).__name__, "msg": str(e)}

def ml(name, n, load=0x0E00, exe=0x0E10, seed=7, ext="BIN"):
    return CoCoFile(name=name, extension=ext, type=NumericValue(2), data_type=NumericValue(0),
                    gaps=NumericValue(0), load_addr=NumericValue(load), exec_addr=NumericValue(exe),
                    data=[(seed + 13 * i) % 256 for i in range(n)])

def bas(name, n, ascii_flag=False, seed=3, ftype=0):
    return CoCoFile(name=name, extension="BAS", type=NumericValue(ftype),
                    data_type=NumericValue(0xFF if ascii_flag else 0), gaps=NumericValue(0),
                    load_addr=NumericValue(0), exec_addr=NumericValue(0),
                    data=[(seed + 5 * i) % 251 + 1 for i in range(n)])

SETS = {
    "one": [ml("HELLO", 10)],
    "three": [ml("A", 300, 0x3F00, 0x3F02), bas("LONGNAME", 40), bas("mixed", 25, True)],
    "sizes": [ml("S254", 254), ml("S255", 255), ml("S256", 256), ml("S510", 510, seed=9),
              ml("S2293", 2293), ml("S2294", 2294), ml("S2299", 2299), ml("S2300", 2300),
              ml("S4608", 4608, seed=1), ml("S5000", 5000, 0x1234, 0xFFFE)],
    "dups": [ml("SAME", 5), ml("SAME", 6, seed=1), bas("same", 7), ml("OTHER", 8)],
    "odd": [ml("TOOLONGNAME", 12), ml("SP ACE", 3), bas("B", 2293), bas("C", 2301, True), ml("D", 1, 0, 0)],
}

def write(path, data):
    with open(path, "wb") as f:
        f.write(bytearray(data))

def read(path):
    with open(path, "rb") as f:
        return f.read()

# ---------------------------------------------------------------- sources
for key, files in SETS.items():
    c = CassetteFile(); c.add_files(files); write(key + ".cas", c.get_buffer())
    d = DiskFile(); d.add_files(files); write(key + ".dsk", d.get_buffer())
    RESULTS["src " + key] = {"cas": digest(c.get_buffer()), "dsk": digest(d.get_buffer())}

write("random.bin", [(i * 37 + 11) % 256 for i in range(500)])
write("empty.bin", [])
cas_one = list(read("one.cas"))
write("trunc.cas", cas_one[:300])
write("trunc2.cas", cas_one[:len(cas_one) - 9])
write("trunc.dsk", list(read("three.dsk"))[:100000])
# a tape holding two files whose second header is damaged
two = list(read("three.cas"))
write("eofless.cas", two[:-6])

def snapshot():
    out = {}
    for n in sorted(os.listdir(".")):
        if os.path.isfile(n):
            out[n] = digest(read(n))
    return out

def cli(name, *argv, keep=()):
    before = snapshot()
    p = subprocess.run([sys.executable, os.path.join(tree, "file_util.py")] + list(argv),
                       stdout=subprocess.PIPE, stderr=subprocess.PIPE, universal_newlines=True)
    after = snapshot()
    changed = {k: v for k, v in after.items() if before.get(k) != v}
    gone = [k for k in before if k not in after]
    assert name not in RESULTS, name
    RESULTS[name] = {"argv": list(argv), "rc": p.returncode, "out": p.stdout,
                     "err": p.stderr.replace(tree, "<TREE>"), "changed": changed, "gone": gone}
    for n in changed:
        if n not in keep:
            os.remove(n)

# ---------------------------------------------------------------- command line
n = 0
for key in SETS:
    for kind in ("cas", "dsk"):
        src = "%s.%s" % (key, kind)
        cli("list " + src, src, "--list")
        cli("to_cas " + src, src, "--to_cas", "o.cas")
        cli("to_dsk " + src, src, "--to_dsk", "o.dsk")
        cli("to_bin " + src, src, "--to_bin", "o.bin")
        cli("both " + src, src, "--to_dsk", "o.dsk", "--to_cas", "o.cas")

for kind in ("cas", "dsk"):
    src = "three." + kind
    for sel in (["A"], ["a"], ["longname"], ["LongName", "MIXED"], ["mixed", "A"], ["NOPE"], ["A", "A"],
                ["LONGNAME "], ["MIXED", "nope", "a"]):
        tag = "%s files=%s" % (src, "+".join(sel))
        cli("to_cas " + tag, src, "--to_cas", "o.cas", "--files", *sel)
        cli("to_dsk " + tag, src, "--to_dsk", "o.dsk", "--files", *sel)
        cli("to_bin " + tag, src, "--to_bin", "o.bin", "--files", *sel)
    for sel in (["same"], ["OTHER", "Same"], ["other"]):
        src2 = "dups." + kind
        tag = "%s files=%s" % (src2, "+".join(sel))
        cli("to_cas " + tag, src2, "--to_cas", "o.cas", "--files", *sel)
        cli("to_dsk " + tag, src2, "--to_dsk", "o.dsk", "--files", *sel)
    for sel in (["toolongn"], ["TOOLONGNAME"], ["SP ACE"], ["SPACE"], ["d"]):
        src2 = "odd." + kind
        tag = "%s files=%s" % (src2, "+".join(sel))
        cli("to_cas " + tag, src2, "--to_cas", "o.cas", "--files", *sel)
        cli("to_dsk " + tag, src2, "--to_dsk", "o.dsk", "--files", *sel)
    cli("to_bin one files hit " + kind, "one." + kind, "--to_bin", "o.bin", "--files", "hello")
    cli("to_bin one files miss " + kind, "one." + kind, "--to_bin", "o.bin", "--files", "other")
    cli("list ignores files " + kind, "one." + kind, "--list", "--files", "x", "--to_cas", "o.cas")

# chains
cli("chain1 cas->dsk", "three.cas", "--to_dsk", "c1.dsk", keep=("c1.dsk",))
cli("chain1 dsk->cas", "c1.dsk", "--to_cas", "c1.cas", keep=("c1.cas",))
cli("chain1 list", "c1.cas", "--list")
cli("chain1 cas->dsk again", "c1.cas", "--to_dsk", "c1b.dsk", "--files", "mixed", "a", keep=("c1b.dsk",))
cli("chain1 list b", "c1b.dsk", "--list")
cli("chain2 dsk->cas", "sizes.dsk", "--to_cas", "c2.cas", keep=("c2.cas",))
cli("chain2 cas->dsk", "c2.cas", "--to_dsk", "c2.dsk", keep=("c2.dsk",))
cli("chain2 list", "c2.dsk", "--list")
cli("chain2 to_bin refused", "c2.dsk", "--to_bin", "o.bin")
for f in ("c1.dsk", "c1.cas", "c1b.dsk", "c2.cas", "c2.dsk"):
    os.remove(f)

# existing targets
cli("exists cas no append", "one.dsk", "--to_cas", "three.cas")
cli("exists dsk no append", "one.cas", "--to_dsk", "three.dsk")
cli("exists bin no append", "one.cas", "--to_bin", "random.bin")
write("t.cas", read("three.cas")); write("t.dsk", read("three.dsk")); write("t.bin", read("random.bin"))
cli("append cas", "one.dsk", "--to_cas", "t.cas", "--append", keep=("t.cas",))
cli("append cas list", "t.cas", "--list")
cli("append dsk", "one.cas", "--to_dsk", "t.dsk", "--append", keep=("t.dsk",))
cli("append dsk list", "t.dsk", "--list")
cli("append bin", "one.cas", "--to_bin", "t.bin", "--append", keep=("t.bin",))
cli("append both", "dups.cas", "--to_cas", "t.cas", "--to_dsk", "t.dsk", "--append", "--files", "same", keep=("t.cas", "t.dsk"))
cli("append both list cas", "t.cas", "--list")
cli("append both list dsk", "t.dsk", "--list")
cli("first ok second refused", "one.cas", "--to_cas", "new.cas", "--to_dsk", "t.dsk")
cli("first refused second skipped", "one.cas", "--to_cas", "t.cas", "--to_dsk", "new.dsk")
for f in ("t.cas", "t.dsk", "t.bin"):
    os.remove(f)
# mismatching targets
cli("target cas is dsk", "one.cas", "--to_cas", "three.dsk", "--append")
cli("target dsk is cas", "one.cas", "--to_dsk", "three.cas", "--append")
cli("target bin is cas", "one.cas", "--to_bin", "three.cas", "--append")
cli("target cas is random", "one.cas", "--to_cas", "random.bin", "--append")
cli("target dsk is empty", "one.cas", "--to_dsk", "empty.bin", "--append")
# broken hosts
cli("host missing list", "missing.cas", "--list")
cli("host missing to_cas", "missing.cas", "--to_cas", "o.cas")
cli("host missing to_bin", "missing.cas", "--to_bin", "o.bin")
cli("host random list", "random.bin", "--list")
cli("host random to_bin", "random.bin", "--to_bin", "o.bin")
cli("host random to_dsk", "random.bin", "--to_dsk", "o.dsk")
cli("host empty to_cas", "empty.bin", "--to_cas", "o.cas")
cli("host trunc cas", "trunc.cas", "--list")
cli("host trunc cas conv", "trunc.cas", "--to_dsk", "o.dsk")
cli("host trunc2 cas", "trunc2.cas", "--list")
cli("host trunc dsk", "trunc.dsk", "--to_cas", "o.cas")
cli("host eofless", "eofless.cas", "--to_dsk", "o.dsk")
cli("empty target name", "one.cas", "--to_cas", "")
cli("no action", "one.cas")
cli("no host", "--list")
cli("same file as target", "one.cas", "--to_cas", "one.cas", "--append")
write("one.cas", bytes(cas_one))

# ---------------------------------------------------------------- library: VirtualFile
def vf_roundtrip(kind, vtype, files, append=False, preexisting=None):
    name = "lib." + kind
    if preexisting is not None:
        write(name, preexisting)
    vf = VirtualFile(SourceFile(name, file_type=SourceFileType.BINARY), virtual_file_type=vtype)
    vf.open_virtual_file()
    before = len(vf.list_files())
    for f in files:
        vf.add_coco_file(f)
    try:
        vf.save_virtual_file(append_mode=append)
        back = VirtualFile(SourceFile(name, file_type=SourceFileType.BINARY))
        back.open_virtual_file()
        return [before, back.virtual_file_type.name, back.list_files(), back.list_files(filenames=["A", "SAME    ", "SAME"]), digest(read(name))]
    finally:
        if os.path.exists(name):
            os.remove(name)

for key, files in SETS.items():
    case("vf cas " + key, lambda: vf_roundtrip("cas", VirtualFileType.CASSETTE, files))
    case("vf dsk " + key, lambda: vf_roundtrip("dsk", VirtualFileType.DISK, files))
    case("vf bin " + key, lambda: vf_roundtrip("bin", VirtualFileType.BINARY, files))
    case("vf none " + key, lambda: vf_roundtrip("xxx", None, files))
    case("vf unknown " + key, lambda: vf_roundtrip("xxx", VirtualFileType.UNKNOWN, files))
case("vf cas exists", lambda: vf_roundtrip("cas", VirtualFileType.CASSETTE, SETS["one"], False, read("three.cas")))
case("vf cas append", lambda: vf_roundtrip("cas", VirtualFileType.CASSETTE, SETS["one"], True, read("three.cas")))
case("vf dsk append", lambda: vf_roundtrip("dsk", VirtualFileType.DISK, SETS["one"], True, read("three.dsk")))
case("vf dsk exists", lambda: vf_roundtrip("dsk", VirtualFileType.DISK, SETS["one"], False, read("three.dsk")))
case("vf wrong type", lambda: vf_roundtrip("dsk", VirtualFileType.DISK, SETS["one"], True, read("three.cas")))
case("vf autodetect", lambda: vf_roundtrip("any", None, SETS["one"], True, read("three.cas")))

# ---------------------------------------------------------------- library: cassette
def cas_blocks(n, gaps):
    c = CassetteFile()
    c.append_data_blocks([(i * 7 + 1) % 256 for i in range(n)], gaps=gaps)
    return [len(c.buffer), digest(c.buffer)]

for n in (0, 1, 2, 254, 255, 256, 509, 510, 511, 764, 765, 766, 1275):
    for gaps in (False, True):
        case("cas blocks %d %s" % (n, gaps), lambda: cas_blocks(n, gaps))

def cas_parts():
    c = CassetteFile(); c.append_leader(); a = list(c.buffer)
    c = CassetteFile(); c.append_blank(); b = list(c.buffer)
    c = CassetteFile(); c.append_eof(); e = list(c.buffer)
    c = CassetteFile(buffer=[1, 2]); c.append_leader(); c.append_eof(); c.append_blank()
    return [digest(a), digest(b), digest(e), digest(c.buffer), digest(c.original_buffer)]
case("cas parts", cas_parts)

def cas_header(f):
    c = CassetteFile(); c.append_header(f); return digest(c.buffer)
for key, files in SETS.items():
    for i, f in enumerate(files):
        case("cas header %s %d" % (key, i), lambda: cas_header(f))
case("cas header none values", lambda: cas_header(CoCoFile(name="N", type=NumericValue(0), data_type=NumericValue(0))))
case("cas header default", lambda: cas_header(CoCoFile()))

def cas_list(buf, filenames=None):
    c = CassetteFile(buffer=list(buf))
    return c.list_files(filenames) if filenames is not None else c.list_files()

three_cas = list(read("three.cas"))
case("cas list three", lambda: cas_list(three_cas))
case("cas list filter", lambda: cas_list(three_cas, ["A       ", "mixed   "]))
case("cas list filter miss", lambda: cas_list(three_cas, ["A"]))
case("cas list filter empty", lambda: cas_list(three_cas, []))
case("cas list empty", lambda: cas_list([]))
case("cas list junk", lambda: cas_list([0x55, 0x3C, 0x00]))
case("cas list junk2", lambda: cas_list([0x55, 0x3C, 0x00] + [0x41] * 30))
case("cas list unknown block", lambda: cas_list([0x55, 0x3C, 0x00, 0x0F] + [0x41] * 8 + [2, 0, 0, 1, 2, 3, 4, 9, 0x55, 0x55, 0x3C, 0x07, 0, 0, 0]))
case("cas list nonascii name", lambda: cas_list([0x55, 0x3C, 0x00, 0x0F] + [0xC1] * 8 + [2, 0, 0, 1, 2, 3, 4, 9, 0x55, 0x55, 0x3C, 0xFF, 0, 0xFF, 0x55]))
case("cas list no data", lambda: cas_list([0x55, 0x3C, 0x00, 0x0F] + [0x41] * 8 + [2, 0, 0, 1, 2, 3, 4, 9, 0x55, 0x55, 0x3C, 0xFF, 0, 0xFF, 0x55]))
one = list(read("one.cas"))
interesting = list(range(250, 300)) + list(range(len(one) - 40, len(one) + 1)) + [0, 1, 128, 255, 256, 257, 400, 533, 540, 545]
for cut in sorted(set(interesting)):
    case("cas trunc %d" % cut, lambda: cas_list(one[:cut]))
for pos in (256, 257, 258, 259, 260, 268, 269, 270, 271, 273, 275, 277, 533, 534, 535, 536, 537, 540):
    for val in (0x00, 0x01, 0x55, 0xFF):
        def flip():
            b = list(one)
            if pos < len(b):
                b[pos] = val
            return cas_list(b)
        case("cas flip %d %02x" % (pos, val), flip)

def cas_seek(buf, seq, start):
    return CassetteFile(buffer=list(buf)).skip_to_sequence(seq, start=start)
for start in (0, 1, 5, 6, 7, 8, 20):
    case("cas skip %d" % start, lambda: cas_seek([1, 2, 3, 0x55, 0x3C, 0, 9, 0x55, 0x3C], [0x55, 0x3C], start))
case("cas skip empty seq", lambda: cas_seek([1, 2], [], 0))
case("cas skip long seq", lambda: cas_seek([1, 2], [1, 2, 3], 0))
case("cas name short", lambda: CassetteFile(buffer=[65, 66, 67]).read_coco_file_name(0))
case("cas name ok", lambda: CassetteFile(buffer=[65, 66, 67, 32, 32, 32, 32, 32, 1]).read_coco_file_name(0))
case("cas name off", lambda: CassetteFile(buffer=[65, 66, 67, 32, 32, 32, 32, 32, 1]).read_coco_file_name(1))

# ---------------------------------------------------------------- library: disk
def preamble_of(kind, n):
    if kind == "ml":
        p = MLPreamble(); p.data_length = NumericValue(n); p.load_addr = NumericValue(0x2000)
        q = Postamble(); q.exec_addr = NumericValue(0x2010)
        return p, q
    if kind == "bas":
        p = BasicPreamble(); p.data_length = NumericValue(n); return p, None
    if kind == "asc":
        return ASCIIPreamble(), None
    return None, None

def dsk_granules(n, granules, kind, first=True):
    d = DiskFile()
    p, q = preamble_of(kind, n)
    data = [(i * 11 + 3) % 256 for i in range(n)]
    g = list(granules)
    d.write_to_granules(data, g, p, q, first_granule=first)
    return [digest(d.buffer), g, len(data)]

for n in (0, 1, 2293, 2294, 2298, 2299, 2300, 2301, 2303, 2304, 2305, 4602, 4603, 4604, 4608, 7000):
    for kind in ("ml", "bas", "asc", "none"):
        case("dsk granules %d %s" % (n, kind), lambda: dsk_granules(n, [32, 33, 34, 35], kind))
case("dsk granules none allocated", lambda: dsk_granules(10, [], "ml"))
case("dsk granules too few", lambda: dsk_granules(5000, [32, 33], "ml"))
case("dsk granules exact few", lambda: dsk_granules(4603, [32, 33], "ml"))
case("dsk granules not first", lambda: dsk_granules(3000, [5, 40], "ml", False))
case("dsk granules last granule", lambda: dsk_granules(2300, [67], "ml"))
case("dsk granules last granule spill", lambda: dsk_granules(2304, [67], "bas"))
case("dsk granules bad granule", lambda: dsk_granules(10, [70], "ml"))
case("dsk granules bad granule 2", lambda: dsk_granules(3000, [66, 90], "asc"))
case("dsk granules tuple", lambda: dsk_granules(3000, (1, 2), "bas"))

def dsk_fat(granules, sectors):
    d = DiskFile(); d.write_to_fat(list(granules), sectors)
    return digest(d.buffer[DiskConstants.FAT_OFFSET:DiskConstants.FAT_OFFSET + 256])
for g, s in (([], 1), ([5], 3), ([5, 6], 9), ([32, 33, 30, 31], 1), ([1, 1], 2), ([67, 0, 67], 4)):
    case("dsk fat %s %d" % (g, s), lambda: dsk_fat(g, s))

def dsk_fill(files, order=None):
    d = DiskFile(granule_fill_order=order)
    out = []
    for f in files:
        try:
            d.add_file(f); out.append("ok")
        except Exception as e:
            out.append("%s: %s" % (type(e).__name__, e))
    free = [g for g in range(68) if not d.granule_in_use(g)]
    used_dirs = [e for e in range(72) if d.directory_entry_in_use(e)]
    try:
        listing = show(DiskFile(buffer=list(d.buffer)).list_files())
    except Exception as e:
        listing = "%s: %s" % (type(e).__name__, e)
    return [out, free, used_dirs, d.find_empty_directory_entry(), digest(d.buffer), listing]

case("dsk fill big", lambda: dsk_fill([ml("BIG%d" % i, 30000, seed=i) for i in range(7)]))
case("dsk fill many", lambda: dsk_fill([bas("F%d" % i, 3 + i, seed=i) for i in range(75)]))
case("dsk fill order", lambda: dsk_fill(SETS["three"], list(range(68))))
case("dsk fill short order", lambda: dsk_fill(SETS["three"], list(range(10))))
case("dsk fill reversed", lambda: dsk_fill(SETS["sizes"], list(range(67, -1, -1))))
case("dsk granule_in_use bad", lambda: DiskFile().granule_in_use(68))
case("dsk granule_in_use neg", lambda: DiskFile().granule_in_use(-1))
case("dsk dir_in_use bad", lambda: DiskFile().directory_entry_in_use(72))
case("dsk seek", lambda: [DiskFile.seek_granule(g) for g in (0, 1, 33, 34, 67)])

def dsk_list(buf, names=None):
    return DiskFile(buffer=list(buf)).list_files(names)
three_dsk = list(read("three.dsk"))
case("dsk list three", lambda: dsk_list(three_dsk))
case("dsk list filter", lambda: dsk_list(three_dsk, ["A"]))
case("dsk list short", lambda: dsk_list(three_dsk[:161279]))
case("dsk list long", lambda: dsk_list(three_dsk + [0] * 10))
def dsk_poke(pos, val):
    b = list(three_dsk); b[pos] = val; return dsk_list(b)
g0 = DiskFile.seek_granule(32)
for pos, val in ((g0, 0x01), (g0 + 1, 0xFF), (g0 + 2, 0xFF), (DiskConstants.FAT_OFFSET + 32, 0x05), (DiskConstants.FAT_OFFSET + 32, 0xC0),
                 (DiskConstants.DIR_OFFSET, 0x00), (DiskConstants.DIR_OFFSET, 0xFF), (DiskConstants.DIR_OFFSET + 11, 0x00),
                 (DiskConstants.DIR_OFFSET + 12, 0xFF), (DiskConstants.DIR_OFFSET + 13, 67), (DiskConstants.DIR_OFFSET + 13, 200),
                 (DiskConstants.DIR_OFFSET + 3, 0xC1), (g0 + 305, 0x00), (g0 + 306, 0x01), (g0 + 307, 0x01)):
    case("dsk poke %d %02x" % (pos, val), lambda: dsk_poke(pos, val))

def dsk_dir_entry(f, entry, granule, used):
    d = DiskFile(); d.write_dir_entry(entry, f, granule, used)
    return digest(d.buffer[DiskConstants.DIR_OFFSET:DiskConstants.DIR_OFFSET + 72 * 32])
for key, files in SETS.items():
    for i, f in enumerate(files):
        case("dsk dir %s %d" % (key, i), lambda: dsk_dir_entry(f, i, 32 + i, 17 * i))
case("dsk dir nul", lambda: dsk_dir_entry(ml("A\0B", 3, ext="B\0"), 71, 1, 256))

print(json.dumps(RESULTS, sort_keys=True))
'''


def run(tree):
    tree = os.path.abspath(tree)
    with tempfile.TemporaryDirectory() as scratch:
        driver = os.path.join(scratch, "_driver.py")
        with open(driver, "w") as handle:
            handle.write(DRIVER)
        work = os.path.join(scratch, "work")
        os.mkdir(work)
        env = dict(os.environ, PYTHONDONTWRITEBYTECODE="1", PYTHONHASHSEED="0")
        env.pop("PYTHONPATH", None)
        proc = subprocess.run([sys.executable, driver, tree], cwd=work, env=env,
                              stdout=subprocess.PIPE, stderr=subprocess.PIPE, universal_newlines=True)
        if proc.returncode != 0:
            print("driver failed for", tree)
            print(proc.stderr[-4000:])
            sys.exit(2)
        return json.loads(proc.stdout)


def main():
    if len(sys.argv) != 3:
        print(__doc__)
        sys.exit(2)
    first, second = run(sys.argv[1]), run(sys.argv[2])
    names = sorted(set(first) | set(second))
    bad = [name for name in names if first.get(name) != second.get(name)]
    for name in bad[:20]:
        print("DIFFERENT:", name)
        print("   A:", json.dumps(first.get(name))[:600])
        print("   B:", json.dumps(second.get(name))[:600])
    print("{} cases compared, {} differ".format(len(names), len(bad)))
    sys.exit(1 if bad else 0)


if __name__ == "__main__":
    main()
