#!/usr/bin/env python
"""
Differential check: runs the same driver inside two source trees (one subprocess per
tree, with the tree as cwd and at the front of sys.path) and compares every recorded
observation: emitted bytes, listing lines, symbol tables, per-statement details,
diagnostics (type, message, offending statement), exceptions, CLI stdout / exit status
and the files the CLI writes.
Usage: equiv.py <treeA> <treeB>; exit 0 when all observations agree, 1 otherwise.
"""
import json
import os
import subprocess
import sys
import tempfile

PRELUDE = r'''import sys, os, io, json, hashlib, tempfile, contextlib, argparse, shutil, subprocess, copy
tree = os.path.abspath(sys.argv[1])
sys.path.insert(0, tree)
os.chdir(tree)
from cocoasm.program import Program
from cocoasm.statement import Statement
from cocoasm.exceptions import TranslationError, ParseError, ValueTypeError, OperandTypeError
from cocoasm.values import (Value, NumericValue, NoneValue, SymbolValue, AddressValue, ExpressionValue, LeftRightValue,
                            StringValue, MultiByteValue, MultiWordValue, DirectNumericValue, ExtendedNumericValue, ExplicitAddressingMode)
from cocoasm.operands import Operand
from cocoasm.instruction import INSTRUCTIONS, CodePackage, Instruction, Mode
from cocoasm.virtualfiles.source_file import SourceFile, SourceFileType
from cocoasm.virtualfiles.coco_file import CoCoFile

RESULTS = []
WORK = tempfile.mkdtemp(prefix="asmeq")


def clean(text):
    return str(text).replace(WORK, "<W>").replace(tree, "<T>")


def record(label, fn):
    try:
        RESULTS.append([label, "ok", fn()])
    except SystemExit as e:
        RESULTS.append([label, "exit", repr(e.code)])
    except (TranslationError, ParseError) as e:
        st = e.statement
        try:
            shown = str(st)
        except BaseException as inner:
            shown = "<unprintable {}>".format(type(inner).__name__)
        RESULTS.append([label, "diag", type(e).__name__, clean(e.value), clean(shown)])
    except BaseException as e:
        RESULTS.append([label, "exc", type(e).__name__, clean(e)])


def lines_of(text):
    return [l + "\n" for l in text.strip("\n").split("\n")]


def assemble(lines):
    given = list(lines)
    before = list(given)
    p = Program()
    p.process(given)
    return {
        "bin": p.get_binary_array(),
        "listing": p.get_statements(),
        "symbols": p.get_symbol_table(),
        "origin": [type(p.origin).__name__, p.origin.hex(size=4) if not p.origin.is_none() else None],
        "name": p.name,
        "untouched": given == before,
        "address": p.address,
        "details": [[s.label, s.mnemonic, type(s.operand).__name__, str(s.operand.type), s.code_pkg.size, s.code_pkg.max_size,
                     s.fixed_size, s.pcr_size_hint, s.comment, s.is_empty, s.is_comment_only,
                     type(s.code_pkg.additional).__name__, s.code_pkg.additional_needs_resolution, s.code_pkg.post_byte_choices]
                    for s in p.statements],
    }


PROGRAMS = {}

PROGRAMS["basic"] = """
        NAM  BASIC
        ORG  $0E00
START   LDA  #$01        ; load
        LDB  #10
        STA  $0400
        STB  <$20
        LDX  #START
        LDD  #$1234
        ADDA #1
        JMP  START
        END  START
"""
PROGRAMS["branches"] = """
        ORG $3000
TOP     NOP
LOOP    DECA
        BNE LOOP
        BRA FWD
        LBRA TOP
        LBNE FWD
        BSR SUB
        LBSR SUB
FWD     CLRA
        BEQ TOP
SUB     RTS
"""
PROGRAMS["indexed"] = """
        ORG $1000
DATA    FCB 1,2,3
WORDS   FDB $1234,$ABCD
TBL     RMB 4
BEGIN   LDA ,X
        LDA ,X+
        LDA ,X++
        LDA ,-X
        LDA ,--X
        LDB 5,Y
        LDB -5,Y
        LDB 100,U
        LDB -100,U
        LDB 1000,S
        LDB -1000,S
        LDA A,X
        LDA B,Y
        LDA D,U
        LDA [,X]
        LDA [,X++]
        LDA [,--Y]
        LDA [5,Y]
        LDA [300,U]
        LDA [A,X]
        LDA [D,S]
        LDA [$2000]
        LDA [DATA]
        LEAX DATA,PCR
        LEAY BEGIN,PCR
        LEAX FAR,PCR
        LDA [DATA,PCR]
        LDD WORDS
        LDX TBL,PCR
        LEAX 1,X
        LEAS -2,S
        LDA 0,X
        LDA $10,X
        LDA $1000,X
        LDA 15,X
        LDA 16,X
        LDA -16,X
        LDA -17,X
        LDA 127,X
        LDA 128,X
        LDA -128,X
        LDA -129,X
FAR     RTS
"""
PROGRAMS["pcr_far"] = """
        ORG $2000
START   LEAX TARGET,PCR
        LDA  TARGET,PCR
        LEAY START,PCR
PAD     RMB 200
TARGET  FCB $FF
        LEAX START,PCR
        LEAX TARGET,PCR
        LDB [TARGET,PCR]
        END START
"""
PROGRAMS["pcr_edge127"] = """
START   LEAX TARGET,PCR
PAD     RMB 124
TARGET  NOP
        LEAX START,PCR
"""
PROGRAMS["pcr_edge128"] = """
START   LEAX TARGET,PCR
PAD     RMB 125
TARGET  NOP
        LEAX START,PCR
"""
PROGRAMS["pcr_edge129"] = """
START   LEAX TARGET,PCR
PAD     RMB 126
TARGET  NOP
        LEAX START,PCR
"""
PROGRAMS["special"] = """
        PSHS A,B,X
        PULS A,B,X
        PSHU D,Y,S,PC
        PULU CC,DP
        PSHS U
        TFR A,B
        TFR X,Y
        EXG D,X
        EXG A,CC
        TFR DP,B
        ANDCC #$FE
        ORCC #1
        CWAI #$FF
        SWI
        SWI2
        SWI3
        SYNC
"""
PROGRAMS["equ"] = """
SCREEN  EQU $0400
SMALL   EQU $20
COUNT   EQU 10
BIG     EQU 1000
CH      EQU 'A
BITS    EQU %10101010
WIDE    EQU %1010101011110000
        ORG $4000
START   LDA SMALL
        LDA SCREEN
        LDA #COUNT
        LDX #BIG
        LDA #CH
        LDA #BITS
        LDX #WIDE
        STA SCREEN+1
        STA SCREEN-1
        LDA COUNT+2
        LDA COUNT*2
        LDA BIG/2
        LDX #START+2
        LDX #START-2
        LDX #END1-START
        JMP START+3
        LDA <SCREEN
        LDA >SMALL
        LDA <$10
        LDA >$10
        LDA >$1000
END1    RTS
        END START
"""
PROGRAMS["data"] = """
        NAM DATAPRG
        ORG $0600
MSG     FCC "HELLO WORLD"
MSG2    FCC /SLASH ED/ trailing comment
MSG3    FCC 'Q'
B1      FCB $FF
B2      FCB 255,0,$10,%00001111,'A
W1      FDB $FFFF
W2      FDB 1,2,$300
W3      FDB MSG
R1      RMB 1
R2      RMB 10
R0      RMB 0
LAST    FCB 0
        SETDP $06
        END MSG
"""
PROGRAMS["all_inherent"] = "\n".join("        {}".format(i.mnemonic) for i in INSTRUCTIONS if i.mode.inh is not None) + "\n"
PROGRAMS["all_immediate"] = "\n".join("        {} #$12".format(i.mnemonic) for i in INSTRUCTIONS if i.mode.imm is not None and not i.is_special) + "\n"
PROGRAMS["all_direct"] = "\n".join("        {} $12".format(i.mnemonic) for i in INSTRUCTIONS if i.mode.dir is not None) + "\n"
PROGRAMS["all_extended"] = "\n".join("        {} $1234".format(i.mnemonic) for i in INSTRUCTIONS if i.mode.ext is not None) + "\n"
PROGRAMS["all_indexed"] = "\n".join("        {} 4,X\n        {} [$20,Y]".format(i.mnemonic, i.mnemonic) for i in INSTRUCTIONS if i.mode.ind is not None) + "\n"
PROGRAMS["all_relative"] = "HERE    NOP\n" + "\n".join("        {} HERE".format(i.mnemonic) for i in INSTRUCTIONS if i.mode.rel is not None) + "\n"
PROGRAMS["lowercase"] = """
        org $0e00
start   lda #$01   ; lower case mnemonics
        sta $0400
loop    bra loop
        fcb 1,2,3
        end start
"""
PROGRAMS["comments_blank"] = """
; a comment line
   ; indented comment

START   NOP     ; trailing
        NOP
; another
        RTS   ; done
"""
PROGRAMS["labels_at"] = """
@LOCAL  NOP
A@B     NOP
L1      BRA @LOCAL
        BRA A@B
X1      LDA #1
        JMP X1
        LDX #L1
"""
PROGRAMS["forward_refs"] = """
        ORG $0100
        JMP LATER
        LDX #LATER
        LDA LATER
        LDA LATER+1
        LEAX LATER,PCR
        BRA LATER
        LBRA LATER
        FDB LATER
LATER   NOP
VAL     EQU 5
"""
PROGRAMS["low_addresses"] = """
        ORG $0010
ZP      FCB 1
START   LDA ZP
        STA ZP+1
        JMP START
        LDX #ZP
        FDB ZP
        FDB START
"""
PROGRAMS["origin_cross"] = """
        ORG $00F0
A1      NOP
        JMP A1
        RMB 20
B1      NOP
        JMP B1
        LDA B1
        LDA A1
"""
PROGRAMS["two_orgs"] = """
        ORG $1000
ONE     LDA #1
        ORG $2000
TWO     LDA #2
        JMP ONE
        JMP TWO
"""
PROGRAMS["short_branch_edge_fwd"] = "        BRA T\n        RMB 127\nT       NOP\n"
PROGRAMS["short_branch_edge_back"] = "T       NOP\n        RMB 125\n        BRA T\n"
PROGRAMS["negative"] = """
        LDA #-1
        LDB #-128
        LDD #-1
        LDX #-32768
        ADDA #-5
        LDA -1,X
        LEAX -1,X
"""
PROGRAMS["sixteen_bit"] = """
        LDX #1
        LDY #$1
        LDU #'A
        LDS #%00000001
        CMPX #5
        CMPD #5
        ADDD #5
        SUBD #$FF
        LDD 5
        STX $20
        LDX $1234
"""
PROGRAMS["empty"] = "\n"
PROGRAMS["only_comments"] = "; nothing\n; here\n"
PROGRAMS["symbol_order"] = """
ZED     EQU 1
ALPHA   EQU 2
MID     NOP
BETA    NOP
AAA     EQU $FFFF
"""

REJECTED = {}
REJECTED["no_semicolon"] = "        RTS   no semicolon comment\n"
REJECTED["bad_mnemonic"] = "START   FOO #1\n"
REJECTED["bad_mnemonic_later"] = "        NOP\nL2      BAR  $10 ; oops\n"
REJECTED["dup_label"] = "L1      NOP\nL1      NOP\n"
REJECTED["undefined_symbol"] = "        LDA NOWHERE\n"
REJECTED["undefined_branch"] = "        BRA NOWHERE\n"
REJECTED["undefined_expr"] = "        LDA NOWHERE+1\n"
REJECTED["branch_too_far_fwd"] = "        BRA T\n        RMB 128\nT       NOP\n"
REJECTED["branch_too_far_back"] = "T       NOP\n        RMB 127\n        BRA T\n"
REJECTED["inherent_needs_operand"] = "        LDA\n"
REJECTED["no_immediate"] = "        STA #1\n"
REJECTED["no_indexed"] = "        ORCC ,X\n"
REJECTED["bad_register_push"] = "        PSHS Q\n"
REJECTED["own_stack"] = "        PSHS S\n"
REJECTED["empty_push"] = "        PSHS\n"
REJECTED["tfr_one"] = "        TFR A\n"
REJECTED["tfr_mixed"] = "        TFR A,X\n"
REJECTED["tfr_unknown"] = "        TFR A,Q\n"
REJECTED["hex_too_long"] = "        LDA #$12345\n"
REJECTED["int_too_big"] = "        LDX #65536\n"
REJECTED["bad_binary"] = "        LDA #%101\n"
REJECTED["unparsable"] = "garbage\n"
REJECTED["fcc_unterminated"] = "        FCC \"ABC\n"
REJECTED["fcc_empty"] = "        FCC\n"
REJECTED["indexed_bad_expr"] = "V       EQU 5\n        LDA V,X+\n"
REJECTED["ext_ind_single_inc"] = "        LDA [,X+]\n"
REJECTED["ext_ind_single_dec"] = "        LDA [,-X]\n"
REJECTED["include_missing"] = "        INCLUDE no_such_file.asm\n"
REJECTED["equ_string_symbol"] = "S       FCC \"AB\"\n        LDA #S+1\n"
REJECTED["symbol_neither"] = "M       EQU 1,2\n        LDA M\n"
REJECTED["too_many_commas"] = "        LDA 1,2,X\n"
REJECTED["div_zero"] = "Z       EQU 0\nN       EQU 4\n        LDA N/Z\n"
REJECTED["imm_symbol_undefined"] = "        LDA #NOPE\n"
REJECTED["neg_too_small"] = "        LDX #-32769\n"
REJECTED["rel_undefined_long"] = "        LBRA NOPE\n"

ALL = {}
ALL.update({"ok/" + k: v for k, v in PROGRAMS.items()})
ALL.update({"bad/" + k: v for k, v in REJECTED.items()})


def run_corpus(tag, names=None):
    for name in (names or sorted(ALL)):
        record("{}/{}".format(tag, name), lambda name=name: assemble(lines_of(ALL[name]) if ALL[name].strip("\n") else [ALL[name]]))


def cli(argv, cwd, script="assembler.py", env_extra=None):
    env = dict(os.environ, PYTHONDONTWRITEBYTECODE="1")
    env.update(env_extra or {})
    p = subprocess.run([sys.executable, os.path.join(tree, script)] + argv, cwd=cwd, env=env,
                       stdout=subprocess.PIPE, stderr=subprocess.PIPE, universal_newlines=True)
    return [p.returncode, clean(p.stdout), clean(p.stderr)]


def digest(path):
    if not os.path.exists(path):
        return None
    b = open(path, "rb").read()
    return [len(b), hashlib.sha256(b).hexdigest()]


def write(directory, name, text):
    os.makedirs(directory, exist_ok=True)
    with open(os.path.join(directory, name), "w") as handle:
        handle.write(text)


def in_dir(directory, fn):
    old = os.getcwd()
    os.chdir(directory)
    try:
        return fn()
    finally:
        os.chdir(old)


def assemble_file(directory, name):
    def go():
        return assemble(SourceFile.read_assembly_contents(name))
    return in_dir(directory, go)
'''

BODY = r'''# ---- whole-program observations -------------------------------------------------
run_corpus("cold")
run_corpus("warm")
run_corpus("reversed", sorted(ALL, reverse=True))
oks = sorted(k for k in ALL if k.startswith("ok/"))
bads = sorted(k for k in ALL if k.startswith("bad/"))
for i, bad in enumerate(bads):
    run_corpus("after_bad", [bad, oks[i % len(oks)], oks[(i * 7 + 3) % len(oks)]])

# same list object assembled twice, and statements parsed once
def same_list_twice():
    src = lines_of(ALL["ok/indexed"])
    keep = list(src)
    a = assemble(src)
    b = assemble(src)
    return [a == b, src == keep, a["bin"]]
record("same_list_twice", same_list_twice)

# ---- include scenarios (files in a temp dir, assembled from inside it) -------------
INC = os.path.join(WORK, "inc")
write(INC, "main.asm", "        NAM INCL\n        ORG $0E00\nSTART   LDA #1\n        INCLUDE defs.asm\n        LDB VALUE\n        JMP SUB1\n        LEAX TABLE,PCR\n        BRA DONE\n        INCLUDE subs.asm\nDONE    RTS\n        END START\n")
write(INC, "defs.asm", "VALUE   EQU $20\nSCREEN  EQU $0400\n; comment only\n\n")
write(INC, "subs.asm", "SUB1    LDA SCREEN\n        BNE START\n        INCLUDE table.asm\n        RTS\n")
write(INC, "table.asm", "TABLE   FCB 1,2,3\n        FDB DONE\n        FDB START\n")
write(INC, "flat.asm", "        NAM INCL\n        ORG $0E00\nSTART   LDA #1\nVALUE   EQU $20\nSCREEN  EQU $0400\n        LDB VALUE\n        JMP SUB1\n        LEAX TABLE,PCR\n        BRA DONE\nSUB1    LDA SCREEN\n        BNE START\nTABLE   FCB 1,2,3\n        FDB DONE\n        FDB START\n        RTS\nDONE    RTS\n        END START\n")
write(INC, "selfinc.asm", "        NOP\n        INCLUDE selfinc.asm\n")
write(INC, "cyc_a.asm", "        NOP\n        INCLUDE cyc_b.asm\n")
write(INC, "cyc_b.asm", "        CLRA\n        INCLUDE cyc_a.asm ; back again\n")
write(INC, "missing.asm", "        NOP\nL1      INCLUDE nothere.asm ; gone\n")
write(INC, "twice.asm", "        INCLUDE leaf.asm\n        INCLUDE leaf.asm\n")
write(INC, "twice_lbl.asm", "        INCLUDE table.asm\n        INCLUDE table.asm\nDONE    NOP\nSTART   NOP\n")
write(INC, "leaf.asm", "        NOP\n        CLRA\n")
write(INC, "first.asm", "        INCLUDE leaf.asm\nAFTER   RTS\n")
write(INC, "last.asm", "BEFORE  RTS\n        INCLUDE leaf.asm\n")
write(INC, "onlyinc.asm", "        INCLUDE leaf.asm\n")
write(INC, "empty.asm", "")
write(INC, "incempty.asm", "        NOP\n        INCLUDE empty.asm\n        RTS\n")
write(INC, "incbad.asm", "        NOP\n        INCLUDE bad.asm\n")
write(INC, "bad.asm", "        FROB 1\n")
write(INC, "incdir.asm", "        INCLUDE sub/deep.asm\n        JMP DEEP\n")
write(os.path.join(INC, "sub"), "deep.asm", "DEEP    NOP\n        INCLUDE leaf.asm\n")
write(INC, "noname.asm", "        NOP\n        INCLUDE\n")
write(INC, "lbl_inc.asm", "HERE    INCLUDE leaf.asm\n        JMP HERE\n")
write(INC, "lower_inc.asm", "        include leaf.asm\n")
write(INC, "incdirname.asm", "        INCLUDE sub\n")
INC_FILES = ["main.asm", "flat.asm", "selfinc.asm", "cyc_a.asm", "missing.asm", "twice.asm", "twice_lbl.asm", "first.asm", "last.asm",
             "onlyinc.asm", "incempty.asm", "incbad.asm", "incdir.asm", "noname.asm", "lbl_inc.asm", "lower_inc.asm", "incdirname.asm", "empty.asm"]
for name in INC_FILES:
    record("include/lib/" + name, lambda name=name: assemble_file(INC, name))
for name in INC_FILES:
    record("include/cli/" + name, lambda name=name: [cli([name, "--print", "--symbols", "--to_bin", name + ".bin"], INC), digest(os.path.join(INC, name + ".bin"))])
record("include/from_elsewhere", lambda: cli([os.path.join(INC, "main.asm"), "--print"], WORK))
record("include/warm_after", lambda: assemble(lines_of(ALL["ok/basic"])))

# ---- command line ---------------------------------------------------------------
CLI = os.path.join(WORK, "cli")
for name in ("ok/basic", "ok/indexed", "ok/data", "ok/equ", "ok/branches", "ok/symbol_order", "bad/dup_label", "bad/bad_mnemonic_later",
             "bad/branch_too_far_fwd", "bad/undefined_symbol", "bad/unparsable", "ok/empty"):
    fname = name.replace("/", "_") + ".asm"
    write(CLI, fname, ALL[name].lstrip("\n"))
    for seed in ("0", "1", "4242"):
        record("cli/{}/seed{}".format(name, seed), lambda fname=fname, seed=seed: cli([fname, "--print", "--symbols"], CLI, env_extra={"PYTHONHASHSEED": seed}))
    record("cli/{}/outputs".format(name), lambda fname=fname: [
        cli([fname, "--to_bin", fname + ".bin", "--to_cas", fname + ".cas", "--to_dsk", fname + ".dsk", "--name", "PRG"], CLI),
        digest(os.path.join(CLI, fname + ".bin")), digest(os.path.join(CLI, fname + ".cas")), digest(os.path.join(CLI, fname + ".dsk"))])
record("cli/no_name_cas", lambda: [cli(["ok_indexed.asm", "--to_cas", "nn.cas"], CLI), digest(os.path.join(CLI, "nn.cas"))])
record("cli/no_name_dsk", lambda: [cli(["ok_indexed.asm", "--to_dsk", "nn.dsk"], CLI), digest(os.path.join(CLI, "nn.dsk"))])
record("cli/exists", lambda: [cli(["ok_basic.asm", "--to_bin", "ok_basic.asm.bin"], CLI), digest(os.path.join(CLI, "ok_basic.asm.bin"))])
record("cli/append", lambda: [cli(["ok_basic.asm", "--to_cas", "ok_basic.asm.cas", "--append"], CLI), digest(os.path.join(CLI, "ok_basic.asm.cas"))])
record("cli/missing_source", lambda: cli(["nope.asm"], CLI)[0])
record("cli/no_args", lambda: cli([], CLI)[0])
'''

EXTRA = r'''# ---- metamorphic variants of the corpus (origin shift, renaming, white space, case, suffix) ----
import re as _re
def variant_origin(text, d):
    def bump(m):
        return "{}${:04X}".format(m.group(1), int(m.group(2), 16) + d)
    return _re.sub(r"(ORG\s+)\$([0-9A-Fa-f]+)", bump, text)
def variant_space(text):
    out = []
    for line in text.split("\n"):
        if ";" in line or "FCC" in line.upper() or not line.strip():
            out.append(line)
        else:
            out.append(_re.sub(r"(\S)\s+(\S)", r"\1\t  \2", line) + "   ")
    return "\n".join(out)
def variant_case(text):
    out = []
    for line in text.split("\n"):
        m = _re.match(r"^(\S*\s+)(\w+)(.*)$", line)
        out.append(m.group(1) + m.group(2).lower() + m.group(3) if m and not line.lstrip().startswith(";") else line)
    return "\n".join(out)
def variant_suffix(text):
    return text.rstrip("\n") + "\nZZTAIL  NOP\n        LDA #1\n        FCB 9\nZZEND   RTS\n"
def variant_comment(text):
    return "\n".join((line.split(";")[0].rstrip() + " ; new words here") if ";" in line and "FCC" not in line else line for line in text.split("\n"))
for name in sorted(k for k in ALL if k.startswith("ok/")):
    base = ALL[name]
    if not base.strip():
        continue
    for vname, fn in (("org+16", lambda t: variant_origin(t, 16)), ("org+4096", lambda t: variant_origin(t, 4096)), ("space", variant_space),
                      ("case", variant_case), ("suffix", variant_suffix), ("comment", variant_comment)):
        record("variant/{}/{}".format(vname, name), lambda base=base, fn=fn: assemble(lines_of(fn(base))))
# ---- Operand.resolve_symbols: which addressing an operand of unknown kind settles on ----
def inst(m):
    return next(i for i in INSTRUCTIONS if i.mnemonic == m)
SYMS = {"ZP": NumericValue(5), "ZP2": NumericValue("$10"), "EDGE": NumericValue(255), "PAGE": NumericValue(256), "WIDE": NumericValue("$0010"),
        "FAR": NumericValue("$1234"), "EXTN": ExtendedNumericValue(5), "DIRN": DirectNumericValue(300), "L0": AddressValue(0), "L3": AddressValue(3),
        "TXT": StringValue("'AB'"), "NEG": NumericValue(-3), "ZERO": NumericValue(0)}
def show_operand(o):
    v = o.value
    return [type(o).__name__, str(o.type), o.operand_string, o.instruction.mnemonic, type(v).__name__, str(v.type), v.int, v.hex(), v.hex_len(),
            str(v.explict_addressing_mode), v.size_hint, str(o.left) if not isinstance(o.left, str) else o.left, str(o.right) if not isinstance(o.right, str) else o.right]
TEXTS = ["ZP", "ZP2", "EDGE", "PAGE", "WIDE", "FAR", "EXTN", "DIRN", "L0", "L3", "TXT", "NEG", "ZERO", "NOPE", "<ZP", ">ZP", "<FAR", ">FAR", "<L3", ">L3", "<PAGE", ">EDGE",
         "$10", "$0010", "$FF", "$100", "<$10", ">$10", "<$1000", ">$1000", "5", "255", "256", "65535", "%00001111", "%0000000000001111", "'A", "-1",
         "ZP+1", "EDGE+1", "FAR-1", "L3+1", "L3-1", "ZP*2", "PAGE/2", "<ZP+1", ">ZP+1", "$10+1", "$1000+1", "1+$1000", "NOPE+1", "#5", "#ZP", "#L3", "", "5,X", "[5]", "[ZP]"]
for m in ("LDA", "STA", "JMP", "LDX", "CLR", "NOP", "BRA", "LBRA", "ORCC", "LEAX", "FCB", "EQU", "TFR"):
    for text in TEXTS:
        def go(m=m, text=text):
            o = Operand.create_from_str(text, inst(m))
            before = show_operand(o)
            r = o.resolve_symbols(dict(SYMS))
            after = show_operand(r)
            try:
                pkg = r.translate()
                code = [pkg.op_code.hex(), pkg.post_byte.hex(), pkg.additional.hex(), pkg.size, pkg.max_size, pkg.additional_needs_resolution, pkg.post_byte_choices]
            except BaseException as e:
                code = [type(e).__name__, str(e)]
            return [before, after, r is o, show_operand(o), code]
        record("resolve/{}/{}".format(m, text), go)
MODE_PROGRAMS = {
    "equ_widths": "ZP      EQU 5\nEDGE    EQU 255\nPAGE    EQU 256\nWIDE    EQU $0010\nNARROW  EQU $10\n        ORG $0E00\n" + "".join("        {} {}\n".format(m, o) for m in ("LDA", "STA", "JMP", "CLR", "LDX", "STD", "JSR") for o in ("ZP", "EDGE", "PAGE", "WIDE", "NARROW", "<PAGE", ">ZP", "ZP+1", "EDGE+1", "PAGE-1")),
    "labels_low": "        ORG $0000\nL0      NOP\nL1      LDA L0\n        STA L1\n        JMP L0\n        LDA <L1\n        LDA >L0\n        LDA L1+1\n        RMB 250\nL2      LDA L2\n        LDA L0\n        JMP L2\n",
    "labels_high": "        ORG $0E00\nL0      NOP\nL1      LDA L0\n        STA L1\n        JMP L0\n        LDA <L1\n        LDA >L0\n        LDA L1+1\n        RMB 250\nL2      LDA L2\n        LDA L0\n        JMP L2\n",
    "renamed": "        ORG $0E00\nQQ0     NOP\nQQ1     LDA QQ0\n        STA QQ1\n        JMP QQ0\n        LDA <QQ1\n        LDA >QQ0\n        LDA QQ1+1\n        RMB 250\nQQ2     LDA QQ2\n        LDA QQ0\n        JMP QQ2\n",
    "no_direct_mode": "V       EQU 5\n        LEAX V\n",
    "no_extended_mode": "V       EQU 500\n        LEAX V\n        ORCC V\n",
    "string_symbol": "S       FCC 'AB'\n        LDA S\n",
}
for name, text in sorted(MODE_PROGRAMS.items()):
    record("modeprog/" + name, lambda text=text: assemble(lines_of(text)))
    record("modeprog/again/" + name, lambda text=text: assemble(lines_of(text)))
'''



def run(tree):
    driver = PRELUDE + "\ntry:\n" + "".join("    " + line + "\n" for line in (BODY + "\n" + EXTRA).splitlines())
    driver += "finally:\n    shutil.rmtree(WORK, ignore_errors=True)\njson.dump(RESULTS, sys.stdout)\n"
    with tempfile.NamedTemporaryFile("w", suffix="_driver.py", delete=False) as handle:
        handle.write(driver)
        name = handle.name
    try:
        env = dict(os.environ, PYTHONHASHSEED="0", PYTHONDONTWRITEBYTECODE="1")
        proc = subprocess.run([sys.executable, name, tree], cwd=tree, env=env,
                              stdout=subprocess.PIPE, stderr=subprocess.PIPE, universal_newlines=True)
        if proc.returncode != 0:
            print("driver failed in", tree)
            print(proc.stderr[-3000:])
            sys.exit(1)
        return json.loads(proc.stdout)
    finally:
        os.unlink(name)


def main():
    tree_a, tree_b = [os.path.abspath(p) for p in sys.argv[1:3]]
    a = run(tree_a)
    b = run(tree_b)
    bad = 0
    if len(a) != len(b):
        print("different number of observations", len(a), len(b))
        bad += 1
    for left, right in zip(a, b):
        if left != right:
            bad += 1
            print("MISMATCH", left[0])
            print("   A:", json.dumps(left)[:700])
            print("   B:", json.dumps(right)[:700])
    kinds = {}
    for item in a:
        kinds[item[1]] = kinds.get(item[1], 0) + 1
    print("{} observations compared ({}), {} mismatches".format(len(a), kinds, bad))
    sys.exit(1 if bad else 0)


if __name__ == "__main__":
    main()
