#!/usr/bin/env python
"""
Differential check for refactoring C16/f (CassetteFile.append_data_blocks and CassetteFile.list_files).

usage: equiv.py <treeA> <treeB>

A driver is run once per tree in a subprocess (tree at the front of sys.path and as cwd); it prints
one JSON record per case (results, exception type and message, CLI stdout/stderr/exit status, hashes of
the files produced). The two outputs must be identical; exit 0 if so, 1 otherwise.
"""
import json
import os
import subprocess
import sys
import tempfile

DRIVER = r'''
import sys, os, json, subprocess, hashlib
tree, work = sys.argv[1], sys.argv[2]
sys.path.insert(0, tree)
from cocoasm.values import NumericValue, NoneValue
from cocoasm.virtualfiles.coco_file import CoCoFile
from cocoasm.virtualfiles.cassette import CassetteFile
from cocoasm.virtualfiles.disk import DiskFile
from cocoasm.virtualfiles.virtual_file import VirtualFile, VirtualFileType
from cocoasm.virtualfiles.source_file import SourceFile, SourceFileType

def val(v):
    try:
        return [type(v).__name__, v.int, v.hex()]
    except Exception as e:
        return [type(v).__name__, repr(e)]

def cf(f):
    if f is None:
        return None
    return dict(name=f.name, ext=f.extension, type=val(f.type), data_type=val(f.data_type), gaps=val(f.gaps),
                load=val(f.load_addr), exec=val(f.exec_addr), data=list(f.data), ignore_gaps=f.ignore_gaps,
                text=str(f))

def attempt(fn):
    try:
        return ["ok", fn()]
    except BaseException as e:
        return ["raise", type(e).__name__, str(e)]

CASES = []
def case(name, fn):
    CASES.append((name, fn))

def mk(name, ftype, dtype, load, exe, data):
    return CoCoFile(name=name, extension="BIN" if ftype == 2 else "BAS", type=NumericValue(ftype),
                    data_type=NumericValue(dtype), load_addr=NumericValue(load), exec_addr=NumericValue(exe),
                    data=data)

def pattern(n, seed=7):
    return [(i * seed + 3) & 0xFF for i in range(n)]

def jsonable(buf):
    return [x if isinstance(x, int) else repr(x) for x in buf]

# append_data_blocks directly: lengths around the block size, gaps on and off, several sequence types
def blocks(data, prefix=(), **kw):
    c = CassetteFile()
    c.buffer.extend(prefix)
    try:
        result = c.append_data_blocks(data, **kw)
        return ["ok", repr(result), jsonable(c.get_buffer())]
    except BaseException as e:
        return ["raise", type(e).__name__, str(e), jsonable(c.get_buffer())]

for n in (0, 1, 2, 127, 253, 254, 255, 256, 257, 509, 510, 511, 765, 766, 1000):
    case("blocks:%d" % n, lambda n=n: blocks(pattern(n)))
    case("blocks_gaps:%d" % n, lambda n=n: blocks(pattern(n, 5), gaps=True))
    case("blocks_nogaps_kw:%d" % n, lambda n=n: blocks(pattern(n, 3), gaps=False))
case("blocks:bytes", lambda: blocks(bytes(pattern(300))))
case("blocks:bytearray", lambda: blocks(bytearray(pattern(255)), gaps=True))
case("blocks:tuple", lambda: blocks(tuple(pattern(256))))
case("blocks:all_ff", lambda: blocks([0xFF] * 255))
case("blocks:all_00", lambda: blocks([0x00] * 254))
case("blocks:prefix", lambda: blocks([1, 2, 3], prefix=(9, 9)))
case("blocks:big_values", lambda: blocks([300, 70000, -1]))
case("blocks:str", lambda: blocks("abc"))
case("blocks:str_elements", lambda: blocks([1, "x", 2]))
case("blocks:none_element", lambda: blocks([1, None]))
case("blocks:none_late", lambda: blocks(pattern(255) + [None]))
case("blocks:float", lambda: blocks([1.5, 2]))
case("blocks:none", lambda: blocks(None))
case("blocks:int", lambda: blocks(5))
case("blocks:range", lambda: blocks(range(260)))

FILESETS = {
    "one_ml": [mk("HELLO", 2, 0, 0x0E00, 0x0E10, pattern(10))],
    "one_basic": [mk("PROG", 0, 0, 0, 0, pattern(40))],
    "ascii": [mk("TEXT", 0, 0xFF, 0, 0, [0x41, 0x42, 0x0D])],
    "three": [mk("A", 2, 0, 0x100, 0x100, pattern(3)), mk("LONGNAME", 0, 0, 0, 0, pattern(300)),
              mk("c", 2, 0, 0xFFFF, 0x0000, pattern(255))],
    "len254": [mk("L254", 2, 0, 0x2000, 0x2000, pattern(254))],
    "len255": [mk("L255", 2, 0, 0x2000, 0x2000, pattern(255))],
    "len256": [mk("L256", 2, 0, 0x2000, 0x2000, pattern(256))],
    "len510": [mk("L510", 2, 0, 0x2000, 0x2000, pattern(510))],
    "len600": [mk("L600", 2, 0, 0x3000, 0x3001, pattern(600, 11))],
    "len5000": [mk("L5000", 0, 0, 0, 0, pattern(5000, 13))],
    "empty_then_full": [mk("EMPTY", 2, 0, 1, 2, []), mk("FULL", 2, 0, 3, 4, [9, 8, 7])],
    "full_then_empty": [mk("FULL", 2, 0, 3, 4, [9, 8, 7]), mk("EMPTY", 2, 0, 1, 2, []), mk("LAST", 2, 0, 3, 4, [1])],
    "same_names": [mk("DUP", 2, 0, 1, 2, [1]), mk("DUP", 0, 0, 0, 0, [2, 3])],
    "marker_in_data": [mk("MARK", 2, 0, 0x10, 0x20, [0x55, 0x3C, 0x00, 0x0F, 0x55, 0x3C, 0xFF, 0x00, 1, 2, 3])],
}

def image(files):
    c = CassetteFile()
    c.add_files(files)
    return list(c.get_buffer())

def list_all(buf, names=None):
    c = CassetteFile(buffer=list(buf))
    return [cf(f) for f in c.list_files(filenames=names)]

for key, fs in FILESETS.items():
    case("image:" + key, lambda fs=fs: (lambda b: [len(b), hashlib.sha256(bytes(b)).hexdigest(), b[250:300]])(image(fs)))
    case("list:" + key, lambda fs=fs: list_all(image(fs)))

three = image(FILESETS["three"])
for names in (None, [], ["A       "], ["A"], ["c       ", "A       "], ["LONGNAME"], "LONGNAME", ("c       ",), ["nope"]):
    case("filter:%r" % (names,), lambda names=names: list_all(three, names))
case("list:empty_buffer", lambda: list_all([]))
case("list:junk", lambda: list_all([1, 2, 3, 4, 5]))
case("list:truncated", lambda: list_all(three[:700]))
case("list:first_then_truncated", lambda: list_all(three[:300 + 256 + 30]))
case("list:returns_new_list", lambda: (lambda c: c.list_files() is not c.list_files())(CassetteFile(buffer=list(three))))

# command line
def write(path, data):
    with open(path, "wb") as f:
        f.write(bytearray(data))

def snapshot():
    out = {}
    for n in sorted(os.listdir(work)):
        with open(os.path.join(work, n), "rb") as f:
            out[n] = hashlib.sha256(f.read()).hexdigest() + ":" + str(os.path.getsize(os.path.join(work, n)))
    return out

def cli(*args):
    p = subprocess.run([sys.executable, os.path.join(tree, "file_util.py")] + list(args), cwd=work,
                       capture_output=True, text=True)
    err = p.stderr.replace(tree, "<TREE>")
    if "Traceback" in err:
        err = "Traceback ... " + err.strip().splitlines()[-1]
    return [p.returncode, p.stdout.replace(tree, "<TREE>"), err, snapshot()]

CLI_SETS = ["one_ml", "ascii", "three", "len255", "len600", "full_then_empty"]
for key in CLI_SETS:
    write(os.path.join(work, key + ".cas"), image(FILESETS[key]))
for key in CLI_SETS:
    case("cli:list:" + key, lambda key=key: cli(key + ".cas", "--list"))
    case("cli:to_cas:" + key, lambda key=key: cli(key + ".cas", "--to_cas", key + "_copy.cas"))
    case("cli:to_dsk:" + key, lambda key=key: cli(key + ".cas", "--to_dsk", key + ".dsk"))
    case("cli:back_to_cas:" + key, lambda key=key: cli(key + ".dsk", "--to_cas", key + "_2.cas"))
    case("cli:back_list:" + key, lambda key=key: cli(key + "_2.cas", "--list"))
    case("cli:to_bin:" + key, lambda key=key: cli(key + ".cas", "--to_bin", key + ".bin"))
case("cli:files_lower", lambda: cli("three.cas", "--to_cas", "sel1.cas", "--files", "a", "C"))
case("cli:files_mixed", lambda: cli("three.cas", "--to_cas", "sel2.cas", "--files", "LongName"))
case("cli:files_none", lambda: cli("three.cas", "--to_cas", "sel3.cas", "--files", "nothere"))
case("cli:exists", lambda: cli("three.cas", "--to_cas", "sel1.cas"))
case("cli:append", lambda: cli("len600.cas", "--to_cas", "sel1.cas", "--append"))
case("cli:append_list", lambda: cli("sel1.cas", "--list"))

# the assembler front end writes cassette images with the same code
def asm(*args):
    p = subprocess.run([sys.executable, os.path.join(tree, "assembler.py")] + list(args), cwd=work,
                       capture_output=True, text=True)
    err = p.stderr.replace(tree, "<TREE>")
    if "Traceback" in err:
        err = "Traceback ... " + err.strip().splitlines()[-1]
    return [p.returncode, p.stdout.replace(tree, "<TREE>"), err, snapshot()]

with open(os.path.join(work, "prog.asm"), "w") as f:
    f.write("        NAM PROG\n        ORG $0E00\nSTART   LDA #$01\n")
    for i in range(150):
        f.write("        FDB $%04X\n" % (i * 257 & 0xFFFF))
    f.write("        RTS\n        END START\n")
case("asm:cas", lambda: asm("prog.asm", "--to_cas", "prog.cas"))
case("asm:cas_list", lambda: cli("prog.cas", "--list"))

for name, fn in CASES:
    print(json.dumps([name, attempt(fn)], sort_keys=True))
print(json.dumps(["#cases", len(CASES)]))
'''


def run(tree):
    tree = os.path.abspath(tree)
    with tempfile.TemporaryDirectory() as tmp:
        driver = os.path.join(tmp, "driver.py")
        work = os.path.join(tmp, "work")
        os.mkdir(work)
        with open(driver, "w") as handle:
            handle.write(DRIVER)
        env = dict(os.environ, PYTHONDONTWRITEBYTECODE="1", PYTHONHASHSEED="0")
        env.pop("PYTHONPATH", None)
        proc = subprocess.run([sys.executable, driver, tree, work], cwd=tree, env=env,
                              capture_output=True, text=True)
        return proc.returncode, proc.stdout.replace(work, "<WORK>"), proc.stderr.replace(tree, "<TREE>")


def main():
    if len(sys.argv) != 3:
        print(__doc__)
        return 2
    a = run(sys.argv[1])
    b = run(sys.argv[2])
    if a[0] != 0 or b[0] != 0:
        print("driver failed:", a[0], a[2][-2000:], b[0], b[2][-2000:])
        return 1
    lines_a, lines_b = a[1].splitlines(), b[1].splitlines()
    bad = 0
    for la, lb in zip(lines_a, lines_b):
        if la != lb:
            bad += 1
            print("DIFF\n  A: %s\n  B: %s" % (la[:600], lb[:600]))
    if len(lines_a) != len(lines_b):
        bad += 1
        print("different number of records: %d vs %d" % (len(lines_a), len(lines_b)))
    count = json.loads(lines_a[-1])[1] if lines_a else 0
    if count < 30:
        print("too few cases:", count)
        return 1
    print("%d cases compared, %d differences" % (count, bad))
    return 1 if bad else 0


if __name__ == "__main__":
    sys.exit(main())
