"""
Differential demonstration for property C15 (disk space accounting is exact:
files that fit are stored, others fail cleanly).

usage: equiv.py <treeA> <treeB>

The probe below is executed once per tree in a separate interpreter, with the
tree at the front of sys.path and a private scratch directory as cwd. It prints
one JSON record per case; the two transcripts must be identical.
"""
import subprocess
import sys
import tempfile
import os

PROBE = r'''
import sys, os, io, json, hashlib, contextlib, random
tree = os.path.abspath(sys.argv[1])
work = os.path.abspath(sys.argv[2])
sys.path.insert(0, tree)
os.chdir(work)

import cocoasm
assert os.path.abspath(cocoasm.__file__).startswith(tree + os.sep), cocoasm.__file__

from cocoasm.values import NumericValue, NoneValue
from cocoasm.virtualfiles.coco_file import CoCoFile
from cocoasm.virtualfiles.disk import DiskFile, DiskConstants, MLPreamble, BasicPreamble, ASCIIPreamble, Postamble
from cocoasm.virtualfiles.cassette import CassetteFile
from cocoasm.virtualfiles.virtual_file import VirtualFile, VirtualFileType
from cocoasm.virtualfiles.source_file import SourceFile, SourceFileType
import assembler, file_util
assert os.path.abspath(file_util.__file__).startswith(tree + os.sep)

CASES = 0
def emit(label, payload):
    global CASES
    CASES += 1
    print(json.dumps([label, payload], sort_keys=True, default=repr))

def attempt(fn):
    try:
        return ["ok", fn()]
    except BaseException as error:
        return ["raised", type(error).__name__, str(error)]

def digest(data):
    try:
        raw = bytes(data)
    except (ValueError, TypeError):
        raw = repr(list(data)).encode()
    return [len(data), hashlib.sha256(raw).hexdigest()]

FAT = DiskConstants.FAT_OFFSET
DIR = DiskConstants.DIR_OFFSET
GRANULE = DiskConstants.HALF_TRACK_LEN

def pattern(size, seed=7):
    return [(index * seed + 3) & 0xFF for index in range(size)]

def coco(name="TEST", size=3, file_type=2, data_type=0, ext="BIN", load=0x0E00, execute=0x0E00, seed=7):
    return CoCoFile(name=name, extension=ext, type=NumericValue(file_type), data_type=NumericValue(data_type),
                    load_addr=NumericValue(load), exec_addr=NumericValue(execute), data=pattern(size, seed))

def describe(files):
    return [[f.name, f.extension, f.type.hex(), f.data_type.hex(), f.load_addr.hex(), f.exec_addr.hex(), digest(f.data)] for f in files]

def accounting(container):
    buffer = container.get_buffer()
    fat = buffer[FAT:FAT + 68]
    slots = [buffer[DIR + 32 * n] for n in range(72)]
    return {
        "image": digest(buffer),
        "fat": fat,
        "free-granules": sum(1 for entry in fat if entry == 0xFF),
        "used-slots": sum(1 for first in slots if first not in (0x00, 0xFF)),
        "fat-tail": digest(buffer[FAT + 68:DIR]),
        "directory": digest(buffer[DIR:DIR + 72 * 32]),
    }

def fill(files, fill_order=None, listing=True):
    container = DiskFile(granule_fill_order=fill_order)
    log = []
    for coco_file in files:
        before = list(container.get_buffer()[FAT:FAT + 68])
        outcome = attempt(lambda: container.add_file(coco_file))
        after = container.get_buffer()[FAT:FAT + 68]
        taken = [number for number in range(68) if before[number] != after[number]]
        log.append([coco_file.name, len(coco_file.data), outcome, taken])
    record = [log, accounting(container)]
    if listing:
        record.append(attempt(lambda: describe(DiskFile(buffer=list(container.get_buffer())).list_files())))
    return record

# ---------------------------------------------------------------- section A
# one file on an empty disk: every interesting size, for each kind of file
EDGES = sorted(set([0, 1, 2, 245, 246, 250, 251, 255, 256, 257] +
                   [GRANULE * k + d for k in (1, 2, 3) for d in (-11, -10, -9, -6, -5, -4, -3, -2, -1, 0, 1, 2)] +
                   [GRANULE * 33, GRANULE * 34 - 10, GRANULE * 34, 65535, 65536, GRANULE * 67, GRANULE * 68 - 11, GRANULE * 68 - 10,
                    GRANULE * 68 - 9, GRANULE * 68, GRANULE * 68 + 1]))
for size in EDGES:
    emit("A/ml/%d" % size, fill([coco(size=size)]))
for size in EDGES[:40]:
    emit("A/basic/%d" % size, fill([coco(size=size, file_type=0, ext="BAS")]))
    emit("A/ascii/%d" % size, fill([coco(size=size, file_type=0, data_type=0xFF, ext="BAS")]))
    emit("A/data/%d" % size, fill([coco(size=size, file_type=1, data_type=0xFF, ext="DAT")]))

# ---------------------------------------------------------------- section B
# histories that take the image from empty to full
def named(count, size, **kwargs):
    return [coco(name="F%d" % number, size=size, seed=number % 9 + 1, **kwargs) for number in range(count)]

emit("B/slots/80-tiny", fill(named(80, 1), listing=False))
emit("B/slots/80-empty", fill(named(80, 0), listing=False))
emit("B/granules/big-then-small", fill([coco(name="BIG", size=GRANULE * 60)] + named(12, 10)))
emit("B/granules/thirteen-of-five", fill(named(15, GRANULE * 5)))
emit("B/granules/two-halves", fill([coco(name="H1", size=GRANULE * 34 - 10), coco(name="H2", size=GRANULE * 34 - 10), coco(name="H3", size=1)]))
emit("B/granules/exact-fit", fill([coco(name="ALL", size=GRANULE * 68 - 11), coco(name="MORE", size=0)]))
emit("B/granules/too-big-first", fill([coco(name="HUGE", size=GRANULE * 69), coco(name="OK", size=5)]))
emit("B/granules/too-big-later", fill([coco(name="A", size=GRANULE * 30), coco(name="B", size=GRANULE * 40), coco(name="C", size=GRANULE * 37), coco(name="D", size=GRANULE)]))
ASCII = dict(file_type=0, data_type=0xFF, ext="TXT")
emit("B/ascii/big-then-small", fill([coco(name="BIG", size=GRANULE * 60, **ASCII)] + named(12, 10)))
emit("B/ascii/two-halves", fill([coco(name="H1", size=GRANULE * 34 - 1, **ASCII), coco(name="H2", size=GRANULE * 34 - 1, **ASCII), coco(name="H3", size=1)]))
emit("B/ascii/exact-fit", fill([coco(name="ALL", size=GRANULE * 68 - 1, **ASCII), coco(name="MORE", size=0)]))
emit("B/ascii/exact-multiple", fill([coco(name="ALL", size=GRANULE * 67, **ASCII), coco(name="MORE", size=0)]))
emit("B/ascii/one-over", fill([coco(name="OVER", size=GRANULE * 68, **ASCII), coco(name="AFTER", size=5), coco(name="AFTER2", size=5, **ASCII)]))
emit("B/ascii/too-big-later", fill([coco(name="A", size=GRANULE * 30, **ASCII), coco(name="B", size=GRANULE * 40, **ASCII), coco(name="C", size=GRANULE * 36, **ASCII),
                                    coco(name="D", size=GRANULE, **ASCII), coco(name="E", size=10)]))
emit("B/ml/twenty-five-k", fill(named(8, 25000)))
emit("B/ml/sixty-k", fill(named(4, 60000)))
emit("B/mixed/kinds", fill([coco(name="ML", size=3000), coco(name="BAS", size=3000, file_type=0, ext="BAS"),
                            coco(name="ASC", size=3000, file_type=0, data_type=0xFF, ext="BAS"), coco(name="DAT", size=2304, file_type=1, data_type=0xFF, ext="DAT")]))
random.seed(1515)
for number in range(12):
    files = [coco(name="R%d" % index, size=random.choice([0, 1, 100, 2293, 2294, 2295, 2304, 5000, 12000, 30000]) + random.randint(0, 3),
                  file_type=random.choice([0, 1, 2]), data_type=random.choice([0, 0xFF]), seed=index + 1) for index in range(random.randint(5, 40))]
    emit("B/random/%d" % number, fill(files, listing=(number % 3 == 0)))

# ---------------------------------------------------------------- section C
# permuted, short and odd fill orders
DEFAULT_ORDER = list(DiskConstants.GRANULE_FILL_ORDER)
ORDERS = {
    "ascending": list(range(68)),
    "descending": list(range(67, -1, -1)),
    "shuffled": random.sample(range(68), 68),
    "default-reversed": DEFAULT_ORDER[::-1],
    "duplicates": [5] * 68,
    "short": list(range(67)),
    "long": list(range(68)) + [0, 1, 2],
    "with-68": list(range(1, 69)),
    "with-negative": [-1] + list(range(67)),
    "empty": [],
    "tuple": tuple(range(68)),
}
for label, order in ORDERS.items():
    emit("C/order/" + label, fill([coco(name="ONE", size=GRANULE * 3), coco(name="TWO", size=10), coco(name="THREE", size=GRANULE * 70, file_type=0, data_type=0xFF), coco(name="FOUR", size=GRANULE * 20, file_type=0, data_type=0xFF),
                                  coco(name="FIVE", size=30000)], fill_order=order))
emit("C/order/shuffled-to-full", fill(named(30, GRANULE * 2 + 50), fill_order=ORDERS["shuffled"], listing=False))

# ---------------------------------------------------------------- section D
# the helpers one at a time
def on_fresh(call, prepare=None):
    container = DiskFile()
    if prepare:
        prepare(container)
    outcome = attempt(lambda: call(container))
    return [outcome, accounting(container)]

emit("D/seek-granule", [[granule, attempt(lambda: DiskFile.seek_granule(granule))] for granule in
                        list(range(-3, 72)) + [100, 1000, 33.0, 33.5, 34.0, True, False, None, "3", "40", [1], (2,)]])
emit("D/granule-in-use", [[number, on_fresh(lambda c: c.granule_in_use(number), lambda c: c.add_file(coco(size=GRANULE * 2)))[0]]
                          for number in list(range(-2, 70)) + [None, "1", 1.5]])
emit("D/entry-in-use", [[number, on_fresh(lambda c: c.directory_entry_in_use(number), lambda c: c.add_files(named(3, 1)))[0]]
                        for number in list(range(-2, 74)) + [None, "1", 1.5]])
emit("D/find-empty/fresh", on_fresh(lambda c: [c.find_empty_granule(), c.find_empty_directory_entry()]))
emit("D/find-empty/after-files", on_fresh(lambda c: [c.find_empty_granule(), c.find_empty_directory_entry()], lambda c: c.add_files(named(7, GRANULE))))
def exhaust_fat(container):
    for number in range(68):
        container.buffer[FAT + number] = 0xC1
def exhaust_directory(container):
    for number in range(72):
        container.buffer[DIR + 32 * number] = 0x41
def nearly_exhaust_directory(container):
    for number in range(71):
        container.buffer[DIR + 32 * number] = 0x41
emit("D/find-empty/no-granules", on_fresh(lambda c: c.find_empty_granule(), exhaust_fat))
emit("D/find-empty/no-slots", on_fresh(lambda c: c.find_empty_directory_entry(), exhaust_directory))
emit("D/find-empty/last-slot-only", on_fresh(lambda c: c.find_empty_directory_entry(), nearly_exhaust_directory))
emit("D/add/no-granules", on_fresh(lambda c: c.add_file(coco()), exhaust_fat))
emit("D/add/no-slots", on_fresh(lambda c: c.add_file(coco()), exhaust_directory))
emit("D/add/last-slot-only", on_fresh(lambda c: c.add_file(coco()), nearly_exhaust_directory))
emit("D/add/deleted-slots", on_fresh(lambda c: c.add_files(named(3, 5)), lambda c: [c.buffer.__setitem__(DIR + 32 * n, 0x00) for n in (0, 2, 4)]))

FAT_CASES = [([], 1), ([5], 1), ([5], 9), ([5, 6], 3), ([32, 33, 34, 35], 9), ([67, 0, 33, 34], 2), ([1, 1, 1], 4), ([3, 2, 1, 0], 0),
             ([10, 20, 30], 255), ([10, 20, 30], -1), ([68], 1), ([0, 68, 1], 1), ([300], 1), ([1, 300, 2], 1), ((7, 8, 9), 5),
             (None, 1), ([1, 2], None), ([None, 2], 1), ([1, None], 1), (["3", 4], 1)]
emit("D/write-to-fat", [[repr(granules), sectors, on_fresh(lambda c: c.write_to_fat(granules, sectors))] for granules, sectors in FAT_CASES])

def ml_ambles(size):
    preamble = MLPreamble()
    preamble.data_length = NumericValue(size)
    preamble.load_addr = NumericValue(0x1234)
    postamble = Postamble()
    postamble.exec_addr = NumericValue(0x5678)
    return preamble, postamble
GRANULE_CASES = []
for size in (0, 1, 2293, 2294, 2298, 2299, 2300, 2304, 2305, 4602, 4603, 4604, 6000):
    for granules in ([], [0], [0, 1], [33, 34, 35], [67, 66, 65], [5, 5, 5], [0, 68], [70]):
        GRANULE_CASES.append((size, granules))
def write_granules(container, size, granules, with_ambles=True, first=True):
    preamble, postamble = ml_ambles(size) if with_ambles else (None, None)
    return container.write_to_granules(pattern(size), granules, preamble, postamble, first_granule=first)
emit("D/write-to-granules/ml", [[size, granules, on_fresh(lambda c: write_granules(c, size, granules))] for size, granules in GRANULE_CASES])
emit("D/write-to-granules/plain", [[size, granules, on_fresh(lambda c: write_granules(c, size, granules, with_ambles=False))] for size, granules in GRANULE_CASES])
emit("D/write-to-granules/not-first", [[size, granules, on_fresh(lambda c: write_granules(c, size, granules, first=False))] for size, granules in GRANULE_CASES[:40]])
def basic_write(container, size, granules):
    preamble = BasicPreamble()
    preamble.data_length = NumericValue(size)
    return container.write_to_granules(pattern(size), granules, preamble, None)
emit("D/write-to-granules/basic", [[size, granules, on_fresh(lambda c: basic_write(c, size, granules))] for size, granules in GRANULE_CASES[:60]])

def calculations():
    out = []
    for size in (0, 1, 245, 246, 255, 256, 2293, 2294, 2295, 2304, 4598, 4599, 65535):
        data = [0] * size
        for label, (preamble, postamble) in (("ml", ml_ambles(size)), ("basic", (BasicPreamble(), None)), ("ascii", (ASCIIPreamble(), None))):
            out.append([size, label, DiskFile.calculate_granules_needed(data, preamble, postamble),
                        DiskFile.calculate_last_sector_bytes_used(data, preamble, postamble),
                        DiskFile.calculate_last_granules_sectors_used(data, preamble, postamble)])
    for length in (-300, -1, 0, 1, 255, 256, 257, 2304, 1.5, 256.0):
        out.append(["sectors", length, attempt(lambda: DiskFile.calculate_sectors_needed(length))])
    fat = [0xFF] * 68
    fat[0], fat[1], fat[2] = 1, 2, 0xC3
    fat[10] = 0xC1
    fat[20] = 0xC9
    for start, last in ((0, 0), (0, 256), (10, 17), (20, 1), (2, 5)):
        out.append(["length", start, last, attempt(lambda: DiskFile.calculate_file_length(start, fat, last))])
    return out
emit("D/calculations", attempt(calculations))

def constructor():
    out = []
    for order in (None, [], [1, 2, 3], list(range(68)), (4, 5), 0, "abc"):
        out.append([repr(order)[:30], attempt(lambda: list(DiskFile(granule_fill_order=order).granule_fill_order)[:5])])
    for buffer in (None, [], [1, 2, 3], [0xFF] * 161280):
        container = DiskFile(buffer=buffer)
        out.append([len(buffer) if buffer is not None else None, len(container.get_buffer()), len(container.original_buffer)])
    return out
emit("D/constructor", attempt(constructor))

# ---------------------------------------------------------------- section E
# reading images back: hand made directories and damaged images
def listed(buffer, filenames=None):
    return describe(DiskFile(buffer=buffer).list_files(filenames))
full = DiskFile()
full.add_files([coco(name="ALPHA", size=10), coco(name="BETA", size=5000, file_type=0, ext="BAS"), coco(name="GAMMA", size=300, file_type=0, data_type=0xFF, ext="TXT"),
                coco(name="DELTA", size=GRANULE * 3, load=0x4000, execute=0x4010)])
image = list(full.get_buffer())
emit("E/list/all", attempt(lambda: listed(list(image))))
emit("E/list/filtered", attempt(lambda: listed(list(image), ["BETA", "DELTA", "NOPE"])))
emit("E/list/short", attempt(lambda: listed(image[:161279])))
emit("E/list/long", attempt(lambda: listed(image + [0] * 7)))
emit("E/list/empty", attempt(lambda: listed([])))
for label, position, value in (("deleted-first", DIR, 0x00), ("free-second", DIR + 32, 0xFF), ("bad-type", DIR + 11, 0x07), ("ascii-flag", DIR + 12, 0xFF),
                               ("bad-granule", DIR + 13, 200), ("granule-68", DIR + 13, 68), ("bad-name", DIR + 2, 0xFF), ("bad-ext", DIR + 9, 0xC3),
                               ("fat-loop", FAT + 32, 32), ("fat-free", FAT + 32, 0xFF), ("fat-zero", FAT + 32, 0x00), ("bad-preamble", GRANULE * 32, 0x55),
                               ("length-high", DIR + 14, 0xFF), ("length-low", DIR + 15, 0x00), ("slot-71", DIR + 32 * 71, 0x41), ("last-byte", 161279, 0x00)):
    damaged = list(image)
    damaged[position] = value
    emit("E/damaged/" + label, attempt(lambda: listed(damaged)))
def all_slots():
    container = DiskFile()
    container.add_file(coco(name="ORIGINAL", size=20))
    entry = container.get_buffer()[DIR:DIR + 32]
    for number in range(72):
        copy = list(entry)
        copy[0:2] = [0x41 + number // 26, 0x41 + number % 26]
        container.buffer[DIR + 32 * number:DIR + 32 * number + 32] = copy
    return [f[0] for f in listed(list(container.get_buffer()))]
emit("E/list/72-slots", attempt(all_slots))

# ---------------------------------------------------------------- section F
# through VirtualFile and file_util: host file bytes before and after
def snapshot():
    return {name: digest(open(name, "rb").read()) for name in sorted(os.listdir(".")) if os.path.isfile(name)}

def run_cli(module, argv):
    out, err = io.StringIO(), io.StringIO()
    saved, status = sys.argv, ["returned"]
    sys.argv = [module.__name__ + ".py"] + argv
    try:
        with contextlib.redirect_stdout(out), contextlib.redirect_stderr(err):
            try:
                module.main(module.parse_arguments())
            except SystemExit as stop:
                status = ["exit", stop.code]
            except BaseException as error:
                status = ["raised", type(error).__name__, str(error)]
    finally:
        sys.argv = saved
    return [status, out.getvalue(), err.getvalue(), snapshot()]

def save(file_name, files, append, kind=VirtualFileType.DISK):
    virtual_file = VirtualFile(SourceFile(file_name, file_type=SourceFileType.BINARY), kind)
    virtual_file.open_virtual_file()
    for coco_file in files:
        virtual_file.add_coco_file(coco_file)
    outcome = attempt(lambda: virtual_file.save_virtual_file(append_mode=append))
    return [outcome, snapshot()]

os.mkdir("host")
os.chdir("host")
emit("F/save/new", save("d.dsk", named(3, 3000), False))
emit("F/save/exists", save("d.dsk", named(1, 10), False))
emit("F/save/append", save("d.dsk", [coco(name="EXTRA", size=GRANULE * 10)], True))
emit("F/save/append-too-big", save("d.dsk", [coco(name="HUGE", size=GRANULE * 60)], True))
emit("F/save/append-too-many", save("d.dsk", named(80, 1), True))
emit("F/save/after-failures", run_cli(file_util, ["d.dsk", "--list"]))
emit("F/save/new-too-big", save("big.dsk", [coco(name="HUGE", size=GRANULE * 69)], False))
emit("F/save/fill-exactly", save("full.dsk", named(68, GRANULE - 11), False))
emit("F/save/full-plus-one", save("full.dsk", [coco(name="ONEMORE", size=0)], True))
emit("F/save/full-list", run_cli(file_util, ["full.dsk", "--list"]))
cassette = CassetteFile()
cassette.add_files(named(75, 2))
with open("many.cas", "wb") as handle:
    handle.write(bytes(cassette.get_buffer()))
emit("F/util/cas-to-dsk-too-many", run_cli(file_util, ["many.cas", "--to_dsk", "many.dsk"]))
emit("F/util/cas-to-full-dsk", run_cli(file_util, ["many.cas", "--to_dsk", "full.dsk", "--append"]))
emit("F/util/some-to-dsk", run_cli(file_util, ["many.cas", "--to_dsk", "some.dsk", "--files", "f1", "f2", "f70"]))
emit("F/util/some-list", run_cli(file_util, ["some.dsk", "--list"]))
with open("prog.asm", "w") as handle:
    handle.write("\n".join(["  NAM BIGPROG", "  ORG $1000"] + ["  FDB $%04X" % (i & 0xFFFF) for i in range(3000)]) + "\n")
emit("F/asm/to-dsk", run_cli(assembler, ["prog.asm", "--to_dsk", "p.dsk"]))
emit("F/asm/to-full-dsk", run_cli(assembler, ["prog.asm", "--to_dsk", "full.dsk", "--append"]))
emit("F/asm/append-thrice", [run_cli(assembler, ["prog.asm", "--to_dsk", "p.dsk", "--append"])[:3] for _ in range(3)] + [snapshot()])
emit("F/asm/list", run_cli(file_util, ["p.dsk", "--list"]))
os.chdir(work)

print(json.dumps(["cases", CASES]))
'''


def run(tree):
    tree = os.path.abspath(tree)
    with tempfile.TemporaryDirectory() as work:
        try:
            completed = subprocess.run(
                [sys.executable, "-c", PROBE, tree, work],
                cwd=work, capture_output=True, text=True, timeout=900,
            )
        except subprocess.TimeoutExpired:
            return 124, "", "probe timed out for {}".format(tree)
    return completed.returncode, completed.stdout, completed.stderr


def main():
    if len(sys.argv) != 3:
        print(__doc__)
        return 2
    code_a, out_a, err_a = run(sys.argv[1])
    code_b, out_b, err_b = run(sys.argv[2])
    if code_a != 0 or code_b != 0:
        print("probe failed: A={} B={}".format(code_a, code_b))
        print(err_a[-2000:])
        print(err_b[-2000:])
        return 1
    lines_a = out_a.splitlines()
    lines_b = out_b.splitlines()
    differences = 0
    for index in range(max(len(lines_a), len(lines_b))):
        left = lines_a[index] if index < len(lines_a) else "<missing>"
        right = lines_b[index] if index < len(lines_b) else "<missing>"
        if left != right:
            differences += 1
            if differences <= 10:
                position = next((i for i, (a, b) in enumerate(zip(left, right)) if a != b), 0)
                start = max(0, position - 150)
                print("DIFF in {}\n  A: ...{}\n  B: ...{}".format(left[:40], left[start:position + 150], right[start:position + 150]))
    if err_a != err_b:
        differences += 1
        print("stderr differs")
    print("{} records compared, {} differences".format(len(lines_a), differences))
    return 1 if differences else 0


if __name__ == "__main__":
    sys.exit(main())
