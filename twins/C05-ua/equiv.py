#!/venv/bin/python
"""
Differential check of two CoCoAssembler trees.

usage: equiv.py <treeA> <treeB>

Every case is run once per tree in a subprocess of its own (tree as cwd and
at the front of sys.path).  Compared: emitted bytes, listing lines, symbol
table lines, origin, name, exception type and message, results of direct
probes of the refactored functions, stdout / exit status / files written by
the command line front end.  Exit status 0 when everything agrees, else 1.
"""
import json
import os
import subprocess
import sys
import tempfile

PYTHON = "/venv/bin/python"

RUNNER = r'''
import sys, os, json, io, contextlib
tree = os.getcwd()
sys.path.insert(0, tree)
from cocoasm import values, operands, statement, program, instruction, exceptions
from cocoasm.values import *
from cocoasm.operands import *
from cocoasm.statement import Statement
from cocoasm.program import Program
from cocoasm.instruction import INSTRUCTIONS, CodePackage, Instruction, Mode
from cocoasm.exceptions import *

def ins(name):
    return next(i for i in INSTRUCTIONS if i.mnemonic == name)

def show(obj, depth=0):
    if depth > 4:
        return "..."
    if isinstance(obj, values.Value):
        out = {"cls": type(obj).__name__}
        for key in ("int", "size_hint", "negative", "resolved", "original_string", "operation"):
            if hasattr(obj, key):
                out[key] = show(getattr(obj, key), depth + 1)
        out["type"] = str(obj.type)
        out["mode"] = str(obj.explict_addressing_mode)
        for key in ("left", "right", "value"):
            if hasattr(obj, key):
                out[key] = show(getattr(obj, key), depth + 1)
        try:
            out["hex"] = obj.hex()
            out["hex_len"] = obj.hex_len()
        except Exception as error:
            out["hex"] = "!" + type(error).__name__ + str(error)
        return out
    if isinstance(obj, CodePackage):
        return {"cls": "CodePackage", **{k: show(v, depth + 1) for k, v in sorted(vars(obj).items())}}
    if isinstance(obj, operands.Operand):
        return {"cls": type(obj).__name__, "type": str(obj.type), "operand_string": show(obj.operand_string, depth + 1),
                "value": show(obj.value, depth + 1), "left": show(obj.left, depth + 1),
                "right": show(obj.right, depth + 1),
                "instruction": obj.instruction.mnemonic if hasattr(obj.instruction, "mnemonic") else repr(obj.instruction)}
    if isinstance(obj, Statement):
        return {"cls": "Statement", "label": obj.label, "mnemonic": obj.mnemonic, "comment": obj.comment,
                "empty": obj.is_empty, "comment_only": obj.is_comment_only, "fixed": obj.fixed_size,
                "hint": obj.pcr_size_hint, "operand": show(obj.operand, depth + 1), "pkg": show(obj.code_pkg, depth + 1)}
    if isinstance(obj, (list, tuple)):
        return [show(x, depth + 1) for x in obj]
    if isinstance(obj, dict):
        return {str(k): show(v, depth + 1) for k, v in obj.items()}
    if isinstance(obj, (int, str, bool, float)) or obj is None:
        return obj
    return repr(obj)

def failure(error):
    out = {"error": type(error).__name__, "str": str(error), "value": show(getattr(error, "value", None))}
    stmt = getattr(error, "statement", None)
    if isinstance(stmt, Statement):
        try:
            out["statement"] = str(stmt)
        except Exception as inner:
            out["statement"] = "!" + type(inner).__name__
    elif stmt is not None:
        out["statement"] = show(stmt)
    return out

def run_program(lines):
    prog = Program()
    try:
        prog.process(lines)
    except Exception as error:
        out = failure(error)
        out["partial_symbols"] = sorted(prog.symbol_table.keys())
        return out
    out = {}
    for key, call in (("bytes", prog.get_binary_array), ("listing", prog.get_statements),
                      ("symbols", prog.get_symbol_table)):
        try:
            out[key] = call()
        except Exception as error:
            out[key] = failure(error)
    out["origin"] = show(prog.origin)
    out["name"] = prog.name
    out["sizes"] = [[s.code_pkg.size, s.code_pkg.max_size, s.fixed_size, s.pcr_size_hint, s.code_pkg.address.hex()]
                    for s in prog.statements]
    return out

def run_expr(text):
    try:
        return show(eval(text, globals()))
    except Exception as error:
        return failure(error)

cases = json.load(sys.stdin)
results = []
for kind, payload in cases:
    buffer = io.StringIO()
    with contextlib.redirect_stdout(buffer):
        result = run_program(payload) if kind == "prog" else run_expr(payload)
    results.append([result, buffer.getvalue()])
sys.stdout.write(json.dumps(results))
'''

# ---------------------------------------------------------------- case corpus

MNEMONICS = ["ABX", "ADCA", "ADDB", "ADDD", "ANDCC", "ASL", "ASLA", "LSL", "BITA", "CLR", "CLRB", "CMPX", "CMPD",
             "CMPS", "CMPY", "COM", "CWAI", "DAA", "DEC", "EORB", "INC", "JMP", "JSR", "LDA", "LDB", "LDD", "LDU",
             "LDX", "LDS", "LDY", "LEAS", "LEAU", "LEAX", "LEAY", "LSR", "MUL", "NEG", "NEGA", "NOP", "ORA", "ORCC",
             "ROL", "ROR", "RTI", "RTS", "SBCA", "SEX", "STA", "STB", "STD", "STU", "STX", "STS", "STY", "SUBD",
             "SWI", "SWI2", "SWI3", "SYNC", "TST", "TSTA", "BRA", "LBRA", "BSR"]

OPERAND_FORMS = ["", "#$12", "#$1234", "#12", "#300", "#-1", "#-200", "#%10101010", "#'A", "#V", "#W", "#NEXT",
                 "#V+1", "#W-1", "$12", "$1234", "$0012", "12", "300", "<$12", "<$1234", ">$12", ">$1234", "<V", ">V",
                 "V", "W", "NEXT", "START", "V+1", "W*2", "NEXT+1", "NEXT-1", "[$1234]", "[$12]", "[NEXT]", "[W]",
                 "[V]", ",X", ",Y", ",U", ",S", "0,X", "1,X", "15,Y", "16,U", "-16,S", "-17,X", "127,X", "128,Y",
                 "-128,U", "-129,S", "255,X", "256,X", "$10,X", "$0010,X", "$1234,Y", "-32768,X", "32767,X", "65535,X",
                 "V,X", "W,Y", "V+1,X", "A,X", "B,Y", "D,U", ",X+", ",X++", ",-Y", ",--Y", ",U++", ",--S", "[,X]",
                 "[,Y++]", "[,--U]", "[,X+]", "[,-X]", "[0,X]", "[5,X]", "[-5,Y]", "[127,U]", "[128,S]", "[-128,X]",
                 "[-129,X]", "[$1234,X]", "[V,X]", "[W,Y]", "[A,X]", "[B,Y]", "[D,S]", "5,PCR", "-5,PCR", "200,PCR",
                 "$1234,PCR", "[5,PCR]", "[$1234,PCR]", "NEXT,PCR", "START,PCR", "[NEXT,PCR]", "NEXT+2,PCR",
                 "[START-1,PCR]", "V,PCR", "1,X+", "1,-X", "[1,X++]", "A,B", "X,Y", "Q,X", "5,Q", "1,2,3", "#", "[",
                 "[]", "UNDEF", "UNDEF,X", "#UNDEF", "[UNDEF]", "UNDEF+1", "$12345", "70000", "%101", "#%1010101010101010"]

SPECIAL = [("PSHS", o) for o in ["A", "B", "D", "X", "Y", "U", "S", "PC", "CC", "DP", "A,B,X", "CC,A,B,DP,X,Y,U,PC",
                                 "D,A", "", "Q", "A,Q", "A,,B", "X,S"]] + \
          [("PULU", o) for o in ["A", "S", "U", "PC,S", "D,X,Y", ""]] + \
          [("PSHU", "S,X"), ("PSHU", "U"), ("PULS", "U,PC"), ("PULS", "S")] + \
          [(m, "{},{}".format(a, b)) for m in ("TFR", "EXG")
           for a in ("A", "B", "D", "X", "Y", "U", "S", "PC", "CC", "DP") for b in ("A", "D", "X", "PC", "DP", "S")] + \
          [("TFR", "A"), ("EXG", "A,B,X"), ("TFR", "Q,A"), ("EXG", "A,Q"), ("TFR", "")]


def single_statement_programs():
    progs = []
    for m in MNEMONICS:
        for o in OPERAND_FORMS:
            progs.append(["V EQU $10", "W EQU $1234", " ORG $2000", "START {} {} ; c".format(m, o), "NEXT NOP",
                          " FCB 1"])
    for m, o in SPECIAL:
        progs.append([" ORG $100", "L {} {}".format(m, o), "M RTS"])
    return progs


def branch_programs():
    progs = []
    distances = [0, 1, 2, 3, 60, 120, 121, 122, 123, 124, 125, 126, 127, 128, 129, 130, 131, 132, 133, 250, 255, 256,
                 1000, 32700, 32760, 32765, 32766, 32767, 32768, 32769, 32770, 40000, 65530]
    for m in ("BRA", "BEQ", "BSR", "BRN", "LBRA", "LBNE", "LBSR", "BHS", "LBLO"):
        for d in distances:
            progs.append([" ORG $1000", "S {} T".format(m), " RMB {}".format(d), "T NOP", "E RTS"])
            progs.append([" ORG $1000", "T NOP", " RMB {}".format(d), "S {} T".format(m), "E RTS"])
    progs.append(["S BRA S"])
    progs.append(["S LBRA S"])
    progs.append([" BRA NOWHERE"])
    progs.append([" BRA $10"])
    progs.append([" BRA V", "V EQU 5"])
    progs.append([" BRA T+1", "T NOP"])
    progs.append(["A BRA B", "B BRA C", "C BRA A", " LBRA B", " BSR A"])
    return progs


def pcr_programs():
    progs = []
    for op in ("LEAX T,PCR", "LDA [T,PCR]", "LDD T+2,PCR", "LDY T-1,PCR", "CMPD [T+1,PCR]", "STA T,PCR", "JSR T,PCR",
               "LEAS 2+T,PCR"):
        for d in (0, 1, 100, 118, 119, 120, 121, 122, 123, 124, 125, 126, 127, 128, 129, 130, 131, 254, 255, 256, 257,
                  300, 32760, 32767, 32768):
            progs.append([" ORG $3000", "S {}".format(op), " RMB {}".format(d), "T NOP", "E RTS"])
            progs.append([" ORG $3000", "T NOP", " RMB {}".format(d), "S {}".format(op), "E RTS"])
    for d1 in (110, 118, 119, 120, 121, 122, 123, 124, 125, 126):
        for d2 in (0, 1, 2, 120, 124):
            progs.append([" ORG $10", "A LEAX T,PCR", " RMB {}".format(d2), "B LDA U,PCR", " LDB [A,PCR]",
                          " RMB {}".format(d1), "T NOP", " LEAY B,PCR", "U RTS", " BRA A"])
    progs.append(["A LEAX A,PCR"])
    progs.append(["A LEAX B,PCR", "B LEAX A,PCR"])
    progs.append([" LEAX NOWHERE,PCR"])
    progs.append(["V EQU 300", " LEAX V,PCR", " LDA [V,PCR]", " LDA V+1,PCR"])
    return progs


def expression_programs():
    progs = []
    terms = ["5", "$10", "$0010", "300", "$FFFF", "K8", "K16", "KH", "KB", "KC", "BEFORE", "AFTER", "0", "65535",
             "255", "256"]
    uses = ["LDA #{}", "LDX #{}", "LDA {}", "STX {}", "LDA [{}]", "LDA {},X", "LEAX {},PCR", "JMP {}", "LDD <{}",
            "LDD >{}"]
    for op in "+-*/":
        for a in terms:
            for b in terms:
                for use in (uses if (a, b) in (("K8", "5"), ("K16", "K8"), ("AFTER", "1"), ("BEFORE", "$10"),
                                               ("5", "AFTER"), ("BEFORE", "AFTER"), ("K8", "0"), ("$FFFF", "1"),
                                               ("0", "5"), ("255", "1"), ("300", "300")) else uses[:1]):
                    progs.append(["K8 EQU 7", "K16 EQU 1000", "KH EQU $0020", "KB EQU %00001111", "KC EQU 'A",
                                  " ORG $4000", "BEFORE NOP", "HERE " + use.format(a + op + b), "AFTER NOP",
                                  "X1 EQU " + a + op + b])
    for text in ("5", "$10", "$0010", "$123", "-5", "%00000001", "%0000000100000001", "'Z", "K1", "K1+1", "LATER",
                 "LATER+1", "UNDEF", "", "$12345", "70000", "1,2", "-40000"):
        progs.append(["K1 EQU 9", "V EQU " + text, " LDA V", " LDA #V", " LDX #V", " LDA V,X", " FCB V", " FDB V",
                      "LATER NOP", "V2 SET " + text])
    progs.append(["A EQU B", "B EQU 5", " LDA A"])
    progs.append(["A EQU A", " LDA A"])
    progs.append(["A EQU 5", "A EQU 6"])
    progs.append(["A NOP", "A NOP"])
    progs.append(["A NOP", " LDX #A-B", "B NOP"])
    progs.append(["A NOP", " LDX #A+B", "B NOP"])
    return progs


def data_programs():
    progs = []
    fcb = ["1", "255", "256", "-1", "-128", "-129", "$FF", "$0FF", "$100", "%11110000", "'A", "1,2,3", "1,,2", "1,",
           ",1", "$FF,255,-1", "1,300", "-1,-2", "S", "S,1", "1,S", "S+1", "L", "", "1, 2", "'A,'B", "$1234", "65535",
           "65536", "-32768", "-32769", ",".join(str(i) for i in range(64)), "%101", "1+1", "2*3,4"]
    for text in fcb:
        progs.append(["S EQU 3", " ORG $5000", "L FCB " + text, "E NOP"])
        progs.append(["S EQU 3", " ORG $5000", "L FDB " + text, "E NOP"])
    for text in ['"HELLO"', "'HELLO'", "/A B/", '"A  B"', '"A;B"', '"A ; B" ; c', '""', '"', '"AB', 'AB"', "XabcX",
                 '"A" trailing', "/a/b/", '"it\'s"', "'", "", "  ", '"~!@#$%^&*()_+{}|:<>?"', '"A"B"', "1HELLO1",
                 '" lead"', '"trail "', '"tab\tx"', '"' + "x" * 255 + '"']:
        progs.append([" ORG $6000", "L FCC " + text, "E NOP"])
        progs.append(["L FCC " + text])
    for text in ["0", "1", "2", "255", "256", "1000", "65535", "65536", "-1", "$10", "$0010", "N", "N+1", "", "1,2",
                 "'A", "%00000011"]:
        progs.append(["N EQU 4", " ORG $7000", "L RMB " + text, "E NOP"])
    for m in ("END", "SETDP", "NAM", "ORG", "EQU", "SET", "INCLUDE"):
        for o in ("", "5", "$1000", "NAME", "L"):
            if m == "INCLUDE" and o:
                continue
            progs.append([" ORG $100", "L {} {}".format(m, o), " NOP"])
            progs.append([" {} {}".format(m, o), " NOP"])
    return progs


def layout_programs(include_dir):
    inc = os.path.join(include_dir, "inc.asm")
    with open(inc, "w") as handle:
        handle.write("INC1 LDA #1\n ; comment\n\nINC2 FDB INC1,MAIN\n")
    loop = os.path.join(include_dir, "loop.asm")
    with open(loop, "w") as handle:
        handle.write(" NOP\n INCLUDE {}\n".format(loop))
    nest = os.path.join(include_dir, "nest.asm")
    with open(nest, "w") as handle:
        handle.write("N1 NOP\n INCLUDE {}\nN2 RTS\n".format(inc))
    progs = [
        [" NAM PROG", " ORG $0E00", "MAIN LDA #1", " INCLUDE " + inc, "DONE RTS", " END MAIN"],
        [" ORG $0E00", "MAIN LDA #1", " INCLUDE " + nest, " INCLUDE " + nest],
        ["MAIN INCLUDE " + nest, " JMP N2"],
        [" INCLUDE " + loop],
        [" INCLUDE " + os.path.join(include_dir, "missing.asm")],
        [" INCLUDE"],
        [" NOP", " ORG $1000", "A NOP", " ORG $2000", "B NOP", " JMP A", " JMP B"],
        [" ORG $2000", "A NOP", " ORG $1000", "B NOP"],
        [" NAM ONE", " NAM TWO", " ORG 5", " ORG 6"],
        [" ORG $FFFF", "A NOP", "B NOP", " JMP B"],
        [" ORG 0", "A LDA A", "B LDA >A", "C LDA <C", " LDA B"],
        ["", " ; only comment", "   ", "; c2"],
        [],
        ["garbage"],
        [" BOGUS 1"],
        ["L BOGUS"],
        ["LABEL"],
        [" LDA"],
        ["@A NOP", " JMP @A"],
        ["a nop", " jmp a", " lda #$ff"],
        [" LDA #1 comment without semicolon"],
        [" LDA #1;tight"],
        [" ORG UNDEF"],
        [" ORG L", "L NOP"],
        ["L ORG $10", " JMP L"],
    ]
    big = [" ORG $C000"]
    for i in range(60):
        big.append("L{} {}".format(i, ["LDA #1", "LDX #L3", "STA L5", "BRA L{}".format(max(0, i - 3)), "FCB 1,2,3",
                                       "FDB L1", 'FCC "AB"', "LEAX L{},PCR".format((i * 7) % 60), "RMB 3",
                                       "LDA [L2]", "LDD 5,X", "LBRA L59", "TFR A,B", "PSHS A,B"][i % 14]))
    progs.append(big)
    return progs


CLI_SOURCES = {
    "ok.asm": " NAM DEMO\n ORG $0E00\nSTART LDA #$01\n STA $0400\nLOOP BRA LOOP\nMSG FCC \"HI\"\n END START\n",
    "noname.asm": " ORG $0E00\nSTART LDA #$01\n RTS\n",
    "bad.asm": " ORG $0E00\n BOGUS 1\n",
    "far.asm": "S BRA T\n RMB 200\nT NOP\n",
    "dup.asm": "A NOP\nA NOP\n",
    "empty.asm": "",
}

CLI_RUNS = [
    ("ok.asm", ["--print", "--symbols"]), ("ok.asm", []), ("ok.asm", ["--symbols"]), ("ok.asm", ["--print"]),
    ("ok.asm", ["--to_bin", "out.bin"]), ("ok.asm", ["--to_cas", "out.cas"]), ("ok.asm", ["--to_dsk", "out.dsk"]),
    ("ok.asm", ["--to_cas", "out.cas", "--append"]), ("ok.asm", ["--to_bin", "out.bin", "--name", "OTHER"]),
    ("noname.asm", ["--print", "--symbols", "--to_cas", "n.cas"]), ("noname.asm", ["--to_dsk", "n.dsk"]),
    ("noname.asm", ["--to_cas", "n.cas", "--name", "GIVEN"]), ("noname.asm", ["--to_bin", "n.bin"]),
    ("bad.asm", ["--print"]), ("far.asm", ["--print", "--symbols"]), ("dup.asm", ["--symbols"]),
    ("empty.asm", ["--print", "--symbols", "--to_bin", "e.bin"]), ("missing.asm", ["--print"]),
    ("ok.asm", ["--to_bin", os.path.join("nodir", "x.bin")]),
]

# cases aimed at the code reshaped by this refactoring
EXTRA_PROGS = [
 [
  "L FCC \"HELLO WORLD\"\n"
 ],
 [
  "L FCC 'it''s'\n"
 ],
 [
  "L FCC /A;B/ ; c\n"
 ],
 [
  "L FCC \"\"\n",
  " NOP\n"
 ],
 [
  "L FCC \"\n",
  " NOP\n"
 ],
 [
  "L FCC \"A\n"
 ],
 [
  "L FCC A\"\n"
 ],
 [
  "L FCC AA\n"
 ],
 [
  "L FCC ABA\n"
 ],
 [
  "L FCC 1+1\n"
 ],
 [
  "L FCC 5,5\n"
 ],
 [
  "L FCC $FF$\n"
 ],
 [
  "L FCC #A#\n"
 ],
 [
  "L FCC <A<\n"
 ],
 [
  "L FCC \"A\" \"B\"\n"
 ],
 [
  "L FCC \"  \"\n"
 ],
 [
  "L FCC \"A  B   C\"   trailing  comment\n"
 ],
 [
  "L FCC K\n",
  "K EQU 5\n"
 ],
 [
  "L FCC 5\n"
 ]
]
EXTRA_EXPRS = [
 "[StringValue(t) for t in ('\"A\"', \"'A'\", '//', '/', 'aa', 'aba', '\"A B;C\"', '\"\\x01\\x0f\\x10\"', '\"~\"', ' x ')]",
 "StringValue('ab')",
 "StringValue('')",
 "StringValue('\"A')",
 "[Value.create_from_str(t, ins('FCC')) for t in ('\"AB\"', '/x/', 'aa', '5', '55', '$10', 'K', '1+1', '1,X', '#5#', '<5<', '>5')]",
 "[Value.create_from_str(t, ins('FCC')) for t in ('\"AB',)]",
 "Value.create_from_str('5\"', ins('FCC'))",
 "Value.create_from_str('\"', ins('FCC'))",
 "Value.create_from_str('!', ins('FCC'))",
 "Value.create_from_str('!?', ins('FCC'))",
 "Value.create_from_str('\"AB\"', ins('FCB'))",
 "Value.create_from_str('\"AB\"')",
 "[StringValue(t).byte_len() for t in ('\"A\"', '\"ABC\"', '\"\"')]",
 "StringValue('\"AB\"').ascii()"
]


COMMON_EXPRS = [
    "Value.create_from_str('$10')", "Value.create_from_str('#$10')", "Value.create_from_str('<$1234')",
    "Value.create_from_str('>$12')", "Value.create_from_str('A+1')", "Value.create_from_str('1,X')",
    "Value.create_from_str('SYM')", "Value.create_from_str('')", "Value.create_from_str('!!')",
    "Value.create_from_str('\"AB\"', ins('FCC'))", "Value.create_from_str('\"AB', ins('FCC'))",
    "Value.create_from_str('$10', ins('LDX'))", "Value.create_from_str('$10', None, False)",
    "[NumericValue(n).hex() for n in (0, 1, 15, 16, 255, 256, 4095, 4096, 65535, -1, -128, -129, -32768)]",
    "[NumericValue(n, size_hint=s).hex() for n in (0, 5, 255, 256, -1, -128, -129) for s in (2, 4)]",
    "[NumericValue(n).hex(size=s) for n in (0, 5, 255, 256, -1, -128, -129) for s in (0, 2, 4, 6)]",
    "[NumericValue(n).hex_len() for n in (0, 1, 15, 16, 255, 256, 4095, 4096, 65535, -1, -300)]",
    "[(NumericValue(n).is_4_bit(), NumericValue(n).is_8_bit(), NumericValue(n).is_16_bit()) for n in (0, 15, 16, -16, -17, 127, 128, -128, -129)]",
    "NumericValue(65536)", "NumericValue('65536')", "NumericValue('-32769')", "NumericValue('$12345')",
    "NumericValue('%101')", "NumericValue('abc')", "NumericValue(\"'A\")",
    "[AddressValue(n).hex() for n in (0, 1, 15, 16, 255, 256, 4095, 4096, 65535)]",
    "[AddressValue(n).hex(size=s) for n in (0, 5, 300) for s in (0, 2, 3, 4)]",
    "[AddressValue(n).hex_len() for n in (0, 1, 15, 16, 255, 256, 4095, 4096, 65535)]",
    "SymbolValue('A').resolve({'A': NumericValue(5)})", "SymbolValue('A').resolve({'A': AddressValue(5)})",
    "SymbolValue('A').resolve({'A': NumericValue(-5)})", "SymbolValue('A').resolve({'A': NumericValue('$0005')})",
    "SymbolValue('A').resolve({'A': SymbolValue('B')})", "SymbolValue('A').resolve({'A': NoneValue()})",
    "SymbolValue('A').resolve({})", "SymbolValue('A!')", "SymbolValue('A').hex()", "SymbolValue('A').hex_len()",
    "ExpressionValue('A+1').resolve({'A': NumericValue(5)})", "ExpressionValue('A+1').resolve({'A': AddressValue(5)})",
    "ExpressionValue('A/B').resolve({'A': NumericValue(5), 'B': NumericValue(0)})",
    "ExpressionValue('A-B').resolve({'A': NumericValue(5), 'B': NumericValue(9)})",
    "ExpressionValue('A*B').resolve({'A': NumericValue(500), 'B': NumericValue(900)})",
    "ExpressionValue('A+B').resolve({'A': AddressValue(5), 'B': AddressValue(9)})",
    "ExpressionValue('A+B').resolve({'A': SymbolValue('Q'), 'B': NumericValue(9)})",
    "ExpressionValue('A+B').resolve({})", "ExpressionValue('A+')", "ExpressionValue('$10+$0020')",
    "ExpressionValue('$10+$0020').resolve({})", "ExpressionValue('1+2').hex()", "ExpressionValue('1+2').hex_len()",
    "StringValue('\"AB\"')", "StringValue('\"AB')", "StringValue('/a b;c/')", "StringValue('\"\"')", "StringValue('x')",
    "MultiByteValue('1,2,-1,$FF')", "MultiByteValue('1')", "MultiByteValue('1,300')", "MultiWordValue('1,2,-1,$FFFF')",
    "MultiWordValue('1')", "MultiWordValue('1,70000')", "LeftRightValue('1,X')", "LeftRightValue('1')",
    "LeftRightValue('1,2,3')",
    "[Operand.create_from_str(o, ins(m)) for m, o in (('LDA', '#5'), ('LDA', '$10'), ('LDA', ',X'), ('LDA', '[,X]'), ('BRA', 'T'), ('NOP', ''), ('FCB', '1,2'), ('TFR', 'A,B'), ('LDA', '<$10'), ('LDA', '>$10'))]",
    "Operand.create_from_str('!!', ins('LDA'))", "Operand.create_from_str('', ins('LDA')).translate()",
    "[Operand.create_from_str(o, ins(m)).resolve_symbols({'T': AddressValue(3), 'K': NumericValue(7), 'W': NumericValue(700)}) for m, o in (('LDA', 'T'), ('LDA', 'K'), ('LDA', 'W'), ('LDA', '<W'), ('LDA', '>K'), ('LDA', 'K+1'), ('LDA', 'T+1'), ('LDA', '#K'), ('LDA', 'K,X'), ('LDA', '[K,X]'), ('LDA', '[T]'), ('LDA', 'T,PCR'), ('BRA', 'T'), ('NOP', ''), ('FCB', 'K'), ('LDA', '$10'), ('LDA', '$0010'))]",
    "[Operand.create_from_str(o, ins(m)).resolve_symbols({'T': AddressValue(3), 'K': NumericValue(7), 'W': NumericValue(700)}).translate() for m, o in (('LDA', 'T'), ('LDA', 'K'), ('LDA', 'W'), ('LDA', '<W'), ('LDA', '>K'), ('LDA', 'K+1'), ('LDA', 'T+1'), ('LDA', '#K'), ('LDA', 'K,X'), ('LDA', '[K,X]'), ('LDA', '[T]'), ('LDA', 'T,PCR'), ('BRA', 'T'), ('NOP', ''), ('FCB', 'K'), ('NEG', '$10'), ('NEG', '$0010'), ('LEAX', '$10'), ('LDA', '[T,PCR]'), ('LEAX', 'T+1,PCR'))]",
    "BadInstructionOperand('X', None).resolve_symbols({})", "BadInstructionOperand('X', None).translate()",
    "UnknownOperand('T', ins('LDA')).resolve_symbols({})", "UnknownOperand('5', ins('LDA')).translate()",
    "InherentOperand('', ins('LDA')).translate()", "ImmediateOperand('#5', ins('STA')).translate()",
    "DirectOperand('<5', ins('LEAX')).translate()", "ExtendedOperand('>5', ins('LEAX')).translate()",
    "IndexedOperand(',X', ins('NOP')).translate()", "ExtendedIndexedOperand('[,X]', ins('NOP')).translate()",
    "DirectOperand('$1234', ins('LDA'))", "RelativeOperand('T', ins('LDA'))", "InherentOperand('5', ins('NOP'))",
    "InherentOperand('', ins('NOP'), NumericValue(5))", "ImmediateOperand('5', ins('LDA'))",
    "SpecialOperand('A', ins('LDA'))", "PseudoOperand('5', ins('LDA'))",
    "Statement(' LDA #5 ; c')", "Statement('L FCC \"A B\" c')", "Statement('; c')", "Statement('')",
    "Statement(' BOGUS')", "Statement('x')", "Statement(' INCLUDE f.asm').get_include_filename()",
    "Statement(' NOP').get_include_filename()", "str(Statement(' NOP'))",
    "(lambda s: (s.set_address(5), s.set_address(9), s.code_pkg.address.hex()))(Statement(' NOP'))",
    "(lambda s: (s.translate(), s.set_address(5), s.set_address(9), s))(Statement(' ORG $10'))",
    "(lambda s: (s.resolve_symbols({}), s.translate(), s))(Statement(' LDA 5,X'))",
    "(lambda s: (s.resolve_symbols({}), s))(Statement(' LDA Q'))",
    "(lambda s: (s.resolve_symbols({}), s.translate(), s))(Statement(' STA #5'))",
    "(lambda s: (s.resolve_symbols({'T': AddressValue(0)}), s.translate(), s))(Statement(' LEAX T,PCR'))",
    "CodePackage()", "CodePackage(size=3, post_byte_choices=[1, 2])",
    "(lambda p: (p.save_symbol(0, Statement('A NOP')), p.save_symbol(1, Statement('B EQU 5')), p.save_symbol(2, Statement(' NOP')), p.symbol_table))(Program())",
    "(lambda p: (p.save_symbol(0, Statement('A NOP')), p.save_symbol(1, Statement('A EQU 5'))))(Program())",
    "Program().all_sizes_fixed()", "Program().get_binary_array()", "Program().get_symbol_table()",
    "Program.parse([' NOP', '', '; c', 'L RTS'])", "Program.process_mnemonics(Program.parse([' NOP', 'L RTS']))",
]


def build_cases(include_dir):
    cases = []
    for group in (single_statement_programs(), branch_programs(), pcr_programs(), expression_programs(),
                  data_programs(), layout_programs(include_dir), EXTRA_PROGS):
        cases.extend(["prog", [line + "\n" for line in lines]] for lines in group)
    cases.extend(["prog", lines] for lines in layout_programs(include_dir))
    cases.extend(["expr", text] for text in COMMON_EXPRS + EXTRA_EXPRS)
    return cases


def run_tree(tree, cases):
    done = subprocess.run([PYTHON, "-c", RUNNER], cwd=tree, input=json.dumps(cases), capture_output=True, text=True,
                          env=dict(os.environ, PYTHONDONTWRITEBYTECODE="1", PYTHONPATH=""))
    if done.returncode != 0:
        sys.stderr.write(done.stderr)
        raise SystemExit("runner failed in {}".format(tree))
    return json.loads(done.stdout)


def run_cli(tree):
    results = []
    for source, flags in CLI_RUNS:
        with tempfile.TemporaryDirectory() as work:
            for name, text in CLI_SOURCES.items():
                with open(os.path.join(work, name), "w") as handle:
                    handle.write(text)
            for repeat in range(2 if "--append" in flags else 1):
                done = subprocess.run([PYTHON, os.path.join(tree, "assembler.py"), source] + flags, cwd=work,
                                      capture_output=True, text=True,
                                      env=dict(os.environ, PYTHONDONTWRITEBYTECODE="1", PYTHONPATH=""))
            files = {}
            for name in sorted(os.listdir(work)):
                if name not in CLI_SOURCES:
                    with open(os.path.join(work, name), "rb") as handle:
                        files[name] = handle.read().hex()
            last = done.stderr.strip().splitlines()[-1:] if done.stderr.strip() else []
            results.append([source, flags, done.returncode, done.stdout.replace(tree, "<tree>"), last, files])
    return results


def main():
    if len(sys.argv) != 3:
        print(__doc__)
        return 2
    tree_a, tree_b = (os.path.abspath(p) for p in sys.argv[1:3])
    with tempfile.TemporaryDirectory() as include_dir:
        cases = build_cases(include_dir)
        out_a = run_tree(tree_a, cases)
        out_b = run_tree(tree_b, cases)
    mismatches = 0
    for case, a, b in zip(cases, out_a, out_b):
        if a != b:
            mismatches += 1
            if mismatches <= 10:
                print("MISMATCH", json.dumps(case)[:300])
                print("  A:", json.dumps(a)[:600])
                print("  B:", json.dumps(b)[:600])
    cli_a, cli_b = run_cli(tree_a), run_cli(tree_b)
    for a, b in zip(cli_a, cli_b):
        if a != b:
            mismatches += 1
            print("CLI MISMATCH", a[:2])
            print("  A:", json.dumps(a)[:600])
            print("  B:", json.dumps(b)[:600])
    errors = sum(1 for r, _ in out_a if isinstance(r, dict) and "error" in r)
    print("{} library cases ({} ending in an error) + {} command line runs compared, {} mismatches".format(
        len(cases), errors, len(cli_a), mismatches))
    return 1 if mismatches else 0


if __name__ == "__main__":
    sys.exit(main())
