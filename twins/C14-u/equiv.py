#!/usr/bin/env python
"""
Differential check for property C14 (every cassette image written is a
well-formed CoCo tape stream).

usage: equiv.py <treeA> <treeB>

Each tree is exercised in its own subprocess (tree at the front of sys.path).
The worker builds cassette images from many file lists through
CassetteFile.add_files(), calls every append_* writer directly on several
kinds of buffers, feeds malformed inputs (to compare exception type, message
and the state the buffer is left in), writes .cas files through VirtualFile,
assembler.py --to_cas and file_util.py --to_cas, and parses every produced
stream with an independent checksum-verifying reader. Every observable (the
bytes, the parsed structure, exceptions, stdout, files) is recorded; the
driver compares the two records and exits 0 when identical, 1 otherwise.
"""
import contextlib
import hashlib
import importlib.util
import io
import json
import os
import subprocess
import sys
import tempfile
import traceback


def digest(buffer):
    try:
        raw = bytes(buffer)
        return [type(buffer).__name__, len(raw), hashlib.sha256(raw).hexdigest(), raw[:48].hex(), raw[-24:].hex()]
    except Exception:
        text = repr(list(buffer))
        return [type(buffer).__name__, len(buffer), hashlib.sha256(text.encode()).hexdigest(), text[:200], text[-100:]]


def parse_tape(buffer):
    """Independent reader: returns the block structure, or the position where the framing breaks."""
    data = list(buffer)
    position, blocks = 0, []
    while position < len(data):
        value = data[position]
        if value == 0x00:
            run = 0
            while position < len(data) and data[position] == 0x00:
                position, run = position + 1, run + 1
            blocks.append(["blank", run])
            continue
        if value != 0x55:
            return blocks + [["garbage at", position]]
        run = 0
        while position < len(data) and data[position] == 0x55:
            position, run = position + 1, run + 1
        if position >= len(data) or data[position] != 0x3C:
            blocks.append(["leader", run])
            continue
        if run > 1:
            blocks.append(["leader", run - 1])
        if position + 2 >= len(data):
            return blocks + [["truncated at", position]]
        block_type, length = data[position + 1], data[position + 2]
        payload = data[position + 3:position + 3 + length]
        trailer = data[position + 3 + length:position + 5 + length]
        good = len(payload) == length and len(trailer) == 2 and trailer[1] == 0x55 and \
            all(isinstance(x, int) for x in payload + trailer) and \
            trailer[0] == (block_type + length + sum(payload)) % 256
        blocks.append(["block", block_type, length, "ok" if good else "BAD",
                       hashlib.sha256(repr(payload).encode()).hexdigest()[:16]])
        position += 5 + length
    return blocks


def worker(tree):
    sys.path.insert(0, tree)
    from cocoasm.virtualfiles.cassette import CassetteFile
    from cocoasm.virtualfiles.coco_file import CoCoFile
    from cocoasm.virtualfiles.virtual_file import VirtualFile, VirtualFileType
    from cocoasm.virtualfiles.source_file import SourceFile, SourceFileType
    from cocoasm.values import NumericValue, NoneValue, AddressValue

    results = {}

    def pattern(size, seed=1):
        return [(index * seed + (index >> 8)) & 0xFF for index in range(size)]

    def coco(name="FILE", size=10, load=0x0E00, execute=0x0E10, file_type=0x02, data_type=0x00, data=None, **extra):
        return CoCoFile(name=name, extension="BIN", type=NumericValue(file_type), data_type=NumericValue(data_type),
                        load_addr=NumericValue(load), exec_addr=NumericValue(execute),
                        data=pattern(size, 7) if data is None else data, **extra)

    def outcome(container, action):
        record = {}
        try:
            record["returned"] = repr(action())
        except RecursionError as error:
            record["raised"] = ["RecursionError"]
        except Exception as error:
            record["raised"] = [type(error).__name__, str(error)]
        record["buffer"] = digest(container.buffer)
        try:
            record["tape"] = parse_tape(container.buffer)
        except Exception as error:
            record["tape"] = ["unparsable", type(error).__name__]
        return record

    def listing(buffer):
        try:
            files = CassetteFile(buffer=list(buffer)).list_files()
            return [[f.name, f.extension, f.type.hex(), f.data_type.hex(), f.gaps.hex(), f.load_addr.hex(size=4),
                     f.exec_addr.hex(size=4), len(f.data), hashlib.sha256(repr(list(f.data)).encode()).hexdigest()[:16]]
                    for f in files]
        except Exception as error:
            return ["raised", type(error).__name__, str(error)]

    # ---- whole files through add_files
    sizes = [0, 1, 2, 100, 253, 254, 255, 256, 257, 509, 510, 511, 512, 764, 765, 766, 1020, 4096, 65535, 65536]
    names = ["", "A", "AB", "SEVENCH", "EIGHTCHR", "NINECHARS", "TWELVECHARS1", "lower", "MiXeD", "WITH SP", "D.T",
             "été", "€", "\x00\x01", "\U0001F600"]
    for size in sizes:
        container = CassetteFile()
        record = outcome(container, lambda: container.add_files([coco("SIZE", size)]))
        record["listing"] = listing(container.buffer)
        results["file:size:{}".format(size)] = record
    for name in names:
        container = CassetteFile()
        record = outcome(container, lambda: container.add_files([coco(name, 300)]))
        record["listing"] = listing(container.buffer)
        results["file:name:{!r}".format(name)] = record
    addresses = [0, 1, 0xFF, 0x100, 0x0E00, 0x1234, 0x7FFF, 0x8000, 0xFF00, 0xFFFF, -1, -256]
    for load in addresses:
        for execute in (0, 0x00FF, 0xABCD, -2):
            container = CassetteFile()
            results["file:addr:{}:{}".format(load, execute)] = outcome(
                container, lambda: container.add_files([coco("ADDR", 5, load=load, execute=execute)]))
    for hint in (None, 2, 4):
        for number in (0, 5, 0x12, 0xFF, 0x100, 0x1234):
            container = CassetteFile()
            value = NumericValue(number) if hint is None else NumericValue(number, size_hint=hint)
            file = CoCoFile(name="HINT", type=NumericValue(2), data_type=NumericValue(0), load_addr=value,
                            exec_addr=AddressValue(number), data=[1, 2, 3])
            results["file:hint:{}:{}".format(hint, number)] = outcome(container, lambda: container.add_files([file]))
    for file_type in (0, 1, 2, 3, 0xFF, 0x100, 0x1234, -1):
        for data_type in (0, 0xFF, 1, 0x1FF):
            container = CassetteFile()
            results["file:type:{}:{}".format(file_type, data_type)] = outcome(
                container, lambda: container.add_files([coco("TYPE", 5, file_type=file_type, data_type=data_type)]))
    defaults = CoCoFile(name="DEFAULTS")
    container = CassetteFile()
    results["file:defaults"] = outcome(container, lambda: container.add_files([defaults]))
    container = CassetteFile()
    results["file:defaults_data"] = outcome(container, lambda: container.add_files([CoCoFile(name="D", data=[9] * 300)]))
    container = CassetteFile()
    results["file:gaps_field"] = outcome(container, lambda: container.add_files(
        [coco("GAPS", 600, gaps=NumericValue(0xFF), ascii=1, ignore_gaps=True)]))

    file_lists = {
        "none": [],
        "two": [coco("ONE", 10), coco("TWO", 300)],
        "three_boundaries": [coco("A", 255), coco("B", 510), coco("C", 0)],
        "same_name": [coco("SAME", 1), coco("SAME", 2)],
        "many": [coco("F{:02d}".format(index), index * 37) for index in range(30)],
        "mixed_types": [coco("BAS", 20, file_type=0, data_type=0xFF), coco("DAT", 20, file_type=1), coco("OBJ", 20)],
    }
    for name, files in file_lists.items():
        container = CassetteFile()
        record = outcome(container, lambda: container.add_files(files))
        record["listing"] = listing(container.buffer)
        results["list:" + name] = record
        for prefix_name, prefix in (("list", [1, 2, 3]), ("bytearray", bytearray(b"\x55\x55"))):
            container = CassetteFile(buffer=prefix)
            results["list:{}:onto_{}".format(name, prefix_name)] = outcome(container, lambda: container.add_files(files))
    # appending to an existing image
    first = CassetteFile()
    first.add_files([coco("FIRST", 400)])
    second = CassetteFile(buffer=list(first.buffer))
    record = outcome(second, lambda: second.add_file(coco("SECOND", 255)))
    record["listing"] = listing(second.buffer)
    results["list:append_to_image"] = record

    # ---- data of unusual kinds and malformed members
    odd_data = {
        "bytes": bytes(range(256)) * 2, "bytearray": bytearray(range(200)), "tuple": tuple(range(256)),
        "range": range(300), "big_ints": [0, 255, 256, 1000, 70000] * 60, "negative": [-1, -255, -256, 5] * 70,
        "bools": [True, False] * 130, "floats": [1.5, 2.0], "with_none": [1, 2, None, 4], "with_str": [1, "2", 3],
        "str": "HELLO", "long_str": "x" * 300, "nested": [[1], [2]], "with_none_late": [7] * 260 + [None, 1],
        "none": None, "int": 5, "dict": {1: 2}, "set": {1, 2, 3}, "generator": (x for x in range(3)),
    }
    for name, data in odd_data.items():
        container = CassetteFile()
        results["data:{}".format(name)] = outcome(container, lambda: container.add_file(coco("ODD", data=data)))
        container = CassetteFile()
        results["data_blocks:{}".format(name)] = outcome(container, lambda: container.append_data_blocks(data))
        container = CassetteFile()
        results["data_blocks_gaps:{}".format(name)] = outcome(container, lambda: container.append_data_blocks(data, gaps=True))
    bad_files = {
        "name_none": CoCoFile(name=None, type=NumericValue(2), data_type=NumericValue(0), data=[1]),
        "name_int": CoCoFile(name=5, type=NumericValue(2), data_type=NumericValue(0), data=[1]),
        "name_bytes": CoCoFile(name=b"BYTES", type=NumericValue(2), data_type=NumericValue(0), data=[1]),
        "name_list": CoCoFile(name=["A", "B"], type=NumericValue(2), data_type=NumericValue(0), data=[1]),
        "name_list_bad": CoCoFile(name=["A", "BC"], type=NumericValue(2), data_type=NumericValue(0), data=[1]),
        "name_list_long": CoCoFile(name=list("ABCDEFGHIJ"), type=NumericValue(2), data_type=NumericValue(0), data=[1]),
        "type_none": CoCoFile(name="X", type=None, data_type=NumericValue(0), data=[1]),
        "data_type_none": CoCoFile(name="X", type=NumericValue(2), data_type=None, data=[1]),
        "type_int": CoCoFile(name="X", type=2, data_type=0, data=[1]),
        "load_none": CoCoFile(name="X", type=NumericValue(2), data_type=NumericValue(0), load_addr=None, data=[1]),
        "exec_none": CoCoFile(name="X", type=NumericValue(2), data_type=NumericValue(0), load_addr=NumericValue(1),
                              exec_addr=None, data=[1]),
        "exec_int": CoCoFile(name="X", type=NumericValue(2), data_type=NumericValue(0), load_addr=NumericValue(1),
                             exec_addr=7, data=[1]),
        "not_a_file": None,
        "a_dict": {"name": "X"},
    }
    for name, file in bad_files.items():
        for kind, make in (("list", list), ("bytearray", bytearray)):
            container = CassetteFile(buffer=make([0x11, 0x22]))
            results["bad_file:{}:{}".format(name, kind)] = outcome(container, lambda: container.add_file(file))
            container = CassetteFile(buffer=make([0x11, 0x22]))
            results["bad_header:{}:{}".format(name, kind)] = outcome(container, lambda: container.append_header(file))

    # ---- every writer called directly on several buffer kinds
    buffer_kinds = {
        "fresh": lambda: None, "list": lambda: [0xAA, 0xBB], "bytearray": lambda: bytearray(b"\xAA\xBB"),
        "bytes": lambda: b"\xAA\xBB", "tuple": lambda: (0xAA, 0xBB), "str": lambda: "AB",
    }
    good = coco("DIRECT", 300)
    for kind, make in buffer_kinds.items():
        calls = {
            "append_header": lambda c: c.append_header(good),
            "append_name": lambda c: c.append_name("NAME"),
            "append_data_blocks": lambda c: c.append_data_blocks(pattern(300)),
            "append_data_blocks_empty": lambda c: c.append_data_blocks([]),
            "append_eof": lambda c: c.append_eof(),
            "append_leader": lambda c: c.append_leader(),
            "append_blank": lambda c: c.append_blank(),
            "add_file": lambda c: c.add_file(good),
            "bytearray_overflow_data": lambda c: c.append_data_blocks([1, 2, 300, 4]),
            "bytearray_overflow_name": lambda c: c.append_name("A€B"),
            "bytearray_overflow_type": lambda c: c.append_header(coco("T", 1, file_type=0x1234)),
        }
        for call_name, call in calls.items():
            container = CassetteFile(buffer=make())
            results["direct:{}:{}".format(call_name, kind)] = outcome(container, lambda: call(container))
    for name in names + ["ABCDEFGH", "ABCDEFGHI", "        ", "\t"]:
        container = CassetteFile()
        results["direct:name:{!r}".format(name)] = outcome(container, lambda: container.append_name(name))
    for size in [0, 1, 254, 255, 256, 509, 510, 511, 1275]:
        for gaps in (False, True, 1, None):
            container = CassetteFile()
            results["direct:blocks:{}:{!r}".format(size, gaps)] = outcome(
                container, lambda: container.append_data_blocks(pattern(size, 3), gaps=gaps))
            container = CassetteFile()
            results["direct:blocks_positional:{}:{!r}".format(size, gaps)] = outcome(
                container, lambda: container.append_data_blocks(pattern(size, 3), gaps))
    # a stream long enough to exhaust the recursion used for chunking
    for blocks in (400, 1100):
        container = CassetteFile()
        results["direct:deep:{}".format(blocks)] = outcome(container, lambda: container.append_data_blocks([1] * (255 * blocks)))

    # ---- through VirtualFile and the two command line tools
    home = os.getcwd()

    def load_module(name):
        spec = importlib.util.spec_from_file_location("tool_" + name, os.path.join(tree, name + ".py"))
        module = importlib.util.module_from_spec(spec)
        spec.loader.exec_module(module)
        return module

    def run_tool(module, argv):
        out = io.StringIO()
        status = 0
        old_argv = sys.argv
        sys.argv = [module.__name__] + argv
        try:
            with contextlib.redirect_stdout(out), contextlib.redirect_stderr(out):
                try:
                    module.main(module.parse_arguments())
                except SystemExit as error:
                    status = error.code
                except BaseException as error:
                    status = ["traceback", type(error).__name__, str(error)]
        finally:
            sys.argv = old_argv
        return {"stdout": out.getvalue(), "status": status}

    def files_here():
        found = {}
        for name in sorted(os.listdir(".")):
            with open(name, "rb") as handle:
                content = handle.read()
            found[name] = [len(content), hashlib.sha256(content).hexdigest(),
                           parse_tape(content) if name.endswith(".cas") else None]
        return found

    assembler, file_util = load_module("assembler"), load_module("file_util")
    sources = {
        "small": ["        NAM   SMALL", "        ORG   $0E00", "START   LDA   #1", "        RTS", "        END   START"],
        "b255": ["        NAM   B255", "        ORG   $1000"] + ["        FCB   $11"] * 255,
        "b256": ["        NAM   B256", "        ORG   $1000"] + ["        FCB   $22"] * 256,
        "b510": ["        NAM   B510", "        ORG   $1000"] + ["        FDB   $3344"] * 255,
        "big": ["        NAM   BIGGER", "        ORG   $2000"] + ["        FDB   $55AA"] * 3000,
        "longname": ["        NAM   LONGPROGRAMNAME", "        ORG   $0E00", "        NOP"],
        "noname": ["        ORG   $0E00", "        NOP"],
        "empty_body": ["        NAM   NOTHING", "        ORG   $0E00"],
    }
    for name, lines in sources.items():
        for switches in (["--to_cas", "out.cas"], ["--to_cas", "out.cas", "--name", "cli"],
                         ["--to_cas", "out.cas", "--to_dsk", "out.dsk", "--to_bin", "out.bin"]):
            with tempfile.TemporaryDirectory() as scratch:
                os.chdir(scratch)
                try:
                    with open("src.asm", "w") as handle:
                        handle.write("\n".join(lines) + "\n")
                    record = {"first": run_tool(assembler, ["src.asm"] + switches)}
                    record["again_no_append"] = run_tool(assembler, ["src.asm"] + switches)
                    record["again_append"] = run_tool(assembler, ["src.asm"] + switches + ["--append"])
                    record["files"] = files_here()
                    if os.path.exists("out.cas"):
                        record["list"] = run_tool(file_util, ["out.cas", "--list"])
                        record["copy"] = run_tool(file_util, ["out.cas", "--to_cas", "copy.cas"])
                        record["copy_append"] = run_tool(file_util, ["out.cas", "--to_cas", "copy.cas", "--append"])
                        record["to_dsk"] = run_tool(file_util, ["out.cas", "--to_dsk", "from_cas.dsk"])
                        record["back_to_cas"] = run_tool(file_util, ["from_cas.dsk", "--to_cas", "from_dsk.cas"])
                        record["files_after"] = files_here()
                    results["cli:{}:{}".format(name, "+".join(switches))] = record
                finally:
                    os.chdir(home)

    for name, files in file_lists.items():
        for existing in (None, "image", "junk"):
            for append in (False, True):
                with tempfile.TemporaryDirectory() as scratch:
                    os.chdir(scratch)
                    try:
                        if existing == "image":
                            with open("t.cas", "wb") as handle:
                                handle.write(bytes(first.buffer))
                        elif existing == "junk":
                            with open("t.cas", "wb") as handle:
                                handle.write(b"\x01\x02\x03" * 50)
                        record = {}
                        try:
                            virtual_file = VirtualFile(SourceFile("t.cas", file_type=SourceFileType.BINARY),
                                                       VirtualFileType.CASSETTE)
                            virtual_file.open_virtual_file()
                            for file in files:
                                virtual_file.add_coco_file(file)
                            virtual_file.save_virtual_file(append_mode=append)
                            record["saved"] = True
                        except Exception as error:
                            record["raised"] = [type(error).__name__, str(error)]
                        record["files"] = files_here()
                        results["virtual:{}:{}:{}".format(name, existing, append)] = record
                    finally:
                        os.chdir(home)

    json.dump(results, sys.stdout, sort_keys=True)


def run_worker(tree):
    tree = os.path.abspath(tree)
    env = dict(os.environ, PYTHONDONTWRITEBYTECODE="1", PYTHONHASHSEED="0")
    env.pop("PYTHONPATH", None)
    done = subprocess.run([sys.executable, os.path.abspath(__file__), "--worker", tree],
                          cwd=tree, env=env, stdout=subprocess.PIPE, stderr=subprocess.PIPE, text=True)
    if done.returncode != 0:
        print("worker failed for {}:\n{}".format(tree, done.stderr))
        sys.exit(1)
    return json.loads(done.stdout)


def main():
    if len(sys.argv) == 3 and sys.argv[1] == "--worker":
        try:
            worker(sys.argv[2])
        except Exception:
            traceback.print_exc()
            sys.exit(2)
        return
    if len(sys.argv) != 3:
        print(__doc__)
        sys.exit(2)
    result_a, result_b = run_worker(sys.argv[1]), run_worker(sys.argv[2])
    differing = [key for key in sorted(set(result_a) | set(result_b)) if result_a.get(key) != result_b.get(key)]
    for key in differing[:20]:
        print("DIFFERENT: {}\n  A: {}\n  B: {}".format(key, str(result_a.get(key))[:700], str(result_b.get(key))[:700]))
    raised = sum(1 for record in result_a.values() if "raised" in record)
    print("{} cases compared ({} of them end in an exception), {} differ".format(len(result_a), raised, len(differing)))
    sys.exit(1 if differing else 0)


if __name__ == "__main__":
    main()
