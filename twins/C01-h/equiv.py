#!/venv/bin/python
"""
Differential check: run the same inputs through the code of two source trees
and compare every observable result.

usage: equiv.py <treeA> <treeB>      exit 0 = all results agree, 1 = differ

Refactoring C01/h: Statement.parse_line finds the instruction through a mnemonic -> Instruction dictionary
(first table entry wins) instead of a linear search; regex groups read once; try/except narrowed to the operand classification.
Inputs: every mnemonic x ~150 operand forms (corpus), Statement(line) on ~120 single lines (every field dumped, or the ParseError),
hand written programs, CLI listing.
"""
import hashlib
import json
import os
import subprocess
import sys
import tempfile

# --------------------------------------------------------------------------
# inputs
# --------------------------------------------------------------------------

# Operand forms put behind every mnemonic of the instruction table.
OPERAND_FORMS = [
    "", "#$12", "#$1234", "#V8", "#V16", "#-1", "#-200", "#'A", "#%10101010", "#TARGET",
    "$12", "$1234", "<$12", ">$12", "<$1234", ">$1234", "V8", "V16", "<V16", ">V8",
    "TARGET", "START", "200", "255", "256", "300", "-5", "%00001111", "%0000111100001111",
    "[$1234]", "[$12]", "[TARGET]", "[V16]", "[V8]",
    ",X", ",Y", ",U", ",S", "0,X", "-0,X", "1,X", "15,Y", "16,U", "-16,S", "-17,X", "127,X", "128,X",
    "-128,Y", "-129,Y", "$10,X", "$0010,X", "$1000,X", "32767,X", "-32768,X", "65535,X",
    "A,X", "B,Y", "D,U", "A,S", ",X+", ",X++", ",-Y", ",--Y", ",S+", ",--U",
    "[,X]", "[,Y]", "[,X++]", "[,--S]", "[,X+]", "[,-X]", "[A,X]", "[B,Y]", "[D,S]",
    "[0,X]", "[5,X]", "[-5,X]", "[127,X]", "[128,X]", "[-128,X]", "[-129,X]", "[$1000,U]", "[$10,U]",
    "5,PCR", "$12,PCR", "$1234,PCR", "-3,PCR", "TARGET,PCR", "START,PCR", "TARGET+2,PCR", "FAR,PCR",
    "[TARGET,PCR]", "[5,PCR]", "[$1234,PCR]", "[FAR,PCR]", "[TARGET-1,PCR]",
    "V8,X", "V16,X", "TARGET,X", "V8+1,X", "[V8,X]", "[V16,Y]",
    "V8+1", "V16-V8", "TARGET+1", "TARGET-V8", "V8*2", "V16/2", "#V8+1", "#TARGET+1", "$10+$20", "5+5",
    "A,B", "X,Y", "D,X", "CC,DP", "PC,S", "B,A", "DP,CC", "Y,PC", "A,B,X", "U", "S", "Z,X", "A", "Q",
    "X,Y,U,S,PC,CC,DP,A,B", "D,X,Y", "CC", "PC,U,Y,X,DP,B,A,CC", "A,A",
    "\"AB\"", "/hello/", "1,2,3", "$1234,$5678", "-1,-2", "10", "0", "65535", "65536", "-32768", "-32769",
    "$12345", "%101", "'A", "NOSUCH", "NOSUCH,X", "#NOSUCH", "X+,Y", "1,X+", "foo bar",
]

CORPUS_TEMPLATE = [
    "        ORG   $0E00",
    "V8      EQU   $12",
    "V16     EQU   $1234",
    "START   {mnemonic} {operand}",
    "        NOP",
    "TARGET  NOP",
    "        RMB   200",
    "FAR     RTS",
]

# Hand written programs: (name, [source lines])
CASES = [
    ('lower case program',
     [' org $e00', 'v equ 5', 's lda #v', ' ldx #s', ' bra s', ' fcb 1,2', ' fcc /Mixed Case/', ' end s']),
    ('aliases',
     [' ASL $12',
      ' LSL $12',
      ' ASLA',
      ' LSLA',
      ' ASLB',
      ' LSLB',
      ' ASL ,X',
      ' LSL ,X',
      ' LBHS 0',
      ' LBCC 0',
      ' BHS *',
      ' BLO 0',
      ' BCS 0']),
    ('mixed program',
     ['        NAM   MIXED',
      '        ORG   $3F00',
      'SCREEN  EQU   $0400',
      'COUNT   EQU   32',
      'BEGIN   LDX   #SCREEN',
      '        LDA   #COUNT',
      'LOOP    STA   ,X+',
      '        DECA',
      '        BNE   LOOP',
      '        LDD   TABLE,PCR',
      '        LEAX  TABLE,PCR',
      '        LDY   [VECTOR]',
      '        JSR   SUB',
      '        LBRA  DONE',
      'SUB     PSHS  A,B,X',
      '        TFR   X,Y',
      '        EXG   A,B',
      '        LDA   5,X',
      '        LDB   -5,Y',
      '        STD   200,U',
      '        STD   -200,S',
      '        LDA   [10,X]',
      '        LDD   [D,Y]',
      '        PULS  A,B,X,PC',
      'TABLE   FCB   1,2,3,$FF',
      '        FDB   $1234,$5678',
      '        FDB   BEGIN',
      'VECTOR  FDB   $A000',
      'MSG     FCC   /HELLO, WORLD/',
      'BUF     RMB   4',
      'DONE    RTS',
      '        END   BEGIN']),
    ('branches forward and backward',
     ['        ORG   $1000',
      'TOP     NOP',
      '        BRA   TOP',
      '        BEQ   DOWN',
      '        LBNE  TOP',
      '        LBSR  DOWN',
      '        BSR   TOP',
      '        RMB   100',
      'DOWN    RTS']),
    ('short branch too far forward', ['A BRA B', ' RMB 128', 'B RTS']),
    ('short branch just reaching forward', ['A BRA B', ' RMB 127', 'B RTS']),
    ('short branch too far back', ['A NOP', ' RMB 126', ' BRA A']),
    ('short branch just reaching back', ['A NOP', ' RMB 125', ' BRA A']),
    ('pcr sizes near the boundary',
     ['        ORG   $2000',
      'S       LEAX  NEAR,PCR',
      '        LEAY  FARX,PCR',
      '        LDA   [NEAR,PCR]',
      '        LDD   NEAR+1,PCR',
      '        RMB   110',
      'NEAR    NOP',
      '        RMB   300',
      'FARX    NOP',
      '        LEAX  S,PCR',
      '        LEAX  NEAR,PCR']),
    ('pcr backwards boundary', [' ORG $100', 'L NOP', ' RMB 121', ' LEAX L,PCR', ' LEAX L,PCR', ' LEAX L,PCR']),
    ('equ forward reference',
     [' LDA #LATER', ' LDB LATER', ' LDX #BIG', 'LATER EQU 7', 'BIG EQU $1234', ' STA BIG']),
    ('expressions',
     ['        ORG   $4000',
      'BASE    EQU   $1000',
      'STEP    EQU   3',
      '        LDX   #BASE+STEP',
      '        LDA   #STEP*2',
      '        LDD   BASE/STEP',
      '        LDX   #HERE+2',
      '        LDX   #HERE-BASE',
      '        LDA   BASE-1',
      'HERE    LDA   STEP+4,X',
      '        JMP   HERE+1',
      '        FDB   HERE']),
    ('division by zero', ['Z EQU 0', ' LDA #4/Z']),
    ('undefined symbol', [' LDA MISSING']),
    ('undefined symbol in expression', [' LDA #MISSING+1']),
    ('duplicate label', ['A NOP', 'A NOP']),
    ('duplicate equ', ['A EQU 1', 'A EQU 2']),
    ('label defined after equ of same name', ['A EQU 1', 'A NOP']),
    ('bad mnemonic', [' FROB 1']),
    ('unparsable line', ['@@@ !!!']),
    ('org twice', [' ORG $100', ' NOP', ' ORG $200', 'X NOP', ' JMP X']),
    ('code before org', [' NOP', ' ORG $200', 'X NOP', ' JMP X']),
    ('no org', ['A LDA #1', ' JMP A']),
    ('data directives',
     ['        ORG   $10',
      '        FCB   1',
      "        FCB   $FF,255,-1,'A,%10101010",
      '        FDB   1',
      '        FDB   $FFFF,-1,65535,$12',
      '        FCC   "two words" trailing',
      '        FCC   /a;b/',
      '        RMB   3',
      '        RMB   0']),
    ('data directives 2',
     ['        FCB   -128',
      '        FDB   -32768',
      '        FCB   ,1,,2',
      "        FCC   'x'",
      'N       EQU   $10',
      '        RMB   N',
      '        FCB   N',
      '        FDB   N',
      '        SETDP $10',
      '        END']),
    ('fcb too big', [' FCB 256']),
    ('fcb list too big', [' FCB 1,256']),
    ('fdb too big', [' FDB 65536']),
    ('fcc unterminated', [' FCC /abc']),
    ('fcc empty', [' FCC']),
    ('rmb symbol undefined', [' RMB NOPE']),
    ('equ of label', ['A NOP', 'B EQU A', ' JMP B']),
    ('equ string-ish', ['S EQU X,Y', ' LDA S']),
    ('comments and blanks', ['; comment only', '', '   ', ' NOP ; trailing', 'L NOP', ' ; indented comment']),
    ('include missing', [' INCLUDE /nonexistent/file.asm']),
    ('nam and end', [' NAM PROG', ' ORG $E00', 'S RTS', ' END S']),
    ('inherent with operand', [' RTS 5']),
    ('operand missing', [' LDA']),
    ('immediate store', [' STA #5']),
    ('lea immediate', [' LEAX #5']),
    ('tfr mixed size', [' TFR A,X']),
    ('pshs own stack', [' PSHS S']),
    ('pshu own stack', [' PSHU U']),
    ('pshs empty', [' PSHS']),
    ('exg three', [' EXG A,B,X']),
    ('indexed auto with offset', [' LDA 1,X+']),
    ('indirect single auto', [' LDA [,X+]']),
    ('16 bit immediates',
     [' LDX #1',
      ' LDD #$12',
      ' CMPX #-1',
      ' LDS #%00000001',
      " LDU #'A",
      ' CMPY #300',
      ' ADDD #1',
      ' SUBD #$1234',
      ' CMPD #5',
      ' CMPS #5',
      ' CMPU #5',
      ' LDY #5']),
    ('8 bit immediates',
     [' LDA #1',
      ' LDB #$12',
      ' CMPA #-1',
      ' ANDCC #%11110000',
      ' ORCC #$50',
      " LDA #'z",
      ' LDA #255',
      ' LDA #256',
      ' LDA #$1234',
      ' CWAI #$FF']),
    ('direct and extended',
     [' LDA $12',
      ' LDA $0012',
      ' LDA <$0012',
      ' LDA >$12',
      ' LDA 18',
      ' LDA 300',
      ' JMP $12',
      ' JSR <$12',
      ' STA >$00',
      ' NEG $12',
      ' CLR <$FF',
      ' TST >$FF',
      ' LDA %00010010',
      ' LDA >%00010010',
      ' LDA <%0000000000010010']),
]

# Python expressions evaluated inside each tree (modules of the tree imported
# beforehand); the value - or the exception - is compared.
PROBES = [
    "Statement(' LDA')",
    "Statement('L LDA')",
    "Statement(' LDA \\n')",
    "Statement(' LDA $12')",
    "Statement('L@1 LDA #$12 ; note')",
    "Statement(' LDA ,X ;; two')",
    "Statement(' LDA /a b/ tail ; c')",
    "Statement(' lda')",
    "Statement('L lda')",
    "Statement(' lda \\n')",
    "Statement(' lda $12')",
    "Statement('L@1 lda #$12 ; note')",
    "Statement(' lda ,X ;; two')",
    "Statement(' lda /a b/ tail ; c')",
    "Statement(' Lda')",
    "Statement('L Lda')",
    "Statement(' Lda \\n')",
    "Statement(' Lda $12')",
    "Statement('L@1 Lda #$12 ; note')",
    "Statement(' Lda ,X ;; two')",
    "Statement(' Lda /a b/ tail ; c')",
    "Statement(' ldA')",
    "Statement('L ldA')",
    "Statement(' ldA \\n')",
    "Statement(' ldA $12')",
    "Statement('L@1 ldA #$12 ; note')",
    "Statement(' ldA ,X ;; two')",
    "Statement(' ldA /a b/ tail ; c')",
    "Statement(' NOP')",
    "Statement('L NOP')",
    "Statement(' NOP \\n')",
    "Statement(' NOP $12')",
    "Statement('L@1 NOP #$12 ; note')",
    "Statement(' NOP ,X ;; two')",
    "Statement(' NOP /a b/ tail ; c')",
    "Statement(' nop')",
    "Statement('L nop')",
    "Statement(' nop \\n')",
    "Statement(' nop $12')",
    "Statement('L@1 nop #$12 ; note')",
    "Statement(' nop ,X ;; two')",
    "Statement(' nop /a b/ tail ; c')",
    "Statement(' RTS')",
    "Statement('L RTS')",
    "Statement(' RTS \\n')",
    "Statement(' RTS $12')",
    "Statement('L@1 RTS #$12 ; note')",
    "Statement(' RTS ,X ;; two')",
    "Statement(' RTS /a b/ tail ; c')",
    "Statement(' FCC')",
    "Statement('L FCC')",
    "Statement(' FCC \\n')",
    "Statement(' FCC $12')",
    "Statement('L@1 FCC #$12 ; note')",
    "Statement(' FCC ,X ;; two')",
    "Statement(' FCC /a b/ tail ; c')",
    "Statement(' fcc')",
    "Statement('L fcc')",
    "Statement(' fcc \\n')",
    "Statement(' fcc $12')",
    "Statement('L@1 fcc #$12 ; note')",
    "Statement(' fcc ,X ;; two')",
    "Statement(' fcc /a b/ tail ; c')",
    "Statement(' FCB')",
    "Statement('L FCB')",
    "Statement(' FCB \\n')",
    "Statement(' FCB $12')",
    "Statement('L@1 FCB #$12 ; note')",
    "Statement(' FCB ,X ;; two')",
    "Statement(' FCB /a b/ tail ; c')",
    "Statement(' fcb')",
    "Statement('L fcb')",
    "Statement(' fcb \\n')",
    "Statement(' fcb $12')",
    "Statement('L@1 fcb #$12 ; note')",
    "Statement(' fcb ,X ;; two')",
    "Statement(' fcb /a b/ tail ; c')",
    "Statement(' EQU')",
    "Statement('L EQU')",
    "Statement(' EQU \\n')",
    "Statement(' EQU $12')",
    "Statement('L@1 EQU #$12 ; note')",
    "Statement(' EQU ,X ;; two')",
    "Statement(' EQU /a b/ tail ; c')",
    "Statement(' equ')",
    "Statement('L equ')",
    "Statement(' equ \\n')",
    "Statement(' equ $12')",
    "Statement('L@1 equ #$12 ; note')",
    "Statement(' equ ,X ;; two')",
    "Statement(' equ /a b/ tail ; c')",
    "Statement(' ORG')",
    "Statement('L ORG')",
    "Statement(' ORG \\n')",
    "Statement(' ORG $12')",
    "Statement('L@1 ORG #$12 ; note')",
    "Statement(' ORG ,X ;; two')",
    "Statement(' ORG /a b/ tail ; c')",
    "Statement(' PSHS')",
    "Statement('L PSHS')",
    "Statement(' PSHS \\n')",
    "Statement(' PSHS $12')",
    "Statement('L@1 PSHS #$12 ; note')",
    "Statement(' PSHS ,X ;; two')",
    "Statement(' PSHS /a b/ tail ; c')",
    "Statement(' pshs')",
    "Statement('L pshs')",
    "Statement(' pshs \\n')",
    "Statement(' pshs $12')",
    "Statement('L@1 pshs #$12 ; note')",
    "Statement(' pshs ,X ;; two')",
    "Statement(' pshs /a b/ tail ; c')",
    "Statement(' TFR')",
    "Statement('L TFR')",
    "Statement(' TFR \\n')",
    "Statement(' TFR $12')",
    "Statement('L@1 TFR #$12 ; note')",
    "Statement(' TFR ,X ;; two')",
    "Statement(' TFR /a b/ tail ; c')",
    "Statement(' BRA')",
    "Statement('L BRA')",
    "Statement(' BRA \\n')",
    "Statement(' BRA $12')",
    "Statement('L@1 BRA #$12 ; note')",
    "Statement(' BRA ,X ;; two')",
    "Statement(' BRA /a b/ tail ; c')",
    "Statement(' lbra')",
    "Statement('L lbra')",
    "Statement(' lbra \\n')",
    "Statement(' lbra $12')",
    "Statement('L@1 lbra #$12 ; note')",
    "Statement(' lbra ,X ;; two')",
    "Statement(' lbra /a b/ tail ; c')",
    "Statement(' FROB')",
    "Statement('L FROB')",
    "Statement(' FROB \\n')",
    "Statement(' FROB $12')",
    "Statement('L@1 FROB #$12 ; note')",
    "Statement(' FROB ,X ;; two')",
    "Statement(' FROB /a b/ tail ; c')",
    "Statement(' frob')",
    "Statement('L frob')",
    "Statement(' frob \\n')",
    "Statement(' frob $12')",
    "Statement('L@1 frob #$12 ; note')",
    "Statement(' frob ,X ;; two')",
    "Statement(' frob /a b/ tail ; c')",
    "Statement(' ')",
    "Statement('L ')",
    "Statement('  \\n')",
    "Statement('  $12')",
    "Statement('L@1  #$12 ; note')",
    "Statement('  ,X ;; two')",
    "Statement('  /a b/ tail ; c')",
    "Statement(' LD')",
    "Statement('L LD')",
    "Statement(' LD \\n')",
    "Statement(' LD $12')",
    "Statement('L@1 LD #$12 ; note')",
    "Statement(' LD ,X ;; two')",
    "Statement(' LD /a b/ tail ; c')",
    "Statement(' LDAA')",
    "Statement('L LDAA')",
    "Statement(' LDAA \\n')",
    "Statement(' LDAA $12')",
    "Statement('L@1 LDAA #$12 ; note')",
    "Statement(' LDAA ,X ;; two')",
    "Statement(' LDAA /a b/ tail ; c')",
    "Statement(' 1LDA')",
    "Statement('L 1LDA')",
    "Statement(' 1LDA \\n')",
    "Statement(' 1LDA $12')",
    "Statement('L@1 1LDA #$12 ; note')",
    "Statement(' 1LDA ,X ;; two')",
    "Statement(' 1LDA /a b/ tail ; c')",
    "Statement(' _')",
    "Statement('L _')",
    "Statement(' _ \\n')",
    "Statement(' _ $12')",
    "Statement('L@1 _ #$12 ; note')",
    "Statement(' _ ,X ;; two')",
    "Statement(' _ /a b/ tail ; c')",
    "Statement(' END')",
    "Statement('L END')",
    "Statement(' END \\n')",
    "Statement(' END $12')",
    "Statement('L@1 END #$12 ; note')",
    "Statement(' END ,X ;; two')",
    "Statement(' END /a b/ tail ; c')",
    "Statement(' INCLUDE')",
    "Statement('L INCLUDE')",
    "Statement(' INCLUDE \\n')",
    "Statement(' INCLUDE $12')",
    "Statement('L@1 INCLUDE #$12 ; note')",
    "Statement(' INCLUDE ,X ;; two')",
    "Statement(' INCLUDE /a b/ tail ; c')",
    "Statement(' NAM')",
    "Statement('L NAM')",
    "Statement(' NAM \\n')",
    "Statement(' NAM $12')",
    "Statement('L@1 NAM #$12 ; note')",
    "Statement(' NAM ,X ;; two')",
    "Statement(' NAM /a b/ tail ; c')",
    "Statement(' SETDP')",
    "Statement('L SETDP')",
    "Statement(' SETDP \\n')",
    "Statement(' SETDP $12')",
    "Statement('L@1 SETDP #$12 ; note')",
    "Statement(' SETDP ,X ;; two')",
    "Statement(' SETDP /a b/ tail ; c')",
    "Statement(' RMB')",
    "Statement('L RMB')",
    "Statement(' RMB \\n')",
    "Statement(' RMB $12')",
    "Statement('L@1 RMB #$12 ; note')",
    "Statement(' RMB ,X ;; two')",
    "Statement(' RMB /a b/ tail ; c')",
    "Statement(' FDB')",
    "Statement('L FDB')",
    "Statement(' FDB \\n')",
    "Statement(' FDB $12')",
    "Statement('L@1 FDB #$12 ; note')",
    "Statement(' FDB ,X ;; two')",
    "Statement(' FDB /a b/ tail ; c')",
    "Statement(' ASL')",
    "Statement('L ASL')",
    "Statement(' ASL \\n')",
    "Statement(' ASL $12')",
    "Statement('L@1 ASL #$12 ; note')",
    "Statement(' ASL ,X ;; two')",
    "Statement(' ASL /a b/ tail ; c')",
    "Statement(' LSL')",
    "Statement('L LSL')",
    "Statement(' LSL \\n')",
    "Statement(' LSL $12')",
    "Statement('L@1 LSL #$12 ; note')",
    "Statement(' LSL ,X ;; two')",
    "Statement(' LSL /a b/ tail ; c')",
    "Statement(' asl')",
    "Statement('L asl')",
    "Statement(' asl \\n')",
    "Statement(' asl $12')",
    "Statement('L@1 asl #$12 ; note')",
    "Statement(' asl ,X ;; two')",
    "Statement(' asl /a b/ tail ; c')",
    "Statement(' SWI2')",
    "Statement('L SWI2')",
    "Statement(' SWI2 \\n')",
    "Statement(' SWI2 $12')",
    "Statement('L@1 SWI2 #$12 ; note')",
    "Statement(' SWI2 ,X ;; two')",
    "Statement(' SWI2 /a b/ tail ; c')",
    "Statement(' swi3')",
    "Statement('L swi3')",
    "Statement(' swi3 \\n')",
    "Statement(' swi3 $12')",
    "Statement('L@1 swi3 #$12 ; note')",
    "Statement(' swi3 ,X ;; two')",
    "Statement(' swi3 /a b/ tail ; c')",
    "Statement(' SYNC')",
    "Statement('L SYNC')",
    "Statement(' SYNC \\n')",
    "Statement(' SYNC $12')",
    "Statement('L@1 SYNC #$12 ; note')",
    "Statement(' SYNC ,X ;; two')",
    "Statement(' SYNC /a b/ tail ; c')",
    "Statement(' CWAI')",
    "Statement('L CWAI')",
    "Statement(' CWAI \\n')",
    "Statement(' CWAI $12')",
    "Statement('L@1 CWAI #$12 ; note')",
    "Statement(' CWAI ,X ;; two')",
    "Statement(' CWAI /a b/ tail ; c')",
    "Statement('')",
    "Statement('   ')",
    "Statement('\\n')",
    "Statement('; c')",
    "Statement('  ; c  ')",
    "Statement(';')",
    "Statement('LABEL')",
    "Statement('LABEL ')",
    "Statement(' ; LDA')",
    "Statement('@@@ !!!')",
    "Statement(' LDA #$12 no semicolon comment')",
    "Statement('L LDA\\t#1\\t; tabs')",
    "Statement(' LDA $12,,X')",
    "Statement(' LDA 1,2,3')",
    "Statement(' LDA [')",
    "Statement(' LDA ]')",
    "Statement(' LDA #')",
    "Statement(' LDA <')",
    "Statement(' LDA >')",
    'Statement(\' LDA "\')',
    'Statement(\' FCC "\')',
    'Statement(\' FCC ""\')',
    "Statement(' FCC /abc/def/')",
    "Statement(' FCC ;x;')",
    ("sorted(INSTRUCTION_BY_MNEMONIC) == sorted(i.mnemonic for i in INSTRUCTIONS) if 'INSTRUCTION_BY_MNEMONIC' "
     'in dir() else True'),
    'len(INSTRUCTIONS)',
    '[i for i in INSTRUCTIONS]',
]

# Command line runs: (name, [source lines], [arguments], [files expected])
CLI_CASES = [
    ('listing with bad mnemonic',
     [' ORG $E00', 'S LDA #1', ' FROB 5 ; what', ' RTS'],
     [['--print', '--symbols']],
     []),
    ('listing lower case',
     [' nam low', ' org $e00', 's lda #1', ' bne s', ' rts'],
     [['--print', '--symbols', '--to_bin', 'o.bin']],
     []),
]

USE_CORPUS = True

# --------------------------------------------------------------------------
# worker: runs inside ONE tree
# --------------------------------------------------------------------------


def show(obj, depth=0):
    """Turns a library object into plain comparable data."""
    from enum import Enum
    if depth > 6:
        return "<deep>"
    if obj is None or isinstance(obj, (bool, int, float, str)):
        return obj
    if isinstance(obj, bytes):
        return obj.hex()
    if isinstance(obj, Enum):
        return "{}.{}".format(type(obj).__name__, obj.name)
    if isinstance(obj, (list, tuple)):
        return [show(x, depth + 1) for x in obj]
    if isinstance(obj, (set, frozenset)):
        return sorted(repr(show(x, depth + 1)) for x in obj)
    if isinstance(obj, dict):
        return {str(k): show(v, depth + 1) for k, v in obj.items()}
    if isinstance(obj, BaseException):
        return describe_error(obj)
    if isinstance(obj, type):
        return "class " + obj.__name__
    result = {"__class__": type(obj).__name__}
    fields = getattr(obj, "__dict__", None)
    if fields is None:
        return repr(obj)
    for key in sorted(fields):
        if key.startswith("_"):
            continue
        result[key] = show(fields[key], depth + 1)
    for method in ("hex", "hex_len", "byte_len", "ascii", "is_8_bit", "is_16_bit", "is_4_bit",
                   "high_byte", "low_byte"):
        function = getattr(obj, method, None)
        if callable(function) and hasattr(obj, "explict_addressing_mode"):
            try:
                result["." + method] = show(function(), depth + 1)
            except Exception as error:
                result["." + method] = describe_error(error)
    return result


def describe_error(error):
    description = {"error": type(error).__name__, "text": str(error), "args": show(list(error.args))}
    if hasattr(error, "value"):
        description["value"] = show(getattr(error, "value"))
    if hasattr(error, "statement"):
        statement = getattr(error, "statement")
        try:
            description["statement"] = str(statement)
        except Exception as inner:
            description["statement"] = "unprintable: " + type(inner).__name__
    return description


def assemble(lines):
    from cocoasm.program import Program
    program = Program()
    try:
        program.process(list(lines))
    except BaseException as error:
        return {"raised": describe_error(error),
                "symbols_so_far": sorted(program.symbol_table.keys())}
    outcome = {}
    for name, function in (
            ("binary", program.get_binary_array),
            ("listing", program.get_statements),
            ("symbols", program.get_symbol_table),
    ):
        try:
            outcome[name] = show(function())
        except BaseException as error:
            outcome[name] = describe_error(error)
    outcome["origin"] = show(program.origin)
    outcome["name"] = show(program.name)
    outcome["packages"] = [
        [s.code_pkg.size, s.code_pkg.max_size, s.fixed_size, s.pcr_size_hint,
         show(s.code_pkg.post_byte_choices), s.code_pkg.additional_needs_resolution,
         type(s.operand).__name__, show(s.operand.type)]
        for s in program.statements
    ]
    return outcome


def run_cli(tree, name, lines, arguments, files):
    results = {}
    with tempfile.TemporaryDirectory() as scratch:
        source = os.path.join(scratch, "input.asm")
        with open(source, "w") as handle:
            handle.write("\n".join(lines) + "\n")
        environment = dict(os.environ, PYTHONPATH=tree, PYTHONDONTWRITEBYTECODE="1")
        for round_number, argument_list in enumerate(arguments):
            completed = subprocess.run(
                [sys.executable, os.path.join(tree, "assembler.py"), "input.asm"] + argument_list,
                cwd=scratch, env=environment, capture_output=True, text=True, timeout=120,
            )
            results["run{}".format(round_number)] = {
                "stdout": completed.stdout.replace(tree, "<TREE>"),
                "stderr": completed.stderr.replace(tree, "<TREE>"),
                "code": completed.returncode,
            }
        produced = {}
        for file_name in sorted(os.listdir(scratch)):
            if file_name == "input.asm":
                continue
            with open(os.path.join(scratch, file_name), "rb") as handle:
                produced[file_name] = handle.read().hex()
        results["files"] = produced
    return results


def worker(tree):
    tree = os.path.abspath(tree)
    sys.path.insert(0, tree)
    os.chdir(tree)
    sys.dont_write_bytecode = True
    results = {}

    import cocoasm.instruction
    import cocoasm.operands
    import cocoasm.values
    import cocoasm.statement
    import cocoasm.program
    assert os.path.abspath(cocoasm.program.__file__).startswith(tree), cocoasm.program.__file__

    for name, lines in CASES:
        # as SourceFile.readlines() delivers them, and bare
        results["case:" + name] = assemble([line + "\n" for line in lines])
        results["bare:" + name] = assemble(lines)

    namespace = {"show": show}
    for module in (cocoasm.instruction, cocoasm.operands, cocoasm.values, cocoasm.statement, cocoasm.program):
        namespace.update({k: v for k, v in vars(module).items() if not k.startswith("__")})
    namespace["MN"] = {i.mnemonic: i for i in cocoasm.instruction.INSTRUCTIONS}
    for expression in PROBES:
        try:
            results["probe:" + expression] = show(eval(expression, dict(namespace)))
        except BaseException as error:
            results["probe:" + expression] = {"raised": describe_error(error)}

    if USE_CORPUS:
        for instruction in cocoasm.instruction.INSTRUCTIONS:
            for operand in OPERAND_FORMS:
                lines = [x.format(mnemonic=instruction.mnemonic, operand=operand) + "\n" for x in CORPUS_TEMPLATE]
                outcome = assemble(lines)
                # the corpus is big: keep a digest plus the essentials
                blob = json.dumps(outcome, sort_keys=True)
                results["corpus:{} {}".format(instruction.mnemonic, operand)] = [
                    hashlib.sha1(blob.encode()).hexdigest(),
                    outcome.get("binary", outcome.get("raised")),
                ]

    for name, lines, arguments, files in CLI_CASES:
        results["cli:" + name] = run_cli(tree, name, lines, arguments, files)

    json.dump(results, sys.stdout, sort_keys=True)


# --------------------------------------------------------------------------
# driver
# --------------------------------------------------------------------------


def main():
    if len(sys.argv) == 3 and sys.argv[1] == "--worker":
        worker(sys.argv[2])
        return 0
    if len(sys.argv) != 3:
        print(__doc__)
        return 2
    outputs = []
    for tree in sys.argv[1:3]:
        tree = os.path.abspath(tree)
        completed = subprocess.run(
            [sys.executable, os.path.abspath(__file__), "--worker", tree],
            capture_output=True, text=True, cwd=tree,
            env=dict(os.environ, PYTHONDONTWRITEBYTECODE="1"),
        )
        if completed.returncode != 0:
            print("worker failed for", tree)
            print(completed.stderr[-3000:])
            return 1
        outputs.append(json.loads(completed.stdout))
    first, second = outputs
    differences = 0
    for key in sorted(set(first) | set(second)):
        if first.get(key, "<missing>") != second.get(key, "<missing>"):
            differences += 1
            if differences <= 10:
                print("DIFFERENT:", key)
                print("   A:", json.dumps(first.get(key, "<missing>"), sort_keys=True)[:300])
                print("   B:", json.dumps(second.get(key, "<missing>"), sort_keys=True)[:300])
    kinds = {}
    for key in first:
        kinds[key.split(":")[0]] = kinds.get(key.split(":")[0], 0) + 1
    print("compared {} results ({}); {} differ".format(
        len(first), ", ".join("{} {}".format(v, k) for k, v in sorted(kinds.items())), differences))
    return 1 if differences else 0


if __name__ == "__main__":
    sys.exit(main())
