#!/usr/bin/env python
"""
Differential check for refactoring C13/l: Program.translate_statements() - sizing sweep over statements_without_fixed_size(), origin/name scan, get_symbol_table()/get_statements().

usage: equiv.py <treeA> <treeB>   (exit 0 = every observable result agrees)
Each tree is exercised in its own subprocess with the tree first on sys.path.
"""
import sys, os, json, subprocess, tempfile

PRELUDE = r'''
# ---- driver prelude: runs inside ONE tree (argv[1]) with a scratch dir (argv[2]) ----
import sys, os, io, json, hashlib, contextlib, importlib, shutil, traceback

TREE = os.path.realpath(sys.argv[1])
SCRATCH = os.path.realpath(sys.argv[2])
sys.path.insert(0, TREE)
os.chdir(TREE)

import cocoasm
assert os.path.realpath(cocoasm.__file__).startswith(TREE + os.sep), cocoasm.__file__

RESULTS = []
_case_no = [0]


def norm(value):
    """Turns any result into something JSON can carry, without losing what is observable."""
    if isinstance(value, (bytes, bytearray)):
        return {"bytes": bytes(value).hex()}
    if isinstance(value, (list, tuple)):
        if len(value) > 64 and all(isinstance(x, int) and not isinstance(x, bool) for x in value):
            blob = ",".join(str(x) for x in value).encode()
            return {"ints": len(value), "sha1": hashlib.sha1(blob).hexdigest()}
        return [norm(x) for x in value]
    if isinstance(value, dict):
        return {str(k): norm(v) for k, v in value.items()}
    if value is None or isinstance(value, (bool, int, float, str)):
        return value
    if hasattr(value, "_asdict"):
        return {"nt": type(value).__name__, "fields": norm(value._asdict())}
    if hasattr(value, "hex") and hasattr(value, "hex_len"):
        try:
            return {"value": type(value).__name__, "hex": value.hex(), "int": getattr(value, "int", None)}
        except Exception as error:      # noqa
            return {"value": type(value).__name__, "hex_error": repr(error)}
    return {"repr": type(value).__name__ + ":" + str(value)}


def snapshot(directory):
    files = {}
    for root, _, names in os.walk(directory):
        for name in sorted(names):
            path = os.path.join(root, name)
            with open(path, "rb") as handle:
                blob = handle.read()
            files[os.path.relpath(path, directory)] = [len(blob), hashlib.sha1(blob).hexdigest()]
    return files


def case(name, fn, workdir=None):
    """Runs fn(), records value / exception / stdout / stderr / files left in workdir."""
    out, err = io.StringIO(), io.StringIO()
    record = {"name": name}
    old_cwd = os.getcwd()
    if workdir:
        os.chdir(workdir)
    try:
        with contextlib.redirect_stdout(out), contextlib.redirect_stderr(err):
            try:
                record["value"] = norm(fn())
            except SystemExit as error:
                record["exit"] = norm(error.code)
            except BaseException as error:      # noqa
                record["exc"] = [type(error).__name__, str(error)]
    finally:
        os.chdir(old_cwd)
    record["stdout"] = out.getvalue()
    record["stderr"] = err.getvalue()
    if workdir:
        record["files"] = snapshot(workdir)
    RESULTS.append(record)
    return record


def fresh_dir(files=None):
    _case_no[0] += 1
    path = os.path.join(SCRATCH, "c%04d" % _case_no[0])
    os.makedirs(path)
    for name, content in (files or {}).items():
        mode = "wb" if isinstance(content, (bytes, bytearray)) else "w"
        os.makedirs(os.path.dirname(os.path.join(path, name)), exist_ok=True)
        with open(os.path.join(path, name), mode) as handle:
            handle.write(content)
    return path


def cli(module_name, argv):
    """Runs a command-line front end the way `python module.py argv...` would."""
    def run():
        module = importlib.import_module(module_name)
        assert os.path.realpath(module.__file__).startswith(TREE + os.sep)
        old = sys.argv
        sys.argv = [module_name + ".py"] + list(argv)
        try:
            module.main(module.parse_arguments())
        finally:
            sys.argv = old
    return run


def cli_case(name, module_name, argv, files=None, workdir=None, then=()):
    """One CLI run in a fresh (or given) directory, optionally followed by more runs in the same directory."""
    workdir = workdir or fresh_dir(files)
    case(name, cli(module_name, argv), workdir)
    for index, (module2, argv2) in enumerate(then):
        case("%s/then%d" % (name, index), cli(module2, argv2), workdir)
    return workdir


def finish():
    json.dump(RESULTS, sys.stdout)
    sys.stdout.write("\n")
# ---- end of prelude ----
'''

CASES = r'''# ---- shared C12 helpers: assemble statements and report everything observable ----
import random
from cocoasm.program import Program
from cocoasm.statement import Statement
from cocoasm.exceptions import TranslationError, ParseError


def describe_error(error):
    info = [type(error).__name__, str(error)]
    if isinstance(error, (TranslationError, ParseError)):
        info.append(str(error.value))
        try:
            info.append(str(error.statement))
        except Exception as inner:      # noqa
            info.append("unprintable statement: " + type(inner).__name__ + ": " + str(inner))
    return info


def assemble(lines):
    """Everything a user can see of one assembly: bytes, listing, symbols, origin, name - or the diagnostic."""
    program = Program()
    try:
        program.process(lines)
    except BaseException as error:      # noqa
        return {"error": describe_error(error)}
    result = {}
    for key, getter in (("bytes", program.get_binary_array), ("listing", program.get_statements),
                        ("symbols", program.get_symbol_table)):
        try:
            result[key] = getter()
        except BaseException as error:      # noqa
            result[key] = {"error": describe_error(error)}
    result["origin"] = norm(program.origin)
    result["name"] = program.name
    result["sizes"] = [[s.code_pkg.size, s.code_pkg.max_size] for s in program.statements]
    return result


def frame(mnemonic, operand, label=""):
    """The statement under test in the middle of a small program with symbols before, after and far away."""
    return [
        "        ORG $1000\n",
        "BACK    NOP\n",
        "K5      EQU 5\n",
        "K0      EQU 0\n",
        "K200    EQU 200\n",
        "K300    EQU 300\n",
        "KADDR   EQU $2000\n",
        "%-7s %s %s\n" % (label, mnemonic, operand),
        "FWD     NOP\n",
        "        RMB 200\n",
        "FAR     NOP\n",
    ]


def statement_cases(prefix, mnemonics, operands, label=""):
    for mnemonic in mnemonics:
        for operand in operands:
            lines = frame(mnemonic, operand, label)
            case("%s %s %s" % (prefix, mnemonic, operand), lambda lines=lines: assemble(lines))


EXPRESSIONS = [
    "1+1", "K5+1", "1+K5", "K5+K5", "K5-1", "1-K5", "K5-K300", "K300-K5", "K5*K5", "K300*K300", "K300*K200", "K5/2", "K300/K5",
    "K5/K0", "4/0", "0/4", "K0*K0", "K0-K0", "K200+56", "K200+55", "K200-73", "K200-72", "KADDR+1", "KADDR-1", "KADDR*2", "KADDR*40",
    "KADDR/2", "KADDR/3", "$10+$10", "$FF+1", "$FF+$1", "$1000+$1", "$FFFF+1", "$FFFF+0", "65535+1", "65535-65535", "0-32768", "0-32769",
    "$1+K5", "K5+$1000", "255+1", "254+1", "7/2", "1/3", "3*0", "9-9",
    "FWD+1", "FWD-1", "1+FWD", "BACK+2", "BACK-1", "BACK-4097", "FAR*2", "FAR*20", "FAR/2", "FWD/K0", "FWD/0", "0/FWD", "FWD+FWD", "FWD-BACK",
    "FWD+K5", "K5+FWD", "FWD*K5", "FWD-K300", "K300-FWD", "2*FWD", "2/FWD", "FWD+NOSUCH", "NOSUCH+1", "1+NOSUCH", "NOSUCH-NOSUCH",
    "FWD+$10", "$10+FWD", "FWD+%00000001", "FWD+'A", "'A+1", "1+'A", "%00000001+1", "%0000000100000000+1", "1+", "+1", "1++1", "1+-1", "K5+-1",
    "K5+1+1", "K5%2", "K5&2", "FWD+1,X", "FWD+1,PCR", "K5+1,X", "K5+1,PCR", "K300+1,Y", "K5-K300,U", "K300*K300,S",
]

PLAIN = [
    "", "0", "1", "15", "16", "17", "127", "128", "129", "255", "256", "257", "32767", "32768", "65535", "65536", "70000",
    "-1", "-15", "-16", "-17", "-127", "-128", "-129", "-255", "-256", "-32768", "-32769", "$0", "$F", "$10", "$FF", "$100", "$0FF", "$00FF",
    "$FFFF", "$10000", "$G", "%1", "%00000001", "%11111111", "%0000000011111111", "%1111111111111111", "%111", "'A", "'", "''", "'AB",
    "K5", "K0", "K200", "K300", "KADDR", "FWD", "BACK", "FAR", "NOSUCH", "A", "B", "D", "X", "PC", "PCR", "@", "@@", "K5K", "5K",
]

PREFIXED = [p + v for p in ("#", "<", ">") for v in
            ("0", "1", "127", "128", "255", "256", "65535", "65536", "-1", "-128", "-129", "$10", "$FF", "$100", "$1234", "$12345",
             "%00000001", "%0000000100000000", "'A", "K5", "K300", "KADDR", "FWD", "BACK", "NOSUCH", "K5+1", "FWD+1", "K300-K5", "", "#1", "<1")]

INDEXED = [
    ",X", ",Y", ",U", ",S", ",PC", ",PCR", ",Z", ",", ",X+", ",X++", ",-X", ",--X", ",Y+", ",--S", ",X+++", ",---X", ",-X+", ",+X", ",XY", ",x",
    "0,X", "1,X", "15,X", "16,X", "17,Y", "127,U", "128,S", "129,X", "255,X", "256,X", "32767,X", "32768,X", "65535,X", "65536,X",
    "-1,X", "-15,X", "-16,X", "-17,X", "-127,Y", "-128,U", "-129,S", "-256,X", "-32768,X", "-32769,X", "$0,X", "$F,X", "$10,X", "$7F,X", "$80,X",
    "$FF,X", "$100,X", "$0010,X", "$FFFF,X", "%00000001,X", "%0000000100000000,X", "'A,X", "A,X", "B,Y", "D,U", "A,S", "E,X", "X,X", "AB,X", "a,X",
    "K5,X", "K0,X", "K200,Y", "K300,U", "KADDR,S", "FWD,X", "BACK,Y", "FAR,U", "NOSUCH,X", "K5,X+", "1,X+", "1,-X", "0,X+", "0,--X", "K0,X++", "FWD,X+",
    "0,PCR", "1,PCR", "127,PCR", "128,PCR", "-1,PCR", "-128,PCR", "-129,PCR", "$10,PCR", "$1000,PCR", "K5,PCR", "K300,PCR", "KADDR,PCR", "FWD,PCR",
    "BACK,PCR", "FAR,PCR", "NOSUCH,PCR", "FWD+1,PCR", "BACK-1,PCR", "FAR+K5,PCR", "A,PCR", ",PCR+", "5,PC", "5,Z", "1,PC", "FWD,PC", "5,", "5,,X", "1,2,X",
    "<5,X", ">5,X", "#5,X", "<$10,X", ">$10,X", "<FWD,X", ">K5,PCR", "<K5,PCR", ">FWD,PCR",
]

INDIRECT = ["[" + text + "]" for text in INDEXED if text not in (",",)] + [
    "[]", "[", "]", "[[,X]]", "[,X", ",X]", "[0]", "[1]", "[$12]", "[$1234]", "[$12345]", "[255]", "[256]", "[65535]", "[65536]", "[-1]", "[K5]", "[K300]",
    "[KADDR]", "[FWD]", "[BACK]", "[NOSUCH]", "[FWD+1]", "[K5+1]", "[K300*K300]", "[#1]", "[<1]", "[>1]", "[A]", "[X]", "['A]", "[%00000001]",
]

REGISTER_LISTS = [
    "A", "B", "D", "X", "Y", "U", "S", "PC", "CC", "DP", "A,B", "A,B,X,Y", "CC,A,B,DP,X,Y,U,PC", "CC,A,B,DP,X,Y,S,PC", "D,A", "A,A", "X,X", "Z", "A,Z",
    "A,", ",A", "a", "A, B", "PCR", "A,B,C", "D,X", "X,D", "A,X", "X,A", "A,CC", "CC,DP", "DP,A", "PC,S", "S,PC", "U,S", "Y,U", "D,D", "B,B", "PC,PC",
    "A,D", "D,B", "CC,X", "X,CC", "A,B,X", "X", "1", "#1", "$10", "", "A;B", "A+B", "AA", "DPP",
]


def random_operands(seed, count):
    rng = random.Random(seed)
    alphabet = "0123456789$%#<>[],+-*/'ABDXYUSPCRK@ FWN"
    atoms = ["$", "%", "#", "<", ">", "[", "]", ",", "+", "-", "*", "/", "X", "Y", "U", "S", "PCR", "PC", "A", "B", "D", "K5", "K300", "FWD",
             "BACK", "KADDR", "0", "1", "16", "127", "128", "255", "256", "$10", "$1000", "++", "--", "'A", "%00000001"]
    out = []
    for _ in range(count):
        if rng.random() < 0.5:
            out.append("".join(rng.choice(atoms) for _ in range(rng.randint(1, 5))))
        else:
            out.append("".join(rng.choice(alphabet) for _ in range(rng.randint(1, 7))).strip())
    return [text for text in out if " " not in text and ";" not in text]
# ---- end of shared C12 helpers ----
# ---- shared C13 helpers: watchdog and file-based assembly ----
import signal


class Watchdog(Exception):
    pass


def _alarm(signum, frame):
    raise Watchdog("timed out")


signal.signal(signal.SIGALRM, _alarm)


def guarded(fn, seconds=10):
    """Runs fn under a watchdog so that a non-terminating assembly shows up as a result, not as a hang."""
    def run():
        signal.setitimer(signal.ITIMER_REAL, seconds)
        try:
            return fn()
        except Watchdog:
            return {"timeout": True}
        finally:
            signal.setitimer(signal.ITIMER_REAL, 0)
    return run


def assemble_file(name):
    def run():
        with open(name) as handle:
            lines = handle.readlines()
        return assemble(lines)
    return guarded(run)


def project_case(label, files, main="main.asm", cli_args=("--print", "--symbols", "--to_bin", "out.bin", "--to_cas", "out.cas", "--to_dsk", "out.dsk")):
    """Library run and command line run of the same project directory."""
    work = fresh_dir(files)
    case(label + " [lib]", assemble_file(main), work)
    case(label + " [cli]", guarded(cli("assembler", [main] + list(cli_args))), work)
# ---- end of shared C13 helpers ----
# ---- cases for C13/l: Program.translate_statements() sizing sweep over statements_without_fixed_size(), origin/name scan, listing getters ----
def pcr_program(gaps, forms):
    """Labels L0..Ln separated by RMB gaps; between them PCR operands that point forwards and backwards."""
    lines = ["        ORG $4000\n"]
    count = len(gaps)
    for index, gap in enumerate(gaps):
        target_fwd = "L%d" % min(index + 1, count - 1)
        target_back = "L%d" % max(index - 1, 0)
        form = forms[index % len(forms)]
        lines.append("L%d      %s\n" % (index, form.replace("FWD", target_fwd).replace("BACK", target_back)))
        if index % 2:
            lines.append("        %s\n" % forms[(index + 1) % len(forms)].replace("FWD", target_fwd).replace("BACK", "L0"))
        lines.append("        RMB %d\n" % gap)
    return lines


FORMS = [
    ["LEAX FWD,PCR", "LDA BACK,PCR"],
    ["LEAX [FWD,PCR]", "LDB [BACK,PCR]", "LEAY FWD+1,PCR"],
    ["LDX FWD-1,PCR", "JMP BACK,PCR", "LEAU BACK+2,PCR", "STA [FWD+3,PCR]"],
    ["LBRA FWD", "BRA BACK", "LEAX FWD,PCR", "BSR FWD"],
]
for form_index, forms in enumerate(FORMS):
    for base in [0, 100, 118, 120, 121, 122, 123, 124, 125, 126, 127, 128, 129, 130, 131, 132, 140, 250, 255, 256]:
        for count in [2, 3, 6]:
            gaps = [base + (k % 3) - 1 if base else 0 for k in range(count)]
            lines = pcr_program(gaps, forms)
            case("pcr forms%d base%d count%d" % (form_index, base, count), guarded(lambda lines=lines: assemble(lines)))

rng = random.Random(77)
for index in range(60):
    gaps = [rng.choice([0, 1, 60, 119, 122, 123, 124, 125, 126, 127, 128, 129, 200]) for _ in range(rng.randint(2, 7))]
    lines = pcr_program(gaps, rng.choice(FORMS))
    case("pcr random %02d" % index, guarded(lambda lines=lines: assemble(lines)))

# failures inside the sizing sweep and around it
BROKEN = {
    "pcr to equ": ["K       EQU 5\n", "        LEAX K,PCR\n"],
    "pcr to undefined": ["        LEAX NOWHERE,PCR\n"],
    "pcr to expression of undefined": ["        LEAX NOWHERE+1,PCR\n"],
    "pcr self": ["HERE    LEAX HERE,PCR\n"],
    "pcr number": ["        LEAX 5,PCR\n", "        LEAX $1000,PCR\n", "        LEAX -5,PCR\n"],
    "pcr after org wrap": ["        ORG $FFF0\n", "A       LEAX B,PCR\n", "        RMB 100\n", "B       NOP\n"],
    "pcr two errors": ["        LEAX NOWHERE,PCR\n", "        LDA #\n"],
    "pcr with bad mode": ["A       ANDCC A,PCR\n"],
    "pcr divide": ["A       LEAX A/0,PCR\n"],
    "pcr multiply": ["        ORG $1000\n", "A       LEAX A*100,PCR\n"],
    "pcr label times label": ["A       LEAX A*A,PCR\n"],
    "pcr expression both numbers": ["A       LEAX 5+5,PCR\n", "        LEAX [300+5,PCR]\n"],
    "branch out of range": ["A       NOP\n", "        RMB 200\n", "        BRA A\n"],
    "branch forward out of range": ["        BRA A\n", "        RMB 200\n", "A       NOP\n"],
    "redefined": ["A       NOP\n", "A       NOP\n", "        LEAX A,PCR\n"],
    "fcb too big": ["        FCB 300\n"],
    "rmb symbol": ["        RMB NOWHERE\n"],
    "rmb negative": ["        RMB -1\n", "A       NOP\n"],
    "address overflow": ["        ORG $FFFF\n", "        LDX #1\n", "        NOP\n", "A       LEAX A,PCR\n"],
    "empty": [],
    "only comments": ["; one\n", "\n", "  ; two\n"],
}
for name, lines in BROKEN.items():
    case("broken " + name, guarded(lambda lines=lines: assemble(lines)))

# origin and name: last one wins, none leaves what was there
NAMING = {
    "no org no nam": ["        NOP\n"],
    "one org": ["        ORG $1000\n", "        NOP\n"],
    "two orgs": ["        ORG $1000\n", "        NOP\n", "        ORG $2000\n", "        NOP\n"],
    "org last": ["        NOP\n", "        ORG $3000\n"],
    "org symbol": ["BASE    EQU $2200\n", "        ORG BASE\n", "        NOP\n"],
    "org zero": ["        ORG 0\n", "        NOP\n"],
    "one nam": ["        NAM first\n", "        NOP\n"],
    "two nams": ["        NAM first\n", "        NOP\n", "        NAM second\n"],
    "nam empty": ["        NAM\n", "        NOP\n"],
    "nam then empty nam": ["        NAM first\n", "        NAM\n"],
    "nam and org mixed": ["        NAM a\n", "        ORG $100\n", "        NAM b\n", "        ORG $200\n", "        NOP\n"],
    "labelled org and nam": ["X       ORG $100\n", "Y       NAM z\n", "        JMP X\n"],
}
for name, lines in NAMING.items():
    case("naming " + name, guarded(lambda lines=lines: assemble(lines)))


def twice(first, second):
    def run():
        program = Program()
        out = []
        for lines in (first, second):
            try:
                program.process(lines)
                out.append([norm(program.origin), program.name, program.get_binary_array(), program.get_symbol_table(), program.get_statements()])
            except BaseException as error:      # noqa
                out.append(describe_error(error))
                out.append([norm(program.origin), program.name])
        return out
    return guarded(run)


case("twice: named+org then bare", twice(NAMING["nam and org mixed"], ["        NOP\n"]))
case("twice: bare then named+org", twice(["        NOP\n"], NAMING["nam and org mixed"]))
case("twice: org then other org", twice(NAMING["one org"], NAMING["two orgs"]))
case("twice: same labels", twice(["A       NOP\n"], ["A       NOP\n"]))
case("twice: error then fine", twice(["        LDA NOWHERE\n"], NAMING["one nam"]))
case("twice: fine then error", twice(NAMING["one nam"], ["        NAM other\n", "        LDA NOWHERE\n"]))
case("twice: pcr both", twice(pcr_program([126, 127, 128], FORMS[0]), pcr_program([10, 300], FORMS[1])))


def getters_before_process():
    program = Program()
    return [program.get_symbol_table(), program.get_statements(), program.get_binary_array(), program.all_sizes_fixed(), norm(program.origin), program.name]


case("getters on a fresh program", getters_before_process)


def sweep_by_hand(lines):
    def run():
        program = Program()
        program.statements = program.parse(lines)
        program.statements = program.process_mnemonics(program.statements)
        for index, statement in enumerate(program.statements):
            program.save_symbol(index, statement)
        for statement in program.statements:
            statement.resolve_symbols(program.symbol_table)
        for statement in program.statements:
            statement.translate()
        before = [s.fixed_size for s in program.statements]
        fixed = program.all_sizes_fixed()
        helper = getattr(program, "statements_without_fixed_size", None)
        open_ones = [i for i, s in enumerate(program.statements) if not s.fixed_size] if helper is None else [i for i, _ in helper()]
        return [before, fixed, open_ones]
    return run


case("open statements before the sweep", sweep_by_hand(pcr_program([126, 127, 128, 5], FORMS[2])))
case("open statements, none", sweep_by_hand(["        NOP\n", "        LDA #1\n"]))

# mutations of a valid program: every line deleted, duplicated, or with its operand removed
VALID = [
    "        NAM mutant\n", "        ORG $0E00\n", "COUNT   EQU 10\n", "START   LDX #TABLE\n", "        LDB #COUNT\n", "LOOP    LDA ,X+\n", "        STA [VEC,PCR]\n",
    "        LEAY TABLE,PCR\n", "        DECB\n", "        BNE LOOP\n", "        LBSR SUB\n", "        RTS\n", "SUB     PSHS A,B\n", "        TFR X,Y\n", "        PULS A,B,PC\n",
    "VEC     FDB $0400\n", "TABLE   FCB 1,2,3,4,5,6,7,8,9,10\n", "MSG     FCC \"DONE\"\n", "        RMB 120\n", "FARAWAY LEAX START,PCR\n", "        END START\n",
]
case("valid program", guarded(lambda: assemble(VALID)))
for index in range(len(VALID)):
    deleted = VALID[:index] + VALID[index + 1:]
    doubled = VALID[:index + 1] + VALID[index:]
    fields = VALID[index].split()
    stripped = VALID[:index] + [VALID[index].replace(fields[-1], "", 1)] + VALID[index + 1:]
    swapped = VALID[:index] + VALID[index + 1:index + 2] + [VALID[index]] + VALID[index + 2:]
    case("mutant delete %d" % index, guarded(lambda lines=deleted: assemble(lines)))
    case("mutant double %d" % index, guarded(lambda lines=doubled: assemble(lines)))
    case("mutant strip %d" % index, guarded(lambda lines=stripped: assemble(lines)))
    case("mutant swap %d" % index, guarded(lambda lines=swapped: assemble(lines)))

# and through the command line
project_case("cli valid", {"main.asm": "".join(VALID)})
project_case("cli pcr", {"main.asm": "".join(pcr_program([126, 127, 128, 129], FORMS[1]))})
project_case("cli broken", {"main.asm": "".join(BROKEN["pcr to undefined"])})
project_case("cli out of range", {"main.asm": "".join(BROKEN["branch out of range"])})
'''


def run_tree(tree):
    tree = os.path.realpath(tree)
    with tempfile.TemporaryDirectory(prefix="equiv_") as tmp:
        driver = os.path.join(tmp, "driver.py")
        with open(driver, "w") as handle:
            handle.write(PRELUDE + "\n" + CASES + "\nfinish()\n")
        scratch = os.path.join(tmp, "scratch")
        os.mkdir(scratch)
        env = dict(os.environ, PYTHONDONTWRITEBYTECODE="1", PYTHONHASHSEED="0")
        env.pop("PYTHONPATH", None)
        proc = subprocess.run(
            [sys.executable, "-B", driver, tree, scratch],
            cwd=tree, env=env, capture_output=True, text=True,
        )
        if proc.returncode != 0:
            print("driver failed in", tree)
            print(proc.stderr[-4000:])
            sys.exit(2)
        return json.loads(proc.stdout.splitlines()[-1])


def main():
    if len(sys.argv) != 3:
        print("usage: equiv.py <treeA> <treeB>")
        sys.exit(2)
    res_a = run_tree(sys.argv[1])
    res_b = run_tree(sys.argv[2])
    bad = 0
    if [r["name"] for r in res_a] != [r["name"] for r in res_b]:
        print("case lists differ")
        bad += 1
    for rec_a, rec_b in zip(res_a, res_b):
        if rec_a != rec_b:
            bad += 1
            print("DIFF in case", rec_a["name"])
            for key in sorted(set(rec_a) | set(rec_b)):
                if rec_a.get(key) != rec_b.get(key):
                    print("   ", key, ":", repr(rec_a.get(key))[:300], "!=", repr(rec_b.get(key))[:300])
    errors = sum(1 for r in res_a if "exc" in r or "exit" in r)
    print("%d cases compared (%d of them end in an exception/exit), %d differ" % (len(res_a), errors, bad))
    sys.exit(1 if bad else 0)


if __name__ == "__main__":
    main()
