#!/usr/bin/env python
"""
Differential check for a refactoring of the cassette reader/writer.

usage: equiv.py <treeA> <treeB>

Runs the same driver in one subprocess per tree (tree as cwd and at the front
of sys.path), collects every observable (tape bytes, listed files, printed
listings, exception type and message, CLI stdout / exit code / files written)
as JSON and compares the two results case by case.
"""
import json
import os
import subprocess
import sys
import tempfile

DRIVER = r'''
import sys, os, json, hashlib, random, subprocess, tempfile, shutil
tree = os.getcwd()
sys.path.insert(0, tree)
from cocoasm.virtualfiles.cassette import CassetteFile
from cocoasm.virtualfiles.coco_file import CoCoFile
from cocoasm.virtualfiles.virtual_file_container import VirtualFileContainer
from cocoasm.values import NumericValue, NoneValue

results = {}

def digest(seq):
    try:
        return [len(seq), hashlib.sha256(bytes(bytearray(seq))).hexdigest()]
    except Exception:
        return [len(seq), repr(list(seq))[:4000]]

def show_value(value):
    return [type(value).__name__, getattr(value, "int", None), value.hex() if hasattr(value, "hex") else None,
            getattr(value, "size_hint", None)]

def show_file(f):
    if f is None:
        return None
    return {"name": f.name, "ext": f.extension, "type": show_value(f.type), "data_type": show_value(f.data_type),
            "gaps": show_value(f.gaps), "load": show_value(f.load_addr), "exec": show_value(f.exec_addr),
            "data": digest(f.data), "str": str(f)}

def case(name, fn):
    try:
        results[name] = {"ok": fn()}
    except BaseException as error:
        results[name] = {"exc": type(error).__name__, "msg": str(error)}

def payload(kind, length, seed=0):
    if kind == "markers":
        pattern = [0x55, 0x3C, 0x00, 0x55, 0x3C, 0x01, 0x55, 0x3C, 0xFF, 0x00, 0x55]
        return [pattern[i % len(pattern)] for i in range(length)]
    if kind == "ff":
        return [0xFF] * length
    rnd = random.Random(seed * 7919 + length)
    return [rnd.randrange(256) for _ in range(length)]

def make(name, length, kind="random", ftype=2, dtype=0, load=0x0E00, exe=0x0E10, seed=0):
    return CoCoFile(name=name, extension="BIN", type=NumericValue(ftype), data_type=NumericValue(dtype),
                    load_addr=NumericValue(load), exec_addr=NumericValue(exe), data=payload(kind, length, seed))

LENGTHS = [0, 1, 2, 17, 253, 254, 255, 256, 257, 509, 510, 511, 512, 764, 765, 766, 1020, 1275, 4000, 65535]
NAMES = ["", "A", "HELLO", "EIGHTCHR", "NINECHARS", "TWELVECHARS!", "lower", "a.b", "X"]

# 1. write one file, read it back
def roundtrip(files, filenames=None):
    cas = CassetteFile()
    cas.add_files(files)
    buf = cas.get_buffer()
    listed = CassetteFile(buffer=list(buf)).list_files(filenames=filenames)
    return {"buffer": digest(buf), "head": list(buf[:300]) if len(buf) < 2000 else None,
            "files": [show_file(f) for f in listed]}

n = 0
for length in LENGTHS:
    for kind in ("random", "markers", "ff"):
        name = NAMES[n % len(NAMES)]
        ftype = n % 4
        dtype = 0xFF if n % 3 == 0 else 0
        load = [0, 1, 0xFF, 0x100, 0x0E00, 0x7FFF, 0x8000, 0xFFFF][n % 8]
        exe = [0xFFFF, 0x1234, 0, 0x00FF, 0x0100][n % 5]
        case("roundtrip len=%d kind=%s" % (length, kind),
             lambda: roundtrip([make(name, length, kind, ftype, dtype, load, exe, n)]))
        n += 1

# 2. several files on one tape, with and without a name filter
multi = [make("ONE", 10, seed=1), make("TWO", 255, "markers", 0, 0xFF), make("THREE", 600, "ff", 1),
         make("FOUR", 1, seed=4, ftype=3), make("", 510, seed=5), make("EMPTY", 0), make("LAST", 256, seed=6)]
case("multi all", lambda: roundtrip(multi))
case("multi filter", lambda: roundtrip(multi, filenames=["TWO     ", "LAST    ", "NOPE"]))
case("multi filter short names", lambda: roundtrip(multi, filenames=["TWO"]))
case("multi empty filter", lambda: roundtrip(multi, filenames=[]))
case("no files", lambda: roundtrip([]))

# 3. the data block writer on its own: gaps on/off, different sequence types
def blocks(data, **kw):
    cas = CassetteFile()
    cas.append_data_blocks(data, **kw)
    return {"buffer": digest(cas.get_buffer()), "all": list(cas.get_buffer()) if len(cas.get_buffer()) < 1500 else None}

for length in [0, 1, 254, 255, 256, 510, 511, 765, 800, 2000]:
    for gaps in (False, True):
        case("blocks len=%d gaps=%s" % (length, gaps), lambda: blocks(payload("random", length, 3), gaps=gaps))
case("blocks bytes", lambda: blocks(bytes(payload("random", 700, 9))))
case("blocks bytearray gaps", lambda: blocks(bytearray(payload("markers", 511, 9)), gaps=True))
case("blocks tuple", lambda: blocks(tuple(payload("ff", 300, 9))))
case("blocks big values", lambda: blocks([300, 1000, 70000] * 100))

def partial(data):
    cas = CassetteFile()
    try:
        cas.append_data_blocks(data)
    except BaseException as error:
        return {"exc": type(error).__name__, "msg": str(error), "buffer": list(cas.get_buffer())}
    return {"buffer": list(cas.get_buffer())}
case("blocks bad element", lambda: partial([1, 2, "x", 4]))
case("blocks bad element late", lambda: partial([1] * 256 + [None]))
case("blocks str", lambda: partial("hello"))
case("blocks none", lambda: partial(None))

# 4. the other writer pieces
def piece(method, *args):
    cas = CassetteFile()
    try:
        ret = getattr(cas, method)(*args)
    except BaseException as error:
        return {"exc": type(error).__name__, "msg": str(error), "buffer": list(cas.get_buffer())}
    return {"ret": ret, "buffer": list(cas.get_buffer())}
for name in NAMES + ["été", "€"]:
    case("append_name %r" % name, lambda: piece("append_name", name))
case("append_eof", lambda: piece("append_eof"))
case("append_leader", lambda: piece("append_leader"))
case("append_blank", lambda: piece("append_blank"))
case("append_header", lambda: piece("append_header", make("HDR", 3, load=0x1234, exe=0xABCD)))
case("append_header defaults", lambda: piece("append_header", CoCoFile(name="NOVALS")))
case("append_header no exec", lambda: piece("append_header", CoCoFile(name="X", type=NumericValue(2), data_type=NumericValue(0), load_addr=NumericValue(5))))
case("add_file defaults", lambda: piece("add_file", CoCoFile(name="NOVALS")))
case("add_file none", lambda: piece("add_file", None))

# 5. the reader on damaged / unusual streams
def read(buf, filenames=None):
    cas = CassetteFile(buffer=buf)
    return [show_file(f) for f in cas.list_files(filenames=filenames)]

tape = CassetteFile()
tape.add_files([make("FIRST", 300, "markers"), make("SECOND", 20, seed=2, ftype=0, dtype=0xFF)])
tape = list(tape.get_buffer())
cuts = sorted(set(list(range(0, len(tape), 37)) + list(range(120, 160)) + list(range(395, 430))
                  + list(range(len(tape) - 60, len(tape) + 1))))
for cut in cuts:
    case("truncated at %d" % cut, lambda: read(tape[:cut]))
case("as bytes", lambda: read(bytes(tape)))
case("as bytearray", lambda: read(bytearray(tape)))
case("as tuple", lambda: read(tuple(tape)))

def header(name=b"NAME    ", ftype=2, dtype=0, gaps=0, load=(0x12, 0x34), exe=(0x56, 0x78)):
    return [0x55, 0x3C, 0x00, 0x0F] + list(name) + [ftype, dtype, gaps] + list(load) + list(exe) + [0x00, 0x55]
def data_block(data, btype=0x01):
    return [0x55, 0x3C, btype, len(data)] + list(data) + [0x00, 0x55]
EOF_BLOCK = [0x55, 0x3C, 0xFF, 0x00, 0xFF, 0x55]
LEADER = [0x55] * 20

case("handmade plain", lambda: read(LEADER + header() + LEADER + data_block([1, 2, 3]) + EOF_BLOCK))
case("handmade gaps", lambda: read(LEADER + header(gaps=0xFF) + LEADER + data_block([1, 2, 3]) + [0] * 9 + LEADER + data_block([4, 5]) + [0] * 3 + EOF_BLOCK))
case("handmade no leader", lambda: read(header() + data_block([9]) + EOF_BLOCK))
case("handmade junk between", lambda: read([7, 7, 7] + header() + [1, 2, 3] + data_block([9, 8]) + [0x3C, 0x55] + EOF_BLOCK + [4, 4]))
case("handmade unknown block", lambda: read(header() + data_block([9], btype=0x02) + EOF_BLOCK))
case("handmade unknown block 7F", lambda: read(header() + data_block([9]) + data_block([1], btype=0x7F) + EOF_BLOCK))
case("handmade header type as data block", lambda: read(header() + data_block([1]) + data_block([1], btype=0x00) + EOF_BLOCK))
case("handmade no eof", lambda: read(header() + data_block([9])))
case("handmade no data", lambda: read(header() + EOF_BLOCK))
case("handmade no data then file", lambda: read(header() + EOF_BLOCK + header(name=b"SECOND  ") + data_block([5]) + EOF_BLOCK))
case("handmade header only", lambda: read(header()))
case("handmade empty data block", lambda: read(header() + data_block([]) + EOF_BLOCK))
case("handmade long length short data", lambda: read(header() + [0x55, 0x3C, 0x01, 0x10, 1, 2, 3]))
case("handmade eof cut", lambda: read(header() + data_block([1]) + [0x55, 0x3C, 0xFF]))
case("handmade eof cut2", lambda: read(header() + data_block([1]) + [0x55, 0x3C]))
case("handmade sync at very end", lambda: read(header() + data_block([1]) + [0x55, 0x3C, 0x01]))
case("handmade negative type", lambda: read(header() + data_block([1]) + [0x55, 0x3C, -1, 0, 0, 0]))
case("handmade negative one data", lambda: read(header() + [0x55, 0x3C, -255, 0x01, 7, 0, 0x55] + EOF_BLOCK))
case("handmade big type", lambda: read(header() + data_block([1]) + [0x55, 0x3C, 0x1FF, 0, 0, 0]))
case("handmade huge type", lambda: read(header() + data_block([1]) + [0x55, 0x3C, 70000, 0, 0, 0]))
case("handmade str type", lambda: read(header() + data_block([1]) + [0x55, 0x3C, "$FF", 0, 0, 0]))
case("handmade bad utf8 name", lambda: read(header(name=b"\xff\xfe      ") + data_block([1]) + EOF_BLOCK))
case("handmade basic ascii", lambda: read(header(ftype=0, dtype=0xFF) + data_block([65, 66]) + EOF_BLOCK))
case("handmade type 1", lambda: read(header(ftype=1) + data_block([65, 66]) + EOF_BLOCK))
case("handmade type 3", lambda: read(header(ftype=3) + data_block([65, 66]) + EOF_BLOCK))
case("handmade type big", lambda: read(header(ftype=0x102) + data_block([65, 66]) + EOF_BLOCK))
case("handmade type negative", lambda: read(header(ftype=-2) + data_block([65, 66]) + EOF_BLOCK))
case("handmade payload with markers", lambda: read(header() + data_block([0x55, 0x3C, 0xFF, 0x00, 0xFF, 0x55, 0x55, 0x3C, 0x00]) + EOF_BLOCK))
case("handmade two files filter", lambda: read(header() + data_block([1]) + EOF_BLOCK + header(name=b"OTHER   ") + data_block([2]) + EOF_BLOCK, filenames=["OTHER   "]))
case("empty buffer", lambda: read([]))
case("none buffer", lambda: read(None))
case("garbage", lambda: read(payload("random", 5000, 77)))
case("marker soup", lambda: read(payload("markers", 3000)))

# 6. reader primitives
def prim(buf, method, *args, **kw):
    cas = CassetteFile(buffer=buf)
    ret = getattr(cas, method)(*args, **kw)
    if isinstance(ret, tuple):
        return [show_value(x) if hasattr(x, "hex_len") else (show_file(x) if isinstance(x, CoCoFile) else x) for x in ret]
    return show_value(ret) if hasattr(ret, "hex_len") else ret
seqbuf = [1, 0x55, 0x3C, 0, 0x55, 0x55, 0x3C, 1, 0x55]
for start in range(0, 12):
    case("skip [55,3C] from %d" % start, lambda: prim(list(seqbuf), "skip_to_sequence", [0x55, 0x3C], start=start))
    case("skip [55,3C,00] from %d" % start, lambda: prim(list(seqbuf), "skip_to_sequence", [0x55, 0x3C, 0x00], start=start))
case("skip empty seq", lambda: prim(list(seqbuf), "skip_to_sequence", []))
case("skip long seq", lambda: prim([0x55], "skip_to_sequence", [0x55, 0x3C]))
case("skip negative start", lambda: prim(list(seqbuf), "skip_to_sequence", [0x55, 0x3C], start=-4))
case("skip in bytes", lambda: prim(bytes(seqbuf), "skip_to_sequence", [0x55, 0x3C]))
for pointer in (0, 1, 7, 8, 9, -1, -2):
    case("read_word %d" % pointer, lambda: prim(list(seqbuf), "read_word", pointer))
case("read_word short", lambda: prim([1], "read_word", 0))
case("read_name", lambda: prim(list(b"ABCDEFGHIJ"), "read_coco_file_name", 1))
case("read_name short", lambda: prim(list(b"ABCDEFGH"), "read_coco_file_name", 1))
case("read_file mid", lambda: prim(list(tape), "read_file", 200))
case("read_file end", lambda: prim(list(tape), "read_file", len(tape)))
case("read_blocks", lambda: prim(list(tape), "read_blocks", 150))
case("read_blocks none", lambda: prim([0] * 10, "read_blocks", 0))

# 7. the command line front end
def cli(argv, setup):
    work = tempfile.mkdtemp()
    try:
        for fname, content in setup.items():
            with open(os.path.join(work, fname), "wb") as handle:
                handle.write(bytes(bytearray(content)))
        proc = subprocess.run([sys.executable, os.path.join(tree, "file_util.py")] + argv, cwd=work,
                              stdout=subprocess.PIPE, stderr=subprocess.PIPE, universal_newlines=True,
                              env=dict(os.environ, PYTHONPATH=tree))
        produced = {}
        for fname in sorted(os.listdir(work)):
            with open(os.path.join(work, fname), "rb") as handle:
                produced[fname] = hashlib.sha256(handle.read()).hexdigest()
        err = proc.stderr.strip().splitlines()
        return {"rc": proc.returncode, "out": proc.stdout, "err": err[-1:] if err else [], "files": produced}
    finally:
        shutil.rmtree(work)

big = CassetteFile()
big.add_files(multi)
big = list(big.get_buffer())
case("cli list", lambda: cli(["in.cas", "--list"], {"in.cas": tape}))
case("cli list multi", lambda: cli(["in.cas", "--list"], {"in.cas": big}))
case("cli list truncated", lambda: cli(["in.cas", "--list"], {"in.cas": tape[:400]}))
case("cli list garbage", lambda: cli(["in.cas", "--list"], {"in.cas": payload("random", 900, 5)}))
case("cli list unknown block", lambda: cli(["in.cas", "--list"], {"in.cas": header() + data_block([9], btype=2) + EOF_BLOCK}))
case("cli list missing", lambda: cli(["nothere.cas", "--list"], {}))
case("cli to_cas", lambda: cli(["in.cas", "--to_cas", "out.cas"], {"in.cas": big}))
case("cli to_cas files", lambda: cli(["in.cas", "--to_cas", "out.cas", "--files", "two", "LAST"], {"in.cas": big}))
case("cli to_cas exists", lambda: cli(["in.cas", "--to_cas", "out.cas"], {"in.cas": big, "out.cas": tape}))
case("cli to_cas append", lambda: cli(["in.cas", "--to_cas", "out.cas", "--append"], {"in.cas": big, "out.cas": tape}))
case("cli to_bin", lambda: cli(["in.cas", "--to_bin", "out.bin"], {"in.cas": tape[:700]}))
case("cli to_dsk", lambda: cli(["in.cas", "--to_dsk", "out.dsk"], {"in.cas": big}))

json.dump(results, sys.stdout, sort_keys=True)
'''


def run(tree):
    tree = os.path.abspath(tree)
    with tempfile.NamedTemporaryFile("w", suffix=".py", delete=False) as handle:
        handle.write(DRIVER)
        script = handle.name
    try:
        env = dict(os.environ, PYTHONPATH=tree, PYTHONDONTWRITEBYTECODE="1")
        proc = subprocess.run([sys.executable, script], cwd=tree, env=env, stdout=subprocess.PIPE,
                              stderr=subprocess.PIPE, universal_newlines=True)
    finally:
        os.unlink(script)
    if proc.returncode != 0:
        print("driver failed in", tree)
        print(proc.stderr)
        sys.exit(1)
    return json.loads(proc.stdout)


def main():
    if len(sys.argv) != 3:
        print(__doc__)
        sys.exit(2)
    left, right = run(sys.argv[1]), run(sys.argv[2])
    bad = [name for name in sorted(set(left) | set(right)) if left.get(name) != right.get(name)]
    for name in bad:
        print("DIFFERENT:", name)
        print("   A:", json.dumps(left.get(name))[:600])
        print("   B:", json.dumps(right.get(name))[:600])
    errors = sum(1 for value in left.values() if "exc" in value)
    print("%d cases compared (%d of them error cases), %d differ" % (len(left), errors, len(bad)))
    sys.exit(1 if bad else 0)


if __name__ == "__main__":
    main()
