#!/usr/bin/env python
"""
Differential demonstration: runs the same set of cases against two source
trees (one subprocess per tree, the tree at the front of sys.path and as the
working directory) and compares every observable result.

usage: equiv.py <treeA> <treeB>      exit 0 = all cases agree, 1 = otherwise
"""
import json
import os
import subprocess
import sys

PYTHON = "/venv/bin/python" if os.path.exists("/venv/bin/python") else sys.executable

DRIVER_HEAD = r'''
import contextlib, enum, hashlib, io, json, os, shutil, subprocess, sys, tempfile
TREE = os.path.abspath(sys.argv[1])
PYTHON = sys.argv[2]
sys.path.insert(0, TREE)
os.chdir(TREE)
RESULTS = []


def norm(text):
    return str(text).replace(TREE, "<TREE>")


def show(obj, depth=0):
    """Canonical, address-free, JSON-able rendering of a result."""
    if depth > 20:
        return "<deep>"
    if obj is None or isinstance(obj, (bool, int, float)):
        return obj
    if isinstance(obj, str):
        return norm(obj)
    if isinstance(obj, (bytes, bytearray)):
        return {"bytes": bytes(obj).hex()}
    if isinstance(obj, enum.Enum):
        return str(obj)
    if isinstance(obj, dict):
        return {"dict": [[show(k, depth), show(v, depth)] for k, v in obj.items()]}
    if hasattr(obj, "_asdict"):
        if type(obj).__name__ in ("Instruction", "Mode") and depth > 0:
            return "<{} {}>".format(type(obj).__name__, getattr(obj, "mnemonic", ""))
        return {"nt": type(obj).__name__, "f": show(obj._asdict(), depth + 1)}
    if isinstance(obj, (list, tuple, set, frozenset)):
        items = list(obj)
        if len(items) > 600 and all(isinstance(i, int) and not isinstance(i, bool) for i in items):
            blob = ",".join(map(str, items)).encode()
            return {type(obj).__name__: len(items), "sha": hashlib.sha256(blob).hexdigest(),
                    "head": items[:24], "tail": items[-24:]}
        return {type(obj).__name__: [show(i, depth + 1) for i in items]}
    if hasattr(obj, "__dict__"):
        return {"obj": type(obj).__name__, "vars": show(vars(obj), depth + 1)}
    return norm(repr(obj))


def case(label, fn):
    out_buf, err_buf = io.StringIO(), io.StringIO()
    try:
        with contextlib.redirect_stdout(out_buf), contextlib.redirect_stderr(err_buf):
            value = fn()
        out = {"ok": show(value)}
    except SystemExit as error:
        out = {"exit": show(error.code)}
    except BaseException as error:
        out = {"exc": type(error).__name__, "msg": norm(error)}
    out["stdout"] = norm(out_buf.getvalue())
    out["stderr"] = norm(err_buf.getvalue())
    RESULTS.append([label, out])


def cli(tool, argv, files=None, keep=None):
    """
    Runs <TREE>/<tool> with argv inside a fresh temporary directory that first
    receives `files` (name -> str or bytes). Returns return code, stdout, the
    last line of stderr and name/size/sha256 of every file left behind.
    """
    work = keep or tempfile.mkdtemp(prefix="equiv")
    try:
        for name, content in (files or {}).items():
            mode = "wb" if isinstance(content, (bytes, bytearray)) else "w"
            with open(os.path.join(work, name), mode) as handle:
                handle.write(content)
        env = dict(os.environ, PYTHONPATH=TREE, PYTHONDONTWRITEBYTECODE="1", COLUMNS="80")
        done = subprocess.run([PYTHON, os.path.join(TREE, tool)] + list(argv), cwd=work, env=env,
                              capture_output=True, text=True, timeout=600)
        left = {}
        for name in sorted(os.listdir(work)):
            with open(os.path.join(work, name), "rb") as handle:
                blob = handle.read()
            left[name] = [len(blob), hashlib.sha256(blob).hexdigest()]
        err_lines = [line for line in done.stderr.splitlines() if line.strip()]
        return {"rc": done.returncode, "stdout": norm(done.stdout).replace(work, "<WORK>"),
                "stderr_last": norm(err_lines[-1]).replace(work, "<WORK>") if err_lines else "",
                "files": left}
    finally:
        if not keep:
            shutil.rmtree(work, ignore_errors=True)


def read_back(work, name):
    with open(os.path.join(work, name), "rb") as handle:
        return handle.read()

'''

DRIVER_TAIL = r'''
print("@@RESULTS@@" + json.dumps(RESULTS))
'''

DRIVER_PROGS = r'''
def program(size, org="$0E00", nam=None, end=None, seed=7):
    """Assembly source producing `size` pseudo-random bytes at `org`."""
    lines = []
    if nam is not None:
        lines.append("\tNAM {}".format(nam))
    if org is not None:
        lines.append("\tORG {}".format(org))
    lines.append("START\tNOP") if size > 0 else None
    state, left = seed, max(size - 1, 0)
    while left > 0:
        count = min(left, 24)
        values = []
        for _ in range(count):
            state = (state * 1103515245 + 12345) & 0x7FFFFFFF
            values.append("${:02X}".format((state >> 16) & 0xFF))
        lines.append("\tFCB {}".format(",".join(values)))
        left -= count
    if end is not None:
        lines.append("\tEND {}".format(end))
    return "\n".join(lines) + "\n"


def data_bytes(size, seed=3):
    state, out = seed, []
    for _ in range(size):
        state = (state * 1103515245 + 12345) & 0x7FFFFFFF
        out.append((state >> 16) & 0xFF)
    return out

'''

DRIVER_CASES = DRIVER_PROGS + r'''
from cocoasm.virtualfiles.cassette import CassetteFile
from cocoasm.virtualfiles.coco_file import CoCoFile
from cocoasm.virtualfiles.virtual_file import VirtualFile, VirtualFileType
from cocoasm.virtualfiles.source_file import SourceFile, SourceFileType
from cocoasm.values import NumericValue, AddressValue, NoneValue, StringValue, SymbolValue, Value


def header(coco_file, prefill=None, kind=CassetteFile):
    def run():
        cassette = kind(buffer=prefill) if prefill is not None else kind()
        try:
            returned = cassette.append_header(coco_file)
        except Exception as error:
            return ["raised", type(error).__name__, str(error), show(cassette.buffer)]
        return [show(returned), show(cassette.buffer)]
    return run


def coco(name="PROG", kind=2, data_type=0, load=0x0E00, execute=0x0E10, data=(1, 2, 3), **extra):
    wrap = lambda v: NumericValue(v) if isinstance(v, int) and not isinstance(v, bool) else v
    return CoCoFile(name=name, extension="bin", type=wrap(kind), data_type=wrap(data_type), load_addr=wrap(load),
                    exec_addr=wrap(execute), data=list(data), **extra)


# 1. names
for name in ("", "A", "AB", "SEVENCH", "EIGHTCHR", "NINECHARS", "twelve_chars", "lower", "Mi Xed", "\x00\x01", "é", "日本",
             "x" * 300, "   ", "12345678"):
    case("header name {!r}".format(name), header(coco(name=name)))
for name in (None, 5, b"BYTES", ["A", "B"], ("AB", "C"), ["AB"], [65, 66], ("A",) * 9, {"A": 1}):
    case("header name object {!r}".format(name), header(coco(name=name)))

# 2. file type, data type, gaps
for kind in (0, 1, 2, 3, 0x7F, 0x80, 0xFF, 0x100, 0xFFFF, -1, -200):
    for data_type in (0, 1, 0xFF, 0x1234, -1):
        case("header type {} data type {}".format(kind, data_type), header(coco(kind=kind, data_type=data_type)))
for label, value in {"none value": NoneValue(), "string": StringValue("/AB/"), "address": AddressValue(700),
                     "symbol": SymbolValue("X"), "hex": NumericValue("$FE"), "python none": None, "python int": 5,
                     "python str": "2"}.items():
    case("header type object " + label, header(coco(kind=value)))
    case("header data type object " + label, header(coco(data_type=value)))
    case("header load object " + label, header(coco(load=value)))
    case("header exec object " + label, header(coco(execute=value)))
    case("header all objects " + label, header(coco(kind=value, data_type=value, load=value, execute=value)))
case("header gaps set", header(coco(gaps=NumericValue(0xFF))))
case("header defaults", header(CoCoFile(name="DEFAULTS")))
case("header not a coco file", header(None))
case("header dict", header({"name": "X"}))

# 3. addresses: every byte pattern, and values of different widths and hints
for load in (0, 1, 0x7F, 0x80, 0xFF, 0x100, 0x101, 0x0E00, 0x7FFF, 0x8000, 0xFF00, 0xFFFF, -1, -256, -32768):
    for execute in (0, 0xFF, 0x100, 0xABCD, 0xFFFF, -2):
        case("header addresses {} {}".format(load, execute), header(coco(load=load, execute=execute)))
for label, make in {"hint 2 small": lambda: NumericValue(5, size_hint=2), "hint 4 small": lambda: NumericValue(5, size_hint=4),
                    "hint 2 large": lambda: NumericValue(0x1234, size_hint=2), "hint 6": lambda: NumericValue(0x1234, size_hint=6),
                    "hex 2": lambda: NumericValue("$0E"), "hex 4": lambda: NumericValue("$0E00"), "hex 3": lambda: NumericValue("$E00"),
                    "binary": lambda: NumericValue("%0000111000000000"), "char": lambda: NumericValue("'A"),
                    "negative text": lambda: NumericValue("-300"), "address 3 digits": lambda: AddressValue(0x123),
                    "address 5 digits": lambda: AddressValue(0x12345), "created": lambda: Value.create_from_str("$3F00"),
                    "long string": lambda: StringValue("/ABC/")}.items():
    case("header load " + label, header(coco(load=make())))
    case("header exec " + label, header(coco(execute=make())))

# 4. where the bytes go
case("header after other bytes", header(coco(), prefill=[9, 9, 9]))
case("header into bytearray", header(coco(), prefill=bytearray(b"abc")))
case("header into bytearray wide type", header(coco(kind=300), prefill=bytearray(b"abc")))
case("header into bytearray wide checksum ok", header(coco(name="\xff" * 8), prefill=bytearray(b"a")))
case("header into tuple", header(coco(), prefill=(1, 2)))


class Shouting(CassetteFile):
    def append_name(self, name):
        return super().append_name(name.upper())


class Silent(CassetteFile):
    def append_name(self, name):
        return 0


class Swapping(CassetteFile):
    def append_name(self, name):
        self.buffer = list(self.buffer) + [0x41] * 8
        return 8 * 0x41


case("header with shouting subclass", header(coco(name="quiet"), kind=Shouting))
case("header with silent subclass", header(coco(name="quiet"), kind=Silent))
case("header with buffer swapping subclass", header(coco(name="quiet"), kind=Swapping))


def twice():
    cassette = CassetteFile()
    cassette.append_header(coco("ONE", load=0x1000))
    cassette.append_header(coco("TWO", load=0x2000, kind=0))
    return cassette.buffer


case("header twice", twice)


# 5. whole images
def image(files):
    def run():
        cassette = CassetteFile()
        try:
            cassette.add_files(files)
        except Exception as error:
            return ["raised", type(error).__name__, str(error), show(cassette.buffer)]
        listed = safe_list(cassette.buffer)
        return [show(cassette.get_buffer()), listed]
    return run


def safe_list(buffer):
    try:
        return show(CassetteFile(buffer=list(buffer)).list_files())
    except Exception as error:
        return ["raised", type(error).__name__, str(error)]


for size in (0, 1, 254, 255, 256, 600, 5000):
    case("image size {}".format(size), image([coco(data=data_bytes(size), load=0x3000 + size, execute=0x3001)]))
case("image three files", image([coco("FIRST", data=data_bytes(10)), coco("SECOND", kind=0, data=data_bytes(300), load=0, execute=0),
                                 coco("THIRD", kind=1, data_type=0xFF, data=data_bytes(5), load=0xFFFF, execute=0xFFFF)]))
case("image second file broken", image([coco("FIRST", data=data_bytes(10)), coco(None), coco("THIRD")]))
case("image no files", image([]))


def saved(files, append=False, existing=None):
    def run():
        work = tempfile.mkdtemp(prefix="equiv")
        try:
            target = os.path.join(work, "out.cas")
            if existing is not None:
                with open(target, "wb") as handle:
                    handle.write(existing)
            virtual = VirtualFile(SourceFile(target, file_type=SourceFileType.BINARY), VirtualFileType.CASSETTE)
            try:
                virtual.open_virtual_file()
                for coco_file in files:
                    virtual.add_coco_file(coco_file)
                virtual.save_virtual_file(append_mode=append)
                outcome = "saved"
            except Exception as error:
                outcome = ["raised", type(error).__name__, str(error).replace(work, "<WORK>")]
            content = read_back(work, "out.cas") if os.path.exists(target) else None
            return [outcome, show(content)]
        finally:
            shutil.rmtree(work, ignore_errors=True)
    return run


case("saved one", saved([coco(data=data_bytes(300))]))
case("saved two", saved([coco("A"), coco("B", load=0x4000, execute=0x4004)]))
case("saved over existing", saved([coco("A")], existing=b"junk"))
case("saved appended", lambda: [saved([coco("A")])(), saved([coco("B")], append=True,
                                                            existing=bytes(CassetteFile().get_buffer()))()])


# 6. the command line tools
def assembled(size, org, nam="TAPE", end=None, extra=()):
    def run():
        work = tempfile.mkdtemp(prefix="equiv")
        try:
            steps = [cli("assembler.py", ["p.asm", "--to_cas", "p.cas"] + list(extra),
                         files={"p.asm": program(size, org=org, nam=nam, end=end)}, keep=work)]
            steps.append(show(read_back(work, "p.cas")) if os.path.exists(os.path.join(work, "p.cas")) else None)
            steps.append(cli("assembler.py", ["p.asm", "--to_cas", "p.cas", "--append"] + list(extra), keep=work))
            steps.append(cli("file_util.py", ["p.cas", "--list"], keep=work))
            steps.append(cli("file_util.py", ["p.cas", "--to_dsk", "p.dsk"], keep=work))
            steps.append(cli("file_util.py", ["p.dsk", "--to_cas", "q.cas"], keep=work))
            steps.append(show(read_back(work, "q.cas")) if os.path.exists(os.path.join(work, "q.cas")) else None)
            return steps
        finally:
            shutil.rmtree(work, ignore_errors=True)
    return run


for org in ("$0000", "$00FF", "$0100", "$0E00", "$7FFF", "$FF00", "$FFFE", None):
    case("cli org {}".format(org), assembled(40, org))
for size in (1, 255, 256, 2000):
    case("cli size {}".format(size), assembled(size, "$3F00", end="START"))
case("cli name switch", assembled(10, "$2000", nam=None, extra=["--name", "cliname"]))
case("cli no name", assembled(10, "$2000", nam=None))
case("cli long name", assembled(10, "$2000", nam="averylongname"))


# 7. the end of file block
def eof(prefill=None, times=1):
    def run():
        cassette = CassetteFile(buffer=prefill) if prefill is not None else CassetteFile()
        try:
            returned = [cassette.append_eof() for _ in range(times)]
        except Exception as error:
            return ["raised", type(error).__name__, str(error), show(cassette.buffer)]
        return [returned, show(cassette.buffer)]
    return run


case("eof", eof())
case("eof twice", eof(times=2))
case("eof after bytes", eof(prefill=[1, 2, 3]))
case("eof into bytearray", eof(prefill=bytearray(b"xy")))
case("eof into tuple", eof(prefill=(1, 2)))
case("eof into deque", lambda: (lambda c: [c.append_eof(), list(c.buffer)])(CassetteFile(buffer=__import__("collections").deque([7]))))
'''


def run_tree(tree):
    tree = os.path.abspath(tree)
    env = dict(os.environ, PYTHONDONTWRITEBYTECODE="1")
    done = subprocess.run([PYTHON, "-c", DRIVER_HEAD + DRIVER_CASES + DRIVER_TAIL, tree, PYTHON],
                          cwd=tree, env=env, capture_output=True, text=True)
    marker = done.stdout.rfind("@@RESULTS@@")
    if done.returncode != 0 or marker < 0:
        print("driver failed for", tree)
        print(done.stdout[-2000:])
        print(done.stderr[-4000:])
        sys.exit(1)
    return json.loads(done.stdout[marker + len("@@RESULTS@@"):])


def main():
    if len(sys.argv) != 3:
        print(__doc__)
        sys.exit(2)
    first, second = run_tree(sys.argv[1]), run_tree(sys.argv[2])
    bad = 0
    if [label for label, _ in first] != [label for label, _ in second]:
        print("case lists differ")
        bad += 1
    for (label, left), (_, right) in zip(first, second):
        if left != right:
            bad += 1
            print("DIFF in case", label)
            print("  A:", json.dumps(left)[:1500])
            print("  B:", json.dumps(right)[:1500])
    print("{} cases compared, {} differ".format(len(first), bad))
    sys.exit(1 if bad or len(first) < 30 else 0)


if __name__ == "__main__":
    main()
