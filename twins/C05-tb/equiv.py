#!/usr/bin/env python
"""
Differential demonstration: runs the same inputs through the code of two source
trees (one subprocess per tree, tree at the front of sys.path and as cwd) and
compares every observable result.

usage: equiv.py <treeA> <treeB>      exit 0 = all agree, 1 = some difference
"""
import json
import os
import subprocess
import sys
import tempfile

DRIVER = r'''
import sys, os, json, io, contextlib, tempfile, subprocess, hashlib
tree = os.path.abspath(sys.argv[1])
sys.path.insert(0, tree)
os.chdir(tree)
from cocoasm.program import Program
from cocoasm.instruction import INSTRUCTIONS
from cocoasm.statement import Statement
from cocoasm.values import *
from cocoasm.operands import *
from cocoasm import values as V, operands as O, statement as S, program as P


def describe_error(error):
    out = {"exc": type(error).__name__, "msg": str(error), "value": repr(getattr(error, "value", None))}
    statement = getattr(error, "statement", None)
    try:
        out["stmt"] = str(statement)
    except Exception as inner:
        out["stmt"] = "unprintable: {} {}".format(type(inner).__name__, inner)
    return out


def assemble(lines):
    program = Program()
    try:
        program.process(lines)
    except BaseException as error:
        return describe_error(error)
    out = {}
    for key, fn in (
        ("bin", program.get_binary_array),
        ("stmts", program.get_statements),
        ("syms", program.get_symbol_table),
        ("origin", lambda: [program.origin.hex(), program.origin.int, type(program.origin).__name__]),
        ("name", lambda: program.name),
        ("pkgs", lambda: [
            [s.code_pkg.size, s.code_pkg.max_size, s.code_pkg.address.hex(), s.code_pkg.op_code.hex(),
             s.code_pkg.post_byte.hex(), s.code_pkg.additional.hex(), s.code_pkg.additional_needs_resolution,
             list(s.code_pkg.post_byte_choices), s.fixed_size, s.pcr_size_hint, type(s.operand).__name__,
             s.operand.type.name, type(s.operand.value).__name__]
            for s in program.statements]),
    ):
        try:
            out[key] = fn()
        except BaseException as error:
            out[key] = describe_error(error)
    return out


def single_statement_programs():
    forms = [
        "", "#$12", "#$1234", "#0", "#255", "#256", "#65535", "#-1", "#-128", "#-129", "#%10101010", "#'A",
        "$12", "$1234", "<$12", ">$12", "<$1234", ">$1234", "0", "15", "255", "256", "65535", "65536", "-1",
        "%00001111", "%0000111100001111", "%0101", "$12345",
        "[$1234]", "[$12]", "[200]", "[,X]", "[,Y++]", "[,--U]", "[,S+]", "[,-X]", "[A,X]", "[B,Y]", "[D,U]",
        "[5,X]", "[-5,Y]", "[127,U]", "[128,S]", "[-128,X]", "[-129,X]", "[$1234,Y]", "[0,X]", "[10,PCR]",
        "[$1234,PCR]", "[3,X+]",
        ",X", ",Y", ",U", ",S", ",X+", ",X++", ",-Y", ",--Y", "0,U", "A,X", "B,Y", "D,S", "1,X", "15,X", "16,X",
        "-16,Y", "-17,Y", "127,U", "128,U", "-128,S", "-129,S", "255,X", "256,X", "$7FFF,X", "-32768,X", "$10,Y",
        "$0010,Y", "10,PCR", "$1234,PCR", "-3,PCR", "5,X+", "5,-X", "E,X", ",Q", "1,2,3",
        "A", "A,B", "X,Y", "A,X", "D,PC", "CC,DP", "Q,A", "A,B,X,Y", "CC,A,B,DP,X,Y,U,PC", "S", "U", "D,X", "S,U,PC",
        "@@", "1+2", "$10+$20", "300-1", "2*3", "9/3", "FOO",
    ]
    for instruction in INSTRUCTIONS:
        if instruction.is_include:
            continue
        for form in forms:
            yield ["  {} {}".format(instruction.mnemonic, form)]


PROGRAMS = [
    ["  NAM demo", "  ORG $0E00", "START LDA #$01", "  LDX #MSG", "LOOP LDA ,X+", "  BEQ DONE", "  JSR $A002",
     "  BRA LOOP", "DONE RTS", "MSG FCC \"HELLO\"", "  FCB 0", "  END START"],
    ["  ORG $3F00", "VAL EQU $20", "WVAL EQU $1234", "  LDA VAL", "  LDA WVAL", "  LDA <WVAL", "  LDA >VAL",
     "  STA VAL,X", "  STA WVAL,Y", "  LDD #WVAL", "  LDB #VAL", "  LEAX VAL,PCR", "  LDA [VAL,U]", "  LDA [WVAL]"],
    ["BEG NOP", "  LEAX BEG,PCR", "  LEAY FIN,PCR", "  LDA [FIN,PCR]", "  LDB [BEG,PCR]", "  LEAU BEG+1,PCR",
     "  LEAS FIN-1,PCR", "  NOP", "FIN RTS"],
    ["BEG NOP"] + ["  LDA $1234"] * 41 + ["  LEAX BEG,PCR", "  LEAX BEG,PCR", "  LEAY FIN,PCR"] + ["  NOP"] * 125
    + ["FIN RTS"],
    ["BEG NOP"] + ["  NOP"] * 122 + ["  LEAX BEG,PCR", "  LEAX FIN,PCR"] + ["  NOP"] * 126 + ["FIN RTS"],
    ["BEG NOP"] + ["  NOP"] * 123 + ["  LEAX BEG,PCR", "  LEAX FIN,PCR"] + ["  NOP"] * 127 + ["FIN RTS"],
    ["BEG NOP"] + ["  NOP"] * 124 + ["  LEAX BEG,PCR", "  LEAX FIN,PCR"] + ["  NOP"] * 128 + ["FIN RTS"],
    ["BEG NOP"] + ["  NOP"] * 121 + ["  LDA [BEG,PCR]", "  LDA [FIN,PCR]"] + ["  NOP"] * 124 + ["FIN RTS"],
    ["BEG NOP"] + ["  NOP"] * 125 + ["  BRA BEG", "  BRA FIN"] + ["  NOP"] * 127 + ["FIN RTS"],
    ["BEG NOP"] + ["  NOP"] * 126 + ["  BRA BEG"],
    ["BEG NOP"] + ["  NOP"] * 127 + ["  BRA BEG"],
    ["  BRA FIN"] + ["  NOP"] * 127 + ["FIN RTS"],
    ["  BRA FIN"] + ["  NOP"] * 128 + ["FIN RTS"],
    ["BEG NOP"] + ["  NOP"] * 300 + ["  LBRA BEG", "  LBEQ FIN", "  LBSR BEG"] + ["  NOP"] * 300 + ["FIN RTS"],
    ["  ORG $1000", "A1 FDB A2,$1234,7", "A2 FCB 1,2,3,$FF", "  FDB A1", "  FCB 300", "  RMB 4", "A3 JMP A3",
     "  JSR A1+2", "  LDX #A2-1", "  LDD A3*1", "  LDA A2/2"],
    ["  LDA FOO"],
    ["X1 EQU 5", "X1 EQU 6"],
    ["LBL NOP", "LBL NOP"],
    ["  LDA #LBL", "LBL NOP"],
    ["  LDA 1+FOO"],
    ["  XYZ 12"],
    ["garbage"],
    ["  FCC 'AB' trailing", "  FCC /X/", "  FCC"],
    ["  FCC"],
    ["  ORG $0100", "  NOP", "  ORG $0200", "  NOP", "T EQU *"],
    ["Q EQU $10", "R EQU Q+1", "  LDA R", "  LDA Q,X", "  LDA [Q,X]", "  LDA R,PCR"],
    ["V EQU 300", "W EQU -5", "  LDA V,X", "  LDA W,X", "  LDA [V,Y]", "  LDA [W,Y]", "  LEAX V,PCR",
     "  LEAX [W,PCR]"],
    ["; comment only", "", "   ; another", "  NOP ; with comment", "L2 NOP", "  BNE L2 ; back"],
    ["S1 LDA S2,X", "S2 NOP"],
    ["S1 LDA [S2,X]", "S2 NOP"],
    ["S1 LDA S2+1,X", "S2 NOP"],
    ["  ORG $FFF0", "P1 LEAX P1,PCR", "  LEAX P1-2,PCR", "  LEAX P1+$100,PCR"],
    ["  PSHS A,B", "  PULS A,B,PC", "  PSHU S,X", "  PULU D", "  TFR A,B", "  EXG X,D", "  TFR A,X", "  PSHS"],
]


def cli_cases():
    sources = [
        PROGRAMS[0], PROGRAMS[1], PROGRAMS[2], PROGRAMS[14], PROGRAMS[15], PROGRAMS[20], PROGRAMS[21],
        ["  ORG $2000", "GO LDA #1", "  STA $400", "  BRA GO"],
    ]
    out = []
    for number, lines in enumerate(sources):
        with tempfile.TemporaryDirectory() as folder:
            source = os.path.join(folder, "in.asm")
            with open(source, "w") as handle:
                handle.write("".join(line + " \n" for line in lines))
            target = os.path.join(folder, "out.bin")
            cas = os.path.join(folder, "out.cas")
            done = subprocess.run(
                [sys.executable, os.path.join(tree, "assembler.py"), source, "--print", "--symbols",
                 "--to_bin", target, "--to_cas", cas, "--name", "PROG"],
                cwd=tree, capture_output=True, text=True)
            files = {}
            for name in sorted(os.listdir(folder)):
                with open(os.path.join(folder, name), "rb") as handle:
                    files[name] = hashlib.sha256(handle.read()).hexdigest()
            out.append({
                "rc": done.returncode, "out": done.stdout.replace(folder, "<tmp>"),
                "err": done.stderr.replace(tree, "<tree>").replace(folder, "<tmp>").splitlines()[-1:],
                "files": files})
    return out


def call(fn):
    try:
        return repr(fn())
    except BaseException as error:
        return describe_error(error)


def unit_cases():
    """Direct calls into the refactored functions."""
    out = []
#UNIT#
    return out


results = {"single": [], "programs": [], "cli": cli_cases(), "unit": unit_cases()}
for lines in single_statement_programs():
    results["single"].append([lines, assemble(lines)])
for lines in PROGRAMS:
    results["programs"].append(assemble(lines))
    results["programs"].append(assemble([line + " " for line in lines]))
json.dump(results, sys.stdout)
'''

UNIT = r'''
    from cocoasm.values import AddressValue, ExpressionValue

    def show(item):
        if isinstance(item, str) or item is None:
            return item
        base = [type(item).__name__, item.hex(), item.hex(2), item.hex(size=4), item.hex_len(), item.byte_len(),
                item.int, item.type.name, item.explict_addressing_mode.name, item.size_hint, item.negative,
                item.ascii(), item.resolved, item.is_8_bit(), item.is_16_bit(), str(item)]
        base.append(getattr(item, "hex_array", None))
        inner = getattr(item, "value", None)
        base.append(inner if isinstance(inner, (str, type(None))) else type(inner).__name__)
        return base

    texts = ["1,2", "1,2,3", "$FF,$100", "1,", ",1", ",", ",,", "1,,2", "'A,'B", "%00000001,2", "-1,-128", "-129,1",
             "65535,65536", "1,X", "A,B", "1", "", "$1234,$5678", "255,256", "1, 2", "S,1", "$12345,1",
             "'abc'", "/abc/", "''", "'", "'a", "a'", "\"q\"", "'a b'", "'\t'", "'\x01\x0f'", "xabcx", "ab",
             "é1é", "abc", "A", "a@b", "@", "a_b", "a b", "a+b", "1a", "$a", "", "ABCDEFGHIJKLMNOP", "Ω"]
    for text in texts:
        out.append(call(lambda: show(MultiByteValue(text))))
        out.append(call(lambda: show(MultiWordValue(text))))
        out.append(call(lambda: show(StringValue(text))))
        out.append(call(lambda: show(SymbolValue(text))))
        out.append(call(lambda: show(SymbolValue(text, mode=ExplicitAddressingMode.IMMEDIATE))))
        out.append(call(lambda: show(Value.create_from_str(text))))
    out.append(call(lambda: show(StringValue(None))))
    out.append(call(lambda: show(SymbolValue(None))))
    out.append(call(lambda: show(MultiByteValue(None))))
    table = {"N": NumericValue(5), "A": AddressValue(3), "S": StringValue("'x'"), "E": NumericValue("$0012")}
    for name in ("N", "A", "S", "E", "MISSING"):
        out.append(call(lambda: show(SymbolValue(name).resolve(table))))
    for number in (0, 1, 9, 10, 15, 16, 255, 256, 4095, 4096, 65535, 65536, 1048576, "7", "0012", -1, -16, -255):
        for size in (0, 1, 2, 3, 4, 5, 8):
            out.append(call(lambda: [AddressValue(number).hex(size), AddressValue(number).hex(size=size)]))
        out.append(call(lambda: show(AddressValue(number))))
        out.append(call(lambda: show(AddressValue(number, mode=ExplicitAddressingMode.EXTENDED))))
    for bad in ("x", None, 1.5, "$10"):
        out.append(call(lambda: show(AddressValue(bad))))

    def padded(lines):
        return [line + " " for line in lines]

    positions = ["  LDA #{}", "  LDX #{}", "  LDA {}", "  LDA <{}", "  LDA >{}", "  LDA [{}]", "  LDA {},X", "  LDA [{},Y]",
                 "  LEAX {},PCR", "  LDA [{},PCR]", "  FCB {}", "  FDB {}", "  FCB 1,{}", "  FDB {},2", "  RMB {}",
                 "  JMP {}", "  BRA {}", "Q EQU {}"]
    terms = ["K", "W", "L1", "L2", "K+1", "1+K", "W-K", "K-W", "K*K", "W/K", "K/0", "L1+1", "L2-1", "1+L2", "L2-L1",
             "L1*2", "L2/2", "W*W", "$FF+1", "255+1", "'A+1", "%00000001+1", "$0001+1", "NONE", "NONE+1", "65535+K"]
    for position in positions:
        for term in terms:
            program = ["  ORG $1000", "K EQU 5", "L1 NOP", position.format(term), "  NOP", "L2 RTS", "W EQU $0300"]
            out.append(assemble(padded(program)))
    import string
    bodies = ["", "a", "ab", "a b", "a  b", "  a", "a  ", " ", "   ", "a;b", ";", "; ;", "a,b", "a'b", "a\"b", "a/b", "#$%&()*+-.",
              ":<=>?@[]^_`{|}~", "0123456789", "HELLO WORLD", "hello, world; bye", "x" * 40, "a b " * 20, "tab\there",
              "a;b c;d", "1 2 3", "é", "a\\b"]
    for delimiter in ["'", '"', "/", "!", "|", ",", "#", "$", "A", "1", ";", " ", "(", "."]:
        for body in bodies:
            for suffix in ["", " ", " trailing", " ; comment", "  two  spaces", ";x", " " + delimiter, delimiter]:
                for label in ["", "MSG"]:
                    line = "{}  FCC {}{}{}{}".format(label, delimiter, body, delimiter, suffix)
                    outcome = assemble([line])
                    out.append(outcome)
    for line in ["  FCC", "  FCC ", "  FCC  ", "  FCC '", "  FCC ' ", "  FCC 'a", "  FCC 'a ", "  FCC a'", "  FCC ; c",
                 "  FCC ;", "  fcc 'lower' ", "L FCC 'x' ", "  FCC 'a' ; 'b' ", "  FCC 'a''b' ", "  FCC  'a' "]:
        out.append(assemble([line]))
        out.append(assemble(["  ORG $600 ", line, "E FCB 1 "]))

    elements = ["0", "1", "255", "256", "65535", "65536", "-1", "-128", "-129", "-32768", "-32769", "$F", "$FF", "$100", "$FFFF",
                "$12345", "%00000001", "%0000000100000001", "%1", "'A", "';", "SYM", "LBL", "1+1", "", " ", "X"]
    for directive in ("FCB", "FDB"):
        for first in elements:
            out.append(assemble(["SYM EQU 5 ", "LBL  {} {} ".format(directive, first)]))
            for second in elements:
                out.append(assemble(["SYM EQU 5 ", "LBL  {} {},{} ".format(directive, first, second)]))
        for length in (1, 2, 3, 16, 64):
            values = ",".join(str((index * 37) % 256) for index in range(length))
            out.append(assemble(["  {} {} ".format(directive, values), "  {} {}, ".format(directive, values),
                                 "  {} ,{} ".format(directive, values)]))
    for count in ["0", "1", "2", "255", "256", "1000", "65535", "65536", "-1", "$10", "SYM", "1+1", "", "1,2"]:
        out.append(assemble(["SYM EQU 3 ", "  ORG $100 ", "  RMB {} ".format(count), "E FCB 1 "]))
'''


def run(tree):
    with tempfile.NamedTemporaryFile("w", suffix=".py", delete=False) as handle:
        handle.write(DRIVER.replace("#UNIT#", UNIT))
        driver = handle.name
    try:
        done = subprocess.run([sys.executable, driver, tree], capture_output=True, text=True, cwd=tree,
                              env=dict(os.environ, PYTHONDONTWRITEBYTECODE="1", PYTHONHASHSEED="0"))
    finally:
        os.unlink(driver)
    if done.returncode != 0:
        print("driver failed for", tree)
        print(done.stderr[-3000:])
        sys.exit(1)
    return json.loads(done.stdout)


def main():
    if len(sys.argv) != 3:
        print(__doc__)
        sys.exit(2)
    first, second = run(os.path.abspath(sys.argv[1])), run(os.path.abspath(sys.argv[2]))
    differences = 0
    total = 0
    for section in first:
        total += len(first[section])
        if len(first[section]) != len(second[section]):
            print("section", section, "has different lengths")
            differences += 1
            continue
        for number, (left, right) in enumerate(zip(first[section], second[section])):
            if left != right:
                differences += 1
                if differences <= 10:
                    print("DIFF in", section, number)
                    print("  A:", json.dumps(left)[:600])
                    print("  B:", json.dumps(right)[:600])
    print("{} cases compared, {} differences".format(total, differences))
    sys.exit(1 if differences else 0)


if __name__ == "__main__":
    main()
