#!/venv/bin/python
"""
Differential check for property C02 (listing addresses, symbol values and the
emitted image agree).

usage: equiv.py <treeA> <treeB>

Every case is run in a separate interpreter per tree (the tree is put at the
front of sys.path, cwd is a scratch directory holding the INCLUDE files).  All
observable results are serialised to JSON and compared: emitted bytes, listing
lines, symbol table lines, origin / name, per statement code package fields,
exception type + message + offending statement, CLI stdout / stderr / exit code
and the bytes of the files the CLI writes.  Exit 0 when both trees agree on
every case, 1 otherwise.
"""
import json
import os
import subprocess
import sys
import tempfile

PY = sys.executable or "/venv/bin/python"

NOPS = ["    NOP"] * 130
NOPS255 = ["    NOP"] * 255

# --------------------------------------------------------------------------
# whole programs (Program.process)
# --------------------------------------------------------------------------
PROGRAMS = {
    "empty": [],
    "comments_only": ["; nothing", "", "   ; indented comment"],
    "star_comment": ["* star comment", "    NOP"],
    "no_trailing_space": ["    NOP"],
    "inherent_only": ["    NOP", "    RTS", "    SWI2", "    ABX"],
    "org_simple": ["    ORG $0E00", "START LDA #$01", "    STA $0400", "    RTS", "    END START"],
    "org_low": ["    ORG $0010", "A1 LDA <$20", "B1 LDB >$20", "C1 JMP A1"],
    "org_zero": ["    ORG 0", "L0 NOP", "L1 NOP", "    JMP L1"],
    "org_max": ["    ORG $FFFE", "LA NOP", "LB NOP", "LC NOP"],
    "org_65535": ["    ORG 65535", "LA FCB 1", "LB FCB 2"],
    "no_org": ["BEGIN LDX #BEGIN", "MID LDY #END1", "END1 RTS"],
    "two_orgs": ["    ORG $1000", "P1 LDA #1", "    ORG $2000", "P2 LDB #2", "    JMP P1", "    JMP P2"],
    "code_before_org": ["Q1 LDA #1", "Q2 LDB #2", "    ORG $3000", "Q3 JMP Q1", "Q4 JMP Q3"],
    "org_backwards": ["    ORG $2000", "R1 NOP", "    ORG $1000", "R2 NOP", "    LDX #R1", "    LDX #R2"],
    "labelled_org": ["BASE ORG $4000", "S1 LDX #BASE", "    LDD BASE"],
    "nam_and_org": ["    NAM HELLO", "    ORG $0600", "H1 LDA #'A", "    END H1"],
    "two_names": ["    NAM FIRST", "    NAM SECOND", "    ORG $0700", "    NOP"],
    "equ_values": ["SCREEN EQU $0400", "ZP EQU $20", "TEN EQU 10", "    ORG $0E00",
                   "    LDA ZP", "    STA SCREEN", "    LDB #TEN", "X1 LDX #SCREEN", "    JMP X1"],
    "equ_after_use": ["    ORG $1200", "    LDA VAL", "    LDX #BIG", "VAL EQU $33", "BIG EQU $1234", "T RTS"],
    "equ_char_bin": ["CH EQU 'Z", "BN EQU %00001010", "    LDA #CH", "    LDB #BN", "LL RTS"],
    "dup_label": ["AGAIN NOP", "    NOP", "AGAIN RTS"],
    "dup_label_equ": ["V EQU 1", "V EQU 2", "    LDA #V"],
    "dup_label_equ_code": ["W NOP", "W EQU 2"],
    "undefined_symbol": ["    ORG $100", "    LDA NOWHERE", "    RTS"],
    "undefined_branch": ["    BRA NOWHERE"],
    "undefined_in_expr": ["OK EQU 1", "    LDA #OK+MISSING"],
    "bad_mnemonic": ["    FOO #1"],
    "bad_line": ["!!!"],
    "imm_not_supported": ["    STA #1"],
    "inh_requires_operand": ["    LDA"],
    "inh_with_operand": ["    NOP 1"],
    "ext_not_supported": ["    LEAX $1234"],
    "dir_not_supported": ["    LEAX <$12"],
    "fcb_single": ["    ORG $2000", "D1 FCB $FF", "D2 FCB 0", "D3 FCB 'A", "D4 RTS"],
    "fdb_symbols_multi": ["A NOP", "T FDB A,A"],
    "fcb_bad_binary": ["M1 FCB 1,%101", "M2 NOP"],
    "fcb_multi": ["    ORG $2100", "M1 FCB 1,2,3,$FF,%00000101", "M2 FCB 9,8", "M3 RTS", "    LDX #M3"],
    "fdb_single": ["    ORG $2200", "W1 FDB $1234", "W2 FDB 1", "W3 FDB W1", "W4 RTS"],
    "fdb_multi": ["    ORG $2300", "N1 FDB $1,$22,$333,$4444", "N2 FDB 0,65535", "N3 RTS", "    LDX #N3"],
    "fcc_strings": ["    ORG $2400", "S1 FCC \"HELLO\"", "S2 FCC /A B C/", "S3 FCC 'x'", "S4 RTS", "    LDX #S4"],
    "fcc_empty": ["E1 FCC \"\"", "E2 NOP"],
    "fcc_no_operand": ["E1 FCC"],
    "rmb_none": ["A RMB", "B NOP", "    LDX #B"],
    "fcb_none": ["A FCB", "B NOP"],
    "fdb_none": ["A FDB", "B NOP"],
    "org_none": ["    ORG", "B NOP", "    LDX #B"],
    "fcb_word_value": ["    ORG $2600", "A FCB $1234", "B NOP", "    LDX #B"],
    "fcb_negative": ["A FCB -1", "B NOP"],
    "fdb_negative": ["A FDB -2", "B NOP"],
    "rmb_negative": ["A RMB -2", "B NOP"],
    "fcb_label": ["    ORG $2700", "A FCB B", "B NOP", "    LDX #B"],
    "fdb_fwd_label": ["    ORG $2800", "A FDB C", "B FDB A", "C NOP", "    LDX #C"],
    "fdb_equ": ["K EQU $1234", "S EQU 7", "A FDB K", "B FDB S", "C FCB S", "D NOP", "    LDX #D"],
    "rmb_hex_256": ["    ORG $00F0", "A RMB $100", "B NOP", "    LDX #B"],
    "data_after_org_chain": ["    ORG $10", "A FCB 1", "    ORG $20", "B FDB 2", "    ORG $30", "C FCC /xyz/", "D RMB 2", "E NOP", "    LDX #E"],
    "rmb_sizes": ["    ORG $2500", "B0 RMB 0", "B1 RMB 1", "B2 RMB 2", "B16 RMB $10", "AFTER RTS", "    LDX #AFTER"],
    "rmb_big": ["    ORG $0100", "BUF RMB 300", "TAIL NOP", "    LDX #TAIL", "    LDY #BUF"],
    "rmb_symbol": ["LEN EQU 5", "BUF RMB LEN", "TAIL NOP"],
    "setdp_end": ["    SETDP $0E", "    ORG $0E00", "G LDA <$10", "    END G"],
    "stack_ops": ["    PSHS A,B,X", "L1 PULS A,B,X,PC", "L2 PSHU D,Y,S", "L3 PULU CC,DP", "L4 RTS"],
    "stack_bad_own": ["    PSHS S"],
    "stack_bad_reg": ["    PSHU Q"],
    "stack_none": ["    PULS"],
    "exg_tfr": ["    EXG A,B", "T1 TFR X,Y", "T2 TFR D,U", "T3 EXG CC,DP", "T4 TFR S,PC", "T5 RTS"],
    "tfr_bad_mix": ["    TFR A,X"],
    "tfr_three": ["    TFR A,B,X"],
    "tfr_unknown": ["    EXG A,Q"],
    "short_branches": ["    ORG $3000", "TOP NOP", "    BEQ TOP", "    BNE FWD", "    BRA TOP", "    NOP", "FWD RTS", "    BSR TOP"],
    "long_branches": ["    ORG $3100", "TOP NOP", "    LBEQ TOP", "    LBNE FWD", "    LBRA TOP", "    LBSR FWD", "FWD RTS"],
    "branch_fwd_127": ["    BRA FAR"] + ["    NOP"] * 127 + ["FAR RTS"],
    "branch_fwd_128": ["    BRA FAR"] + ["    NOP"] * 128 + ["FAR RTS"],
    "branch_back_126": ["BACK NOP"] + ["    NOP"] * 125 + ["    BRA BACK", "Z RTS"],
    "branch_back_127": ["BACK NOP"] + ["    NOP"] * 126 + ["    BRA BACK", "Z RTS"],
    "branch_back_128": ["BACK NOP"] + ["    NOP"] * 127 + ["    BRA BACK", "Z RTS"],
    "lbra_far": ["    ORG $4000", "    LBRA FAR"] + NOPS255 + ["FAR RTS", "    LBRA FAR"],
    "direct_extended": ["    ORG $0E00", "    LDA $20", "    LDA $0020", "    LDA <$20", "    LDA >$20", "    LDA 32", "    LDA 300", "L RTS"],
    "imm_sizes": ["    LDA #$01", "    LDD #$0001", "    LDX #1", "    LDY #$FFFF", "    CMPU #2", "    ANDCC #$EF", "L RTS"],
    "jmp_jsr_labels": ["    ORG $5000", "    JSR SUB", "    JMP DONE", "SUB RTS", "DONE RTS", "    LDX #SUB", "    LDD DONE"],
    "idx_basic": ["    LDA ,X", "    LDA ,Y", "    LDA ,U", "    LDA ,S", "    LDA 0,X", "L RTS"],
    "idx_autoinc": ["    LDA ,X+", "    LDA ,X++", "    LDA ,-Y", "    LDA ,--Y", "    STB ,U++", "    STB ,--S", "L RTS"],
    "idx_acc": ["    LDA A,X", "    LDA B,Y", "    LDX D,U", "    LEAX D,S", "L RTS"],
    "idx_off_5bit": ["    LDA 1,X", "    LDA 15,Y", "    LDA -1,U", "    LDA -16,S", "L RTS"],
    "idx_off_8bit": ["    LDA 16,X", "    LDA 127,Y", "    LDA -17,U", "    LDA -128,S", "    LDA $7F,X", "L RTS"],
    "idx_off_16bit": ["    LDA 128,X", "    LDA 255,Y", "    LDA 256,X", "    LDA $1234,Y", "    LDA -129,U", "    LDA -300,S", "    LDA 65535,X", "L RTS"],
    "idx_off_hexwidth": ["    LDA $01,X", "    LDA $001,X", "    LDA $0001,X", "    LDA $10,X", "    LDA $0010,X", "L RTS"],
    "idx_symbol_equ": ["OFF EQU 5", "BIG EQU $200", "MID EQU $40", "    LDA OFF,X", "    LDA BIG,Y", "    LDA MID,U", "L RTS"],
    "idx_symbol_addr": ["    ORG $6000", "TBL FCB 1,2,3", "    LDA TBL,X", "L RTS", "    LDX #L"],
    "idx_expr": ["K EQU 4", "    LDA K+1,X", "    LDA K*2,Y", "L RTS"],
    "idx_plus_with_offset": ["    LDA 1,X+"],
    "idx_minus_with_offset": ["    LDA 2,-X"],
    "idx_pcr_const": ["    STX 1,PCR", "    STX 258,PCR", "    STX $10,PCR", "    STX $0010,PCR", "L RTS"],
    "idx_pcr_fwd_short": ["    ORG $7000", "B LEAX Z,PCR", "    LDA $FF", "Z RTS", "    LDX #Z"],
    "idx_pcr_back_short": ["    ORG $7100", "Z RTS", "    LDA $FF", "B LEAX Z,PCR", "C RTS", "    LDX #C"],
    "idx_pcr_fwd_long": ["    ORG $7200", "B LEAX Z,PCR", "    LDA $FF"] + NOPS255 + ["Z RTS", "    LDX #Z"],
    "idx_pcr_back_long": ["    ORG $7300", "Z RTS", "    LDA $FF"] + NOPS255 + ["B LEAX Z,PCR", "C RTS", "    LDX #C"],
    "idx_pcr_edge_fwd": ["B LEAX Z,PCR"] + ["    NOP"] * 124 + ["Z RTS", "    LDX #Z"],
    "idx_pcr_edge_fwd2": ["B LEAX Z,PCR"] + ["    NOP"] * 125 + ["Z RTS", "    LDX #Z"],
    "idx_pcr_edge_fwd3": ["B LEAX Z,PCR"] + ["    NOP"] * 126 + ["Z RTS", "    LDX #Z"],
    "idx_pcr_edge_back": ["Z RTS"] + ["    NOP"] * 123 + ["B LEAX Z,PCR", "C RTS", "    LDX #C"],
    "idx_pcr_edge_back2": ["Z RTS"] + ["    NOP"] * 124 + ["B LEAX Z,PCR", "C RTS", "    LDX #C"],
    "idx_pcr_edge_back3": ["Z RTS"] + ["    NOP"] * 125 + ["B LEAX Z,PCR", "C RTS", "    LDX #C"],
    "idx_pcr_two": ["    ORG $7400", "A1 LEAX Z,PCR", "A2 LEAY A1,PCR"] + ["    NOP"] * 120 + ["Z RTS", "    LDX #Z"],
    "idx_pcr_addr_expr": ["    ORG $7500", "B LEAX Z+1,PCR", "    LDA $FF", "Z RTS", "    LDX #Z"],
    "idx_pcr_sty": ["V FCB 0", "    LDA $FF", "    STY V,PCR", "L RTS", "    LDX #L"],
    "ind_basic": ["    LDA [,X]", "    LDA [,Y]", "    LDA [,U]", "    LDA [,S]", "    LDA [0,X]", "L RTS"],
    "ind_autoinc": ["    LDA [,X++]", "    LDA [,--Y]", "L RTS"],
    "ind_single_inc": ["    LDA [,X+]"],
    "ind_single_dec": ["    LDA [,-X]"],
    "ind_acc": ["    LDA [A,X]", "    LDA [B,Y]", "    LDX [D,U]", "L RTS"],
    "ind_off_8bit": ["    LDA [1,X]", "    LDA [15,Y]", "    LDA [127,Y]", "    LDA [-1,U]", "    LDA [-128,S]", "L RTS"],
    "ind_off_16bit": ["    LDA [128,X]", "    LDA [$1234,Y]", "    LDA [-129,U]", "    LDA [256,S]", "L RTS"],
    "ind_off_hexwidth": ["    LDA [$01,X]", "    LDA [$0001,X]", "L RTS"],
    "ind_extended": ["    ORG $7600", "    LDA [$1234]", "    LDA [$12]", "    LDX [PTR]", "PTR FDB $4000", "L RTS", "    LDX #L"],
    "ind_ext_equ": ["VEC EQU $FFFE", "SM EQU $10", "    JMP [VEC]", "    JMP [SM]", "L RTS"],
    "ind_symbol": ["OFF EQU 5", "BIG EQU $200", "    LDA [OFF,X]", "    LDA [BIG,Y]", "L RTS"],
    "ind_symbol_addr": ["    ORG $7700", "TBL FDB 1,2", "    LDA [TBL,X]", "L RTS", "    LDX #L"],
    "ind_plus_with_offset": ["    LDA [1,X++]"],
    "ind_pcr_const": ["    STX [1,PCR]", "    STX [258,PCR]", "L RTS"],
    "ind_pcr_fwd_short": ["    ORG $7800", "B LEAX [Z,PCR]", "    LDA $FF", "Z RTS", "    LDX #Z"],
    "ind_pcr_back_long": ["    ORG $7900", "Z RTS", "    LDA $FF"] + NOPS255 + ["B LEAX [Z,PCR]", "C RTS", "    LDX #C"],
    "ind_pcr_fwd_long": ["    ORG $7A00", "B LDX [Z,PCR]", "    LDA $FF"] + NOPS255 + ["Z RTS", "    LDX #Z"],
    "ind_addr_expr": ["    ORG $7C00", "    LDA [L+1]", "L RTS", "    LDX #L"],
    "ind_equ_expr": ["K EQU $1000", "    LDA [K+1]", "L RTS", "    LDX #L"],
    "idx_two_regs_ys": ["    LDA 1,YS", "L RTS", "    LDX #L"],
    "idx_two_regs_xy": ["    LDA ,XY", "L RTS", "    LDX #L"],
    "idx_two_regs_us": ["    LDA A,US", "L RTS", "    LDX #L"],
    "ind_two_regs_ys": ["    LDA [1,YS]", "L RTS", "    LDX #L"],
    "idx_pc_offset": ["    LDA 5,PC", "L RTS", "    LDX #L"],
    "idx_pcr_no_offset": ["    LDA ,PCR", "L RTS", "    LDX #L"],
    "idx_pcr_acc": ["    LDA D,PCR", "    LDA [A,PCR]", "L RTS", "    LDX #L"],
    "idx_no_reg": ["    LDA 5,", "L RTS", "    LDX #L"],
    "idx_lower_reg": ["    LDA 5,x", "L RTS", "    LDX #L"],
    "idx_acc_lower": ["    LDA a,X", "L RTS", "    LDX #L"],
    "idx_acc_each": ["    ORG $7D00", "    LDA A,X", "    LDA A,Y", "    LDA A,U", "    LDA A,S", "    LDA B,X", "    LDA B,S", "    LDD D,X", "    LDD D,Y", "    LDD [D,S]", "    LDD [A,U]", "    LDD [B,Y]", "L RTS", "    LDX #L"],
    "ind_not_supported": ["    ORCC [,X]"],
    "idx_not_supported": ["    ANDCC ,X"],
    "page2_page3": ["    ORG $7B00", "    LDY #1", "    LDS #2", "    CMPD #3", "    CMPU $10", "    CMPS $1234", "    CMPY ,X", "    LDY 300,X", "L RTS", "    LDX #L"],
    "mixed_listing": ["; demo", "    NAM DEMO", "    ORG $0E00", "SCR EQU $0400 video", "START LDX #SCR  point at screen", "LOOP LDA ,X+",
                      "    CMPX #SCR+512", "    BNE LOOP", "MSG FCC \"HI THERE\" trailing", "TBL FDB START", "TB2 FDB LOOP", "BUF RMB 3", "DONE RTS ; fin", "    END START"],
    "expr_forms": ["A1 EQU $10", "B1 EQU 2", "    ORG $0800", "    LDA #A1+B1", "    LDA #A1-B1", "    LDA #A1*B1", "    LDA #A1/B1", "    LDX #L+1", "    LDD L-1", "L RTS"],
    "include_ok": ["    ORG $0900", "P NOP", "    INCLUDE inc1.asm", "Q RTS", "    LDX #Q", "    JMP INCL"],
    "include_nested": ["    ORG $0A00", "    INCLUDE inc2.asm", "Q RTS", "    JMP INCL", "    JMP OUTER"],
    "include_missing": ["    INCLUDE nothere.asm"],
    "include_self": ["    INCLUDE self.asm"],
    "include_dup_label": ["INCL NOP", "    INCLUDE inc1.asm"],
}

INCLUDE_FILES = {
    "inc1.asm": "INCL LDA #$42\n     STA $0400\nINCE RTS\n",
    "inc2.asm": "OUTER NOP\n    INCLUDE inc1.asm\n    NOP\n",
    "self.asm": "    NOP\n    INCLUDE self.asm\n",
}

# --------------------------------------------------------------------------
# translate_statements on pre-built Statement lists (the way the test-suite
# drives Program) - including the origin / name being left untouched
# --------------------------------------------------------------------------
PREBUILT = {
    "pre_plain": ["    LDA #1", "X1 NOP", "    JMP X1"],
    "pre_org": ["    ORG $1234", "X1 NOP", "    JMP X1"],
    "pre_name": ["    NAM ZED", "X1 NOP"],
    "pre_dup": ["X1 NOP", "X1 NOP"],
    "pre_pcr": ["B LEAX Z,PCR", "    LDA $FF", "Z RTS"],
}

# --------------------------------------------------------------------------
# single operands: Operand.create_from_str(...).resolve_symbols({}).translate()
# --------------------------------------------------------------------------
OPERANDS = [
    ("FCB", "$FF"), ("FCB", "1,2,3"), ("FCB", "0"), ("FCB", "$1234"), ("FCB", "'A"),
    ("FDB", "$1234"), ("FDB", "1"), ("FDB", "1,2"), ("FDB", "$12345"), ("FDB", "0"),
    ("RMB", ""), ("FCB", ""), ("FDB", ""), ("ORG", ""), ("FCB", "-1"), ("FDB", "-1"), ("RMB", "-1"), ("FCB", "$0001"), ("FDB", "$01"),
    ("RMB", "0"), ("RMB", "1"), ("RMB", "$20"), ("RMB", "1000"),
    ("ORG", "$0E00"), ("ORG", "0"), ("ORG", "65535"), ("ORG", "$12"),
    ("FCC", "\"ABC\""), ("FCC", "/x/"), ("FCC", "\"\""),
    ("EQU", "$10"), ("EQU", "$0010"), ("EQU", "300"), ("EQU", "5"),
    ("END", "START"), ("END", ""), ("NAM", "FOO"), ("SETDP", "$0E"), ("INCLUDE", "f.asm"),
    ("PSHS", "A"), ("PSHS", "A,B,X,Y,U,PC,CC,DP"), ("PSHS", "D"), ("PSHS", "S"), ("PSHS", ""), ("PSHS", "U"),
    ("PSHU", "S"), ("PSHU", "U"), ("PULS", "PC"), ("PULS", "Z"), ("PULU", "A,B"), ("PULU", "A,,B"),
    ("EXG", "A,B"), ("EXG", "X,Y"), ("EXG", "D,D"), ("EXG", "A,X"), ("EXG", "A"), ("EXG", "A,B,X"),
    ("TFR", "D,X"), ("TFR", "CC,DP"), ("TFR", "PC,S"), ("TFR", "Q,A"), ("TFR", "A,Q"), ("TFR", "U,U"), ("TFR", "DP,X"),
    ("NOP", ""), ("RTS", ""), ("LDA", ""), ("SWI3", ""),
    ("LDA", "#$01"), ("LDD", "#$1234"), ("LDX", "#1"), ("STA", "#1"), ("LDY", "#$FFFF"),
    ("LDA", "<$20"), ("LDA", ">$20"), ("LDA", "$20"), ("LDA", "$1234"), ("JMP", "$20"), ("LEAX", "$20"), ("LEAX", "$1234"),
    ("NEG", "<$00"), ("NEG", "$00"),
    ("BRA", "$10"), ("LBRA", "$1000"),
    ("LDA", ",X"), ("LDA", ",Y+"), ("LDA", ",U++"), ("LDA", ",-S"), ("LDA", ",--X"), ("LDA", "0,X"),
    ("LDA", "A,X"), ("LDA", "B,Y"), ("LDA", "D,U"),
    ("LDA", "1,X"), ("LDA", "15,X"), ("LDA", "16,X"), ("LDA", "-16,X"), ("LDA", "-17,X"), ("LDA", "127,X"),
    ("LDA", "128,X"), ("LDA", "-128,X"), ("LDA", "-129,X"), ("LDA", "255,Y"), ("LDA", "256,Y"), ("LDA", "$FFFF,U"),
    ("LDA", "$01,S"), ("LDA", "$0001,S"), ("LDA", "1,X+"), ("LDA", "1,-X"),
    ("LDA", "1,PCR"), ("LDA", "$0001,PCR"), ("LDA", "300,PCR"), ("LDY", "5,X"), ("LDY", "$500,X"),
    ("LDA", "[,X]"), ("LDA", "[,Y++]"), ("LDA", "[,--U]"), ("LDA", "[,X+]"), ("LDA", "[,-X]"), ("LDA", "[0,S]"),
    ("LDA", "[A,X]"), ("LDA", "[B,Y]"), ("LDA", "[D,U]"),
    ("LDA", "[1,X]"), ("LDA", "[127,X]"), ("LDA", "[128,X]"), ("LDA", "[-1,X]"), ("LDA", "[-128,X]"), ("LDA", "[-129,X]"),
    ("LDA", "[$01,X]"), ("LDA", "[$0001,X]"), ("LDA", "[1,X++]"),
    ("LDA", "[1,PCR]"), ("LDA", "[$0001,PCR]"), ("LDA", "[300,PCR]"),
    ("LDA", "1,YS"), ("LDA", ",XY"), ("LDA", "A,US"), ("LDA", "[1,YS]"), ("LDA", "[,US]"), ("LDA", "5,PC"), ("LDA", ",PCR"), ("LDA", "D,PCR"),
    ("LDA", "[A,PCR]"), ("LDA", "5,"), ("LDA", "5,x"), ("LDA", "a,X"), ("LDA", "A,Y"), ("LDA", "A,U"), ("LDA", "A,S"), ("LDA", "B,X"), ("LDA", "B,S"),
    ("LDD", "D,X"), ("LDD", "D,Y"), ("LDD", "[D,S]"), ("LDD", "[A,U]"), ("LDD", "[B,Y]"), ("LDA", "[B,X]"), ("LDA", "[D,Y]"), ("LDA", "[A,S]"),
    ("LDA", "[$1234]"), ("LDA", "[$12]"), ("LDA", "[0]"), ("ORCC", "[,X]"), ("ORCC", ",X"), ("LDY", "[$1234]"), ("LDY", "[5,X]"),
]

# --------------------------------------------------------------------------
# Statement.set_address
# --------------------------------------------------------------------------
SET_ADDRESS = [
    ("    NOP", [0]), ("    NOP", [0x1234]), ("    NOP", [65535]), ("    NOP", [5, 9]),
    ("    ORG $0E00", [0]), ("    ORG $0E00", [0x2000, 7]), ("    ORG 0", [0x55]), ("    ORG 0", [0x55, 0x66]),
    ("L   LDA #1", [70000]), ("    FCB 1,2", [3, 3, 4]),
]

# --------------------------------------------------------------------------
# command line: (name, source text, extra args, files to read back)
# --------------------------------------------------------------------------
CLI_SRC_OK = (
    "; cli demo\n"
    "        NAM CLIDEMO\n"
    "        ORG $0E00\n"
    "SCR     EQU $0400\n"
    "START   LDX #SCR\n"
    "LOOP    LDA ,X+\n"
    "        CMPX #SCR+512\n"
    "        BNE LOOP\n"
    "        LEAY MSG,PCR\n"
    "MSG     FCC \"HI\"\n"
    "TBL     FDB START\n"
    "TB2     FDB LOOP\n"
    "BUF     RMB 3\n"
    "DONE    RTS\n"
    "        END START\n"
)
CLI_SRC_NOORG = "A1 LDA #1\nA2 FCB 1,2,3\nA3 JMP A1\n"
CLI_SRC_DUP = "        ORG $100\nX1 NOP\nX1 NOP\n"
CLI_SRC_UNDEF = "        ORG $100\n        JMP NOPE\n"
CLI_SRC_BADMN = "        ORG $100\n        XYZZY 1\n"
CLI_SRC_TWOORG = "        ORG $1000\nP1 LDA #1\n        ORG $2000\nP2 JMP P1\n"
CLI_SRC_RANGE = "        BRA FAR\n" + "        NOP\n" * 200 + "FAR RTS\n"

CLI = [
    ("cli_ok_print", CLI_SRC_OK, ["--print", "--symbols"], []),
    ("cli_ok_bin", CLI_SRC_OK, ["--print", "--symbols", "--to_bin", "out.bin"], ["out.bin"]),
    ("cli_ok_cas", CLI_SRC_OK, ["--symbols", "--to_cas", "out.cas"], ["out.cas"]),
    ("cli_ok_dsk", CLI_SRC_OK, ["--to_dsk", "out.dsk", "--print"], ["out.dsk"]),
    ("cli_ok_cas_name", CLI_SRC_NOORG, ["--to_cas", "o.cas", "--name", "ZZ", "--print", "--symbols"], ["o.cas"]),
    ("cli_noorg_bin", CLI_SRC_NOORG, ["--to_bin", "o.bin", "--print", "--symbols"], ["o.bin"]),
    ("cli_noorg_cas_noname", CLI_SRC_NOORG, ["--to_cas", "o.cas"], ["o.cas"]),
    ("cli_dup", CLI_SRC_DUP, ["--print", "--symbols", "--to_bin", "o.bin"], ["o.bin"]),
    ("cli_undef", CLI_SRC_UNDEF, ["--print", "--symbols"], []),
    ("cli_badmn", CLI_SRC_BADMN, ["--print"], []),
    ("cli_twoorg", CLI_SRC_TWOORG, ["--print", "--symbols", "--to_bin", "o.bin"], ["o.bin"]),
    ("cli_range", CLI_SRC_RANGE, ["--print"], []),
]

UNPADDED = ("no_trailing_space", "bad_line")


def pad(lines):
    """the line grammar wants white space after the mnemonic, even without operands"""
    return [line + " " for line in lines]


def pad_text(text):
    return "".join(line + " \n" for line in text.split("\n")[:-1])


WORKER = r'''
import json, sys, os, traceback
tree = sys.argv[1]
sys.path.insert(0, tree)
sys.dont_write_bytecode = True
spec = json.load(sys.stdin)

from cocoasm.program import Program
from cocoasm.statement import Statement
from cocoasm.operands import Operand
from cocoasm.instruction import INSTRUCTIONS
import cocoasm
assert os.path.realpath(os.path.dirname(os.path.dirname(cocoasm.__file__))) == os.path.realpath(tree), cocoasm.__file__


def val(v):
    if v is None:
        return None
    if isinstance(v, (int, str, bool)):
        return ["raw", v]
    out = [type(v).__name__]
    for attr in ("int", "size_hint", "type", "explict_addressing_mode", "negative"):
        out.append(repr(getattr(v, attr, "<none>")))
    try:
        out.append(v.hex())
        out.append(v.hex_len())
    except Exception as e:
        out.append("hex-error:" + repr(e))
    return out


def pkg(p):
    return {
        "op_code": val(p.op_code), "address": val(p.address), "post_byte": val(p.post_byte),
        "additional": val(p.additional), "size": p.size, "max_size": p.max_size,
        "needs": p.additional_needs_resolution, "choices": list(p.post_byte_choices),
    }


def err(e):
    d = {"exc": type(e).__name__, "str": str(e), "args": repr(e.args)}
    if hasattr(e, "value"):
        d["value"] = repr(e.value)
    if hasattr(e, "statement"):
        try:
            d["statement"] = str(e.statement)
        except Exception as e2:
            d["statement"] = "str-error:" + repr(e2)
    return d


def observe(program):
    out = {}
    def grab(key, fn):
        try:
            out[key] = fn()
        except Exception as e:
            out[key] = err(e)
    grab("binary", program.get_binary_array)
    grab("listing", program.get_statements)
    grab("symbols", program.get_symbol_table)
    grab("symbol_values", lambda: [[k, val(v)] for k, v in program.symbol_table.items()])
    grab("origin", lambda: val(program.origin))
    grab("name", lambda: program.name)
    grab("address_attr", lambda: program.address)
    grab("fixed", program.all_sizes_fixed)
    grab("pkgs", lambda: [pkg(s.code_pkg) for s in program.statements])
    grab("stmt_state", lambda: [[s.label, s.mnemonic, s.fixed_size, s.pcr_size_hint,
                                 type(s.operand).__name__, val(getattr(s.operand, "value", None))]
                                for s in program.statements])
    return out


results = {}

for name, lines in spec["programs"].items():
    program = Program()
    try:
        program.process(lines)
        res = {"ok": True}
    except Exception as e:
        res = {"ok": False, "error": err(e)}
    res["obs"] = observe(program)
    results["prog:" + name] = res

for name, lines in spec["prebuilt"].items():
    program = Program()
    try:
        program.statements = [Statement(l) for l in lines]
        program.translate_statements()
        res = {"ok": True}
    except Exception as e:
        res = {"ok": False, "error": err(e)}
    res["obs"] = observe(program)
    # a second Program must not share state with the first
    res["fresh"] = observe(Program())
    results["pre:" + name] = res

for mnemonic, text in spec["operands"]:
    key = "operand:%s %s" % (mnemonic, text)
    try:
        instruction = next(i for i in INSTRUCTIONS if i.mnemonic == mnemonic)
        operand = Operand.create_from_str(text, instruction)
        operand = operand.resolve_symbols({})
        p = operand.translate()
        results[key] = {"ok": True, "cls": type(operand).__name__, "pkg": pkg(p),
                        "left": val(getattr(operand, "left", None)), "value": val(getattr(operand, "value", None))}
        # translating twice must give the same package
        results[key]["again"] = pkg(operand.translate())
    except Exception as e:
        results[key] = {"ok": False, "error": err(e)}

for line, addresses in spec["set_address"]:
    key = "set_address:%s %r" % (line, addresses)
    try:
        st = Statement(line)
        st.translate()
        trace = []
        for a in addresses:
            trace.append([st.set_address(a), val(st.code_pkg.address)])
        results[key] = {"ok": True, "trace": trace, "str": str(st)}
    except Exception as e:
        results[key] = {"ok": False, "error": err(e)}

# save_symbol driven directly
for name, lines in spec["prebuilt"].items():
    key = "save_symbol:" + name
    program = Program()
    try:
        trace = []
        for i, l in enumerate(lines):
            st = Statement(l)
            r = program.save_symbol(i + 10, st)
            trace.append([repr(r), [[k, val(v)] for k, v in program.symbol_table.items()]])
        results[key] = {"ok": True, "trace": trace}
    except Exception as e:
        results[key] = {"ok": False, "error": err(e), "table": [[k, val(v)] for k, v in program.symbol_table.items()]}

json.dump(results, sys.stdout, sort_keys=True)
'''


def run_worker(tree, scratch):
    for fname, text in INCLUDE_FILES.items():
        with open(os.path.join(scratch, fname), "w") as handle:
            handle.write(pad_text(text))
    spec = {
        "programs": {k: (v if k in UNPADDED else pad(v)) for k, v in PROGRAMS.items()},
        "prebuilt": {k: pad(v) for k, v in PREBUILT.items()},
        "operands": OPERANDS,
        "set_address": [[line + " ", addresses] for line, addresses in SET_ADDRESS],
    }
    env = dict(os.environ, PYTHONDONTWRITEBYTECODE="1")
    env.pop("PYTHONPATH", None)
    proc = subprocess.run(
        [PY, "-c", WORKER, tree], input=json.dumps(spec), capture_output=True, text=True, cwd=scratch, env=env
    )
    if proc.returncode != 0:
        print("worker failed for", tree)
        print(proc.stderr)
        sys.exit(1)
    return json.loads(proc.stdout)


def run_cli(tree, scratch):
    env = dict(os.environ, PYTHONDONTWRITEBYTECODE="1")
    env.pop("PYTHONPATH", None)
    results = {}
    for name, source, args, files in CLI:
        work = os.path.join(scratch, name)
        os.makedirs(work)
        with open(os.path.join(work, "prog.asm"), "w") as handle:
            handle.write(pad_text(source))
        proc = subprocess.run(
            [PY, os.path.join(tree, "assembler.py"), "prog.asm"] + args,
            capture_output=True, text=True, cwd=work, env=env,
        )
        produced = {}
        for fname in files:
            path = os.path.join(work, fname)
            if os.path.exists(path):
                with open(path, "rb") as handle:
                    produced[fname] = handle.read().hex()
            else:
                produced[fname] = None
        results["cli:" + name] = {
            "rc": proc.returncode, "stdout": proc.stdout,
            "stderr": proc.stderr.replace(os.path.realpath(tree), "<tree>").replace(tree, "<tree>"),
            "files": produced, "dir": sorted(os.listdir(work)),
        }
    return results


def collect(tree):
    tree = os.path.abspath(tree)
    with tempfile.TemporaryDirectory() as scratch:
        lib_dir = os.path.join(scratch, "lib")
        cli_dir = os.path.join(scratch, "cli")
        os.makedirs(lib_dir)
        os.makedirs(cli_dir)
        results = run_worker(tree, lib_dir)
        results.update(run_cli(tree, cli_dir))
    return results


def main():
    if len(sys.argv) != 3:
        print(__doc__)
        return 2
    res_a = collect(sys.argv[1])
    res_b = collect(sys.argv[2])
    bad = 0
    for key in sorted(set(res_a) | set(res_b)):
        if res_a.get(key) != res_b.get(key):
            bad += 1
            print("DIFF", key)
            print("   A:", json.dumps(res_a.get(key), sort_keys=True)[:1500])
            print("   B:", json.dumps(res_b.get(key), sort_keys=True)[:1500])
    total = len(set(res_a) | set(res_b))
    accepted = sum(1 for k, v in res_a.items() if k.startswith("prog:") and v["ok"])
    rejected = sum(1 for k, v in res_a.items() if k.startswith("prog:") and not v["ok"])
    print("%d cases compared (%d programs accepted, %d rejected in tree A), %d differ" % (total, accepted, rejected, bad))
    return 1 if bad else 0


if __name__ == "__main__":
    sys.exit(main())
