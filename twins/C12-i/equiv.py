#!/usr/bin/env python
"""
Differential check: runs the same battery of cases against two source trees
(one subprocess per tree, the tree first on sys.path, a private scratch
directory as cwd) and compares every observable result.

usage: equiv.py <treeA> <treeB>      exit 0 = all cases agree, 1 = otherwise
"""
import json
import os
import subprocess
import sys
import tempfile

DRIVER = r'''
import contextlib, hashlib, io, json, os, sys, types, subprocess

TREE, WORK = sys.argv[1], sys.argv[2]
sys.path.insert(0, TREE)
os.chdir(WORK)
RESULTS = {}


def digest(data):
    data = bytes(data)
    return {"len": len(data), "sha": hashlib.sha256(data).hexdigest(), "head": data[:48].hex()}


def snapshot(directory="."):
    out = {}
    for root, _, files in os.walk(directory):
        for name in sorted(files):
            path = os.path.join(root, name)
            with open(path, "rb") as handle:
                out[os.path.relpath(path, directory)] = digest(handle.read())
    return dict(sorted(out.items()))


def outcome(func, *args, **kwargs):
    """Runs func, returns its (jsonable) value or the exception type/message, plus stdout."""
    stream = io.StringIO()
    try:
        with contextlib.redirect_stdout(stream):
            value = func(*args, **kwargs)
        result = {"value": value}
    except SystemExit as error:
        result = {"exit": repr(error.code)}
    except BaseException as error:
        result = {"raised": type(error).__name__, "message": str(error)}
    result["stdout"] = stream.getvalue()
    return result


def case(name, func, *args, **kwargs):
    assert name not in RESULTS, name
    RESULTS[name] = outcome(func, *args, **kwargs)


def describe(coco_file):
    """Everything observable about a CoCoFile returned by a reader."""
    def val(v):
        try:
            return [type(v).__name__, v.hex(), v.int]
        except Exception as error:
            return [type(v).__name__, "ERR", str(error)]
    return {
        "name": coco_file.name, "extension": coco_file.extension,
        "type": val(coco_file.type), "data_type": val(coco_file.data_type),
        "gaps": val(coco_file.gaps), "load": val(coco_file.load_addr), "exec": val(coco_file.exec_addr),
        "data": digest(coco_file.data), "ignore_gaps": coco_file.ignore_gaps, "str": str(coco_file),
    }


def in_dir(name):
    """Creates and enters a fresh sub-directory of the scratch dir; returns a function to leave."""
    path = os.path.join(WORK, name)
    os.makedirs(path)
    os.chdir(path)
    return lambda: os.chdir(WORK)


def assemble(case_name, source, to_bin=None, to_cas=None, to_dsk=None, name=None, append=False,
             symbols=False, listing=False, width=100, pre=None):
    """Runs assembler.main() in a fresh directory; records stdout, outcome, files and what the readers list."""
    import assembler
    import file_util
    leave = in_dir(case_name)
    try:
        with open("prog.asm", "w") as handle:
            handle.write(source)
        if pre:
            pre()
        args = types.SimpleNamespace(filename="prog.asm", symbols=symbols, print=listing, to_bin=to_bin,
                                     to_cas=to_cas, to_dsk=to_dsk, name=name, append=append, width=width)
        result = outcome(assembler.main, args)
        result["files"] = snapshot()
        listings = {}
        for image in (to_cas, to_dsk, to_bin):
            if image and os.path.exists(image):
                fu_args = types.SimpleNamespace(host_filename=image, append=False, list=True, to_bin=None,
                                                to_cas=None, to_dsk=None, files=None)
                listings[image] = outcome(file_util.main, fu_args)
        result["listings"] = listings
        RESULTS[case_name] = result
    finally:
        leave()


def program(origin=None, nam=None, size=4, end=None, fill=0x12):
    lines = []
    if nam is not None:
        lines.append("        NAM {}".format(nam))
    if origin is not None:
        lines.append("        ORG {}".format(origin))
    lines.append("START   LDA #$01")
    body = size - 2
    while body > 0:
        chunk = min(body, 8)
        lines.append("        FCB " + ",".join("${:02X}".format((fill + body + k) & 0xFF) for k in range(chunk)))
        body -= chunk
    lines.append("        END {}".format(end) if end else "        END")
    return "\n".join(lines) + "\n"


# ---- every mnemonic x a battery of operand strings ---------------------------------------------
from cocoasm.program import Program
from cocoasm.instruction import INSTRUCTIONS
from cocoasm.exceptions import TranslationError, ParseError


def safe(func):
    try:
        return func()
    except BaseException as error:
        return "!{}: {}".format(type(error).__name__, error)


def run_program(lines):
    program = Program()
    try:
        program.process([line + "\n" for line in lines])
    except (TranslationError, ParseError) as error:
        return {"raised": type(error).__name__, "message": safe(lambda: str(error.value)),
                "statement": safe(lambda: str(error.statement))}
    except BaseException as error:
        return {"raised": type(error).__name__, "message": str(error)}
    return {
        "bytes": safe(lambda: bytes(program.get_binary_array()).hex()),
        "listing": safe(program.get_statements),
        "symbols": safe(program.get_symbol_table),
        "origin": safe(lambda: program.origin.hex() if program.origin is not None else None),
        "name": safe(lambda: program.name),
    }


def compact(result):
    text = json.dumps(result, sort_keys=True)
    summary = result.get("bytes") if "bytes" in result else "{}: {}".format(result.get("raised"), result.get("message"))
    return [hashlib.sha256(text.encode()).hexdigest()[:16], summary]


OPERANDS = [
    "", "#0", "#1", "#15", "#16", "#17", "#127", "#128", "#129", "#255", "#256", "#257", "#65535", "#65536", "#-1",
    "#-16", "#-17", "#-127", "#-128", "#-129", "#-255", "#-256", "#-32768", "#-32769", "#$0", "#$7F", "#$80", "#$FF", "#$100",
    "#$0010", "#$FFFF", "#$10000", "#%1", "#%10101010", "#%1010101010101010", "#'A", "#LABEL", "#WIDE", "#START",
    "#NOPE", "#LABEL+1", "#WIDE-1", "#START+2", "#1+1", "#", "<", ">", "<$10", "<$1234", ">$10", ">$1234", "<LABEL", ">LABEL",
    "<WIDE", ">WIDE", "<START", ">START", "<255", "<256", ">5", "<-1", "<5,X", ">5,X", "<LABEL+1", "$10", "$1234", "$0", "$00",
    "$0010", "$FFFF", "$12345", "0", "1", "255", "256", "65535", "65536", "70000", "-1", "-127", "-128", "-129", "-32768",
    "-32769", "LABEL", "WIDE", "START", "NEXT", "BACK", "NOPE", "LABEL+1", "LABEL-1", "START+1", "NEXT-1", "START*2",
    "WIDE/2", "WIDE/0", "1+1", "$10+$20", "$1000+1", "5-6", "[$10]", "[$1234]", "[START]", "[LABEL]", "[WIDE]", "[NOPE]", "[70000]",
    "[,X]", "[,X+]", "[,X++]", "[,-X]", "[,--X]", "[,Y++]", "[,--S]", "[A,X]", "[B,Y]", "[D,U]", "[5,S]", "[0,X]",
    "[-5,X]", "[-16,X]", "[-17,X]", "[15,X]", "[16,X]", "[127,X]", "[128,X]", "[-128,X]", "[-129,X]", "[255,Y]", "[256,Y]",
    "[$10,X]", "[$1234,X]", "[START,PCR]", "[NEXT,PCR]", "[BACK,PCR]", "[5,PCR]", "[$1234,PCR]", "[LABEL,X]", "[WIDE,X]",
    "[START,X]", "[5,Z]", "[1,PC]", "[5,X+]", "[START+1,PCR]", "[START+1,X]", "[LABEL+1,X]",
    ",X", ",Y", ",U", ",S", ",X+", ",X++", ",-X", ",--X", ",Y+", ",--U", ",S++", "A,X", "B,Y", "D,S", "0,X", "1,X", "15,X",
    "16,X", "17,X", "-1,X", "-15,Y", "-16,X", "-17,X", "127,X", "128,X", "129,X", "-127,U", "-128,X", "-129,X", "255,X", "256,X",
    "32767,X", "32768,X", "65535,X", "-32768,X", "$10,X", "$0F,X", "$0010,X", "$1234,X", "%101,X", "LABEL,X", "WIDE,Y", "START,U",
    "NEXT,PCR", "START,PCR", "BACK,PCR", "START+1,PCR", "NEXT-1,PCR", "5,PCR", "-5,PCR", "$1234,PCR", "LABEL,PCR", "WIDE,PCR",
    "LABEL+1,X", "START+1,X", "5,Z", "1,PC", ",PC", ",Z", "5,XY", "X,A", "A,B", "A,X", "X,Y", "D,X", "CC,DP", "A,CC", "PC,S", "D,D",
    "X", "A", "B", "CC", "DP", "PC", "A,B,X", "CC,A,B,DP,X,Y,U,PC", "CC,A,B,DP,X,Y,S,PC", "S", "U", "D", "D,A", "Z", "A,Z", "Z,A",
    "X,X+", "5,X+", "5,-X", "START,X+", "1,2,3", "$01,$02", "$0102,$03", "256,1", "-1,-2", "'A,'B", "\"AB\"", "/AB/", "/A", "'A", "%101",
    "%10101010", "%1010101010101010", "@", "A,", ",", "[", "]", "[]", "[,]", "#$", "X+", "-X", "+", "--", "1,", "$", "%", "'",
    "prog", "lower,x", "a,x", "$zz", "12AB", "1.5", "#<1", "<#1", "<<1", "#[1]", "[#1]", "[[1]]", "[<1]", "[>$10]", "1,X,Y",
]


def single(mnemonic, operand):
    return run_program([
        "        ORG $1000",
        "LABEL   EQU $20",
        "WIDE    EQU $1234",
        "BACK    NOP",
        "START   {} {}".format(mnemonic, operand),
        "NEXT    NOP",
    ])


for operand in OPERANDS:
    RESULTS["op " + operand] = {"value": {ins.mnemonic: compact(single(ins.mnemonic, operand)) for ins in INSTRUCTIONS}}

# the same statement as a symbol definition / without a label / after a 16-bit origin change
for mnemonic in ("EQU", "SET", "ORG", "RMB", "FCB", "FDB", "FCC", "SETDP", "NAM", "END"):
    for operand in ("$10", "$1234", "10", "300", "START", "LATER", "$10+1", "'A", "\"hi there\"", "/x/ ; c", "1,2", "", "0", "-1", "65535", "65536", "%101"):
        RESULTS["pseudo {} {}".format(mnemonic, operand)] = {"value": [
            run_program(["START   NOP", "SYM     {} {}".format(mnemonic, operand), "        LDA SYM", "        LDX #SYM", "LATER   RTS"]),
            run_program(["START   NOP", "        {} {}".format(mnemonic, operand), "LATER   RTS"]),
        ]}

# ---- multi statement programs: branches, PCR offsets, address arithmetic ---------------------------


def filler(count):
    lines = []
    while count > 0:
        chunk = min(count, 10)
        lines.append("        FCB " + ",".join(["$12"] * chunk) + ("," if chunk == 1 else ""))
        count -= chunk
    return lines


def flow(template, distance, backward):
    body = filler(distance)
    if backward:
        return run_program(["        ORG $2000", "TARGET  NOP"] + body + ["HERE    " + template, "        RTS"])
    return run_program(["        ORG $2000", "HERE    " + template] + body + ["TARGET  NOP", "        RTS"])


TEMPLATES = ("BRA TARGET", "BNE TARGET", "BSR TARGET", "LBRA TARGET", "LBSR TARGET", "LBEQ TARGET", "LDA TARGET,PCR", "LEAX TARGET,PCR",
             "LDD [TARGET,PCR]", "JMP TARGET", "LDX #TARGET", "LDA TARGET+1,PCR", "LDX #TARGET-1", "JSR [TARGET]", "LDA TARGET-1,PCR",
             "LEAY [TARGET+2,PCR]", "STA TARGET", "LDA <TARGET", "LDA >TARGET", "LDB TARGET,X")
for template in TEMPLATES:
    for backward in (False, True):
        RESULTS["flow {} {}".format(template, "back" if backward else "fwd")] = {"value": {
            str(distance): compact(flow(template, distance, backward))
            for distance in (0, 1, 2, 100, 120, 121, 122, 123, 124, 125, 126, 127, 128, 129, 130, 131, 132, 133, 200, 255, 256, 300, 1000)
        }}

PROGRAMS = {
    "two_pcr": ["        ORG $100", "A1      LDA B1,PCR", "        LDB A1,PCR"] + filler(120) + ["B1      LDX A1,PCR", "        LEAU B1,PCR", "        RTS"],
    "pcr_chain": ["START   LDA E1,PCR", "        LDA E2,PCR", "        LDA E3,PCR"] + filler(119) + ["E1      NOP", "E2      NOP", "E3      NOP"],
    "branch_self": ["LOOP    BRA LOOP", "        LBRA LOOP", "L2      BEQ L2"],
    "branch_to_equ": ["VAL     EQU $10", "        BRA VAL"],
    "branch_missing": ["        BRA NOWHERE"],
    "branch_numeric": ["        BRA $10", "        LBRA 5", "        BNE #1"],
    "orgs": ["        ORG $10", "AA      LDA BB", "        ORG $2000", "BB      LDA AA", "        LDA <AA", "        JMP BB", "        ORG 5", "CC      FDB AA,BB"],
    "equ_chain": ["ONE     EQU 1", "TWO     EQU ONE+1", "THREE   EQU TWO+ONE", "        LDA #THREE", "        LDA THREE", "        LDA THREE,X"],
    "dup_label": ["X1      NOP", "X1      NOP"],
    "string_ops": ["        FCC \"HELLO\"", "        FCC /a b/ trailing", "        FCC 'x", "        FCB 'A", "        FDB 'A"],
    "rmb": ["BUF     RMB 3", "        RMB 0", "        RMB $10", "END1    LDA BUF", "        RMB BUF"],
    "addr_expr": ["        ORG $3000", "S1      LDX #S2+1", "        LDD S2-S1", "        LDA S1+S2", "S2      JMP S1*2", "        LDA S2/2", "        LDA 4/2", "        LDA S2/0"],
    "comments_blank": ["; just a comment", "", "   ; indented", "START   NOP ; trailing", "        NOP"],
    "bad_lines": ["NOP"],
    "bad_mnemonic": ["        FOO #1"],
    "lowercase": ["start   lda #$10", "        ldx start", "        bra start"],
}
for name, lines in PROGRAMS.items():
    case("program " + name, run_program, lines)

# ---- register pairs, data pseudo ops and indirect constant offsets, exhaustively ------------------------
NAMES = ["A", "B", "D", "X", "Y", "U", "S", "CC", "DP", "PC", "Z", "", "a", "PCR", "AB"]
for mnemonic in ("EXG", "TFR"):
    RESULTS["pairs " + mnemonic] = {"value": {
        "{},{}".format(left, right): compact(single(mnemonic, "{},{}".format(left, right))) for left in NAMES for right in NAMES
    }}
for mnemonic in ("PSHS", "PSHU", "PULS", "PULU"):
    RESULTS["stack " + mnemonic] = {"value": {
        operand: compact(single(mnemonic, operand))
        for operand in NAMES + ["A,B", "D,A", "X,Y,U", "X,Y,S", "CC,A,B,DP,X,Y,U,PC", "CC,A,B,DP,X,Y,S,PC", "A,A", "PC,CC", "A,,B", "A,Z", ",A"]
    }}

OFFSETS = list(range(-140, 141)) + [-32769, -32768, -32767, -300, -257, -256, -255, 254, 255, 256, 257, 300, 32767, 32768, 65535, 65536]
for register in ("X", "Y", "U", "S"):
    for mnemonic in ("LDA", "LEAX", "STD", "JMP"):
        RESULTS["indirect offsets {} {}".format(mnemonic, register)] = {"value": {
            str(offset): compact(single(mnemonic, "[{},{}]".format(offset, register))) for offset in OFFSETS
        }}
        RESULTS["plain offsets {} {}".format(mnemonic, register)] = {"value": {
            str(offset): compact(single(mnemonic, "{},{}".format(offset, register))) for offset in OFFSETS
        }}
HEXES = ["$0", "$00", "$7F", "$80", "$FF", "$0000", "$007F", "$0080", "$00FF", "$0100", "$7FFF", "$8000", "$FFFF", "%1", "%01111111", "%10000000",
         "%0000000001111111", "'A", "LABEL", "WIDE", "START", "NEXT", "BACK", "LABEL+1", "WIDE+1", "START+1", "LABEL-$21", "NOPE", "<$10", ">$10", "#5"]
for mnemonic in ("LDA", "LEAY", "STX"):
    RESULTS["indirect spelled offsets " + mnemonic] = {"value": {
        text: [compact(single(mnemonic, "[{},X]".format(text))), compact(single(mnemonic, "{},U".format(text)))] for text in HEXES
    }}

DATA = ["", "0", "1", "255", "256", "65535", "65536", "-1", "-128", "-129", "$1", "$12", "$123", "$1234", "$12345", "%1", "%10101010", "'A", "LABEL", "WIDE",
        "START", "NEXT", "NOPE", "LABEL+1", "START+1", "1,2", "1,", ",1", ",", "1,,2", "255,256", "$FF,$100", "-1,-2", "65535,65536", "'A,'B", "LABEL,1",
        "START,NEXT", "\"AB\"", "/AB/", "/A", "//", "'A'", "\"\"", "1,2,3,4,5,6,7,8,9,10,11,12", "$0102,$0304", "0,0"]
for mnemonic in ("FCB", "FDB", "RMB", "FCC", "ORG", "EQU", "SET", "SETDP", "END", "NAM", "INCLUDE"):
    RESULTS["data " + mnemonic] = {"value": {
        operand: [compact(single(mnemonic, operand)),
                  compact(run_program(["        {} {}".format(mnemonic, operand), "AFTER   LDA AFTER", "        FDB AFTER"]))]
        for operand in DATA
    }}

json.dump(RESULTS, sys.stdout)
'''


def run_tree(tree):
    tree = os.path.abspath(tree)
    with tempfile.TemporaryDirectory() as work:
        driver = os.path.join(work, "_driver.py")
        with open(driver, "w") as handle:
            handle.write(DRIVER)
        scratch = os.path.join(work, "w")
        os.mkdir(scratch)
        env = dict(os.environ, PYTHONPATH=tree, PYTHONDONTWRITEBYTECODE="1", PYTHONHASHSEED="0")
        proc = subprocess.run(
            [sys.executable, driver, tree, scratch],
            cwd=scratch, env=env, capture_output=True, text=True,
        )
        if proc.returncode != 0:
            print("driver failed for", tree)
            print(proc.stdout[-2000:])
            print(proc.stderr[-4000:])
            sys.exit(1)
        return json.loads(proc.stdout)


def main():
    if len(sys.argv) != 3:
        print(__doc__)
        sys.exit(2)
    res_a = run_tree(sys.argv[1])
    res_b = run_tree(sys.argv[2])
    names = list(res_a.keys())
    bad = 0
    if names != list(res_b.keys()):
        print("case lists differ")
        bad += 1
    for name in names:
        if res_a[name] != res_b.get(name):
            bad += 1
            print("DIFF in case", name)
            print("  A:", json.dumps(res_a[name])[:600])
            print("  B:", json.dumps(res_b.get(name))[:600])
    print("{} cases compared, {} differ".format(len(names), bad))
    sys.exit(1 if bad else 0)


if __name__ == "__main__":
    main()
