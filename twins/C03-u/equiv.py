#!/usr/bin/env python
"""
Differential equivalence demonstration.

Usage:  python equiv.py <treeA> <treeB>

Runs the CoCoAssembler code of both trees (one subprocess per tree, with the
tree as cwd and at the front of sys.path) over the same inputs and compares
every observable: emitted bytes, listing lines, symbol tables, origin/name,
per-statement sizes and addresses, exception types and messages, the value /
operand level API, and the stdout / exit status / files written by the two
command line tools.  Exit status 0 when everything agrees, 1 otherwise.
"""
import hashlib
import json
import os
import subprocess
import sys
import tempfile

FOCUS = "C03/u: Statement.determine_pcr_relative_sizes span estimate rewritten with slices and sum() (target_index / span / min+max in one expression)"

def _focus_programs():
    progs = []
    short = ["BRA", "BRN", "BHI", "BLS", "BCC", "BHS", "BCS", "BLO", "BNE", "BEQ", "BVC", "BVS", "BPL", "BMI", "BGE", "BLT", "BGT", "BLE", "BSR"]
    near8 = [0, 1, 119, 120, 121, 122, 123, 124, 125, 126, 127, 128, 129, 130, 131, 132, 133, 134, 135]
    for i, mn in enumerate(short):
        for n in near8 if mn in ("BRA", "BSR", "BLE") else near8[(i % 5)::5] + [125, 126, 127, 128]:
            progs.append(("sf-{}-{}".format(mn, n), [" ORG $4000", "S {} T".format(mn), " RMB {}".format(n), "T RTS"]))
            progs.append(("sb-{}-{}".format(mn, n), [" ORG $4000", "T NOP", " RMB {}".format(n), "S {} T".format(mn), " RTS"]))
            progs.append(("lf-{}-{}".format(mn, n), ["S L{} T".format(mn), " RMB {}".format(n), "T RTS"]))
            progs.append(("lb-{}-{}".format(mn, n), ["T NOP", " RMB {}".format(n), "S L{} T".format(mn), " RTS"]))
    for n in (32700, 32760, 32762, 32763, 32764, 32765, 32766, 32767, 32768, 32769, 32770, 40000, 65000, 65530, 65533, 65535):
        progs.append(("lf-far-{}".format(n), ["S LBRA T", " RMB {}".format(n), "T RTS"]))
        progs.append(("lb-far-{}".format(n), ["T NOP", " RMB {}".format(n), "S LBSR T", " RTS"]))
        progs.append(("pf-far-{}".format(n), ["S LEAX T,PCR", " RMB {}".format(n), "T RTS"]))
        progs.append(("pb-far-{}".format(n), ["T NOP", " RMB {}".format(n), "S LEAX T,PCR", " RTS"]))
    # code (not RMB) between source and target; targets on data and on EQU
    filler = [" LDA #1", " LDX #1", " LDY #1", " STA $1234", " LDA 5,X", " LDA 300,X", " PSHS A", " NOP"]
    for count in range(0, 60, 3):
        body = [filler[i % len(filler)] for i in range(count)]
        progs.append(("sf-code-{}".format(count), ["S BNE T"] + body + ["T RTS"]))
        progs.append(("sb-code-{}".format(count), ["T NOP"] + body + ["S BNE T"]))
        progs.append(("pf-code-{}".format(count), ["S LDD T,PCR"] + body + ["T FDB 1"]))
        progs.append(("pb-code-{}".format(count), ["T FDB 1"] + body + ["S LDD [T,PCR]"]))
    # pcr with one and two byte op codes, indirect, expressions
    for mn in ("LDA", "LDB", "LDD", "LDX", "LDY", "LDU", "LDS", "STY", "STS", "CMPY", "CMPS", "CMPU", "CMPD", "LEAX", "LEAS", "JMP", "JSR", "NEG", "TST", "CLR"):
        for n in (122, 123, 124, 125, 126, 127, 128, 129):
            progs.append(("pf-{}-{}".format(mn, n), [" ORG $E00", "S {} T,PCR".format(mn), " RMB {}".format(n), "T RTS"]))
            progs.append(("pb-{}-{}".format(mn, n), [" ORG $E00", "T NOP", " RMB {}".format(n), "S {} T,PCR".format(mn)]))
            progs.append(("pfi-{}-{}".format(mn, n), ["S {} [T,PCR]".format(mn), " RMB {}".format(n), "T RTS"]))
            progs.append(("pbi-{}-{}".format(mn, n), ["T NOP", " RMB {}".format(n), "S {} [T,PCR]".format(mn)]))
    for n in (118, 120, 122, 123, 124, 125, 126, 127, 128, 129, 130):
        for expr in ("T+1", "T-1", "T+10", "T-10", "T*1", "T/1", "2+T", "T+T2"):
            progs.append(("pfe-{}-{}".format(expr, n), ["S LEAX {},PCR".format(expr), " RMB {}".format(n), "T RTS", "T2 RTS"]))
            progs.append(("pbe-{}-{}".format(expr, n), ["T NOP", "T2 NOP", " RMB {}".format(n), "S LEAX {},PCR".format(expr)]))
        # several undecided PCR statements between source and target
        for k in (1, 2, 3, 5):
            inner = [" LEAY T,PCR"] * k
            progs.append(("multi-f-{}-{}".format(k, n), ["S LEAX T,PCR"] + inner + [" RMB {}".format(n), "T RTS"]))
            progs.append(("multi-b-{}-{}".format(k, n), ["T NOP", " RMB {}".format(n)] + inner + ["S LEAX T,PCR"]))
            progs.append(("multi-x-{}-{}".format(k, n), ["S LEAX T,PCR"] + [" LEAY S,PCR"] * k + [" RMB {}".format(n), "T LEAU S,PCR", " BRA T"]))
    progs += [
        ("self-pcr", ["S LEAX S,PCR"]),
        ("next-pcr", ["S LEAX T,PCR", "T RTS"]),
        ("equ-pcr", ["E EQU $1234", " LEAX E,PCR", " LEAX [E,PCR]"]),
        ("equ8-pcr", ["E EQU 5", " LEAX E,PCR", " LEAX [E,PCR]", " LEAX E+1,PCR"]),
        ("num-pcr", [" LEAX 0,PCR", " LEAX 127,PCR", " LEAX 128,PCR", " LEAX -128,PCR", " LEAX -129,PCR", " LEAX $7F,PCR", " LEAX $007F,PCR"]),
        ("undef-pcr", [" LEAX Q,PCR"]),
        ("undef-bra", [" BRA Q"]),
        ("bra-expr", ["T NOP", " BRA T+1"]),
        ("bra-equ", ["E EQU 5", " BRA E"]),
        ("bra-num", [" NOP", " BRA 1", " LBRA $10"]),
        ("bra-none", [" BRA"]),
        ("bra-org-between", [" ORG $100", "S BRA T", " ORG $200", "T RTS"]),
        ("lbra-org-between", [" ORG $100", "S LBRA T", " LEAX T,PCR", " ORG $8000", "T RTS", " LEAX S,PCR", " LBRA S"]),
    ]
    return progs


FOCUS_PROGRAMS = _focus_programs()
FOCUS_VALUE_STRINGS = []
FOCUS_OPERAND_FORMS = ["LBL,PCR", "[LBL,PCR]", "LBL+1,PCR", "LBL-1,PCR", "[LBL+2,PCR]", "EQ8,PCR", "EQ16,PCR", "NEG,PCR", "0,PCR", "127,PCR", "128,PCR"]
FOCUS_CLI_COUNT = 10


# --------------------------------------------------------------------------
# Shared corpus
# --------------------------------------------------------------------------

OPERAND_FORMS = [
    "", "#$12", "#$1234", "#-5", "#200", "#%10101010", "#'A", "#LBL", "#EQ8", "#EQ16",
    "$12", "$1234", "<$12", ">$12", "<$1234", "200", "300", "65535", "65536", "-1",
    "[$1234]", "[$12]", "[LBL]", "[EQ16]",
    ",X", ",Y", ",U", ",S", "0,X", "5,Y", "15,U", "16,S", "-16,X", "-17,Y", "127,U", "128,S",
    "-128,X", "-129,Y", "1000,U", "-1000,S", "$10,X", "$0010,Y", "EQ8,X", "EQ16,Y", "LBL,U",
    "A,X", "B,Y", "D,U", "A,S", ",X+", ",Y++", ",-U", ",--S", ",X-", "5,X+",
    "[,X]", "[0,Y]", "[5,Y]", "[-5,U]", "[127,S]", "[128,X]", "[-128,Y]", "[-129,U]", "[1000,S]",
    "[,X++]", "[,--Y]", "[,X+]", "[,-Y]", "[A,X]", "[B,U]", "[D,S]", "[EQ8,X]", "[EQ16,Y]",
    "10,PCR", "-10,PCR", "$1234,PCR", "[10,PCR]", "[$1234,PCR]", "LBL,PCR", "[LBL,PCR]", "LBL+2,PCR",
    "LBL", "LBL+2", "LBL-1", "EQ8", "EQ16", "EQ8+1", "EQ16-1", "EQ8*2", "EQ16/2", "UNDEF", "<LBL", ">EQ8",
    "A,B", "X,Y", "A,X", "CC,DP", "D,PC", "A", "X", "A,B,X", "A,B,X,Y,U,S,CC,DP,PC,D", "Q,A", "A,Q",
    "\"AB\"", "/HELLO/", "1,2,3", "$1234,$5678", "-1,2",
]

VALUE_STRINGS = [
    "0", "1", "15", "16", "17", "127", "128", "129", "255", "256", "257", "32767", "32768", "65535", "65536",
    "99999", "-0", "-1", "-15", "-16", "-17", "-127", "-128", "-129", "-255", "-256", "-32767", "-32768", "-32769",
    "$0", "$F", "$10", "$7F", "$80", "$FF", "$100", "$0FF", "$00FF", "$1234", "$FFFF", "$10000", "$G", "$",
    "%0", "%1010", "%10101010", "%1010101010101010", "%101010101", "%2",
    "'A", "'z", "' ", "'#", "''", "'AB", "ABC", "A@B", "A_B", "1A", "@", "",
    "1+1", "A+1", "$10+$20", "A-B", "2*3", "10/2", "10/0", "1+", "+1", "1+2+3", "$FFFF+1", "1-2",
    ",X", "5,X", "A,X", "1,2", "1,2,3", "LBL,PCR", "[5,X]",
    "#5", "#$FF", "#$1234", "#-1", "#LBL", "<5", "<$1234", ">5", ">$12", "<LBL", ">LBL", "#", "<", ">",
]

INT_VALUES = [0, 1, 15, 16, 17, 127, 128, 129, 255, 256, 257, 4095, 4096, 32767, 32768, 32769, 65535, 65536, 70000,
              -1, -15, -16, -17, -127, -128, -129, -255, -256, -257, -32767, -32768, -32769, -65535, -65536]


def _programs():
    progs = []

    def add(name, lines):
        progs.append((name, lines))

    # branch range sweeps
    for mn in ("BRA", "BEQ", "BSR", "LBRA", "LBNE", "LBSR"):
        for n in (0, 1, 2, 120, 123, 124, 125, 126, 127, 128, 129, 130, 131, 132, 250, 256):
            add("fwd-{}-{}".format(mn, n), ["START {} TARGET".format(mn), "  RMB {}".format(n), "TARGET RTS"])
            add("bwd-{}-{}".format(mn, n), ["TARGET NOP", "  RMB {}".format(n), "  {} TARGET".format(mn), " RTS"])
    add("bra-self", ["LOOP BRA LOOP"])
    add("lbra-self", ["LOOP LBRA LOOP"])
    add("bra-undef", [" BRA NOWHERE"])
    add("bra-equ", ["FOO EQU $10", " BRA FOO"])
    add("bra-num", [" BRA $10"])
    # PCR sweeps
    for mn in ("LEAX", "LDA", "LDD", "STY", "JSR", "LDS"):
        for n in (0, 1, 100, 118, 119, 120, 121, 122, 123, 124, 125, 126, 127, 128, 129, 130, 131, 254, 255, 256, 257):
            add("pcrf-{}-{}".format(mn, n), [" ORG $1000", "START {} TARGET,PCR".format(mn), "  RMB {}".format(n), "TARGET RTS"])
            add("pcrb-{}-{}".format(mn, n), [" ORG $1000", "TARGET NOP", "  RMB {}".format(n), "  {} TARGET,PCR".format(mn), " RTS"])
            add("pcrfi-{}-{}".format(mn, n), ["START {} [TARGET,PCR]".format(mn), "  RMB {}".format(n), "TARGET FDB $1234"])
    for n in (110, 115, 118, 119, 120, 121, 122, 123, 124, 125, 126, 127, 128):
        add("pcr-chain-{}".format(n), [
            " ORG $3000",
            "A1 LEAX B1,PCR", " RMB {}".format(n), "A2 LEAY A1,PCR", " LDA [B2,PCR]", "B1 LEAU A2,PCR",
            " RMB {}".format(n), "B2 LDD B1+2,PCR", " LDX A1-1,PCR", " LBRA A2", " LBRA A1"])
        add("pcr-mutual-{}".format(n), [
            "P1 LEAX P3,PCR", " LEAY P4,PCR", " RMB {}".format(n), "P3 LEAX P1,PCR", "P4 LEAY P1,PCR", " RTS"])
    add("pcr-expr", [" ORG $100", "T1 NOP", " LEAX T1+5,PCR", " LEAX T1-5,PCR", " LEAX T2+1,PCR", "T2 RTS"])
    add("pcr-num", [" LEAX 5,PCR", " LEAX -5,PCR", " LEAX $1234,PCR", " LEAX [$12,PCR]", " LDA 300,PCR", " LDA -300,PCR"])
    add("pcr-undef", [" LEAX NOWHERE,PCR"])
    # layout / symbols
    add("layout-1", [" NAM TEST", " ORG $0E00", "START LDA #$01", " LDB #$02", "LOOP STA $0400", " STB <$10", " LDX #START",
                     " LDY #LOOP", " JMP LOOP", "DATA FCB $01,$02,$03", "WORDS FDB $1234,$5678", " FDB LOOP", "TEXT FCC /HELLO WORLD/",
                     "BUF RMB 10", "ENDP END START"])
    add("layout-noorg", ["START LDA #1", "LOOP DECA", " BNE LOOP", " RTS", "VAL FCB 5"])
    add("layout-2org", [" ORG $1000", "A1 NOP", " ORG $2000", "A2 NOP", " JMP A1", " JMP A2"])
    add("layout-codebeforeorg", ["A1 NOP", " LDA #1", " ORG $2000", "A2 NOP", " JMP A1"])
    add("layout-org-low", [" ORG $10", "A1 NOP", " LDA A1", " STA A2", "A2 RTS"])
    add("layout-org-dec", [" ORG 4096", "A1 NOP", " JMP A1"])
    add("layout-org-label", ["BASE ORG $4000", "A1 NOP", " LDX #BASE", " JMP A1"])
    add("layout-org-ffff", [" ORG $FFFE", "A1 NOP", "A2 NOP", "A3 NOP", " JMP A3"])
    add("dup-label", ["A1 NOP", "A1 NOP"])
    add("dup-equ", ["A1 EQU 5", "A1 EQU 6"])
    add("dup-mixed", ["A1 EQU 5", "A1 NOP"])
    add("undef-sym", [" LDA FOO"])
    add("undef-sym-imm", [" LDA #FOO"])
    add("undef-sym-idx", [" LDA FOO,X"])
    add("undef-expr", [" LDA FOO+1"])
    add("equ-forms", ["E1 EQU 5", "E2 EQU $05", "E3 EQU $0005", "E4 EQU %00000101", "E5 EQU 'A", "E6 EQU 300", "E7 EQU $FF", "E8 EQU 255",
                      "E9 EQU 256", " LDA E1", " LDA E2", " LDA E3", " LDA E4", " LDA E5", " LDA E6", " LDA E7", " LDA E8", " LDA E9",
                      " LDA #E1", " LDX #E1", " LDX #E3", " LDA #E6", " LDA E1,X", " LDA E3,X", " LDA E6,X", " LDA [E1,X]", " LDA [E6]",
                      " LDA <E6", " LDA >E1", " STA E7", " LDD #E7", " FCB E1", " FDB E1", " FDB E6"])
    add("equ-after-use", [" LDA E1", " LDA #E1", " LDX #E6", " LDA E6", " LDA E1,X", "E1 EQU 5", "E6 EQU 300"])
    add("equ-expr", ["E1 EQU 5", "E2 EQU E1+1", "E3 EQU 2*3", " LDA #E3", " LDA E2"])
    add("equ-sym", ["E1 EQU 5", "E2 EQU E1", " LDA E2"])
    add("equ-label", ["L1 NOP", "E2 EQU L1", " LDA E2"])
    add("equ-neg", ["E1 EQU -5", " LDA #E1", " LDA E1,X", " LDX #E1"])
    add("setdp", [" SETDP $10", " LDA $1000", " LDA $10", " END"])
    add("end-forms", ["S NOP", " END S"])
    add("end-bare", ["S NOP", " END"])
    # expressions
    ops = ["+", "-", "*", "/"]
    terms = ["1", "2", "0", "255", "256", "$10", "$0010", "$FFFF", "32768", "65535", "E5", "E300", "EFF", "L1", "L2"]
    pre = ["E5 EQU 5", "E300 EQU 300", "EFF EQU $FF", "L1 NOP"]
    post = ["L2 RTS"]
    for op in ops:
        for i, left in enumerate(terms):
            for right in (terms[(i + 1) % len(terms)], terms[(i + 4) % len(terms)], terms[(i + 9) % len(terms)]):
                e = "{}{}{}".format(left, op, right)
                add("expr-ext-" + e, pre + [" LDA {}".format(e)] + post)
                add("expr-imm-" + e, pre + [" LDX #{}".format(e), " LDA #{}".format(e)] + post)
                add("expr-idx-" + e, pre + [" LDA {},X".format(e)] + post)
                add("expr-ind-" + e, pre + [" LDA [{}]".format(e)] + post)
                add("expr-pcr-" + e, pre + [" LEAX {},PCR".format(e)] + post)
                add("expr-fdb-" + e, pre + [" FDB {}".format(e)] + post)
                add("expr-fcb-" + e, pre + [" FCB {}".format(e)] + post)
                add("expr-equ-" + e, pre + ["Q EQU {}".format(e), " LDA Q", " LDX #Q"] + post)
                add("expr-jmp-" + e, pre + [" JMP {}".format(e), " BRA {}".format(e)] + post)
    # data directives
    for operand in ["1", "255", "256", "-1", "-128", "-129", "$FF", "$1234", "'A", "%10101010", "1,2,3", "$01,$FF,255",
                    "1,-1", "256,1", "1,,2", "1,", ",1", "E5", "E5,1", "L1", "L1,L2", "1+1", "$1234,$5678", "65535,0", "65536",
                    "1,2,3,4,5,6,7,8,9,10,11,12,13,14,15,16,17,18,19,20", "", "'A,'B", "-32768", "-32769,1"]:
        for mn in ("FCB", "FDB", "RMB", "ORG", "EQU", "SETDP", "END", "NAM", "FCC"):
            add("data-{}-{}".format(mn, operand), pre + ["D1 {} {}".format(mn, operand), "AFTER NOP", " LDX #AFTER", " LDX #D1"] + post)
    for text in ['"HELLO"', "/HELLO/", '"HELLO WORLD"', '"A  B"', '"A;B"', '"SEMI ; COLON"', "/A/ trailing", '""', '"A', 'A"', "'IT''",
                 '"a,b,c"', '/x y  z/ ; comment', '"#$%&"', '"1+1"', '"<>"', "|PIPE|", '"TAB\tX"', '"ends "', '" lead"', "/A/B/",
                 '"' + "X" * 60 + '"', '"{}"', "ZAZ", '"~"', '"[X]"', '"q" "r"']:
        add("fcc-" + text, ["T1 FCC {}".format(text), "AFTER NOP", " LDX #AFTER"])
    for n in (0, 1, 2, 255, 256, 1000):
        add("rmb-{}".format(n), ["B1 RMB {}".format(n), "AFTER NOP", " LDX #AFTER"])
    add("rmb-expr", ["E5 EQU 5", "B1 RMB E5", "B2 RMB 2*3", "AFTER NOP"])
    add("include-missing", [" INCLUDE /nonexistent/file.asm"])
    # parse errors / oddities
    add("bad-mnemonic", [" FOO 1"])
    add("bad-line", ["!!!"])
    add("comment-only", ["; just a comment", "", "   ", " NOP ; trailing", "L1 NOP", "* star comment"])
    add("lowercase", ["start lda #$01", " sta $400", " bra start"])
    add("no-operand-needed", [" LDA"])
    add("inh-with-operand", [" NOP 5"])
    return progs


def _special_programs():
    progs = []
    regs = ["A", "B", "D", "X", "Y", "U", "S", "CC", "DP", "PC", "Q", ""]
    for mn in ("TFR", "EXG"):
        for r0 in regs:
            for r1 in regs:
                progs.append(("sp-{}-{},{}".format(mn, r0, r1), [" {} {},{}".format(mn, r0, r1)]))
    lists = ["A", "B", "D", "X", "Y", "U", "S", "CC", "DP", "PC", "A,B", "D,A", "A,B,X,Y", "CC,A,B,DP,X,Y,U,PC", "CC,A,B,DP,X,Y,S,PC",
             "X,X", "Q", "A,Q", "", "a", "A,", ",A", "PC,U,Y,X,DP,B,A,CC", "D,X,Y,U,S"]
    for mn in ("PSHS", "PSHU", "PULS", "PULU"):
        for regs_ in lists:
            progs.append(("sp-{}-{}".format(mn, regs_), [" {} {}".format(mn, regs_)]))
    return progs


CLI_PROGRAMS = [
    ("cli-basic", [" NAM HELLO\n", " ORG $0E00\n", "START LDA #$01\n", "LOOP STA $0400\n", " LEAX DATA,PCR\n", " BNE LOOP\n",
                   " PSHS A,B,X\n", " TFR X,Y\n", " LDA -5,X\n", " LDD [$10,Y]\n", " JMP LOOP\n", "DATA FCB $01,$02\n",
                   " FDB $1234,$0001\n", " FDB LOOP\n", " FCC /HI THERE/\n", "BUF RMB 4\n", " END START\n"]),
    ("cli-noname", [" ORG $2000\n", "S LDX #S\n", " RTS\n"]),
    ("cli-error-translate", [" ORG $2000\n", "S LDX #NOWHERE\n", " RTS\n"]),
    ("cli-error-parse", [" ORG $2000\n", "S FOO #1\n"]),
    ("cli-error-branch", ["S BRA T\n", " RMB 200\n", "T RTS\n"]),
    ("cli-dup", ["S NOP\n", "S NOP\n"]),
    ("cli-exprs", ["E1 EQU 300\n", "L1 LDA E1+1\n", " LDX #L2-L1\n", " LDX #L2+1\n", " FDB L1,L2\n", "L2 FCB E1/2,1\n"]),
    ("cli-neg", [" ORG $100\n", " LDA #-1\n", " LDX #-1\n", " LDA -1,X\n", " LDA -17,X\n", " LDA -129,X\n", " FCB -1\n", " FDB -1\n"]),
    ("cli-special-bad", [" TFR A,X\n"]),
    ("cli-pshs-bad", [" PSHS S\n"]),
    ("cli-div0", [" LDA 1/0\n"]),
    ("cli-pcr", [" NAM PCR\n", " ORG $3000\n", "A1 LEAX B1,PCR\n", " RMB 126\n", "B1 LEAY A1,PCR\n", " LDA [B1,PCR]\n", " LBRA A1\n"]),
]


# --------------------------------------------------------------------------
# Worker: runs inside one tree
# --------------------------------------------------------------------------

def _exc(error):
    info = {"exc": type(error).__name__, "msg": str(error)}
    if hasattr(error, "value"):
        info["value"] = repr(error.value)
    if hasattr(error, "statement"):
        try:
            info["statement"] = str(error.statement)
        except Exception as inner:  # noqa
            info["statement"] = "<unprintable: {} {}>".format(type(inner).__name__, inner)
    return info


def _val(v):
    if v is None or isinstance(v, (str, int)):
        return repr(v)
    out = {"cls": type(v).__name__}
    for attr in ("type", "int", "size_hint", "explict_addressing_mode", "negative", "resolved", "original_string",
                 "operation", "hex_array"):
        if hasattr(v, attr):
            out[attr] = repr(getattr(v, attr))
    for attr in ("left", "right"):
        if hasattr(v, attr):
            sub = getattr(v, attr)
            out[attr] = repr(sub) if isinstance(sub, (str, int)) or sub is None else \
                {"cls": type(sub).__name__, "int": sub.int, "type": repr(sub.type), "mode": repr(sub.explict_addressing_mode)}
    for meth in ("hex", "hex_len", "byte_len", "high_byte", "low_byte", "ascii", "is_8_bit", "is_16_bit", "is_4_bit",
                 "is_immediate", "is_direct", "is_extended", "is_explicit_direct", "is_explicit_extended", "is_negative",
                 "get_negative", "__str__"):
        if hasattr(v, meth):
            try:
                out[meth] = repr(getattr(v, meth)())
            except Exception as error:  # noqa
                out[meth] = _exc(error)
    return out


def _pkg(pkg):
    return {
        "op_code": _val(pkg.op_code), "address": _val(pkg.address), "post_byte": _val(pkg.post_byte),
        "additional": _val(pkg.additional), "size": pkg.size, "max_size": pkg.max_size,
        "needs": pkg.additional_needs_resolution, "choices": list(pkg.post_byte_choices),
    }


def _run_program(lines):
    from cocoasm.program import Program
    program = Program()
    result = {}
    try:
        program.process([line if line.endswith("\n") else line + "\n" for line in lines])
    except BaseException as error:  # noqa
        result["error"] = _exc(error)
    try:
        result["binary"] = program.get_binary_array()
    except Exception as error:  # noqa
        result["binary"] = _exc(error)
    try:
        result["listing"] = program.get_statements()
    except Exception as error:  # noqa
        result["listing"] = _exc(error)
    try:
        result["symbols"] = program.get_symbol_table()
    except Exception as error:  # noqa
        result["symbols"] = _exc(error)
    result["origin"] = _val(program.origin)
    result["name"] = repr(program.name)
    stmts = []
    for statement in program.statements:
        try:
            stmts.append([statement.code_pkg.size, statement.code_pkg.max_size, _val(statement.code_pkg.address)["hex"],
                          statement.fixed_size, statement.pcr_size_hint, type(statement.operand).__name__,
                          statement.code_pkg.op_code.hex(), statement.code_pkg.post_byte.hex(),
                          statement.code_pkg.additional.hex()])
        except Exception as error:  # noqa
            stmts.append(_exc(error))
    result["statements"] = stmts
    return result


def worker(tree):
    tree = os.path.realpath(tree)
    os.chdir(tree)
    sys.path[:] = [tree] + [p for p in sys.path if os.path.realpath(p or ".") != os.path.dirname(os.path.realpath(__file__))]
    import cocoasm
    assert os.path.realpath(cocoasm.__file__).startswith(tree + os.sep), cocoasm.__file__
    from cocoasm.instruction import INSTRUCTIONS
    from cocoasm.values import Value, NumericValue, AddressValue, MultiByteValue, MultiWordValue, StringValue
    from cocoasm.operands import Operand
    from cocoasm.statement import Statement

    out = {}
    out["table"] = [repr(tuple(i)) for i in INSTRUCTIONS]

    # 1. every mnemonic x every operand form, one statement programs
    for instruction in INSTRUCTIONS:
        for form in OPERAND_FORMS:
            lines = ["EQ8 EQU $20", "EQ16 EQU $1234", "FIRST {} {}".format(instruction.mnemonic, form), "LBL RTS"]
            out["sweep|{}|{}".format(instruction.mnemonic, form)] = _run_program(lines)

    # 2. programs
    for name, lines in _programs() + _special_programs() + list(FOCUS_PROGRAMS):
        out["prog|" + name] = _run_program(lines)

    # 3. values
    for text in VALUE_STRINGS + list(FOCUS_VALUE_STRINGS):
        for extended in (True, False):
            key = "value|{}|{}".format(text, extended)
            try:
                out[key] = _val(Value.create_from_str(text, default_mode_extended=extended))
            except Exception as error:  # noqa
                out[key] = _exc(error)
        for mn in ("LDX", "FCC", "FCB"):
            instruction = next(i for i in INSTRUCTIONS if i.mnemonic == mn)
            key = "value|{}|{}".format(text, mn)
            try:
                out[key] = _val(Value.create_from_str(text, instruction))
            except Exception as error:  # noqa
                out[key] = _exc(error)
        for cls in (MultiByteValue, MultiWordValue, StringValue):
            key = "value|{}|{}".format(text, cls.__name__)
            try:
                out[key] = _val(cls(text))
            except Exception as error:  # noqa
                out[key] = _exc(error)
    for number in INT_VALUES + list(globals().get("FOCUS_INTS", [])):
        for hint in (None, 0, 2, 4, 6):
            key = "int|{}|{}".format(number, hint)
            try:
                value = NumericValue(number, size_hint=hint)
                info = _val(value)
                for size in (0, 1, 2, 3, 4, 6):
                    info["hex{}".format(size)] = value.hex(size=size)
                    info["neg{}".format(size)] = value.get_negative(size)
                out[key] = info
            except Exception as error:  # noqa
                out[key] = _exc(error)
        key = "addr|{}".format(number)
        try:
            value = AddressValue(number)
            info = _val(value)
            for size in (0, 2, 4):
                info["hex{}".format(size)] = value.hex(size=size)
            out[key] = info
        except Exception as error:  # noqa
            out[key] = _exc(error)

    # 4. operands: classification, resolution, translation
    table = {"EQ8": NumericValue("$20"), "EQ16": NumericValue("$1234"), "LBL": AddressValue(3), "NEG": NumericValue(-3)}
    for mn in ("LDA", "LDX", "LDY", "STA", "LEAX", "JMP", "NEG", "TFR", "PSHS", "PULU", "BRA", "LBRA", "NOP", "SWI2", "CMPS",
               "FCB", "FDB", "FCC", "RMB", "EQU", "ORG", "END", "INCLUDE", "NAM"):
        instruction = next(i for i in INSTRUCTIONS if i.mnemonic == mn)
        for form in OPERAND_FORMS + list(FOCUS_OPERAND_FORMS):
            key = "operand|{}|{}".format(mn, form)
            info = {}
            try:
                operand = Operand.create_from_str(form, instruction)
                info["cls"] = type(operand).__name__
                info["type"] = repr(operand.type)
                info["value"] = _val(operand.value)
                operand = operand.resolve_symbols(dict(table))
                info["rcls"] = type(operand).__name__
                info["rvalue"] = _val(operand.value)
                info["left"] = _val(operand.left)
                info["right"] = _val(operand.right)
                info["pkg"] = _pkg(operand.translate())
            except Exception as error:  # noqa
                info["error"] = _exc(error)
            out[key] = info

    # 5. statement parsing
    for name, lines in _programs()[::7] + list(FOCUS_PROGRAMS):
        for number, line in enumerate(lines):
            key = "stmt|{}|{}".format(name, number)
            try:
                statement = Statement(line if line.endswith("\n") else line + "\n")
                out[key] = [statement.label, statement.mnemonic, repr(statement.comment), statement.is_empty,
                            statement.is_comment_only, type(statement.operand).__name__,
                            getattr(statement.operand, "operand_string", None),
                            _val(getattr(statement.operand, "value", None))]
            except Exception as error:  # noqa
                out[key] = _exc(error)

    sys.stdout.write(json.dumps(out, sort_keys=True, default=repr))


# --------------------------------------------------------------------------
# CLI runs (real subprocesses of assembler.py / file_util.py of each tree)
# --------------------------------------------------------------------------

def _cli(tree):
    tree = os.path.realpath(tree)
    results = {}
    env = dict(os.environ)
    env.pop("PYTHONPATH", None)
    env["PYTHONDONTWRITEBYTECODE"] = "1"

    def run(args, cwd):
        proc = subprocess.run([sys.executable, "-B"] + args, cwd=cwd, env=env, capture_output=True, text=True)
        err_lines = [line for line in proc.stderr.strip().splitlines()]
        return {"rc": proc.returncode, "stdout": proc.stdout.replace(tree, "<TREE>"),
                "stderr_last": err_lines[-1].replace(tree, "<TREE>") if err_lines else ""}

    def files(cwd):
        found = {}
        for root, _, names in os.walk(cwd):
            for name in sorted(names):
                path = os.path.join(root, name)
                with open(path, "rb") as handle:
                    data = handle.read()
                found[os.path.relpath(path, cwd)] = [len(data), hashlib.sha256(data).hexdigest()]
        return found

    for name, lines in CLI_PROGRAMS + [("cli-focus-{}".format(i), [line + "\n" for line in lines])
                                       for i, (_, lines) in enumerate(list(FOCUS_PROGRAMS)[:FOCUS_CLI_COUNT])]:
        with tempfile.TemporaryDirectory() as tmp:
            with open(os.path.join(tmp, "in.asm"), "w") as handle:
                handle.writelines(lines)
            asm = os.path.join(tree, "assembler.py")
            util = os.path.join(tree, "file_util.py")
            res = {}
            res["plain"] = run([asm, "in.asm", "--print", "--symbols"], tmp)
            res["bin"] = run([asm, "in.asm", "--to_bin", "out.bin"], tmp)
            res["cas"] = run([asm, "in.asm", "--to_cas", "out.cas", "--name", "PROG", "--symbols"], tmp)
            res["dsk"] = run([asm, "in.asm", "--to_dsk", "out.dsk", "--name", "PROG", "--print"], tmp)
            res["cas-append"] = run([asm, "in.asm", "--to_cas", "out.cas", "--name", "SECOND", "--append"], tmp)
            res["noname-cas"] = run([asm, "in.asm", "--to_cas", "out2.cas"], tmp)
            res["list-cas"] = run([util, "out.cas", "--list"], tmp)
            res["list-dsk"] = run([util, "out.dsk", "--list"], tmp)
            res["list-bin"] = run([util, "out.bin", "--list"], tmp)
            res["cas-to-bin"] = run([util, "out2.cas", "--to_bin", "back.bin"], tmp)
            res["files"] = files(tmp)
            results["cli|" + name] = res
    return results


# --------------------------------------------------------------------------
# Driver
# --------------------------------------------------------------------------

def _collect(tree):
    env = dict(os.environ)
    env.pop("PYTHONPATH", None)
    env["PYTHONDONTWRITEBYTECODE"] = "1"
    proc = subprocess.run([sys.executable, "-B", os.path.realpath(__file__), "--worker", tree],
                          cwd=tree, env=env, capture_output=True, text=True)
    if proc.returncode != 0:
        print("worker failed for", tree)
        print(proc.stderr[-3000:])
        sys.exit(1)
    data = json.loads(proc.stdout)
    data.update(_cli(tree))
    return data


def main():
    if len(sys.argv) == 3 and sys.argv[1] == "--worker":
        worker(sys.argv[2])
        return 0
    if len(sys.argv) != 3:
        print(__doc__)
        return 2
    tree_a, tree_b = os.path.realpath(sys.argv[1]), os.path.realpath(sys.argv[2])
    res_a, res_b = _collect(tree_a), _collect(tree_b)
    keys = sorted(set(res_a) | set(res_b))
    differences = 0
    for key in keys:
        if res_a.get(key) != res_b.get(key):
            differences += 1
            if differences <= 8:
                print("DIFF", key)
                print("  A:", json.dumps(res_a.get(key), sort_keys=True)[:700])
                print("  B:", json.dumps(res_b.get(key), sort_keys=True)[:700])
    kinds = {}
    for key in keys:
        kinds[key.split("|")[0]] = kinds.get(key.split("|")[0], 0) + 1
    print("focus: {}".format(FOCUS))
    print("compared {} cases {}; {} differ".format(len(keys), kinds, differences))
    return 1 if differences else 0


if __name__ == "__main__":
    sys.exit(main())
