#!/usr/bin/env python
"""
Differential check for refactoring C02/b: the passes of Program.translate_statements
report failures through the new diagnosing() context manager, the unused enumerate()
indexes are gone and the origin / name extraction uses 'last match' lists.

usage: equiv.py <treeA> <treeB>   (exit 0 = every observable result agrees)
"""


def build_cases():
    cases = []

    def prog(text, deep=False):
        cases.append({"kind": "prog", "lines": text.split("|"), "deep": deep})

    # layouts: origins, names, labels before/after use, data directives of all lengths
    prog("  NAM ONE|  ORG $0E00|START LDA #1|  LDX #TABLE|LOOP LDA ,X+|  BNE LOOP|  RTS|TABLE FCB 1,2,3|  FDB START,LOOP"
         "|MSG FCC \"HI THERE\"|BUF RMB 10|AFTER NOP|  END START", deep=True)
    prog("  ORG $1000|A1 NOP|  ORG $2000|A2 NOP|  ORG $1800|A3 NOP")
    prog("  NAM FIRST|  NAM SECOND|  ORG $10|  ORG $20|X1 NOP|  NAM THIRD")
    prog("  NOP|  LDA #1|  ORG $3000|L1 RTS")
    prog("L0 NOP|L1 LDA L0|L2 LDX #L1|L3 JMP L2")
    prog("  NAM|  ORG|N NOP")
    prog("  ORG $0E00|  NAM LATE|Z RTS")
    prog("Z RTS")
    prog("  ORG 0|P0 FCB 1|P1 FDB 2|P2 FCC /ABC/|P3 RMB 0|P4 RMB 300|P5 NOP")
    prog("S EQU 5|  ORG $100|T EQU S+1|U LDA S|V LDA T|W LDA #U")
    for origin in ["$0000", "$00FF", "$0100", "$7FFF", "$8000", "$FFF0", "$FFFE", "$FFFF", "0", "255", "256", "65535"]:
        prog("  ORG {}|A1 LDA #1|A2 LDX A1|A3 BRA A1|A4 FDB A3|A5 JMP A4|A6 RMB 20|A7 NOP".format(origin))
    # program counter relative statements whose sizes depend on each other
    for fill in [0, 1, 100, 118, 119, 120, 121, 122, 123, 124, 125, 126, 127, 128, 129, 130, 200, 300]:
        prog("  ORG $4000|TOP LEAX END1,PCR|  LEAY [TOP,PCR]|  RMB {}|  LDD TOP,PCR|  LEAU END1,PCR|END1 RTS".format(fill))
        prog("  ORG $4000|TOP NOP|  RMB {}|  LEAX TOP,PCR|  STX [TOP,PCR]|L3 RTS".format(fill))
        prog("  ORG $4000|  BRA FWD|  RMB {}|FWD NOP|BACK NOP|  RMB {}|  BNE BACK|  LBNE BACK|E NOP".format(fill, fill))
    # failures in every pass: the diagnostic text and the statement it names
    failures = [
        "D1 NOP|D1 RTS",                                   # save_symbol
        "  LDA NOWHERE|X NOP",                             # resolve
        "  LDA #NOWHERE+1",
        "  STA #1|X NOP",                                  # translate
        "  LEAX $10",
        "  TFR A,X",
        "  LDA [,X+]",
        "L LDA L+1,X",
        "  LEAX 1+1,PCR|X NOP",                            # pcr sizing
        "L LEAX L+70000,PCR",
        "  LEAX NOWHERE,PCR",
        "E EQU 5|  LEAX E,PCR|  LEAX [E,PCR]",
        "  ORG $FFFF|  NOP|  NOP|L NOP",                   # set_address overflow
        "  ORG $FFF0|  RMB 20|L NOP",
        "  RMB 65535|  RMB 65535|L NOP",
        "  BRA FAR|  RMB 128|FAR NOP",                     # fix_addresses: TranslationError kept as is
        "FAR NOP|  RMB 127|  BRA FAR",
        "  BRA FAR|  RMB 127|FAR NOP",
        "FAR NOP|  RMB 126|  BRA FAR",
        "  LBRA FAR|  RMB 40000|FAR NOP",                  # fix_addresses: other exceptions wrapped
        "L NOP|  LDA L-1",
        "  ORG $10|L NOP|  LDA L-$20",
        "L NOP|  LDA L*70000",
        "L NOP|  LDX #L/0",
        "L NOP|  LDA L,X",
        "  NOP|L NOP|  LDA L,X|  LDA [L,Y]",
        "  ORG $FFF0|L NOP|  LDA L+$20",
        "  BRA 5|  NOP|  NOP|  NOP|  NOP|  NOP|  NOP",
        "  BRA 50|  NOP",
        "  FDB L|L NOP",
        "  FCB L|L NOP",
    ]
    for text in failures:
        prog("  ORG $2000|" + text)
        prog(text + "|TAIL RTS")
    source = ("  NAM DEMO\n  ORG $3000\nSTART LEAX MSG,PCR\nLOOP LDA ,X+\n  BEQ DONE\n  JSR [$A002]\n  BRA LOOP\nDONE RTS\n"
              "MSG FCC \"HELLO\"\n  FCB 0\n  END START\n")
    cases.append({"kind": "cli", "args": ["in.asm", "--print", "--symbols", "--to_bin", "out.bin"],
                  "files": {"in.asm": source}})
    cases.append({"kind": "cli", "args": ["in.asm", "--symbols", "--to_cas", "out.cas"], "files": {"in.asm": source}})
    for text in ["  BRA FAR|  RMB 128|FAR NOP", "  ORG $FFFF|  NOP|  NOP|L NOP", "L NOP|  LDA L,X", "D1 NOP|D1 RTS",
                 "L LEAX L+70000,PCR"]:
        cases.append({"kind": "cli", "args": ["in.asm", "--print", "--symbols"],
                      "files": {"in.asm": text.replace("|", "\n") + "\n"}})
    return cases


# ---------------------------------------------------------------------------
# Common differential harness: one worker subprocess per tree, same cases.
# ---------------------------------------------------------------------------

WORKER = r'''
import sys, os, json, io, tempfile, subprocess, contextlib
tree = os.path.abspath(sys.argv[1])
sys.path.insert(0, tree)
os.chdir(tree)

from cocoasm.program import Program
from cocoasm.statement import Statement
from cocoasm.instruction import INSTRUCTIONS, CodePackage, Instruction, Mode
from cocoasm.operands import Operand
from cocoasm import operands as operands_module
from cocoasm import values as values_module
from cocoasm.values import Value, NumericValue, AddressValue, NoneValue


def instr(mnemonic):
    if mnemonic is None:
        return None
    return next(op for op in INSTRUCTIONS if op.mnemonic == mnemonic)


def dump(obj, depth=0):
    if depth > 6:
        return "<deep>"
    if obj is None or isinstance(obj, (bool, int, str, float)):
        return obj
    if isinstance(obj, (list, tuple)):
        return [dump(x, depth + 1) for x in obj]
    if isinstance(obj, dict):
        return {str(k): dump(v, depth + 1) for k, v in obj.items()}
    if isinstance(obj, Value):
        out = {"class": type(obj).__name__}
        for name in ("type", "int", "size_hint", "explict_addressing_mode", "negative", "resolved",
                     "original_string", "operation", "hex_array", "original_value"):
            if hasattr(obj, name):
                out[name] = dump(getattr(obj, name), depth + 1)
        for name in ("left", "right", "value"):
            if hasattr(obj, name):
                out[name] = dump(getattr(obj, name), depth + 1)
        for name in ("hex", "hex_len", "byte_len", "is_8_bit", "is_16_bit", "high_byte", "low_byte", "ascii"):
            out[name + "()"] = attempt(getattr(obj, name))
        if hasattr(obj, "is_4_bit"):
            out["is_4_bit()"] = attempt(obj.is_4_bit)
            out["hex(2)"] = attempt(lambda: obj.hex(size=2))
            out["hex(4)"] = attempt(lambda: obj.hex(size=4))
            out["get_negative()"] = attempt(obj.get_negative)
        return out
    if isinstance(obj, CodePackage):
        return {"class": "CodePackage",
                "op_code": dump(obj.op_code, depth + 1), "address": dump(obj.address, depth + 1),
                "post_byte": dump(obj.post_byte, depth + 1), "additional": dump(obj.additional, depth + 1),
                "size": obj.size, "max_size": obj.max_size,
                "additional_needs_resolution": obj.additional_needs_resolution,
                "post_byte_choices": dump(obj.post_byte_choices, depth + 1)}
    if isinstance(obj, Operand):
        return {"class": type(obj).__name__, "type": str(obj.type), "operand_string": obj.operand_string,
                "requires_resolution": obj.requires_resolution, "operation": obj.operation,
                "instruction": obj.instruction.mnemonic if obj.instruction else None,
                "value": dump(obj.value, depth + 1), "left": dump(obj.left, depth + 1),
                "right": dump(obj.right, depth + 1)}
    if isinstance(obj, Statement):
        return {"class": "Statement", "label": obj.label, "mnemonic": obj.mnemonic, "comment": obj.comment,
                "is_empty": obj.is_empty, "is_comment_only": obj.is_comment_only,
                "fixed_size": obj.fixed_size, "pcr_size_hint": obj.pcr_size_hint,
                "instruction": obj.instruction.mnemonic if obj.instruction else None,
                "operand": dump(obj.operand, depth + 1), "original_operand": dump(obj.original_operand, depth + 1),
                "code_pkg": dump(obj.code_pkg, depth + 1),
                "str": attempt(lambda: str(obj))}
    if isinstance(obj, BaseException):
        return describe_error(obj)
    if hasattr(obj, "name") and hasattr(obj, "value") and type(obj).__module__.startswith("cocoasm"):
        return str(obj)
    return repr(obj)


def describe_error(error):
    out = {"exception": type(error).__name__, "str": str(error), "args": dump(list(error.args), 3)}
    if hasattr(error, "value"):
        out["value"] = dump(error.value, 3)
    if hasattr(error, "statement"):
        statement = error.statement
        if isinstance(statement, Statement):
            out["statement"] = attempt(lambda: str(statement))
            out["statement_label"] = statement.label
            out["statement_mnemonic"] = statement.mnemonic
        else:
            out["statement"] = dump(statement, 3)
    return out


def attempt(function):
    try:
        return dump(function(), 3)
    except BaseException as error:
        return {"raised": describe_error(error)}


def run_prog(case):
    program = Program()
    out = {}
    # source lines come from readlines(), so they end in a newline unless the case says otherwise
    lines = case["lines"] if case.get("raw") else [line if line.endswith("\n") else line + "\n" for line in case["lines"]]
    try:
        program.process(lines)
        out["process"] = "ok"
    except BaseException as error:
        out["process"] = describe_error(error)
    out["binary"] = attempt(program.get_binary_array)
    out["listing"] = attempt(program.get_statements)
    out["symbols"] = attempt(program.get_symbol_table)
    out["origin"] = dump(program.origin)
    out["name"] = dump(program.name)
    out["symbol_table"] = attempt(lambda: {k: v for k, v in program.symbol_table.items()})
    if case.get("deep"):
        out["statements"] = attempt(lambda: list(program.statements))
    return out


def run_cli(case):
    tool = case.get("tool", "assembler.py")
    with tempfile.TemporaryDirectory() as work:
        for name, content in case.get("files", {}).items():
            path = os.path.join(work, name)
            if isinstance(content, list):
                with open(path, "wb") as handle:
                    handle.write(bytes(content))
            else:
                with open(path, "w") as handle:
                    handle.write(content)
        env = dict(os.environ)
        env["PYTHONPATH"] = tree
        env["PYTHONDONTWRITEBYTECODE"] = "1"
        env["COLUMNS"] = "80"
        done = subprocess.run([sys.executable, os.path.join(tree, tool)] + case["args"], cwd=work, env=env,
                              capture_output=True, text=True)
        produced = {}
        for name in sorted(os.listdir(work)):
            with open(os.path.join(work, name), "rb") as handle:
                produced[name] = handle.read().hex()
        stderr_lines = done.stderr.strip().splitlines()
        return {"rc": done.returncode, "stdout": done.stdout.replace(tree, "<tree>"),
                "stderr_tail": stderr_lines[-1].replace(tree, "<tree>") if stderr_lines else "",
                "stderr_is_traceback": done.stderr.startswith("Traceback"),
                "files": produced}


def run_operand(case):
    out = {}
    instruction = instr(case["mnemonic"])
    table = {}
    for name, spec in case.get("symbols", {}).items():
        kind, number = spec
        table[name] = AddressValue(number) if kind == "addr" else NumericValue(number)
    try:
        operand = Operand.create_from_str(case["operand"], instruction)
    except BaseException as error:
        return {"create": describe_error(error)}
    out["create"] = dump(operand)
    if case.get("resolve", True):
        try:
            operand = operand.resolve_symbols(table)
            out["resolve"] = dump(operand)
        except BaseException as error:
            out["resolve"] = describe_error(error)
            return out
    try:
        out["translate"] = dump(operand.translate())
        out["after_translate"] = dump(operand)
    except BaseException as error:
        out["translate"] = describe_error(error)
    return out


def run_value(case):
    try:
        value = Value.create_from_str(case["text"], instr(case.get("mnemonic")), case.get("default_mode_extended", True))
    except BaseException as error:
        return {"create": describe_error(error)}
    out = {"create": dump(value)}
    if "symbols" in case:
        table = {}
        for name, spec in case["symbols"].items():
            kind, number = spec
            table[name] = AddressValue(number) if kind == "addr" else NumericValue(number)
        try:
            out["resolve"] = dump(value.resolve(table))
            out["after_resolve"] = dump(value)
        except BaseException as error:
            out["resolve"] = describe_error(error)
    return out


def run_statement(case):
    line = case["line"] if case.get("raw") or case["line"].endswith("\n") else case["line"] + "\n"
    try:
        statement = Statement(line)
    except BaseException as error:
        return {"parse": describe_error(error)}
    return {"parse": dump(statement)}


def run_eval(case):
    scope = dict(globals())
    try:
        exec(case.get("setup", ""), scope)
        return {"result": dump(eval(case["expr"], scope))}
    except BaseException as error:
        return {"raised": describe_error(error)}


RUNNERS = {"prog": run_prog, "cli": run_cli, "operand": run_operand, "value": run_value,
           "statement": run_statement, "eval": run_eval}

cases = json.load(sys.stdin)
results = []
for case in cases:
    captured = io.StringIO()
    with contextlib.redirect_stdout(captured):
        try:
            result = RUNNERS[case["kind"]](case)
        except BaseException as error:
            result = {"harness_error": describe_error(error)}
    results.append({"result": result, "printed": captured.getvalue()})
sys.__stdout__.write(json.dumps(results, sort_keys=True))
'''


def run_tree(tree, cases):
    import json
    import os
    import subprocess
    import sys
    env = dict(os.environ)
    env.pop("PYTHONPATH", None)
    env["PYTHONDONTWRITEBYTECODE"] = "1"
    done = subprocess.run([sys.executable, "-c", WORKER, tree], input=json.dumps(cases), cwd=tree, env=env,
                          capture_output=True, text=True)
    if done.returncode != 0:
        print("worker failed for", tree)
        print(done.stderr)
        sys.exit(1)
    return json.loads(done.stdout)


def main():
    import json
    import os
    import sys
    if len(sys.argv) != 3:
        print("usage: equiv.py <treeA> <treeB>")
        sys.exit(2)
    tree_a, tree_b = (os.path.abspath(p) for p in sys.argv[1:3])
    cases = build_cases()
    results_a = run_tree(tree_a, cases)
    results_b = run_tree(tree_b, cases)
    differences = 0
    errors = 0
    for case, a, b in zip(cases, results_a, results_b):
        text = json.dumps(a, sort_keys=True)
        if '"exception"' in text:
            errors += 1
        if "harness_error" in a["result"] or "harness_error" in b["result"]:
            differences += 1
            print("HARNESS ERROR in case", json.dumps(case)[:200])
            print("  A:", json.dumps(a)[:600])
            print("  B:", json.dumps(b)[:600])
        elif a != b:
            differences += 1
            print("DIFFERENCE in case", json.dumps(case)[:300])
            print("  A:", json.dumps(a, sort_keys=True)[:1500])
            print("  B:", json.dumps(b, sort_keys=True)[:1500])
    print("{} cases ({} involving an error/diagnostic), {} differences".format(len(cases), errors, differences))
    sys.exit(1 if differences or len(results_a) != len(cases) or len(results_b) != len(cases) else 0)


if __name__ == "__main__":
    main()
