#!/usr/bin/env python
"""
Differential demonstration: runs the same inputs through the code of two source
trees (one subprocess per tree, the tree first on sys.path and as cwd) and
compares every observable result.

usage: equiv.py <treeA> <treeB>      exit 0 = all cases agree, 1 = a difference
"""
import json
import os
import subprocess
import sys
import tempfile

WORKER = r'''
import contextlib, io, json, os, subprocess, sys, tempfile

tree = os.path.abspath(sys.argv[1])
sys.path.insert(0, tree)
os.chdir(tree)
cases = json.load(sys.stdin)

from cocoasm.program import Program


def describe_exc(error):
    info = {"type": type(error).__name__, "str": str(error)}
    if hasattr(error, "value"):
        info["value"] = str(error.value)
    statement = getattr(error, "statement", None)
    if statement is not None:
        try:
            info["statement"] = str(statement)
        except Exception as inner:
            info["statement"] = "unprintable " + type(inner).__name__
    return info


def guarded(function):
    try:
        return function()
    except Exception as error:
        return {"error": describe_exc(error)}


def observe_program(lines):
    program = Program()
    try:
        program.process(lines)
    except Exception as error:
        return {"error": describe_exc(error)}
    return {
        "binary": guarded(program.get_binary_array),
        "listing": guarded(program.get_statements),
        "symbols": guarded(program.get_symbol_table),
        "origin": guarded(lambda: program.origin.hex()),
        "name": program.name,
        "detail": guarded(lambda: [
            [s.code_pkg.size, s.code_pkg.max_size, s.fixed_size, s.pcr_size_hint,
             type(s.operand).__name__, list(s.code_pkg.post_byte_choices),
             s.code_pkg.additional_needs_resolution, s.code_pkg.op_code.hex(),
             s.code_pkg.post_byte.hex(), s.code_pkg.additional.hex(), s.code_pkg.address.hex()]
            for s in program.statements]),
    }


def observe_call(code):
    namespace = {}
    try:
        exec(code, namespace)
        return {"result": namespace.get("result")}
    except Exception as error:
        return {"error": describe_exc(error)}


def observe_cli(lines, args, tool="assembler.py", extra_files=None):
    with tempfile.TemporaryDirectory() as work:
        with open(os.path.join(work, "prog.asm"), "w") as handle:
            handle.writelines(lines)
        for name, text in (extra_files or {}).items():
            with open(os.path.join(work, name), "w") as handle:
                handle.write(text)
        before = set(os.listdir(work))
        done = subprocess.run(
            [sys.executable, os.path.join(tree, tool)] + args,
            cwd=work, capture_output=True, text=True,
            env=dict(os.environ, PYTHONPATH=tree, PYTHONDONTWRITEBYTECODE="1"),
        )
        files = {}
        for name in sorted(set(os.listdir(work)) - before):
            with open(os.path.join(work, name), "rb") as handle:
                files[name] = handle.read().hex()
        stderr_tail = done.stderr.strip().splitlines()[-1:] if done.stderr.strip() else []
        return {"code": done.returncode, "stdout": done.stdout, "stderr_tail": stderr_tail, "files": files}


results = []
for case in cases:
    kind = case["kind"]
    if kind == "program":
        results.append(observe_program(case["lines"]))
    elif kind == "call":
        results.append(observe_call(case["code"]))
    elif kind == "cli":
        results.append(observe_cli(case["lines"], case["args"], case.get("tool", "assembler.py"),
                                   case.get("extra_files")))
    else:
        raise SystemExit("unknown case kind " + kind)
json.dump(results, sys.stdout)
'''


def prog(*lines):
    """A program case; every line gets its newline like a line read from a file."""
    return {"kind": "program", "lines": [line + "\n" for line in lines]}


def call(code):
    """A direct library call; the snippet leaves a JSON-friendly value in `result`."""
    return {"kind": "call", "code": code}


def cli(lines, args=("prog.asm", "--print", "--symbols", "--to_bin", "out.bin"), extra_files=None):
    return {"kind": "cli", "lines": [line + "\n" for line in lines], "args": list(args),
            "extra_files": extra_files}


def run_tree(tree, cases):
    with tempfile.TemporaryDirectory() as work:
        worker = os.path.join(work, "worker.py")
        with open(worker, "w") as handle:
            handle.write(WORKER)
        done = subprocess.run(
            [sys.executable, worker, tree], input=json.dumps(cases), capture_output=True, text=True,
            cwd=tree, env=dict(os.environ, PYTHONDONTWRITEBYTECODE="1"),
        )
    if done.returncode != 0:
        print("worker failed for", tree)
        print(done.stderr)
        sys.exit(1)
    return json.loads(done.stdout)


def main(cases):
    if len(sys.argv) != 3:
        print(__doc__)
        sys.exit(2)
    tree_a, tree_b = (os.path.abspath(p) for p in sys.argv[1:3])
    results_a = run_tree(tree_a, cases)
    results_b = run_tree(tree_b, cases)
    differences = 0
    accepted = 0
    for number, (case, a, b) in enumerate(zip(cases, results_a, results_b)):
        if "error" not in a:
            accepted += 1
        if a != b:
            differences += 1
            print("DIFFERENCE in case", number, json.dumps(case)[:300])
            print("   A:", json.dumps(a)[:600])
            print("   B:", json.dumps(b)[:600])
    print("{} cases, {} without error in tree A, {} differences".format(len(cases), accepted, differences))
    sys.exit(1 if differences or len(results_a) != len(cases) or len(results_b) != len(cases) else 0)


# ---------------------------------------------------------------------------
# cases
# ---------------------------------------------------------------------------
CASES = []

OPERANDS = ["", "0", "1", "2", "127", "128", "255", "256", "300", "65535", "65536", "-1", "-128", "-129", "-32768", "$0", "$F", "$0F", "$00F",
            "$000F", "$FFFF", "%00001111", "%0000000000001111", "'A", "1,2", "1,2,3,4,5,6,7,8,9,10", "$FF,$100", "-1,-2", "1,", ",1", ",", "1,,2",
            "'A,'B", "SEVEN", "SEVEN+1", "HERE", "HERE+1", "SEVEN,1", "1,SEVEN", "'TEXT'", "/TEXT/", "'A", "''", "' '", "'A,B'", "\"QUOTED\"",
            "'A B  C'", "'SEMI;COLON'", "'OPEN", "A,X", "#5", "<5", ">5", "[5]"]
DIRECTIVES = ["FCB", "FDB", "FCC", "RMB", "ORG", "EQU", "SETDP", "NAM", "END", "INCLUDE"]

for directive in DIRECTIVES:
    for operand in OPERANDS:
        if directive == "INCLUDE" and operand:
            operand = "/nonexistent/" + operand.replace("'", "q")
        line = "{} {}".format(directive, operand)
        CASES.append(prog("SEVEN EQU 7", "      ORG $0800", "HERE  LDA #1", "MARK  " + line, "AFTER RTS ", "      FDB AFTER", "      FCB 9"))

# lists of every length up to 64, strings of every length, every reservation size class
for length in (1, 2, 3, 7, 8, 9, 31, 32, 33, 63, 64):
    values = ",".join(str((n * 37) % 256) for n in range(length))
    CASES.append(prog("      FCB " + values, "      FDB " + values, "LAST  NOP "))
    CASES.append(prog("      FCC '" + "".join(chr(65 + n % 26) for n in range(length)) + "'", "LAST  NOP "))
for count in (0, 1, 2, 255, 256, 257, 4096, 65535):
    CASES.append(prog("      ORG $10", "      RMB {}".format(count), "LAST  NOP "))

CASES.append(cli(["      NAM DATA", "      ORG $0E00", "START FCB 1,2,3", "      FCB 4", "      FDB 5,6", "      FDB 7", "      FCC 'EIGHT 9' ; ten",
                  "      RMB 5", "      ORG $0F00", "MORE  FCB $FF", "SIZE  EQU 3", "      SETDP 0", "      END START"]))
CASES.append(cli(["      FCB 1,256"]))
CASES.append(cli(["      RMB"]))

# the operand object on its own: translate() for every directive, called twice
CASES.append(call('''
from cocoasm.operands import PseudoOperand, Operand
from cocoasm.instruction import INSTRUCTIONS, Instruction
result = []
texts = ["", "1", "300", "-2", "$12", "$1234", "1,2", "1,2,3", "'AB'", "/A B/", "SYMBOL", "SYMBOL+1", "0", "65535"]
pseudo = [i for i in INSTRUCTIONS if i.is_pseudo] + [Instruction(mnemonic="ZZZ", is_pseudo=True),
                                                     Instruction(mnemonic="fcb", is_pseudo=True, is_multi_byte=True)]
result.append([i.mnemonic for i in pseudo])
for instruction in pseudo:
    for text in texts:
        try:
            operand = PseudoOperand(text, instruction)
        except Exception as error:
            result.append([instruction.mnemonic, text, type(error).__name__, str(error)])
            continue
        for repeat in range(2):
            try:
                package = operand.translate()
                result.append([instruction.mnemonic, text, package.op_code.hex(), package.post_byte.hex(), package.additional.hex(),
                               type(package.additional).__name__, package.additional is operand.value, package.size, package.max_size,
                               package.address.hex(), package.address is operand.value, package.additional_needs_resolution,
                               package.post_byte_choices])
            except Exception as error:
                result.append([instruction.mnemonic, text, type(error).__name__, str(error)])
'''))

main(CASES)
