#!/venv/bin/python
"""
Differential demonstration for property C09 (adding / appending never disturbs stored files).

usage: equiv.py <treeA> <treeB>

For each tree a fresh subprocess is started with the tree at the front of sys.path and a
private empty work directory as cwd (relative host file names are used everywhere so that
messages which embed file names are comparable). The subprocess runs a fixed battery of
cases against the library and both command line tools of THAT tree and prints one JSON
document with every observable (file bytes, listings, exception type + message, stdout,
stderr, exit codes). The two documents are compared case by case.
Exit status 0 = all cases agree, 1 = at least one difference (or a driver failure).
"""
import concurrent.futures
import json
import os
import shutil
import subprocess
import sys
import tempfile

PYTHON = "/venv/bin/python"

DRIVER = r'''
import hashlib, io, json, os, subprocess, sys, contextlib
TREE = sys.argv[1]
sys.path.insert(0, TREE)
import cocoasm
assert os.path.abspath(cocoasm.__file__).startswith(os.path.abspath(TREE) + os.sep), cocoasm.__file__

from cocoasm.values import NumericValue, NoneValue
from cocoasm.virtualfiles.coco_file import CoCoFile
from cocoasm.virtualfiles.source_file import SourceFile, SourceFileType
from cocoasm.virtualfiles.virtual_file import VirtualFile, VirtualFileType
from cocoasm.virtualfiles.cassette import CassetteFile
from cocoasm.virtualfiles.disk import DiskFile, DiskConstants, MLPreamble, BasicPreamble, ASCIIPreamble, Postamble
from cocoasm.virtualfiles.binary import BinaryFile
from cocoasm.virtualfiles.virtual_file_container import VirtualFileContainer

RESULTS = {}
PY = sys.executable


def sha(data):
    return hashlib.sha256(bytes(bytearray(data))).hexdigest()


def file_state(path):
    if not os.path.exists(path):
        return None
    with open(path, "rb") as handle:
        raw = handle.read()
    return {"len": len(raw), "sha": hashlib.sha256(raw).hexdigest()}


def show(value):
    """Render any result into something JSON can carry and that is compared exactly."""
    if isinstance(value, CoCoFile):
        return {
            "str": str(value), "name": value.name, "ext": value.extension,
            "type": repr(value.type.int), "data_type": repr(value.data_type.int),
            "gaps": repr(value.gaps.int if not value.gaps.is_none() else None),
            "load": repr(value.load_addr.int if not value.load_addr.is_none() else None),
            "exec": repr(value.exec_addr.int if not value.exec_addr.is_none() else None),
            "len": len(value.data), "sha": sha(value.data), "ignore_gaps": value.ignore_gaps,
        }
    if isinstance(value, (NumericValue,)):
        return "NumericValue({})".format(value.int)
    if isinstance(value, NoneValue):
        return "NoneValue"
    if isinstance(value, (list, tuple)):
        if len(value) > 64 and all(isinstance(x, int) for x in value):
            return {"ints": len(value), "sha": sha([x & 0xFF for x in value]), "sum": sum(value)}
        return [show(x) for x in value]
    if isinstance(value, dict):
        return {str(k): show(v) for k, v in value.items()}
    if isinstance(value, (int, str, bool, float)) or value is None:
        return value
    return repr(value)


def case(name):
    def deco(fn):
        out = io.StringIO()
        try:
            with contextlib.redirect_stdout(out):
                result = {"ok": show(fn())}
        except BaseException as error:     # includes SystemExit
            result = {"exc": type(error).__name__, "msg": str(error)}
        result["stdout"] = out.getvalue()
        assert name not in RESULTS, name
        RESULTS[name] = result
        return fn
    return deco


def mkfile(name, length, kind="ML", seed=0, load=0x0E00, exe=0x0E10, ext=None):
    data = [(seed + 7 * i + (i >> 8)) & 0xFF for i in range(length)]
    if kind == "ML":
        return CoCoFile(name=name, extension=ext or "BIN", type=NumericValue(2), data_type=NumericValue(0),
                        load_addr=NumericValue(load), exec_addr=NumericValue(exe), data=data)
    if kind == "BASIC":
        return CoCoFile(name=name, extension=ext or "BAS", type=NumericValue(0), data_type=NumericValue(0),
                        load_addr=NumericValue(0), exec_addr=NumericValue(0), data=data)
    if kind == "ASCII":
        data = [0x41 + (x % 26) for x in data]
        return CoCoFile(name=name, extension=ext or "TXT", type=NumericValue(1), data_type=NumericValue(0xFF),
                        load_addr=NumericValue(0), exec_addr=NumericValue(0), data=data)
    raise ValueError(kind)


def vopen(path, vtype):
    vf = VirtualFile(SourceFile(path, file_type=SourceFileType.BINARY), vtype)
    vf.open_virtual_file()
    return vf


def snapshot(path):
    """What a fresh, untyped open of the host file sees."""
    try:
        vf = vopen(path, None)
        return {"type": str(vf.virtual_file_type), "exists": vf.file_exists,
                "files": show(list(vf.list_files())), "host": file_state(path)}
    except BaseException as error:
        return {"exc": type(error).__name__, "msg": str(error), "host": file_state(path)}


def history(path, vtype, steps, append=True):
    """steps: list of lists of CoCoFile; each step = open, add all, save; snapshot after each."""
    trace = []
    for files in steps:
        entry = {}
        try:
            vf = vopen(path, vtype)
            entry["before"] = show(list(vf.list_files()))
            for f in files:
                vf.add_coco_file(f)
            vf.save_virtual_file(append_mode=append)
            entry["saved"] = True
        except BaseException as error:
            entry["exc"] = type(error).__name__
            entry["msg"] = str(error)
        entry["after"] = snapshot(path)
        trace.append(entry)
    return trace


BOUNDARY = [0, 1, 2, 254, 255, 256, 509, 510, 511, 2293, 2294, 2295, 2298, 2299, 2300, 2301,
            2303, 2304, 2305, 4597, 4598, 4599, 4603, 4604, 4608, 6912]
KINDS = ["ML", "BASIC", "ASCII"]

# ---------------------------------------------------------------- histories, one add per save
for vname, vtype in (("cas", VirtualFileType.CASSETTE), ("dsk", VirtualFileType.DISK)):
    for kind in KINDS:
        @case("hist-single-{}-{}".format(vname, kind))
        def _():
            path = "h1_{}_{}.img".format(vname, kind)
            lengths = BOUNDARY[1:] if vname == "cas" else BOUNDARY[1::2]     # disk round trips are slow
            steps = [[mkfile("F{:02d}".format(i), n, kind, seed=i)] for i, n in enumerate(lengths)]
            return history(path, vtype, steps)

    @case("hist-mixed-{}".format(vname))
    def _():
        path = "h2_{}.img".format(vname)
        steps = []
        for i, n in enumerate(BOUNDARY[1:]):
            steps.append([mkfile("M{:02d}".format(i), n, KINDS[i % 3], seed=3 * i, load=0x1000 + i, exe=0x2000 + i)])
        return history(path, vtype, steps)

    @case("hist-batches-{}".format(vname))
    def _():
        path = "h3_{}.img".format(vname)
        steps = [
            [mkfile("A", 10), mkfile("B", 2299, "BASIC"), mkfile("C", 2304, "ASCII")],
            [],
            [mkfile("D", 255), mkfile("E", 256)],
            [mkfile("LONGNAME9", 5, ext="toolong")],
            [mkfile("lower", 5, "BASIC", ext="b")],
        ]
        return history(path, vtype, steps)

    @case("hist-zero-length-{}".format(vname))
    def _():
        path = "h4_{}.img".format(vname)
        return history(path, vtype, [[mkfile("ONE", 3)], [mkfile("ZERO", 0)], [mkfile("TWO", 4)],
                                     [mkfile("ZB", 0, "BASIC")], [mkfile("ZA", 0, "ASCII")], [mkfile("END", 1)]])

    @case("hist-no-append-{}".format(vname))
    def _():
        path = "h5_{}.img".format(vname)
        return history(path, vtype, [[mkfile("ONE", 3)], [mkfile("TWO", 4)], [mkfile("THREE", 5)]], append=False)

    @case("hist-same-name-{}".format(vname))
    def _():
        path = "h6_{}.img".format(vname)
        return history(path, vtype, [[mkfile("DUP", 3, seed=1)], [mkfile("DUP", 4, seed=2)], [mkfile("DUP", 5, seed=3)]])

    @case("list-filter-{}".format(vname))
    def _():
        vf = vopen("h3_{}.img".format(vname), None)
        return [vf.list_files(filenames=["A"]), vf.list_files(filenames=["A", "D", "nope"]),
                vf.list_files(filenames=[]), vf.list_files(["E"])]

# ---------------------------------------------------------------- capacity of the media
@case("disk-capacity-one-granule-files")
def _():
    path = "cap1.dsk"
    steps = [[mkfile("G{:02d}".format(i), 100 + i, KINDS[i % 3], seed=i)] for i in range(70)]
    trace = history(path, VirtualFileType.DISK, steps)
    return [{"i": i, "exc": t.get("exc"), "msg": t.get("msg"), "n": len(t["after"].get("files", [])),
             "host": t["after"]["host"], "last": (t["after"].get("files") or [None])[-1]} for i, t in enumerate(trace)]


@case("disk-capacity-big-files")
def _():
    path = "cap2.dsk"
    steps = [[mkfile("BIG{}".format(i), 2304 * 9 + i, KINDS[i % 3], seed=i)] for i in range(9)]
    return history(path, VirtualFileType.DISK, steps)


@case("disk-capacity-exact-fill")
def _():
    path = "cap3.dsk"
    steps = [[mkfile("X{}".format(i), 2304 * 17 - 11, seed=i)] for i in range(4)] + [[mkfile("Y", 1)]]
    return history(path, VirtualFileType.DISK, steps)


@case("cassette-bigger-than-a-disk")
def _():
    path = "big.cas"
    steps = [[mkfile("T{:02d}".format(i), 40000 + i, KINDS[i % 3], seed=i)] for i in range(6)]
    trace = history(path, VirtualFileType.CASSETTE, steps)
    return [{"exc": t.get("exc"), "msg": t.get("msg"), "after": t["after"]} for t in trace]


@case("cassette-exactly-disk-size-probe")
def _():
    out = []
    for total in (161279, 161280, 161281):
        path = "probe{}.cas".format(total)
        cas = CassetteFile()
        cas.add_file(mkfile("P", 1000))
        buf = cas.get_buffer()
        buf.extend([0x00] * (total - len(buf)))
        SourceFile.write_binary_contents(path, buf)
        out.append(snapshot(path))
        out.append(history(path, VirtualFileType.CASSETTE, [[mkfile("Q", 10)]]))
        out.append(history(path, VirtualFileType.DISK, [[mkfile("R", 10)]]))
    return out

# ---------------------------------------------------------------- type sniffing and mismatches
@case("type-mismatch-and-unknown")
def _():
    out = []
    SourceFile.write_binary_contents("plain.bin", [1, 2, 3, 4])
    SourceFile.write_binary_contents("empty.bin", [])
    for path in ("h3_cas.img", "h3_dsk.img", "plain.bin", "empty.bin", "missing.img"):
        for vtype in (None, VirtualFileType.CASSETTE, VirtualFileType.DISK, VirtualFileType.BINARY,
                      VirtualFileType.UNKNOWN):
            entry = {"path": path, "vtype": str(vtype)}
            try:
                vf = vopen(path, vtype)
                entry["type"] = str(vf.virtual_file_type)
                entry["exists"] = vf.file_exists
                entry["n"] = len(vf.list_files())
            except BaseException as error:
                entry["exc"] = type(error).__name__
                entry["msg"] = str(error)
            out.append(entry)
    return out


@case("save-unknown-or-none-type-writes-nothing")
def _():
    out = []
    for vtype in (None, VirtualFileType.UNKNOWN, 0, 1, "DISK"):
        vf = VirtualFile(SourceFile("never.img", file_type=SourceFileType.BINARY), vtype)
        vf.open_virtual_file()
        vf.add_coco_file(mkfile("N", 5))
        out.append([repr(vf.save_virtual_file()), repr(vf.save_virtual_file(append_mode=True)), file_state("never.img")])
    return out


@case("binary-histories")
def _():
    return [history("b1.bin", VirtualFileType.BINARY, [[mkfile("A", 5)], [mkfile("B", 6)], [mkfile("C", 0)]]),
            history("b2.bin", VirtualFileType.BINARY, [[mkfile("A", 5)], [mkfile("B", 6)]], append=False),
            file_state("b1.bin"), file_state("b2.bin")]


@case("save-error-precedence")
def _():
    # files that cannot be stored + existing target + no append: which error wins?
    history("prec.dsk", VirtualFileType.DISK, [[mkfile("A", 5)]])
    vf = vopen("prec.dsk", VirtualFileType.DISK)
    for i in range(5):
        vf.add_coco_file(mkfile("H{}".format(i), 2304 * 16))
    out = []
    for mode in (False, True):
        try:
            vf.save_virtual_file(append_mode=mode)
            out.append("saved")
        except BaseException as error:
            out.append([type(error).__name__, str(error)])
    out.append(snapshot("prec.dsk"))
    return out


@case("in-memory-state")
def _():
    vf = VirtualFile(SourceFile("mem.cas", file_type=SourceFileType.BINARY), VirtualFileType.CASSETTE)
    first = [vf.file_exists, str(vf.virtual_file_type), list(vf.coco_file_list), sorted(vars(vf).keys())]
    vf.open_virtual_file()
    vf.add_coco_file(mkfile("A", 3))
    vf.add_coco_file(mkfile("B", 4))
    second = [vf.file_exists, vf.list_files(), vf.list_files(["B"])]
    vf.save_virtual_file()
    third = [vf.file_exists, len(vf.source_file.get_buffer()), sha(vf.source_file.get_buffer())]
    vf.save_virtual_file()      # file_exists still False on this object
    vf2 = vopen("mem.cas", None)
    return [first, second, third, vf2.file_exists, str(vf2.virtual_file_type), vf2.list_files(),
            repr(vf.delete_coco_file("A")), sorted(vars(vf2).keys())]

# ---------------------------------------------------------------- DiskFile internals
@case("disk-directory-and-granule-queries")
def _():
    disk = DiskFile()
    disk.add_file(mkfile("A", 5000))
    disk.add_file(mkfile("B", 10, "BASIC"))
    out = []
    for n in (-2, -1, 0, 1, 2, 3, 70, 71, 72, 100):
        try:
            out.append(["dir", n, disk.directory_entry_in_use(n)])
        except BaseException as error:
            out.append(["dir", n, type(error).__name__, str(error)])
    for n in (-2, -1, 0, 1, 31, 32, 33, 34, 35, 66, 67, 68, 255):
        try:
            out.append(["gran", n, disk.granule_in_use(n)])
        except BaseException as error:
            out.append(["gran", n, type(error).__name__, str(error)])
    out.append(disk.find_empty_directory_entry())
    out.append(disk.find_empty_granule())
    out.append(sha(disk.get_buffer()))
    return out


@case("disk-directory-full")
def _():
    out = []
    for used in (0, 1, 69, 70, 71, 72):
        disk = DiskFile()
        for n in range(used):
            disk.buffer[DiskConstants.DIR_OFFSET + 32 * n] = 0x41
        entry = [used, disk.find_empty_directory_entry()]
        try:
            disk.add_file(mkfile("NEW", 7))
            entry.append("added")
        except BaseException as error:
            entry.extend([type(error).__name__, str(error)])
        entry.append(sha(disk.get_buffer()))
        out.append(entry)
    # deleted (0x00) slot in the middle is re-used
    disk = DiskFile()
    for n in range(5):
        disk.add_file(mkfile("S{}".format(n), 20 + n))
    disk.buffer[DiskConstants.DIR_OFFSET + 32 * 2] = 0x00
    out.append(disk.find_empty_directory_entry())
    disk.add_file(mkfile("RE", 9))
    out.append(sha(disk.get_buffer()))
    try:
        out.append(DiskFile(buffer=list(disk.get_buffer())).list_files())
    except BaseException as error:
        out.append([type(error).__name__, str(error)])
    return out


@case("disk-fill-order-variants")
def _():
    out = []
    for order in (None, [], list(range(68)), list(range(67, -1, -1)), list(range(67)), list(range(68)) + [0],
                  [68] + list(range(67)), [5] * 68):
        entry = [repr(order)[:40]]
        try:
            disk = DiskFile(granule_fill_order=order)
            entry.append(disk.find_empty_granule())
            disk.add_file(mkfile("A", 5000))
            disk.add_file(mkfile("B", 1, "ASCII"))
            entry.append(disk.find_empty_granule())
            entry.append(sha(disk.get_buffer()))
            entry.append(DiskFile(buffer=list(disk.get_buffer())).list_files())
        except BaseException as error:
            entry.extend([type(error).__name__, str(error)])
        out.append(entry)
    return out


@case("disk-no-free-granules")
def _():
    disk = DiskFile()
    out = []
    for i in range(6):
        try:
            disk.add_file(mkfile("F{}".format(i), 2304 * 13))
            out.append(["ok", i, disk.find_empty_directory_entry()])
        except BaseException as error:
            out.append([type(error).__name__, str(error)])
    try:
        out.append(disk.find_empty_granule())
    except BaseException as error:
        out.append([type(error).__name__, str(error)])
    out.append(sha(disk.get_buffer()))
    out.append(show(disk.get_buffer()[DiskConstants.FAT_OFFSET:DiskConstants.FAT_OFFSET + 68]))
    try:
        out.append(DiskFile(buffer=list(disk.get_buffer())).list_files())
    except BaseException as error:
        out.append([type(error).__name__, str(error)])
    return out


@case("disk-calculations")
def _():
    out = []
    for kind in KINDS:
        for n in BOUNDARY:
            f = mkfile("C", n, kind)
            if kind == "ML":
                pre, post = MLPreamble(), Postamble()
            elif kind == "ASCII":
                pre, post = ASCIIPreamble(), None
            else:
                pre, post = BasicPreamble(), None
            out.append([kind, n, DiskFile.calculate_granules_needed(f.data, pre, post),
                        DiskFile.calculate_last_sector_bytes_used(f.data, pre, post),
                        DiskFile.calculate_last_granules_sectors_used(f.data, pre, post),
                        DiskFile.calculate_sectors_needed(n)])
    out.append([DiskFile.seek_granule(g) for g in range(0, 68)])
    return out


@case("disk-low-level-writers")
def _():
    disk = DiskFile()
    out = [repr(disk.write_to_fat([], 3)), repr(disk.write_to_granules([1, 2, 3], [], None, None))]
    disk.write_to_fat([4], 1)
    disk.write_to_fat([10, 11, 12], 9)
    out.append(show(disk.get_buffer()[DiskConstants.FAT_OFFSET:DiskConstants.FAT_OFFSET + 68]))
    out.append(disk.write_bytes_to_buffer(100, [9, 8, 7]))
    out.append(disk.write_bytes_to_buffer(100, []))
    disk.write_dir_entry(3, mkfile("ab\0d", 1, ext="x"), 7, 0x1234)
    disk.write_dir_entry(71, mkfile("LONGERTHAN8", 1, ext="LONG"), 67, 0)
    out.append(show(disk.get_buffer()[DiskConstants.DIR_OFFSET + 96:DiskConstants.DIR_OFFSET + 128]))
    out.append(show(disk.get_buffer()[DiskConstants.DIR_OFFSET + 71 * 32:DiskConstants.DIR_OFFSET + 72 * 32]))
    out.append(sha(disk.get_buffer()))
    return out


@case("disk-list-bad-images")
def _():
    out = []
    good = DiskFile()
    good.add_file(mkfile("A", 3000))
    good.add_file(mkfile("B", 30, "BASIC"))
    good.add_file(mkfile("C", 30, "ASCII"))
    base = list(good.get_buffer())
    variants = {
        "empty": [], "short": base[:161279], "exact": base, "long": base + [0] * 100,
        "all00": [0] * 161280, "allFF": [0xFF] * 161280, "all41": [0x41] * 161280,
    }
    bad_pre = list(base); bad_pre[DiskFile.seek_granule(32)] = 0x55
    variants["bad-ml-preamble"] = bad_pre
    bad_post = list(base); bad_post[DiskFile.seek_granule(34) - 0] = 0x01
    variants["bad-something"] = bad_post
    bad_name = list(base); bad_name[DiskConstants.DIR_OFFSET + 1] = 0xC3
    variants["bad-utf8-name"] = bad_name
    for key, buf in variants.items():
        try:
            out.append([key, DiskFile(buffer=buf).list_files()])
        except BaseException as error:
            out.append([key, type(error).__name__, str(error)])
        SourceFile.write_binary_contents("v_{}.img".format(key), [b & 0xFF for b in buf])
        out.append(snapshot("v_{}.img".format(key)))
    return out


@case("disk-read-helpers")
def _():
    disk = DiskFile()
    disk.add_file(mkfile("A", 3000))
    out = []
    calls = [
        lambda: disk.read_sequence(DiskConstants.DIR_OFFSET, 8, decode=True),
        lambda: disk.read_sequence(DiskConstants.DIR_OFFSET, 8),
        lambda: disk.read_sequence(161279, 1), lambda: disk.read_sequence(161279, 2),
        lambda: disk.read_sequence(0, 161281), lambda: disk.read_sequence(0, 0),
        lambda: disk.validate_sequence(DiskConstants.DIR_OFFSET, [0x41, 0x20]),
        lambda: disk.validate_sequence(DiskConstants.DIR_OFFSET, [0x41, 0x21]),
        lambda: disk.validate_sequence(161279, [1, 2]),
        lambda: disk.read_word(DiskConstants.DIR_OFFSET + 14), lambda: disk.read_word(161278),
        lambda: disk.read_word(161279), lambda: disk.read_word(161280), lambda: disk.read_word(-2),
        lambda: disk.read_word(-1),
        lambda: DiskFile(buffer=[7]).read_word(0), lambda: DiskFile(buffer=[1, 2]).read_word(0),
        lambda: VirtualFileContainer().read_word(0), lambda: VirtualFileContainer(buffer=[1, 2, 3]).read_word(1),
        lambda: DiskFile.calculate_file_length(32, disk.buffer[DiskConstants.FAT_OFFSET:DiskConstants.FAT_OFFSET + 256], 7),
        lambda: disk.read_data(32, disk.buffer[DiskConstants.FAT_OFFSET:DiskConstants.FAT_OFFSET + 256], MLPreamble(), 3000),
        lambda: disk.read_data(67, disk.buffer[DiskConstants.FAT_OFFSET:DiskConstants.FAT_OFFSET + 256], None, 2305),
    ]
    for index, call in enumerate(calls):
        try:
            out.append([index, call()])
        except BaseException as error:
            out.append([index, type(error).__name__, str(error)])
    return out

# ---------------------------------------------------------------- CassetteFile internals
@case("cassette-append-primitives")
def _():
    out = []
    for name in ("", "A", "ABCDEFGH", "ABCDEFGHIJ", "abc def", "\0\0", "naïve", "€"):
        cas = CassetteFile()
        out.append([name, cas.append_name(name), list(cas.get_buffer())])
    cas = CassetteFile()
    cas.append_leader(); n1 = len(cas.buffer)
    cas.append_blank(); n2 = len(cas.buffer)
    cas.append_eof(); n3 = len(cas.buffer)
    out.append([n1, n2, n3, sha(cas.buffer), list(cas.buffer[-6:])])
    for f in (mkfile("HDR", 1, load=0x1234, exe=0xFEDC), mkfile("B", 1, "BASIC"), mkfile("ASCIIFILE", 1, "ASCII"),
              mkfile("", 1), mkfile("zz", 1, load=0xFFFF, exe=0xFFFF)):
        cas = CassetteFile()
        out.append([repr(cas.append_header(f)), list(cas.get_buffer())])
    return out


@case("cassette-data-blocks")
def _():
    out = []
    for n in (0, 1, 2, 253, 254, 255, 256, 509, 510, 511, 765, 766, 1000):
        for gaps in (False, True):
            cas = CassetteFile()
            data = [(3 * i + 250) & 0xFF for i in range(n)]
            ret = cas.append_data_blocks(data, gaps=gaps)
            out.append([n, gaps, repr(ret), len(cas.buffer), sha(cas.buffer), list(cas.buffer[:6]), list(cas.buffer[-4:])])
    cas = CassetteFile()
    cas.append_data_blocks(bytes(range(200)))
    cas.append_data_blocks(bytearray(300))
    cas.append_data_blocks(tuple(range(10)))
    out.append([len(cas.buffer), sha(cas.buffer)])
    return out


@case("cassette-add-and-list")
def _():
    cas = CassetteFile()
    out = []
    for i, n in enumerate(BOUNDARY):
        cas.add_file(mkfile("C{:02d}".format(i), n, KINDS[i % 3], seed=i))
        out.append([len(cas.buffer), sha(cas.buffer)])
    buf = list(cas.get_buffer())
    for names in (None, [], ["C01"], ["C01     "], ["C03     ", "C05     "], ["zzz"]):
        try:
            out.append(CassetteFile(buffer=list(buf)).list_files(filenames=names))
        except BaseException as error:
            out.append([type(error).__name__, str(error)])
    return out


@case("cassette-bad-images")
def _():
    cas = CassetteFile()
    cas.add_file(mkfile("A", 300))
    cas.add_file(mkfile("B", 20, "BASIC"))
    base = list(cas.get_buffer())
    out = []
    cuts = [0, 1, 128, 255, 256, 258, 259, 260, 268, 270, 277, 278, 279, 300, 533, 534, 535, 536, 537, 538, 539, 540,
            700, 795, 796, 797, 798, 850, 856, 857, 858, 859, 860, 861, 862, len(base) - 7, len(base) - 6,
            len(base) - 5, len(base) - 3, len(base) - 1, len(base)]
    for cut in cuts:
        try:
            out.append([cut, CassetteFile(buffer=base[:cut]).list_files()])
        except BaseException as error:
            out.append([cut, type(error).__name__, str(error)])
    for pos, val in ((258, 0x01), (535 + 2, 0x02), (535 + 2, 0x00), (268, 0xC3), (536, 0x00)):
        buf = list(base); buf[pos] = val
        try:
            out.append([pos, val, CassetteFile(buffer=buf).list_files()])
        except BaseException as error:
            out.append([pos, val, type(error).__name__, str(error)])
        SourceFile.write_binary_contents("cb_{}_{}.cas".format(pos, val), buf)
        out.append(snapshot("cb_{}_{}.cas".format(pos, val)))
        out.append(history("cb_{}_{}.cas".format(pos, val), VirtualFileType.CASSETTE, [[mkfile("NEW", 12)]]))
    return out


@case("cassette-read-helpers")
def _():
    cas = CassetteFile()
    cas.add_file(mkfile("HELPER", 300, load=0x3F00, exe=0x3F02))
    out = []
    calls = [
        lambda: cas.skip_to_sequence([0x55, 0x3C, 0x00]), lambda: cas.skip_to_sequence([0x55, 0x3C, 0x00], start=257),
        lambda: cas.skip_to_sequence([0x55, 0x3C, 0x01]), lambda: cas.skip_to_sequence([0x55, 0x3C, 0xFF]),
        lambda: cas.skip_to_sequence([0x12, 0x34, 0x56]), lambda: cas.skip_to_sequence([]),
        lambda: cas.skip_to_sequence([0x55], start=len(cas.buffer)), lambda: cas.skip_to_sequence([0x55], start=5000),
        lambda: CassetteFile().skip_to_sequence([0x55]), lambda: CassetteFile().skip_to_sequence([]),
        lambda: cas.read_coco_file_name(260), lambda: cas.read_coco_file_name(len(cas.buffer) - 4),
        lambda: cas.read_file(0), lambda: cas.read_file(257), lambda: cas.read_file(len(cas.buffer)),
        lambda: cas.read_blocks(277), lambda: cas.read_blocks(0), lambda: cas.read_blocks(len(cas.buffer) - 5),
        lambda: cas.read_word(272), lambda: cas.read_word(274), lambda: cas.read_word(len(cas.buffer) - 2),
        lambda: cas.read_word(len(cas.buffer) - 1), lambda: cas.read_word(len(cas.buffer)),
        lambda: CassetteFile().list_files(), lambda: CassetteFile(buffer=[]).list_files(["A"]),
        lambda: CassetteFile(buffer=[0x55, 0x3C, 0x00]).list_files(),
    ]
    for index, call in enumerate(calls):
        try:
            out.append([index, call()])
        except BaseException as error:
            out.append([index, type(error).__name__, str(error)])
    return out


@case("container-base-behaviour")
def _():
    src = [1, 2, 3]
    cont = CassetteFile(buffer=src)
    same = cont.get_buffer() is src
    cont.buffer.append(4)
    out = [same, list(cont.original_buffer), list(cont.buffer), list(src)]
    empty = DiskFile(buffer=[])
    out.append([len(empty.buffer), list(empty.original_buffer)])
    none = DiskFile()
    out.append([len(none.buffer), list(none.original_buffer), none.granule_fill_order == DiskConstants.GRANULE_FILL_ORDER])
    binf = BinaryFile()
    binf.add_files([mkfile("A", 3), mkfile("B", 2, "ASCII")])
    out.append([list(binf.get_buffer()), binf.list_files()])
    out.append([repr(VirtualFileContainer().add_files([])), sorted(vars(none).keys()), sorted(vars(cont).keys())])
    return out

# ---------------------------------------------------------------- command line tools
ASM = {
    "one.asm": "        NAM ONE\n        ORG $0E00\nSTART   LDA #$01\n        STA $0400\n        RTS\n        END START\n",
    "two.asm": "        NAM TWOTWO\n        ORG $3F00\nBEGIN   LDX #$0400\nLOOP    CLR ,X+\n        CMPX #$0600\n        BNE LOOP\n        RTS\n        END BEGIN\n",
    "big.asm": "        NAM BIGONE\n        ORG $2000\nTOP     NOP\n        RMB 2300\n        FCB $01,$02,$03\n        RTS\n        END TOP\n",
    "noname.asm": "        ORG $1000\n        NOP\n        END\n",
    "longname.asm": "        NAM ABCDEFGHIJK\n        ORG $1000\n        NOP\n        END\n",
}
for asm_name, text in ASM.items():
    with open(asm_name, "w") as handle:
        handle.write(text)


def run(tool, *args):
    proc = subprocess.run([PY, os.path.join(TREE, tool)] + list(args), capture_output=True, text=True)
    return {"rc": proc.returncode, "out": proc.stdout, "err": proc.stderr}


CLI_SCRIPT = [
    ("assembler.py", "one.asm", "--to_cas", "t.cas"),
    ("file_util.py", "t.cas", "--list"),
    ("assembler.py", "two.asm", "--to_cas", "t.cas"),                       # refused: exists
    ("assembler.py", "two.asm", "--to_cas", "t.cas", "--append"),
    ("file_util.py", "t.cas", "--list"),
    ("assembler.py", "big.asm", "--to_cas", "t.cas", "--append", "--symbols", "--print"),
    ("file_util.py", "t.cas", "--list"),
    ("assembler.py", "noname.asm", "--to_cas", "t.cas", "--append"),
    ("assembler.py", "noname.asm", "--to_cas", "t.cas", "--append", "--name", "GIVEN"),
    ("assembler.py", "longname.asm", "--to_cas", "t.cas", "--append"),
    ("file_util.py", "t.cas", "--list"),
    ("assembler.py", "one.asm", "--to_dsk", "t.dsk"),
    ("file_util.py", "t.dsk", "--list"),
    ("assembler.py", "two.asm", "--to_dsk", "t.dsk"),                       # refused: exists
    ("assembler.py", "two.asm", "--to_dsk", "t.dsk", "--append"),
    ("assembler.py", "big.asm", "--to_dsk", "t.dsk", "--append"),
    ("assembler.py", "noname.asm", "--to_dsk", "t.dsk", "--append"),
    ("assembler.py", "noname.asm", "--to_dsk", "t.dsk", "--append", "--name", "given"),
    ("assembler.py", "longname.asm", "--to_dsk", "t.dsk", "--append"),
    ("file_util.py", "t.dsk", "--list"),
    ("assembler.py", "one.asm", "--to_dsk", "t.cas", "--append"),           # wrong kind of target
    ("assembler.py", "one.asm", "--to_cas", "t.dsk", "--append"),           # wrong kind of target
    ("assembler.py", "one.asm", "--to_bin", "t.bin"),
    ("assembler.py", "two.asm", "--to_bin", "t.bin"),
    ("assembler.py", "two.asm", "--to_bin", "t.bin", "--append"),
    ("assembler.py", "one.asm", "--to_bin", "t.cas", "--append"),
    ("file_util.py", "t.bin", "--list"),
    ("assembler.py", "one.asm", "--to_bin", "all.bin", "--to_cas", "all.cas", "--to_dsk", "all.dsk"),
    ("assembler.py", "two.asm", "--to_bin", "all.bin", "--to_cas", "all.cas", "--to_dsk", "all.dsk", "--append"),
    ("file_util.py", "all.cas", "--list"),
    ("file_util.py", "all.dsk", "--list"),
    ("file_util.py", "t.cas", "--to_dsk", "conv.dsk"),
    ("file_util.py", "conv.dsk", "--list"),
    ("file_util.py", "t.dsk", "--to_dsk", "conv.dsk"),                      # refused: exists
    ("file_util.py", "t.dsk", "--to_dsk", "conv.dsk", "--append"),
    ("file_util.py", "conv.dsk", "--list"),
    ("file_util.py", "t.dsk", "--to_cas", "conv.cas"),
    ("file_util.py", "t.cas", "--to_cas", "conv.cas", "--append", "--files", "one", "BIGONE"),
    ("file_util.py", "conv.cas", "--list"),
    ("file_util.py", "conv.cas", "--to_cas", "conv.cas", "--append"),       # onto itself
    ("file_util.py", "conv.cas", "--list"),
    ("file_util.py", "t.cas", "--to_bin", "x.bin"),
    ("file_util.py", "t.cas", "--to_dsk", "t.cas", "--append"),             # wrong kind of target
    ("file_util.py", "missing.cas", "--list"),
    ("file_util.py", "missing.cas", "--to_dsk", "frommissing.dsk"),
    ("file_util.py", "cap1.dsk", "--list"),
    ("file_util.py", "cap1.dsk", "--to_cas", "cap1.cas"),
    ("file_util.py", "cap1.cas", "--to_dsk", "cap1.dsk", "--append"),       # overflows the disk
    ("file_util.py", "big.cas", "--list"),
    ("assembler.py", "one.asm", "--to_cas", "big.cas", "--append"),
    ("file_util.py", "big.cas", "--list"),
]
HOST_FILES = ["t.cas", "t.dsk", "t.bin", "all.bin", "all.cas", "all.dsk", "conv.dsk", "conv.cas", "x.bin",
              "frommissing.dsk", "cap1.dsk", "cap1.cas", "big.cas"]
for number, command in enumerate(CLI_SCRIPT):
    @case("cli-{:02d}-{}".format(number, " ".join(command)))
    def _():
        outcome = run(*command)
        outcome["hosts"] = {name: file_state(name) for name in HOST_FILES}
        return outcome

RESULTS["~directory"] = {"ok": {name: file_state(name) for name in sorted(os.listdir("."))}}
json.dump(RESULTS, sys.stdout, sort_keys=True)
'''


def run_tree(tree, driver_path):
    tree = os.path.abspath(tree)
    work = tempfile.mkdtemp(prefix="c09work_")
    try:
        env = dict(os.environ)
        env.pop("PYTHONPATH", None)
        env["PYTHONDONTWRITEBYTECODE"] = "1"
        env["PYTHONHASHSEED"] = "0"
        proc = subprocess.run([PYTHON, driver_path, tree], cwd=work, env=env, capture_output=True, text=True)
        if proc.returncode != 0:
            sys.stderr.write("driver failed for {}:\n{}\n".format(tree, proc.stderr[-4000:]))
            return None
        return json.loads(proc.stdout)
    finally:
        shutil.rmtree(work, ignore_errors=True)


def main():
    if len(sys.argv) != 3:
        sys.stderr.write(__doc__)
        return 1
    scratch = tempfile.mkdtemp(prefix="c09drv_")
    try:
        driver_path = os.path.join(scratch, "driver.py")
        with open(driver_path, "w") as handle:
            handle.write(DRIVER)
        with concurrent.futures.ThreadPoolExecutor(max_workers=2) as pool:      # one subprocess per tree
            future_a = pool.submit(run_tree, sys.argv[1], driver_path)
            future_b = pool.submit(run_tree, sys.argv[2], driver_path)
            result_a, result_b = future_a.result(), future_b.result()
    finally:
        shutil.rmtree(scratch, ignore_errors=True)
    if result_a is None or result_b is None:
        return 1

    differences = 0
    for name in sorted(set(result_a) | set(result_b)):
        if result_a.get(name) != result_b.get(name):
            differences += 1
            print("DIFF in case [{}]".format(name))
            print("   A: {}".format(json.dumps(result_a.get(name), sort_keys=True)[:1500]))
            print("   B: {}".format(json.dumps(result_b.get(name), sort_keys=True)[:1500]))
    errors = sum(1 for r in result_a.values() if "exc" in r)
    print("{} cases compared ({} of them end in an exception in tree A), {} differ".format(
        len(result_a), errors, differences))
    return 1 if differences else 0


if __name__ == "__main__":
    sys.exit(main())
