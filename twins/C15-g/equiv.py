#!/usr/bin/env python
"""
Differential check: runs the same battery of cases against two source trees
(one subprocess per tree, the tree first on sys.path, a private scratch
directory as cwd) and compares every observable result.

usage: equiv.py <treeA> <treeB>      exit 0 = all cases agree, 1 = otherwise
"""
import json
import os
import subprocess
import sys
import tempfile

DRIVER = r'''
import contextlib, hashlib, io, json, os, sys, types, subprocess

TREE, WORK = sys.argv[1], sys.argv[2]
sys.path.insert(0, TREE)
os.chdir(WORK)
RESULTS = {}


def digest(data):
    data = bytes(data)
    return {"len": len(data), "sha": hashlib.sha256(data).hexdigest(), "head": data[:48].hex()}


def snapshot(directory="."):
    out = {}
    for root, _, files in os.walk(directory):
        for name in sorted(files):
            path = os.path.join(root, name)
            with open(path, "rb") as handle:
                out[os.path.relpath(path, directory)] = digest(handle.read())
    return dict(sorted(out.items()))


def outcome(func, *args, **kwargs):
    """Runs func, returns its (jsonable) value or the exception type/message, plus stdout."""
    stream = io.StringIO()
    try:
        with contextlib.redirect_stdout(stream):
            value = func(*args, **kwargs)
        result = {"value": value}
    except SystemExit as error:
        result = {"exit": repr(error.code)}
    except BaseException as error:
        result = {"raised": type(error).__name__, "message": str(error)}
    result["stdout"] = stream.getvalue()
    return result


def case(name, func, *args, **kwargs):
    assert name not in RESULTS, name
    RESULTS[name] = outcome(func, *args, **kwargs)


def describe(coco_file):
    """Everything observable about a CoCoFile returned by a reader."""
    def val(v):
        try:
            return [type(v).__name__, v.hex(), v.int]
        except Exception as error:
            return [type(v).__name__, "ERR", str(error)]
    return {
        "name": coco_file.name, "extension": coco_file.extension,
        "type": val(coco_file.type), "data_type": val(coco_file.data_type),
        "gaps": val(coco_file.gaps), "load": val(coco_file.load_addr), "exec": val(coco_file.exec_addr),
        "data": digest(coco_file.data), "ignore_gaps": coco_file.ignore_gaps, "str": str(coco_file),
    }


def in_dir(name):
    """Creates and enters a fresh sub-directory of the scratch dir; returns a function to leave."""
    path = os.path.join(WORK, name)
    os.makedirs(path)
    os.chdir(path)
    return lambda: os.chdir(WORK)


def assemble(case_name, source, to_bin=None, to_cas=None, to_dsk=None, name=None, append=False,
             symbols=False, listing=False, width=100, pre=None):
    """Runs assembler.main() in a fresh directory; records stdout, outcome, files and what the readers list."""
    import assembler
    import file_util
    leave = in_dir(case_name)
    try:
        with open("prog.asm", "w") as handle:
            handle.write(source)
        if pre:
            pre()
        args = types.SimpleNamespace(filename="prog.asm", symbols=symbols, print=listing, to_bin=to_bin,
                                     to_cas=to_cas, to_dsk=to_dsk, name=name, append=append, width=width)
        result = outcome(assembler.main, args)
        result["files"] = snapshot()
        listings = {}
        for image in (to_cas, to_dsk, to_bin):
            if image and os.path.exists(image):
                fu_args = types.SimpleNamespace(host_filename=image, append=False, list=True, to_bin=None,
                                                to_cas=None, to_dsk=None, files=None)
                listings[image] = outcome(file_util.main, fu_args)
        result["listings"] = listings
        RESULTS[case_name] = result
    finally:
        leave()


def program(origin=None, nam=None, size=4, end=None, fill=0x12):
    lines = []
    if nam is not None:
        lines.append("        NAM {}".format(nam))
    if origin is not None:
        lines.append("        ORG {}".format(origin))
    lines.append("START   LDA #$01")
    body = size - 2
    while body > 0:
        chunk = min(body, 8)
        lines.append("        FCB " + ",".join("${:02X}".format((fill + body + k) & 0xFF) for k in range(chunk)))
        body -= chunk
    lines.append("        END {}".format(end) if end else "        END")
    return "\n".join(lines) + "\n"


# ---- C15: filling disk images, through the library and through the tools -------------------------------------
import random
import types
from cocoasm.virtualfiles.disk import DiskFile, DiskConstants, MLPreamble, BasicPreamble, ASCIIPreamble, Postamble
from cocoasm.virtualfiles.cassette import CassetteFile
from cocoasm.virtualfiles.coco_file import CoCoFile
from cocoasm.virtualfiles.virtual_file import VirtualFile, VirtualFileType
from cocoasm.virtualfiles.source_file import SourceFile, SourceFileType
from cocoasm.values import NumericValue, NoneValue, AddressValue

G = DiskConstants.HALF_TRACK_LEN
KINDS = {"ml": (2, 0), "basic": (0, 0), "ascii": (1, 0xFF), "text": (3, 0xFF), "data": (1, 0)}


def make_file(name, kind="ml", length=10, seed=0, ext="bin", load=0x0E00, execute=0x0E10):
    type_val, data_type = KINDS[kind]
    return CoCoFile(name=name, extension=ext, type=NumericValue(type_val), data_type=NumericValue(data_type),
                    load_addr=NumericValue(load), exec_addr=NumericValue(execute), data=[(i * 3 + seed) & 0xFF for i in range(length)])


def short(value):
    text = json.dumps(value, sort_keys=True)
    return [hashlib.sha256(text.encode()).hexdigest()[:20], len(text), text[:80]]


def disk_state(disk):
    buffer = disk.get_buffer()
    fat = buffer[DiskConstants.FAT_OFFSET:DiskConstants.FAT_OFFSET + 68]
    slots = [buffer[DiskConstants.DIR_OFFSET + 32 * n] for n in range(72)]
    return {"image": digest(buffer), "fat": list(fat), "free_granules": sum(1 for entry in fat if entry == 0xFF),
            "used_slots": sum(1 for first in slots if first not in (0x00, 0xFF)),
            "listing": outcome(lambda: [describe(f) for f in DiskFile(buffer=list(buffer)).list_files()])}


def fill(specs, fill_order=None, stop_on_error=True):
    """adds files one by one; records the outcome of every add and the state of the image after each failure and at the end"""
    disk = DiskFile(granule_fill_order=fill_order)
    history = []
    for number, (kind, length) in enumerate(specs):
        result = outcome(disk.add_file, make_file("F{}".format(number), kind, length, seed=number))
        history.append([number, kind, length, result.get("raised"), result.get("message")])
        if "raised" in result:
            history.append([digest(disk.get_buffer())["sha"][:16], list(disk.get_buffer()[DiskConstants.FAT_OFFSET:DiskConstants.FAT_OFFSET + 68])])
            if stop_on_error:
                break
    return {"history": history, "final": disk_state(disk)}


def fill_case(name, specs, **kwargs):
    RESULTS[name] = {"value": short_keep(outcome(fill, specs, **kwargs))}


def short_keep(result):
    """digest of the whole result plus the parts worth reading in a diff"""
    value = result.get("value") or {}
    final = value.get("final", {})
    return {"digest": short(result), "raised": result.get("raised"), "history_tail": (value.get("history") or [])[-3:],
            "free_granules": final.get("free_granules"), "used_slots": final.get("used_slots"), "fat": final.get("fat")}


# slot exhaustion: many small files
for count in (1, 2, 66, 67, 68, 69, 70, 71, 72, 73, 80):
    fill_case("small files x{}".format(count), [("ml", 10)] * count)
fill_case("small basic files x75 keep going", [("basic", 5)] * 75, stop_on_error=False)
fill_case("small ascii files x75", [("ascii", 0)] * 75)
# granule exhaustion: few large files
for length in (G - 11, G - 10, G - 9, G, 2 * G - 10, 2 * G - 9, 10 * G, 33 * G, 34 * G - 10, 34 * G - 9, 67 * G, 68 * G - 11, 68 * G - 10, 68 * G - 9, 68 * G, 70 * G):
    fill_case("one big ml file {}".format(length), [("ml", length)])
    fill_case("two big ml files {}".format(length), [("ml", length), ("ml", length)])
    fill_case("one big ascii file {}".format(length), [("ascii", length)])
    fill_case("two big ascii files then small {}".format(length), [("ascii", length), ("ascii", length), ("ml", 1)], stop_on_error=False)
for length in (G - 4, G - 3, G - 2, 68 * G - 4, 68 * G - 3):
    fill_case("big basic file {}".format(length), [("basic", length), ("basic", 1)])
for length in (G - 1, G, G + 1, 68 * G - 1, 68 * G):
    fill_case("big ascii file {}".format(length), [("ascii", length), ("ascii", 1)])
fill_case("34 two-granule files", [("ml", G)] * 35)
fill_case("17 four-granule files", [("ml", 3 * G + 100)] * 18)
fill_case("big then small until full", [("ascii", 60 * G)] + [("ml", 1)] * 12)
fill_case("three 25 granule ml files", [("ml", 25 * G - 10)] * 3, stop_on_error=False)
fill_case("ml files of 28 granules and one byte less", [("ml", 65535), ("ml", 65535), ("ml", 12 * G - 10), ("ml", 1)], stop_on_error=False)
fill_case("small until nearly full then big", [("ml", 1)] * 60 + [("ml", 8 * G)] + [("ml", 7 * G)] + [("ml", 8 * G - 11)] + [("ml", 1)] * 10, stop_on_error=False)
fill_case("exact multiples", [("ml", k * G - 10) for k in (1, 2, 3, 4, 5)] + [("basic", k * G - 3) for k in (1, 2, 3)] + [("ascii", k * G) for k in (1, 2)])
fill_case("keep going after errors", [("ascii", 40 * G), ("ascii", 40 * G), ("ml", 20 * G), ("ml", 10 * G), ("ml", 7 * G), ("ml", G), ("ml", 1), ("ml", 1)], stop_on_error=False)
# mixtures from empty to full, default and permuted fill orders
for seed in range(12):
    rng = random.Random(seed)
    specs = [(rng.choice(list(KINDS)), rng.choice([0, 1, 200, G - 12, G - 5, G, G + 1, 2 * G + 7, rng.randint(0, 6 * G)])) for _ in range(90)]
    fill_case("random mixture seed {}".format(seed), specs, stop_on_error=False)
    order = list(range(68))
    rng.shuffle(order)
    fill_case("random mixture permuted order seed {}".format(seed), specs, fill_order=order, stop_on_error=False)
fill_case("reverse fill order", [("ml", 3 * G)] * 25, fill_order=list(range(67, -1, -1)))
fill_case("ascending fill order", [("ml", G + 1)] * 40, fill_order=list(range(68)), stop_on_error=False)
fill_case("short fill order", [("ml", 1)], fill_order=list(range(67)))
fill_case("long fill order", [("ml", 5 * G)] * 3, fill_order=list(range(68)) + [0, 1])
fill_case("fill order with invalid granule", [("ml", 1)] * 3, fill_order=[68] + list(range(67)))
fill_case("fill order with negative granule", [("ml", 1)] * 3, fill_order=[-1] + list(range(67)))
fill_case("fill order of one repeated", [("ml", 1)] * 3, fill_order=[5] * 68, stop_on_error=False)
fill_case("empty fill order means default", [("ml", 1)] * 2, fill_order=[])

# unit level: the finders and predicates on prepared images


def finders(marks_fat, marks_dir):
    disk = DiskFile()
    for granule, value in marks_fat.items():
        disk.buffer[DiskConstants.FAT_OFFSET + granule] = value
    for entry, value in marks_dir.items():
        disk.buffer[DiskConstants.DIR_OFFSET + 32 * entry] = value
    return {"granule": outcome(disk.find_empty_granule), "entry": outcome(disk.find_empty_directory_entry),
            "granules_in_use": [outcome(disk.granule_in_use, g).get("value", "err") for g in range(-1, 69)],
            "entries_in_use": [outcome(disk.directory_entry_in_use, e).get("value", "err") for e in range(-1, 73)]}


ALL = {g: 0xC1 for g in range(68)}
case("finders empty disk", finders, {}, {})
case("finders first choice taken", finders, {32: 0xC1}, {0: 0x41})
case("finders only granule 67 free", finders, {g: 0x00 for g in range(67)}, {e: 0x41 for e in range(70)})
case("finders only granule 0 free", finders, {g: 0x00 for g in range(1, 68)}, {e: 0x41 for e in range(71)})
case("finders everything used", finders, ALL, {e: 0x41 for e in range(72)})
case("finders deleted entries", finders, {32: 0x21, 33: 0xC9}, {0: 0x41, 1: 0x00, 2: 0x41})
case("finders entry 71 only", finders, {}, dict({e: 0x41 for e in range(71)}))
case("finders errors", lambda: [outcome(DiskFile().granule_in_use, 68), outcome(DiskFile().directory_entry_in_use, 72), outcome(DiskFile().granule_in_use, -1)])
RESULTS["granules needed table"] = {"value": short([[kind, length, DiskFile.calculate_granules_needed([0] * length, pre(), post() if post else None)]
                                                      for kind, pre, post in (("ml", MLPreamble, Postamble), ("basic", BasicPreamble, None), ("ascii", ASCIIPreamble, None))
                                                      for length in list(range(0, 3 * G + 20, 7)) + [k * G + d for k in (1, 2, 3, 67, 68) for d in range(-12, 3)]])}

# through VirtualFile: the host file is written only when every add succeeded


def save_through_virtual_file(existing_specs, new_specs, append, target_type=VirtualFileType.DISK):
    leave = in_dir("vf{}".format(len(RESULTS)))
    try:
        if existing_specs is not None:
            disk = DiskFile()
            for number, (kind, length) in enumerate(existing_specs):
                disk.add_file(make_file("OLD{}".format(number), kind, length, seed=50 + number))
            SourceFile.write_binary_contents("host.dsk", disk.get_buffer())
        before = snapshot()
        virtual_file = VirtualFile(SourceFile("host.dsk", file_type=SourceFileType.BINARY), target_type)
        steps = [outcome(virtual_file.open_virtual_file)]
        steps.append([len(virtual_file.list_files()), str(virtual_file.virtual_file_type), virtual_file.file_exists,
                      [f.name for f in virtual_file.list_files(["OLD0"])]])
        for number, (kind, length) in enumerate(new_specs):
            virtual_file.add_coco_file(make_file("NEW{}".format(number), kind, length, seed=number))
        steps.append(outcome(virtual_file.save_virtual_file, append_mode=append))
        after = snapshot()
        listing = None
        if os.path.exists("host.dsk"):
            listing = outcome(lambda: [describe(f) for f in DiskFile(buffer=SourceFile.read_binary_contents("host.dsk")).list_files()])
        return {"steps": steps, "before": before, "after": after, "unchanged": before == after, "listing": short(listing)}
    finally:
        leave()


FORTY = [("ml", 25 * G - 11), ("ml", 15 * G - 11)]      # two files that take 40 granules together
VF_CASES = {
    "new image": (None, [("ml", 100), ("basic", 3000)], False),
    "new image append flag": (None, [("ml", 100)], True),
    "new image too big": (None, [("ascii", 69 * G)], False),
    "new image value too big": (None, [("ml", 69 * G)], False),
    "new image too many": (None, [("ml", 1)] * 73, False),
    "exists no append": ([("ml", 10)], [("ml", 20)], False),
    "exists append": ([("ml", 10), ("ascii", 700)], [("ml", 20), ("ml", 5000)], True),
    "exists append overflow granules": (FORTY, [("ml", 10), ("ml", 28 * G - 10)], True),
    "exists append overflow slots": ([("ml", 1)] * 60, [("ml", 1)] * 12, True),
    "exists append exactly full granules": (FORTY, [("ml", 28 * G - 11)], True),
    "exists append one granule too many": (FORTY, [("ml", 28 * G - 10)], True),
    "exists append second new file fails": (FORTY, [("ml", 20 * G), ("ml", 9 * G), ("ml", 1)], True),
    "exists append nothing new": ([("ml", 10)], [], True),
    "empty list new image": (None, [], False),
    "exists wrong type requested": ([("ml", 10)], [("ml", 20)], True, VirtualFileType.CASSETTE),
    "exists no type requested": ([("ml", 10)], [("ml", 20)], True, None),
    "absent no type requested": (None, [("ml", 20)], False, None),
}
for name, arguments in VF_CASES.items():
    case("virtual file " + name, save_through_virtual_file, *arguments)


def host_variants(kind):
    leave = in_dir("host{}".format(len(RESULTS)))
    try:
        if kind == "tape":
            cassette = CassetteFile()
            cassette.add_file(make_file("ONTAPE", "ml", 300))
            SourceFile.write_binary_contents("host.dsk", cassette.get_buffer())
        elif kind == "junk":
            SourceFile.write_binary_contents("host.dsk", [1, 2, 3] * 100)
        elif kind == "empty":
            SourceFile.write_binary_contents("host.dsk", [])
        elif kind == "oversize":
            disk = DiskFile()
            disk.add_file(make_file("BIGIMG", "ml", 50))
            SourceFile.write_binary_contents("host.dsk", disk.get_buffer() + [0] * 256)
        elif kind == "directory":
            os.mkdir("host.dsk")
        out = {}
        for wanted in (VirtualFileType.DISK, VirtualFileType.CASSETTE, VirtualFileType.BINARY, None):
            virtual_file = VirtualFile(SourceFile("host.dsk", file_type=SourceFileType.BINARY), wanted)
            out[str(wanted)] = [outcome(virtual_file.open_virtual_file), str(virtual_file.virtual_file_type), virtual_file.file_exists,
                                [f.name for f in virtual_file.list_files()]]
        return out
    finally:
        leave()


for kind in ("tape", "junk", "empty", "oversize", "directory", "absent"):
    case("open host file " + kind, host_variants, kind)


def source_file_io():
    leave = in_dir("sf{}".format(len(RESULTS)))
    try:
        out = []
        binary = SourceFile("b.bin", file_type=SourceFileType.BINARY)
        binary.set_buffer(list(range(256)) * 3)
        out.append(outcome(binary.write_file))
        again = SourceFile("b.bin", file_type=SourceFileType.BINARY)
        out.append(outcome(again.read_file))
        out.append([type(again.get_buffer()).__name__, digest(again.get_buffer()), sorted({type(b).__name__ for b in again.get_buffer()})])
        text = SourceFile("b.bin")
        text.set_buffer([1, 2, 3])
        out.append(outcome(text.write_file))
        out.append(snapshot())
        with open("t.asm", "w") as handle:
            handle.write("A NOP\n\nB RTS")
        asm = SourceFile("t.asm")
        out.append([outcome(asm.read_file), asm.get_buffer()])
        out.append(outcome(SourceFile("missing.bin", file_type=SourceFileType.BINARY).read_file))
        out.append(outcome(SourceFile("missing.asm").read_file))
        odd = SourceFile("t.asm", file_type="neither")
        out.append([outcome(odd.read_file), odd.get_buffer(), outcome(odd.write_file)])
        bad = SourceFile("bad.bin", file_type=SourceFileType.BINARY)
        bad.set_buffer([1, 256])
        out.append([outcome(bad.write_file), snapshot()])
        empty = SourceFile("empty.bin", file_type=SourceFileType.BINARY)
        out.append([outcome(empty.write_file), outcome(empty.read_file), empty.get_buffer()])
        return out
    finally:
        leave()


case("source file io", source_file_io)


def containers():
    shared = [1, 2, 3]
    out = []
    for container_class in (DiskFile, CassetteFile):
        for given in (None, [], shared):
            container = container_class(buffer=given)
            out.append([container_class.__name__, repr(given)[:20], container.get_buffer() is given, len(container.get_buffer()), container.original_buffer,
                        container.original_buffer is given])
    return out


case("container construction", containers)

# the command line tools


def cli_session():
    leave = in_dir("cli")
    try:
        def source(name, size, origin="$0E00", nam=True):
            with open(name + ".asm", "w") as handle:
                handle.write(("        NAM {}\n".format(name) if nam else "") + "        ORG {}\nSTART   NOP\n".format(origin))
                handle.write("".join("        FDB ${:04X}\n".format((i * 259) & 0xFFFF) for i in range(size // 2)) + "        END START\n")
        source("small", 20)
        source("big", 30000)
        source("huge", 60000, "$0100")
        source("anon", 10, nam=False)
        runs = []
        sequence = [["assembler.py", "small.asm", "--to_dsk", "d.dsk"], ["assembler.py", "big.asm", "--to_dsk", "d.dsk"], ["assembler.py", "big.asm", "--to_dsk", "d.dsk", "--append"],
                    ["assembler.py", "huge.asm", "--to_dsk", "d.dsk", "--append"], ["file_util.py", "d.dsk", "--list"], ["assembler.py", "huge.asm", "--to_dsk", "d.dsk", "--append"],
                    ["file_util.py", "d.dsk", "--list"], ["assembler.py", "big.asm", "--to_dsk", "d.dsk", "--append"], ["assembler.py", "small.asm", "--to_dsk", "d.dsk", "--append"],
                    ["assembler.py", "anon.asm", "--to_dsk", "d.dsk", "--append"], ["assembler.py", "anon.asm", "--to_dsk", "d.dsk", "--append", "--name", "given"],
                    ["file_util.py", "d.dsk", "--list"], ["file_util.py", "d.dsk", "--to_dsk", "copy.dsk"], ["file_util.py", "d.dsk", "--to_dsk", "copy.dsk"],
                    ["file_util.py", "d.dsk", "--to_dsk", "copy.dsk", "--append"], ["file_util.py", "copy.dsk", "--list"], ["file_util.py", "d.dsk", "--to_dsk", "some.dsk", "--files", "small", "GIVEN"],
                    ["file_util.py", "some.dsk", "--list"], ["file_util.py", "d.dsk", "--to_cas", "all.cas"], ["file_util.py", "all.cas", "--to_dsk", "fromcas.dsk"], ["file_util.py", "fromcas.dsk", "--list"],
                    ["file_util.py", "d.dsk", "--to_bin", "one.bin"], ["file_util.py", "some.dsk", "--to_bin", "one.bin", "--files", "SMALL"], ["file_util.py", "d.dsk", "--to_bin", "sel.bin", "--files", "small"],
                    ["file_util.py", "nothing.dsk", "--list"], ["file_util.py", "nothing.dsk", "--to_bin", "none.bin"], ["file_util.py", "small.asm", "--list"], ["file_util.py", "d.dsk"]]
        for argv in sequence:
            proc = subprocess.run([sys.executable, os.path.join(TREE, argv[0])] + argv[1:], capture_output=True, text=True)
            runs.append([argv, proc.returncode, proc.stdout, proc.stderr.replace(TREE, "<tree>"), {k: v["sha"][:12] for k, v in snapshot().items() if not k.endswith(".asm")}])
        return runs
    finally:
        leave()


case("command line session", cli_session)


def cli_fill_slots():
    leave = in_dir("clislots")
    try:
        with open("tiny.asm", "w") as handle:
            handle.write("        ORG $1000\n        RTS\n")
        runs = []
        for number in range(74):
            proc = subprocess.run([sys.executable, os.path.join(TREE, "assembler.py"), "tiny.asm", "--to_dsk", "slots.dsk", "--append", "--name", "T{}".format(number)],
                                  capture_output=True, text=True)
            runs.append([number, proc.returncode, proc.stdout, proc.stderr.replace(TREE, "<tree>"), snapshot()["slots.dsk"]["sha"][:12]])
        proc = subprocess.run([sys.executable, os.path.join(TREE, "file_util.py"), "slots.dsk", "--list"], capture_output=True, text=True)
        runs.append([proc.returncode, hashlib.sha256(proc.stdout.encode()).hexdigest(), proc.stdout.count("-- File #")])
        return runs
    finally:
        leave()


case("command line fill all slots", cli_fill_slots)

json.dump(RESULTS, sys.stdout)
'''


def run_tree(tree):
    tree = os.path.abspath(tree)
    with tempfile.TemporaryDirectory() as work:
        driver = os.path.join(work, "_driver.py")
        with open(driver, "w") as handle:
            handle.write(DRIVER)
        scratch = os.path.join(work, "w")
        os.mkdir(scratch)
        env = dict(os.environ, PYTHONPATH=tree, PYTHONDONTWRITEBYTECODE="1", PYTHONHASHSEED="0")
        proc = subprocess.run(
            [sys.executable, driver, tree, scratch],
            cwd=scratch, env=env, capture_output=True, text=True,
        )
        if proc.returncode != 0:
            print("driver failed for", tree)
            print(proc.stdout[-2000:])
            print(proc.stderr[-4000:])
            sys.exit(1)
        return json.loads(proc.stdout)


def main():
    if len(sys.argv) != 3:
        print(__doc__)
        sys.exit(2)
    res_a = run_tree(sys.argv[1])
    res_b = run_tree(sys.argv[2])
    names = list(res_a.keys())
    bad = 0
    if names != list(res_b.keys()):
        print("case lists differ")
        bad += 1
    for name in names:
        if res_a[name] != res_b.get(name):
            bad += 1
            print("DIFF in case", name)
            print("  A:", json.dumps(res_a[name])[:600])
            print("  B:", json.dumps(res_b.get(name))[:600])
    print("{} cases compared, {} differ".format(len(names), bad))
    sys.exit(1 if bad else 0)


if __name__ == "__main__":
    main()
