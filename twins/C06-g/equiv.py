#!/usr/bin/env python
"""
Differential check for property C06 (cassette images round-trip every file).

usage: equiv.py <treeA> <treeB>

The PROBE below is run once per tree in a subprocess (tree at the front of
sys.path, a private scratch directory as cwd).  It prints one JSON document
with every observable result; the two documents must be identical.
"""
import json
import os
import subprocess
import sys
import tempfile

PROBE = r'''
import hashlib, io, json, os, subprocess, sys, contextlib
TREE = sys.argv[1]
sys.path.insert(0, TREE)
from cocoasm.virtualfiles.cassette import CassetteFile
from cocoasm.virtualfiles.coco_file import CoCoFile
from cocoasm.virtualfiles.virtual_file_container import VirtualFileContainer
from cocoasm.virtualfiles.virtual_file import VirtualFile, VirtualFileType
from cocoasm.virtualfiles.source_file import SourceFile, SourceFileType
from cocoasm.values import NumericValue, NoneValue

RESULTS = []

def digest(buf):
    raw = bytes(bytearray(buf))
    return {"len": len(raw), "sha": hashlib.sha256(raw).hexdigest(), "head": raw[:600].hex(), "tail": raw[-40:].hex()}

def val(v):
    return None if v is None else [type(v).__name__, v.int, v.hex(), v.hex(size=4), v.negative]

def show_file(f):
    return {"name": f.name, "ext": f.extension, "type": val(f.type), "dtype": val(f.data_type), "gaps": val(f.gaps),
            "load": val(f.load_addr), "exec": val(f.exec_addr), "data": digest(f.data), "ascii": f.ascii,
            "ignore_gaps": f.ignore_gaps, "str": str(f)}

def case(label, fn):
    try:
        out = fn()
        RESULTS.append([label, "ok", out])
    except BaseException as error:
        RESULTS.append([label, "exc", type(error).__name__, str(error)])

def pattern(length, seed):
    marker = [0x55, 0x3C, 0x00, 0x55, 0x3C, 0x01, 0x55, 0x3C, 0xFF, 0x00, 0x0F]
    out = []
    for i in range(length):
        if seed % 3 == 0:
            out.append(marker[(i + seed) % len(marker)])
        else:
            out.append((i * (seed + 7) + seed * 31) & 0xFF)
    return out

def mkfile(name, length, seed, ftype=2, dtype=0, load=0x0E00, exe=0x0E00):
    return CoCoFile(name=name, extension="BIN", type=NumericValue(ftype), data_type=NumericValue(dtype),
                    gaps=NumericValue(0), load_addr=NumericValue(load), exec_addr=NumericValue(exe),
                    data=pattern(length, seed))

def write_and_list(files, filenames=None):
    cas = CassetteFile()
    cas.add_files(files)
    buf = list(cas.get_buffer())
    back = CassetteFile(buffer=list(buf)).list_files(filenames=filenames)
    return {"buffer": digest(buf), "files": [show_file(f) for f in back]}

LENGTHS = [1, 2, 15, 127, 128, 254, 255, 256, 257, 509, 510, 511, 765, 1020, 4096, 65535]
for n, length in enumerate(LENGTHS):
    case("rt-len-%d" % length, lambda: write_and_list([mkfile("F%d" % length, length, n)]))
case("rt-empty-list", lambda: write_and_list([]))
case("rt-empty-file", lambda: write_and_list([mkfile("EMPTY", 0, 1)]))
case("rt-empty-then-full", lambda: write_and_list([mkfile("EMPTY", 0, 1), mkfile("NEXT", 10, 2)]))
NAMES = ["", "A", "ABCDEFG", "ABCDEFGH", "ABCDEFGHI", "ABCDEFGHIJKL", "lower", "a.b", "~!@#$%^&", "X"]
for n, name in enumerate(NAMES):
    case("rt-name-%r" % name, lambda: write_and_list([mkfile(name, 20 + n, n)]))
for ftype in (0, 1, 2, 3):
    for dtype in (0x00, 0xFF):
        case("rt-type-%d-%d" % (ftype, dtype), lambda: write_and_list([mkfile("T", 300, ftype + dtype, ftype, dtype)]))
ADDRS = [(0, 0), (1, 0xFF), (0xFF, 0x100), (0x100, 0xFFFF), (0x0E00, 0x0E10), (0x7FFF, 0x8000), (0xFFFF, 0xFFFF), (0x553C, 0x3C55)]
for load, exe in ADDRS:
    case("rt-addr-%04X-%04X" % (load, exe), lambda: write_and_list([mkfile("ADDR", 33, load & 7, 2, 0, load, exe)]))
case("rt-multi", lambda: write_and_list([mkfile("ONE", 10, 0), mkfile("TWO", 255, 3), mkfile("THREE", 700, 6), mkfile("FOUR", 1, 4)]))
case("rt-multi-filter", lambda: write_and_list([mkfile("ONE", 10, 0), mkfile("TWO", 255, 3), mkfile("THREE", 700, 6)], filenames=["TWO     ", "THREE   "]))
case("rt-multi-filter-none", lambda: write_and_list([mkfile("ONE", 10, 0)], filenames=["ZZZ"]))
case("rt-dup-names", lambda: write_and_list([mkfile("SAME", 10, 0), mkfile("SAME", 11, 1)]))
case("rt-all-markers", lambda: write_and_list([CoCoFile(name="MARK", extension="BIN", type=NumericValue(2), data_type=NumericValue(0),
     gaps=NumericValue(0), load_addr=NumericValue(0x3C55), exec_addr=NumericValue(0x553C), data=[0x55, 0x3C, 0x00] * 200 + [0x55, 0x3C, 0xFF, 0x00, 0xFF, 0x55] * 30)]))
case("rt-none-values", lambda: write_and_list([CoCoFile(name="NV", data=[1, 2, 3])]))
case("rt-neg-addr", lambda: write_and_list([mkfile("NEG", 5, 1, 2, 0, -2, -300)]))
case("rt-bytes-data", lambda: write_and_list([CoCoFile(name="BY", extension="BIN", type=NumericValue(2), data_type=NumericValue(0),
     gaps=NumericValue(0), load_addr=NumericValue(0x1000), exec_addr=NumericValue(0x1000), data=bytes(range(256)) * 2)]))

# writer pieces, one by one
def writer_piece(fn, initial=None):
    cas = CassetteFile(buffer=initial)
    ret = fn(cas)
    return {"ret": ret, "buffer": digest(cas.get_buffer()), "orig": digest(cas.original_buffer)}

for name in ["", "A", "ABCDEFGH", "ABCDEFGHIJ", "abc def", "\u00e9t\u00e9"]:
    case("append_name-%r" % name, lambda: writer_piece(lambda c: c.append_name(name)))
case("append_name-none", lambda: writer_piece(lambda c: c.append_name(None)))
case("append_name-bytes", lambda: writer_piece(lambda c: c.append_name(b"AB")))
case("append_eof", lambda: writer_piece(lambda c: c.append_eof()))
case("append_leader", lambda: writer_piece(lambda c: c.append_leader()))
case("append_blank", lambda: writer_piece(lambda c: c.append_blank()))
case("append_eof-onto", lambda: writer_piece(lambda c: c.append_eof(), [1, 2, 3]))
for length in (0, 1, 254, 255, 256, 510, 511, 600):
    for gaps in (False, True):
        case("append_data_blocks-%d-%s" % (length, gaps), lambda: writer_piece(lambda c: c.append_data_blocks(pattern(length, 5), gaps=gaps)))
        case("append_data_blocks-pos-%d-%s" % (length, gaps), lambda: writer_piece(lambda c: c.append_data_blocks(pattern(length, 6), gaps)))
case("append_data_blocks-bytes", lambda: writer_piece(lambda c: c.append_data_blocks(bytes(pattern(300, 2)))))
case("append_data_blocks-bytearray", lambda: writer_piece(lambda c: c.append_data_blocks(bytearray(pattern(300, 3)))))
case("append_data_blocks-big-values", lambda: writer_piece(lambda c: c.append_data_blocks([256, 1000, -1, 70000])))
case("append_data_blocks-none", lambda: writer_piece(lambda c: c.append_data_blocks(None)))
case("append_header-std", lambda: writer_piece(lambda c: c.append_header(mkfile("HDR", 3, 1, 2, 0xFF, 0x1234, 0xABCD))))
case("append_header-onto", lambda: writer_piece(lambda c: c.append_header(mkfile("HDR", 3, 1, 1, 0, 0xFFFF, 0xFFFF)), [9] * 7))
case("append_header-nonevalues", lambda: writer_piece(lambda c: c.append_header(CoCoFile(name="N"))))
case("append_header-bad-name", lambda: writer_piece(lambda c: c.append_header(CoCoFile(name=5))))
case("append_header-bad-type", lambda: writer_piece(lambda c: c.append_header(CoCoFile(name="X", type=7))))
case("add_file-onto", lambda: writer_piece(lambda c: c.add_file(mkfile("ADD", 256, 3)), [0x55, 0x3C]))
case("add_file-bytearray-buffer", lambda: writer_piece(lambda c: c.add_file(mkfile("ADD", 256, 3)), bytearray([0x55, 0x3C])))
case("add_file-bytes-buffer", lambda: writer_piece(lambda c: c.add_file(mkfile("ADD", 2, 3)), bytes([0x55, 0x3C])))
case("add_files-append", lambda: writer_piece(lambda c: c.add_files([mkfile("MORE", 20, 3)]), list(CassetteFile().get_buffer()) + [0] * 4))
case("add_file-bad", lambda: writer_piece(lambda c: c.add_file(None)))

# container primitives
def container(buf):
    c = VirtualFileContainer(buffer=buf)
    return {"buffer": digest(c.buffer), "orig": digest(c.original_buffer), "same": c.buffer is buf, "origsame": c.original_buffer is buf}
for buf in (None, [], [1], [1, 2, 3], bytearray(b"ab"), b"xyz"):
    case("container-%r" % (buf,), lambda: container(buf))
WORDBUF = [0x12, 0x34, 0xAB, 0xCD, 0x00, 0xFF]
for ptr in (-7, -6, -2, -1, 0, 1, 3, 4, 5, 6, 7, 100):
    case("read_word-%d" % ptr, lambda: val(CassetteFile(buffer=list(WORDBUF)).read_word(ptr)))
case("read_word-short0", lambda: val(CassetteFile(buffer=[]).read_word(0)))
case("read_word-short1", lambda: val(CassetteFile(buffer=[7]).read_word(0)))
case("read_word-two", lambda: val(CassetteFile(buffer=[7, 8]).read_word(0)))
case("read_word-bytes", lambda: val(CassetteFile(buffer=bytes(WORDBUF)).read_word(2)))

# reader pieces
def hdr(name, ftype=2, dtype=0, gaps=0, load=0x0E00, exe=0x0E00, length=0x0F):
    field = [ord(c) for c in name[:8].ljust(8)]
    body = [0x00, length] + field + [ftype, dtype, gaps, load >> 8, load & 255, exe >> 8, exe & 255]
    return [0x55, 0x3C] + body + [sum(body) & 255, 0x55]
def blk(data, btype=1):
    body = [btype, len(data)] + list(data)
    return [0x55, 0x3C] + body + [sum(body) & 255, 0x55]
EOF = [0x55, 0x3C, 0xFF, 0x00, 0xFF, 0x55]
def lead(n):
    return [0x55] * n
def listing(stream, filenames=None, as_type=list):
    return [show_file(f) for f in CassetteFile(buffer=as_type(stream)).list_files(filenames)]

STREAMS = {
    "plain": lead(128) + hdr("PLAIN") + lead(128) + blk([1, 2, 3]) + EOF,
    "no-leader": hdr("NOLEAD") + blk([9]) + EOF,
    "leader-1": lead(1) + hdr("L1") + lead(1) + blk([9, 8]) + lead(1) + EOF,
    "leader-1000": lead(1000) + hdr("L1000") + lead(700) + blk(range(200)) + lead(300) + blk(range(55)) + EOF + lead(50),
    "gaps-between": [0] * 128 + lead(128) + hdr("GAPS", gaps=0xFF) + [0] * 128 + lead(128) + blk(range(255)) + [0] * 128 + lead(128) + blk(range(255)) + [0] * 128 + lead(128) + blk([7]) + EOF,
    "two-files": lead(10) + hdr("ONE", ftype=0, dtype=0xFF) + lead(10) + blk([65, 66]) + EOF + lead(10) + hdr("TWO", ftype=1) + blk([1] * 255) + blk([2] * 3) + EOF,
    "marker-payload": hdr("MARK") + blk([0x55, 0x3C, 0xFF, 0x00, 0xFF, 0x55]) + blk([0x55, 0x3C, 0x00, 0x0F]) + EOF,
    "payload-ends-55": hdr("E55") + blk([0x55]) + blk([0x3C, 0x55]) + EOF,
    "zero-length-block": hdr("ZERO") + blk([]) + blk([4, 5]) + EOF,
    "only-eof": hdr("NODATA") + EOF,
    "nodata-then-file": hdr("NODATA") + EOF + hdr("AFTER") + blk([1]) + EOF,
    "no-eof": hdr("NOEOF") + blk([1, 2, 3]),
    "no-blocks": hdr("NOBLK"),
    "unknown-block": hdr("UNK") + blk([1, 2], btype=2) + EOF,
    "unknown-block-7f": hdr("UNK") + blk([1, 2]) + blk([3], btype=0x7F) + EOF,
    "truncated-header": hdr("TRUNC")[:9],
    "truncated-header-flags": hdr("TRUNC")[:13],
    "truncated-header-addr": hdr("TRUNC")[:16],
    "truncated-header-addr2": hdr("TRUNC")[:18],
    "truncated-block": hdr("TRB") + blk(range(50))[:20],
    "truncated-block-len": hdr("TRB") + [0x55, 0x3C, 0x01],
    "truncated-block-type": hdr("TRB") + [0x55, 0x3C],
    "truncated-eof": hdr("TRE") + blk([1]) + [0x55, 0x3C, 0xFF],
    "empty": [],
    "junk": [1, 2, 3, 4, 5, 0x55, 0x3D, 0x00],
    "just-sync": [0x55, 0x3C, 0x00],
    "bad-utf8-name": hdr("UTF")[:4] + [0xFF, 0xFE] + hdr("UTF")[6:] + blk([1]) + EOF,
    "types": hdr("T3", ftype=3, dtype=0xFF, gaps=0xFF, load=0x1234, exe=0xFFFF) + blk([0]) + EOF,
    "odd-length-byte": hdr("ODD", length=0x2A) + blk([5, 6]) + EOF,
    "trailing-garbage": hdr("TG") + blk([1]) + EOF + [0x55, 0x3C, 0x01, 0x02, 9, 9],
    "trailing-header-fragment": hdr("TG") + blk([1]) + EOF + [0x55, 0x3C, 0x00],
}
for label, stream in STREAMS.items():
    case("list-" + label, lambda: listing(stream))
    case("list-bytearray-" + label, lambda: listing(stream, as_type=bytearray))
    case("list-bytes-" + label, lambda: listing(stream, as_type=bytes))
case("list-filter", lambda: listing(STREAMS["two-files"], ["TWO     "]))
case("list-filter-empty-list", lambda: listing(STREAMS["two-files"], []))
case("list-filter-nomatch", lambda: listing(STREAMS["two-files"], ["TWO"]))

def seq(buf, sequence, start=None):
    c = CassetteFile(buffer=buf)
    return c.skip_to_sequence(sequence) if start is None else c.skip_to_sequence(sequence, start=start)
SEQBUF = [0, 0x55, 0x3C, 0x00, 0x55, 0x55, 0x3C, 0x01, 0x55, 0x3C]
for sequence in ([0x55, 0x3C], [0x55, 0x3C, 0x00], [0x55, 0x3C, 0x01], [0x3C], [0x99], [], list(SEQBUF), list(SEQBUF) + [1]):
    for start in (None, 0, 1, 2, 5, 8, 9, 10, 11, 50, -1, -2, -9, -10, -30):
        case("skip-%r-%r" % (sequence, start), lambda: seq(list(SEQBUF), sequence, start))
case("skip-empty-buffer", lambda: seq([], [0x55]))
case("skip-bytearray", lambda: seq(bytearray(SEQBUF), [0x55, 0x3C], 2))
case("skip-bytearray-bytes-seq", lambda: seq(bytearray(SEQBUF), b"\x55\x3c", 2))

def one(method, stream, pointer):
    c = CassetteFile(buffer=list(stream))
    out = getattr(c, method)(pointer)
    first = out[0]
    if isinstance(first, CoCoFile):
        first = show_file(first)
    return [first, out[1]]
S = STREAMS["two-files"]
for ptr in (0, 1, 10, 11, 12, 30, 31, 45, 60, len(S) - 1, len(S), len(S) + 5):
    case("read_file-%d" % ptr, lambda: one("read_file", S, ptr))
    case("read_blocks-%d" % ptr, lambda: one("read_blocks", S, ptr))
    case("read_coco_file_name-%d" % ptr, lambda: one("read_coco_file_name", S, ptr))
for label in ("no-eof", "unknown-block", "truncated-block", "only-eof", "marker-payload", "truncated-eof", "empty"):
    case("read_blocks-" + label, lambda: one("read_blocks", STREAMS[label], 0))
    case("read_file-" + label, lambda: one("read_file", STREAMS[label], 0))

# CoCoFile rendering
for ftype in (0, 1, 2, 3, 4, 0xFF):
    for dtype in (0, 1, 0xFF):
        for gaps in (0, 0xFF):
            for ignore in (False, True):
                case("str-%d-%d-%d-%s" % (ftype, dtype, gaps, ignore), lambda: str(CoCoFile(
                    name="N" * ftype, extension="EXT", type=NumericValue(ftype), data_type=NumericValue(dtype), gaps=NumericValue(gaps),
                    load_addr=NumericValue(0x12), exec_addr=NumericValue(0xFEDC), data=[0] * dtype, ignore_gaps=ignore)))
case("str-default", lambda: str(CoCoFile()))

# command line front ends
def run(args):
    proc = subprocess.run([sys.executable] + args, stdout=subprocess.PIPE, stderr=subprocess.PIPE, universal_newlines=True)
    return [proc.returncode, proc.stdout, proc.stderr.replace(TREE, "<TREE>")]
def files_here():
    out = {}
    for name in sorted(os.listdir(".")):
        with open(name, "rb") as handle:
            out[name] = digest(handle.read())
    return out
def write_cas(filename, files):
    cas = CassetteFile()
    cas.add_files(files)
    with open(filename, "wb") as handle:
        handle.write(bytearray(cas.get_buffer()))

FILE_UTIL = os.path.join(TREE, "file_util.py")
ASSEMBLER = os.path.join(TREE, "assembler.py")
write_cas("one.cas", [mkfile("ONE", 300, 3)])
write_cas("many.cas", [mkfile("ALPHA", 1, 0, 0, 0xFF), mkfile("BETA", 255, 3, 1, 0), mkfile("GAMMA", 511, 6, 2, 0, 0x2000, 0x2010), mkfile("DELTA", 1000, 9, 3, 0xFF)])
write_cas("none.cas", [])
write_cas("emptyfile.cas", [mkfile("EMPTY", 0, 0)])
with open("stream.cas", "wb") as handle:
    handle.write(bytearray(STREAMS["gaps-between"] + STREAMS["two-files"]))
with open("broken.cas", "wb") as handle:
    handle.write(bytearray(STREAMS["no-eof"]))
with open("unknown.cas", "wb") as handle:
    handle.write(bytearray(STREAMS["unknown-block"]))
with open("trunc.cas", "wb") as handle:
    handle.write(bytearray(STREAMS["truncated-block"]))
with open("prog.asm", "w") as handle:
    handle.write("        ORG $0E00\nSTART   LDA #$55\n        LDB #$3C\n        STD $0400\nLOOP    JMP LOOP\n        FCB $55,$3C,$00,$55,$3C,$FF\n        END START\n")
with open("big.asm", "w") as handle:
    handle.write("        ORG $1000\nSTART   NOP\n" + "        FDB $553C,$0155,$3CFF\n" * 100 + "        END START\n")
for cas in ("one.cas", "many.cas", "none.cas", "emptyfile.cas", "stream.cas", "broken.cas", "unknown.cas", "trunc.cas", "missing.cas"):
    case("cli-list-" + cas, lambda: run([FILE_UTIL, "--list", cas]))
case("cli-list-files", lambda: run([FILE_UTIL, "--list", "many.cas", "--files", "beta"]))
case("cli-to_cas", lambda: run([FILE_UTIL, "many.cas", "--to_cas", "copy.cas"]))
case("cli-to_cas-exists", lambda: run([FILE_UTIL, "many.cas", "--to_cas", "copy.cas"]))
case("cli-to_cas-append", lambda: run([FILE_UTIL, "one.cas", "--to_cas", "copy.cas", "--append"]))
case("cli-to_cas-files", lambda: run([FILE_UTIL, "many.cas", "--to_cas", "some.cas", "--files", "gamma", "ALPHA"]))
case("cli-list-copy", lambda: run([FILE_UTIL, "--list", "copy.cas"]))
case("cli-list-some", lambda: run([FILE_UTIL, "--list", "some.cas"]))
case("cli-to_bin", lambda: run([FILE_UTIL, "one.cas", "--to_bin", "one.bin"]))
case("cli-to_bin-many", lambda: run([FILE_UTIL, "many.cas", "--to_bin", "many.bin"]))
case("cli-to_dsk", lambda: run([FILE_UTIL, "many.cas", "--to_dsk", "many.dsk"]))
case("cli-list-dsk", lambda: run([FILE_UTIL, "--list", "many.dsk"]))
case("cli-dsk-to_cas", lambda: run([FILE_UTIL, "many.dsk", "--to_cas", "fromdsk.cas"]))
case("cli-list-fromdsk", lambda: run([FILE_UTIL, "--list", "fromdsk.cas"]))
case("cli-asm-to_cas", lambda: run([ASSEMBLER, "prog.asm", "--to_cas", "prog.cas", "--name", "prog"]))
case("cli-asm-to_cas-exists", lambda: run([ASSEMBLER, "prog.asm", "--to_cas", "prog.cas", "--name", "prog"]))
case("cli-asm-to_cas-append", lambda: run([ASSEMBLER, "big.asm", "--to_cas", "prog.cas", "--name", "bigprogram", "--append"]))
case("cli-asm-to_cas-noname", lambda: run([ASSEMBLER, "prog.asm", "--to_cas", "noname.cas"]))
case("cli-asm-big", lambda: run([ASSEMBLER, "big.asm", "--to_cas", "big.cas", "--name", "BIG"]))
case("cli-list-prog", lambda: run([FILE_UTIL, "--list", "prog.cas"]))
case("cli-list-big", lambda: run([FILE_UTIL, "--list", "big.cas"]))
case("files-written", files_here)

json.dump(RESULTS, sys.stdout, indent=0, sort_keys=True, default=repr)
'''


def run_probe(tree):
    tree = os.path.abspath(tree)
    with tempfile.TemporaryDirectory() as scratch:
        env = dict(os.environ, PYTHONDONTWRITEBYTECODE="1", PYTHONHASHSEED="0")
        env.pop("PYTHONPATH", None)
        proc = subprocess.run([sys.executable, "-c", PROBE, tree], cwd=scratch, env=env,
                              stdout=subprocess.PIPE, stderr=subprocess.PIPE, universal_newlines=True)
    if proc.returncode != 0:
        print("probe failed for %s:\n%s" % (tree, proc.stderr))
        sys.exit(1)
    return json.loads(proc.stdout)


def main():
    if len(sys.argv) != 3:
        print(__doc__)
        sys.exit(2)
    first, second = run_probe(sys.argv[1]), run_probe(sys.argv[2])
    labels_a = [entry[0] for entry in first]
    labels_b = [entry[0] for entry in second]
    bad = 0
    if labels_a != labels_b:
        print("case lists differ")
        bad += 1
    for left, right in zip(first, second):
        if left != right:
            bad += 1
            print("DIFF %s\n  A: %s\n  B: %s" % (left[0], json.dumps(left)[:600], json.dumps(right)[:600]))
    errors = sum(1 for entry in first if entry[1] == "exc")
    print("%d cases (%d raising), %d differences" % (len(first), errors, bad))
    sys.exit(1 if bad else 0)


if __name__ == "__main__":
    main()
