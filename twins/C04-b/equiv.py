#!/usr/bin/env python
"""
Differential check for refactoring C04/b: Value.create_from_str picks the
addressing mode with one if/elif chain on the first character and walks a tuple
of (value class, options) instead of four try/except blocks.

usage: equiv.py <treeA> <treeB>   (exit 0 = every observable result agrees)
"""


def build_cases():
    cases = []
    symbols = {"SYM": ["num", 5], "BIG": ["num", 4660], "TOP": ["num", 65535], "LBL": ["addr", 3], "ZERO": ["num", 0]}
    bodies = ["", "0", "5", "255", "256", "65535", "65536", "-1", "-128", "-32768", "-32769", "$5", "$05", "$005", "$0005",
              "$FF", "$100", "$FFFF", "$10000", "$G", "$", "%101", "%00000101", "%0000000000000101", "%2", "'A", "''", "'",
              "'AB", "SYM", "BIG", "LBL", "UNDEF", "sym", "@X", "A_B", "A.B", "1A", "A1", "SYM+1", "SYM-1", "SYM*2", "SYM/2",
              "SYM/ZERO", "1+SYM", "SYM+BIG", "BIG-SYM", "SYM-BIG", "TOP+1", "TOP*2", "LBL+1", "LBL-1", "1+LBL", "LBL+LBL",
              "LBL*2", "LBL/2", "$10+1", "$10+$20", "$FF+1", "$00FF+1", "1+$0001", "%00000001+1", "'A+1", "1+1+1", "1++1",
              "1+-1", "-1+1", "+1", "1+", "SYM+", "UNDEF+1", "1+UNDEF", "<1+1", "A,X", ",X", "5,X", "SYM,X", "A,B,X", ",",
              "X,", "5,PCR", "SYM+1,X", "[5]", "[SYM]", "<5", ">5", "#5", "<<5", "<>5", "#<5", "<#5", "##5", " 5", "5 ",
              "\"HI\"", "/HI/", "\"", "AA", "\"A", "1,1", "#", "<", ">"]
    mnemonics = [None, "LDA", "LDX", "CMPD", "LEAX", "FCC", "FCB", "FDB", "EQU", "JMP", "BRA", "STD", "RMB"]
    for b_index, body in enumerate(bodies):
        for p_index, prefix in enumerate(["", "#", "<", ">"]):
            for m_index, mnemonic in enumerate(mnemonics):
                for extended in [True, False]:
                    if m_index < 3 or (b_index + p_index + m_index + extended) % 4 == 0:
                        cases.append({"kind": "value", "text": prefix + body, "mnemonic": mnemonic,
                                      "default_mode_extended": extended, "symbols": symbols})
    for argument in ["None", "0", "5", "b'5'", "['<']", "NumericValue(5)", "NoneValue()", "('#', '5')"]:
        cases.append({"kind": "eval", "expr": "Value.create_from_str({})".format(argument)})
        cases.append({"kind": "eval", "expr": "Value.create_from_str({}, instr('FCC'))".format(argument)})

    # the same spellings in every operand position of whole programs
    for body in bodies:
        if "\"" in body or body.startswith("/"):
            continue
        cases.append({"kind": "prog", "lines": [
            "  ORG $1000", "SYM EQU 5", "BIG EQU $1234", "TOP EQU 65535", "ZERO EQU 0", "N1 NOP", "N2 NOP", "N3 NOP", "LBL NOP",
            "V EQU {}".format(body), "  LDA #{}".format(body), "  LDX #{}".format(body), "  LDA {}".format(body),
            "  LDX {}".format(body), "  LDA <{}".format(body), "  LDA >{}".format(body), "  LDA [{}]".format(body),
            "  LDA {},X".format(body), "  LDD [{},Y]".format(body), "  LEAX {},PCR".format(body), "  FCB {}".format(body),
            "  FDB {}".format(body), "  LDA V", "  LDX #V", "E RTS"]})
        for line in ["V EQU {}|  LDA V|  LDX #V|  LDA V,X", "  LDA #{}", "  LDX #{}", "  LDA {}", "  LDX {}", "  LDA <{}",
                     "  LDA >{}", "  LDA [{}]", "  LDA {},X", "  LDD [{},Y]", "  LEAX {},PCR", "  FCB {}", "  FDB {}",
                     "  FCB 1,{}", "  JMP {}", "  BRA {}", "  RMB {}", "  ORG {}"]:
            cases.append({"kind": "prog", "lines": ["SYM EQU 5", "BIG EQU $1234", "TOP EQU 65535", "ZERO EQU 0", "N1 NOP", "N2 NOP",
                                                     "N3 NOP", "LBL NOP"] + line.format(body).split("|") + ["E RTS"]})
    source = ("  ORG $0E00\nSYM EQU 5\nBIG EQU $1234\nLBL LDA #SYM+1\n  LDX #BIG*2\n  LDA <SYM\n  LDA >SYM\n  LDD LBL+2\n"
              "  LDA SYM-1,X\n  LEAX LBL+1,PCR\n  FDB $FF,SYM\n")
    cases.append({"kind": "cli", "args": ["in.asm", "--print", "--symbols", "--to_bin", "out.bin"], "files": {"in.asm": source}})
    cases.append({"kind": "cli", "args": ["in.asm", "--print"], "files": {"in.asm": "  LDA #1++1\n"}})
    cases.append({"kind": "cli", "args": ["in.asm", "--print"], "files": {"in.asm": "Z EQU 0\n  LDA #5/Z\n"}})
    return cases


# ---------------------------------------------------------------------------
# Common differential harness: one worker subprocess per tree, same cases.
# ---------------------------------------------------------------------------

WORKER = r'''
import sys, os, json, io, tempfile, subprocess, contextlib
tree = os.path.abspath(sys.argv[1])
sys.path.insert(0, tree)
os.chdir(tree)

from cocoasm.program import Program
from cocoasm.statement import Statement
from cocoasm.instruction import INSTRUCTIONS, CodePackage, Instruction, Mode
from cocoasm.operands import Operand
from cocoasm import operands as operands_module
from cocoasm import values as values_module
from cocoasm.values import Value, NumericValue, AddressValue, NoneValue


def instr(mnemonic):
    if mnemonic is None:
        return None
    return next(op for op in INSTRUCTIONS if op.mnemonic == mnemonic)


def dump(obj, depth=0):
    if depth > 6:
        return "<deep>"
    if obj is None or isinstance(obj, (bool, int, str, float)):
        return obj
    if isinstance(obj, (list, tuple)):
        return [dump(x, depth + 1) for x in obj]
    if isinstance(obj, dict):
        return {str(k): dump(v, depth + 1) for k, v in obj.items()}
    if isinstance(obj, Value):
        out = {"class": type(obj).__name__}
        for name in ("type", "int", "size_hint", "explict_addressing_mode", "negative", "resolved",
                     "original_string", "operation", "hex_array", "original_value"):
            if hasattr(obj, name):
                out[name] = dump(getattr(obj, name), depth + 1)
        for name in ("left", "right", "value"):
            if hasattr(obj, name):
                out[name] = dump(getattr(obj, name), depth + 1)
        for name in ("hex", "hex_len", "byte_len", "is_8_bit", "is_16_bit", "high_byte", "low_byte", "ascii"):
            out[name + "()"] = attempt(getattr(obj, name))
        if hasattr(obj, "is_4_bit"):
            out["is_4_bit()"] = attempt(obj.is_4_bit)
            out["hex(2)"] = attempt(lambda: obj.hex(size=2))
            out["hex(4)"] = attempt(lambda: obj.hex(size=4))
            out["get_negative()"] = attempt(obj.get_negative)
        return out
    if isinstance(obj, CodePackage):
        return {"class": "CodePackage",
                "op_code": dump(obj.op_code, depth + 1), "address": dump(obj.address, depth + 1),
                "post_byte": dump(obj.post_byte, depth + 1), "additional": dump(obj.additional, depth + 1),
                "size": obj.size, "max_size": obj.max_size,
                "additional_needs_resolution": obj.additional_needs_resolution,
                "post_byte_choices": dump(obj.post_byte_choices, depth + 1)}
    if isinstance(obj, Operand):
        return {"class": type(obj).__name__, "type": str(obj.type), "operand_string": obj.operand_string,
                "requires_resolution": obj.requires_resolution, "operation": obj.operation,
                "instruction": obj.instruction.mnemonic if obj.instruction else None,
                "value": dump(obj.value, depth + 1), "left": dump(obj.left, depth + 1),
                "right": dump(obj.right, depth + 1)}
    if isinstance(obj, Statement):
        return {"class": "Statement", "label": obj.label, "mnemonic": obj.mnemonic, "comment": obj.comment,
                "is_empty": obj.is_empty, "is_comment_only": obj.is_comment_only,
                "fixed_size": obj.fixed_size, "pcr_size_hint": obj.pcr_size_hint,
                "instruction": obj.instruction.mnemonic if obj.instruction else None,
                "operand": dump(obj.operand, depth + 1), "original_operand": dump(obj.original_operand, depth + 1),
                "code_pkg": dump(obj.code_pkg, depth + 1),
                "str": attempt(lambda: str(obj))}
    if isinstance(obj, BaseException):
        return describe_error(obj)
    if hasattr(obj, "name") and hasattr(obj, "value") and type(obj).__module__.startswith("cocoasm"):
        return str(obj)
    return repr(obj)


def describe_error(error):
    out = {"exception": type(error).__name__, "str": str(error), "args": dump(list(error.args), 3)}
    if hasattr(error, "value"):
        out["value"] = dump(error.value, 3)
    if hasattr(error, "statement"):
        statement = error.statement
        if isinstance(statement, Statement):
            out["statement"] = attempt(lambda: str(statement))
            out["statement_label"] = statement.label
            out["statement_mnemonic"] = statement.mnemonic
        else:
            out["statement"] = dump(statement, 3)
    return out


def attempt(function):
    try:
        return dump(function(), 3)
    except BaseException as error:
        return {"raised": describe_error(error)}


def run_prog(case):
    program = Program()
    out = {}
    # source lines come from readlines(), so they end in a newline unless the case says otherwise
    lines = case["lines"] if case.get("raw") else [line if line.endswith("\n") else line + "\n" for line in case["lines"]]
    try:
        program.process(lines)
        out["process"] = "ok"
    except BaseException as error:
        out["process"] = describe_error(error)
    out["binary"] = attempt(program.get_binary_array)
    out["listing"] = attempt(program.get_statements)
    out["symbols"] = attempt(program.get_symbol_table)
    out["origin"] = dump(program.origin)
    out["name"] = dump(program.name)
    out["symbol_table"] = attempt(lambda: {k: v for k, v in program.symbol_table.items()})
    if case.get("deep"):
        out["statements"] = attempt(lambda: list(program.statements))
    return out


def run_cli(case):
    tool = case.get("tool", "assembler.py")
    with tempfile.TemporaryDirectory() as work:
        for name, content in case.get("files", {}).items():
            path = os.path.join(work, name)
            if isinstance(content, list):
                with open(path, "wb") as handle:
                    handle.write(bytes(content))
            else:
                with open(path, "w") as handle:
                    handle.write(content)
        env = dict(os.environ)
        env["PYTHONPATH"] = tree
        env["PYTHONDONTWRITEBYTECODE"] = "1"
        env["COLUMNS"] = "80"
        done = subprocess.run([sys.executable, os.path.join(tree, tool)] + case["args"], cwd=work, env=env,
                              capture_output=True, text=True)
        produced = {}
        for name in sorted(os.listdir(work)):
            with open(os.path.join(work, name), "rb") as handle:
                produced[name] = handle.read().hex()
        stderr_lines = done.stderr.strip().splitlines()
        return {"rc": done.returncode, "stdout": done.stdout.replace(tree, "<tree>"),
                "stderr_tail": stderr_lines[-1].replace(tree, "<tree>") if stderr_lines else "",
                "stderr_is_traceback": done.stderr.startswith("Traceback"),
                "files": produced}


def run_operand(case):
    out = {}
    instruction = instr(case["mnemonic"])
    table = {}
    for name, spec in case.get("symbols", {}).items():
        kind, number = spec
        table[name] = AddressValue(number) if kind == "addr" else NumericValue(number)
    try:
        operand = Operand.create_from_str(case["operand"], instruction)
    except BaseException as error:
        return {"create": describe_error(error)}
    out["create"] = dump(operand)
    if case.get("resolve", True):
        try:
            operand = operand.resolve_symbols(table)
            out["resolve"] = dump(operand)
        except BaseException as error:
            out["resolve"] = describe_error(error)
            return out
    try:
        out["translate"] = dump(operand.translate())
        out["after_translate"] = dump(operand)
    except BaseException as error:
        out["translate"] = describe_error(error)
    return out


def run_value(case):
    try:
        value = Value.create_from_str(case["text"], instr(case.get("mnemonic")), case.get("default_mode_extended", True))
    except BaseException as error:
        return {"create": describe_error(error)}
    out = {"create": dump(value)}
    if "symbols" in case:
        table = {}
        for name, spec in case["symbols"].items():
            kind, number = spec
            table[name] = AddressValue(number) if kind == "addr" else NumericValue(number)
        try:
            out["resolve"] = dump(value.resolve(table))
            out["after_resolve"] = dump(value)
        except BaseException as error:
            out["resolve"] = describe_error(error)
    return out


def run_statement(case):
    line = case["line"] if case.get("raw") or case["line"].endswith("\n") else case["line"] + "\n"
    try:
        statement = Statement(line)
    except BaseException as error:
        return {"parse": describe_error(error)}
    return {"parse": dump(statement)}


def run_eval(case):
    scope = dict(globals())
    try:
        exec(case.get("setup", ""), scope)
        return {"result": dump(eval(case["expr"], scope))}
    except BaseException as error:
        return {"raised": describe_error(error)}


RUNNERS = {"prog": run_prog, "cli": run_cli, "operand": run_operand, "value": run_value,
           "statement": run_statement, "eval": run_eval}

cases = json.load(sys.stdin)
results = []
for case in cases:
    captured = io.StringIO()
    with contextlib.redirect_stdout(captured):
        try:
            result = RUNNERS[case["kind"]](case)
        except BaseException as error:
            result = {"harness_error": describe_error(error)}
    results.append({"result": result, "printed": captured.getvalue()})
sys.__stdout__.write(json.dumps(results, sort_keys=True))
'''


def run_tree(tree, cases):
    import json
    import os
    import subprocess
    import sys
    env = dict(os.environ)
    env.pop("PYTHONPATH", None)
    env["PYTHONDONTWRITEBYTECODE"] = "1"
    done = subprocess.run([sys.executable, "-c", WORKER, tree], input=json.dumps(cases), cwd=tree, env=env,
                          capture_output=True, text=True)
    if done.returncode != 0:
        print("worker failed for", tree)
        print(done.stderr)
        sys.exit(1)
    return json.loads(done.stdout)


def main():
    import json
    import os
    import sys
    if len(sys.argv) != 3:
        print("usage: equiv.py <treeA> <treeB>")
        sys.exit(2)
    tree_a, tree_b = (os.path.abspath(p) for p in sys.argv[1:3])
    cases = build_cases()
    results_a = run_tree(tree_a, cases)
    results_b = run_tree(tree_b, cases)
    differences = 0
    errors = 0
    for case, a, b in zip(cases, results_a, results_b):
        text = json.dumps(a, sort_keys=True)
        if '"exception"' in text:
            errors += 1
        if "harness_error" in a["result"] or "harness_error" in b["result"]:
            differences += 1
            print("HARNESS ERROR in case", json.dumps(case)[:200])
            print("  A:", json.dumps(a)[:600])
            print("  B:", json.dumps(b)[:600])
        elif a != b:
            differences += 1
            print("DIFFERENCE in case", json.dumps(case)[:300])
            print("  A:", json.dumps(a, sort_keys=True)[:1500])
            print("  B:", json.dumps(b, sort_keys=True)[:1500])
    print("{} cases ({} involving an error/diagnostic), {} differences".format(len(cases), errors, differences))
    sys.exit(1 if differences or len(results_a) != len(cases) or len(results_b) != len(cases) else 0)


if __name__ == "__main__":
    main()
