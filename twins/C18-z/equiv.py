#!/venv/bin/python
"""
Differential demonstration (assembler side of CoCoAssembler).

usage: equiv.py <treeA> <treeB>

A probe script is run once per tree (as a subprocess, with the tree as cwd and at
the front of sys.path). The probe assembles a corpus of accepted and rejected
programs in several orders inside one interpreter (history independence), drives
the tree's assembler.py as a subprocess under two hash seeds, and calls the value /
operand / statement constructors directly. Everything observable (image bytes,
listing lines, symbol table, origin, name, exception type and message, stdout, exit
status, files written) is dumped as JSON; the two dumps are compared.
"""
import json
import os
import subprocess
import sys

PROBE = r'''
import hashlib, json, os, random, shutil, subprocess, sys, tempfile
TREE = os.getcwd()
sys.path.insert(0, TREE)

from cocoasm.program import Program
from cocoasm.statement import Statement
from cocoasm.instruction import INSTRUCTIONS, CodePackage
from cocoasm.operands import Operand
from cocoasm.values import Value, NumericValue, AddressValue, NoneValue, ExplicitAddressingMode
from cocoasm.exceptions import TranslationError, ParseError

RESULTS = []


def record(label, value):
    RESULTS.append([label, value])


def describe_error(error):
    out = [type(error).__name__, str(error)]
    for attribute in ("value", "statement"):
        if hasattr(error, attribute):
            try:
                out.append(str(getattr(error, attribute)))
            except BaseException as inner:
                out.append("unprintable " + type(inner).__name__)
    return out


def assemble(lines):
    given = list(lines)
    program = Program()
    try:
        program.process(given)
    except BaseException as error:
        return {"error": describe_error(error), "lines_untouched": given == list(lines)}
    out = {"lines_untouched": given == list(lines)}
    for key, getter in (("image", program.get_binary_array), ("listing", program.get_statements),
                        ("symbols", program.get_symbol_table), ("origin", lambda: program.origin.hex(size=4)),
                        ("name", lambda: program.name)):
        try:
            out[key] = getter()
        except BaseException as error:
            out[key] = ["raise"] + describe_error(error)
    return out


def value_info(value):
    if value is None:
        return None
    info = {"class": type(value).__name__}
    for name, fn in (("hex", lambda: value.hex()), ("hex2", lambda: value.hex(size=2)), ("hex4", lambda: value.hex(size=4)),
                     ("hex_len", value.hex_len), ("byte_len", value.byte_len), ("high", value.high_byte), ("low", value.low_byte),
                     ("int", lambda: value.int), ("size_hint", lambda: value.size_hint), ("negative", lambda: value.negative),
                     ("mode", lambda: str(value.explict_addressing_mode)), ("type", lambda: str(value.type)),
                     ("ascii", value.ascii), ("8", value.is_8_bit), ("16", value.is_16_bit), ("resolved", lambda: value.resolved),
                     ("str", lambda: str(value))):
        try:
            info[name] = fn()
        except BaseException as error:
            info[name] = ["raise", type(error).__name__, str(error)]
    for side in ("left", "right"):
        part = getattr(value, side, None)
        if part is not None:
            info[side] = part if isinstance(part, str) else value_info(part)
    return info


def package_info(package):
    return {"op": package.op_code.hex(), "post": package.post_byte.hex(), "add": value_info(package.additional),
            "address": package.address.hex(), "size": package.size, "max": package.max_size,
            "needs": package.additional_needs_resolution, "choices": list(package.post_byte_choices)}


def guarded(label, fn):
    try:
        record(label, ["ok", fn()])
    except BaseException as error:
        record(label, ["raise"] + describe_error(error))


# ------------------------------------------------------------------ corpus
def prog(*lines):
    # source lines arrive from readlines(), i.e. with their line terminator
    return [line + "\n" for line in lines]


def filler(count, mnemonic="NOP", operand=""):
    return ["        %s %s" % (mnemonic, operand)] * count


CORPUS = {}
CORPUS["hello"] = prog(
    "        NAM HELLO", "        ORG $0E00", "START   LDX #MSG    ; point at text", "LOOP    LDA ,X+", "        BEQ DONE",
    "        JSR [$A002]", "        BRA LOOP", "DONE    RTS", "MSG     FCC \"HELLO, WORLD\"  trailing words", "        FCB 0", "        END START")
CORPUS["no_org"] = prog("BEGIN   LDA #$01", "        STA $0400", "        LDB <$20", "        STB >$20", "        JMP BEGIN", "        END")
CORPUS["equates"] = prog("SCREEN  EQU $0400", "COUNT   EQU 10", "SMALL   EQU $10", "        ORG $3000", "        LDX #SCREEN", "        LDB #COUNT",
                         "        LDA SMALL", "        LDA SCREEN", "        STA SCREEN+1", "        STA SCREEN-1", "        LDD #SCREEN+COUNT",
                         "        LDA #COUNT*2", "        LDA #COUNT/3", "HERE    LDX #HERE", "        LDX #HERE+2", "        LDX #THERE-1", "THERE   RTS")
CORPUS["data"] = prog("        ORG $2000", "TABLE   FCB 1,2,3,$FF,%10101010,'A", "WORDS   FDB 1,$1234,65535", "ONE     FCB $7F", "W       FDB $1",
                      "BUF     RMB 16", "AFTER   FCC /slashes/", "        FCC 'q'", "        FDB AFTER", "        FDB BUF", "        SETDP $20", "TAIL    NOP")
CORPUS["indexed"] = prog("        ORG $1000", "V       EQU 5", "        LDA ,X", "        LDA ,Y+", "        LDA ,U++", "        LDA ,-S", "        LDA ,--X", "        LDA 0,X",
                         "        LDA 5,Y", "        LDA -5,U", "        LDA 15,S", "        LDA -16,X", "        LDA 16,X", "        LDA 127,X", "        LDA 128,X",
                         "        LDA -128,X", "        LDA -129,X", "        LDA $1234,Y", "        LDA A,X", "        LDA B,Y", "        LDA D,U", "        LDA [,X]",
                         "        LDA [,Y++]", "        LDA [,--S]", "        LDA [5,X]", "        LDA [$1234,X]", "        LDA [A,X]", "        LDA [D,Y]", "        LDA [$2000]",
                         "        LDA V,X", "        LDA [V,Y]", "        LEAX 1,X", "        LEAY -1,Y", "        LEAS D,S", "        LEAU V,U", "        STA ,X+")
CORPUS["pcr"] = prog("        ORG $4000", "FIRST   LDA NEAR,PCR", "        LDX FAR,PCR", "        LEAX FIRST,PCR", "        LDA [NEAR,PCR]", "        LDB 10,PCR", "        LDB $1234,PCR",
                     "NEAR    NOP", *filler(60, "LDA", "$1234"), "FAR     RTS", "        LDA FAR,PCR", "        LEAY NEAR+1,PCR", "        LDA FIRST,PCR")
CORPUS["branches"] = prog("        ORG $5000", "TOP     BRA TOP", "        BNE DOWN", "        LBRA TOP", "        LBSR DOWN", "        LBEQ FARAWAY", "        BSR TOP", *filler(20),
                          "DOWN    BRN DOWN", *filler(200, "LDA", ">$10"), "FARAWAY LBRN TOP", "        LBHI FARAWAY")
for gap in (124, 125, 126, 127, 128, 129, 130):
    CORPUS["fwd_%d" % gap] = prog("        ORG $6000", "        BRA TARGET", *filler(gap), "TARGET  RTS")
    CORPUS["bwd_%d" % gap] = prog("        ORG $6000", "TARGET  NOP", *filler(gap - 1), "        BRA TARGET", "        RTS")
    CORPUS["pcr_fwd_%d" % gap] = prog("START   LDA TARGET,PCR", *filler(gap), "TARGET  RTS", "        LDB START,PCR")
    CORPUS["pcr_bwd_%d" % gap] = prog("TARGET  NOP", *filler(gap - 3), "        LEAX TARGET,PCR", "        RTS")
    CORPUS["lfwd_%d" % gap] = prog("        LBNE TARGET", *filler(gap), "TARGET  RTS")
CORPUS["pcr_chain"] = prog("A1      LDA A3,PCR", *filler(120), "A2      LDB A1,PCR", *filler(3), "A3      LDX A2,PCR", *filler(121), "A4      LDY A3,PCR", "        LEAU A4,PCR")
CORPUS["specials"] = prog("        PSHS A,B,X", "        PULS A,B,X,PC", "        PSHU D,Y,S", "        PULU CC,DP", "        TFR A,B", "        TFR X,Y", "        EXG D,U",
                          "        EXG A,DP", "        PSHS CC", "        ANDCC #$EF", "        ORCC #$50", "        CWAI #$FF", "        SWI", "        SWI2", "        SWI3", "        SYNC")
CORPUS["modes"] = prog("        ORG $0100", "LOW     EQU $42", "HIGH    EQU $4242", "        LDA LOW", "        LDA HIGH", "        LDA <HIGH", "        LDA >LOW", "        LDA #LOW", "        LDD #LOW",
                       "        LDD #HIGH", "        LDX #$1", "        LDA #-1", "        LDD #-1", "        LDA #'Z", "        LDA #%00001111", "        LDD #%0000111100001111", "        NEG LOW",
                       "        NEG HIGH", "        CLR >$00", "        CLR <$FF", "        JMP $0000", "        JMP >$FFFF", "        JSR LOW", "        LDA 255", "        LDA 256", "        LDA 65535",
                       "        LDA $0042", "        LDA $42", "        LDA >$42", "        ADDD #1000", "        CMPX #$ABCD", "        CMPY HIGH", "        CMPS LOW", "        CMPU #0", "        LDS #$7FFF")
CORPUS["whitespace"] = prog("", "   ", "; only a comment", "    ; indented comment", "LBL\tLDA\t#1\t; tabs", "label2   lda   #2   trailing text no semicolon",
                            "        nop", "  \t  RTS   ; done  ", "X1 EQU 1", "@AT     NOP", "A@B     LDA @AT", "MiXeD   LdA #3")
CORPUS["fwd_equ"] = prog("        LDA #LATER", "        LDX #ADDR", "LATER   EQU 7", "ADDR    RTS")
CORPUS["origin_twice"] = prog("        ORG $1000", "ONE     NOP", "        ORG $2000", "TWO     NOP", "        JMP ONE", "        JMP TWO", "        NAM FIRST", "        NAM SECOND")
CORPUS["only_comments"] = prog("; nothing", "", "   ; here")
CORPUS["empty"] = prog()
CORPUS["long_names"] = prog("VERYLONGLABELNAME1234 LDA #1", "        JMP VERYLONGLABELNAME1234", "        NAM ALONGPROGRAMNAME")
# rejected programs
CORPUS["bad_mnemonic"] = prog("        ORG $1000", "START   FROB #1", "        RTS")
CORPUS["bad_line"] = prog("START LDA", "  RTS")
CORPUS["no_space"] = prog("LDA #1")
CORPUS["redefined"] = prog("DUP     NOP", "        NOP", "DUP     RTS")
CORPUS["redefined_equ"] = prog("DUP     EQU 1", "DUP     EQU 2")
CORPUS["undefined"] = prog("        LDA MISSING", "        RTS")
CORPUS["undefined_branch"] = prog("        BRA NOWHERE")
CORPUS["undefined_expr"] = prog("        LDA #MISSING+1")
CORPUS["too_big"] = prog("        LDA #65536")
CORPUS["too_big_hex"] = prog("        LDX #$12345")
CORPUS["too_negative"] = prog("        LDD #-32769")
CORPUS["bad_binary"] = prog("        LDA #%101")
CORPUS["imm_store"] = prog("        STA #1")
CORPUS["inherent_operand"] = prog("        NOP #1")
CORPUS["missing_operand"] = prog("        LDA")
CORPUS["missing_operand2"] = prog("        LDA ")
CORPUS["bad_fcc"] = prog("        FCC")
CORPUS["bad_fcc2"] = prog("        FCC \"unterminated")
CORPUS["bad_fcb"] = prog("        FCB 1,,2", "        FCB 300")
CORPUS["bad_fcb2"] = prog("        FCB 1,300")
CORPUS["bad_fdb"] = prog("        FDB 1,70000")
CORPUS["bad_index"] = prog("        LDA 5,Q")
CORPUS["bad_index2"] = prog("        LDA [5,X")
CORPUS["bad_index3"] = prog("        LDA ,X+++")
CORPUS["lea_imm"] = prog("        LEAX #1")
CORPUS["bad_tfr"] = prog("        TFR A,X")
CORPUS["bad_tfr2"] = prog("        TFR A")
CORPUS["bad_psh"] = prog("        PSHS Q")
CORPUS["pshs_s"] = prog("        PSHS S")
CORPUS["div_zero"] = prog("ZERO    EQU 0", "        LDA #4/0")
CORPUS["addr_div"] = prog("HERE    NOP", "        LDX #HERE/0")
CORPUS["include_missing"] = prog("        INCLUDE /nonexistent/really_not_there.asm")
CORPUS["bad_org"] = prog("        ORG", "        NOP")
CORPUS["org_symbol"] = prog("        ORG WHERE", "WHERE   NOP")
CORPUS["bwd_far"] = prog("TARGET  NOP", *filler(200), "        BEQ TARGET")
CORPUS["fwd_far"] = prog("        BEQ TARGET", *filler(200), "TARGET  NOP")
CORPUS["over_64k"] = prog("        ORG $FFFE", "        LDX #$1234", "LAST    LDX #LAST", "        JMP LAST")
CORPUS["rmb_symbol"] = prog("SIZE    EQU 4", "BUF     RMB SIZE", "NEXT    RMB 0", "        FDB NEXT")
CORPUS["char_ops"] = prog("        LDA #'a", "        LDA #';", "        CMPA #'#", "        LDB #' ", "        LDA #''")
CORPUS["raw_no_newline"] = ["        ORG $1000", "START   LDA #1 ", "        RTS", "        RTS ", "        JMP START"]
CORPUS["raw_crlf"] = ["        ORG $1000\r\n", "START   LDA #1\r\n", "        RTS\r\n", "        JMP START\r\n"]
CORPUS["fdb_symbols"] = prog("T       NOP", "        FDB 1,T")
CORPUS["hash_seed_bait"] = prog(*["L%d     FDB L%d" % (index, (index * 7) % 40) for index in range(40)], "        END L0")

# relocated / renamed / reformatted / extended variants of accepted programs
import re as _re
CORPUS["register_names"] = prog("A       EQU 5", "B       EQU $1234", "D       NOP", "X       NOP", "PC      NOP", "PCR     NOP", "SUB     NOP", "XS      EQU 3", "US      EQU -3",
                                "        LDA A,X", "        LDA B,Y", "        LDA D,U", "        LDA XS,S", "        LDA US,U", "        LDA SUB,PCR", "        LDA PCR,PCR", "        LDX [A,X]",
                                "        LDX [XS,Y]", "        LDX [SUB,PCR]", "        LEAX X,PCR", "        JMP D", "        JMP X", "        LDA A", "        LDB #B", "        LDA XS+1,X",
                                "        LDA SUB+1,PCR", "        LDA SUB-1,PCR", "        LDA [SUB+2,PCR]", "        LDA 1+XS,Y")
CORPUS["index_label_as_offset"] = prog("PC      NOP", "        LDA PC,X")
CORPUS["equ_of_expression"] = prog("BASE    EQU 5", "SYM     EQU BASE+1", "        LDA SYM,X")
CORPUS["equ_of_expression2"] = prog("BASE    EQU 5", "SYM     EQU BASE+1", "        LDA [SYM,X]")
CORPUS["equ_of_string"] = prog("SYM     EQU 'A", "        LDA SYM,X", "        LDA [SYM,Y]", "        LDA SYM,PCR")
CORPUS["addr_expr"] = prog("        ORG $0100", "HERE    NOP", "THERE   NOP", "        LDX #HERE*2", "        LDX #HERE/2", "        LDD #2*HERE", "        LDD #1000/THERE", "        LDX #HERE+THERE",
                            "        LDX #THERE-HERE", "        LDX #HERE-300", "        JMP HERE+3", "        JMP THERE/3", "        LDA HERE*1", "        LDX #HERE*255", "        LDY #7*7", "        LDY #100/7",
                            "        LDY #3-5", "        LDY #$FF*$FF", "        LDA #200+55")
CORPUS["addr_expr_overflow"] = prog("        ORG $0100", "HERE    NOP", "        LDX #HERE*256")
CORPUS["num_expr_overflow"] = prog("        LDX #$FFFF+1")
CORPUS["num_expr_overflow2"] = prog("        LDX #$FFF*$FFF")
CORPUS["index_undefined"] = prog("        LDA NOPE,X")
CORPUS["index_undefined2"] = prog("        LDA [NOPE+1,X]")
CORPUS["index_bad_offset"] = prog("        LDA 1+,X")
CORPUS["index_expr_numbers"] = prog("        LDA 1+2,X", "        LDA $10-1,Y", "        LDA [2*3,U]", "        LDA 7/2,S", "        LDA 1-2,X", "        LDA [1-200,X]")


def relocated(lines, origin):
    return [_re.sub(r"ORG \$[0-9A-F]+", "ORG $%04X" % origin, line) for line in lines]


def renamed(lines, labels):
    pattern = _re.compile(r"(?<![\w@$'%])(" + "|".join(_re.escape(label) for label in labels) + r")(?![\w@])") if labels else None
    out = []
    for line in lines:
        code, separator, comment = line.partition(";")
        fields = _re.match(r"^(\S*)(\s+\S+)(.*)$", code, flags=_re.S) if pattern else None
        if fields:  # rename in the label field and the operand field, leave the mnemonic and string data alone
            swap = lambda text: pattern.sub(lambda m: labels[m.group(1)], text)
            code = swap(fields.group(1)) + fields.group(2) + (fields.group(3) if '"' in code else swap(fields.group(3)))
        out.append(code + separator + comment)
    return out


def reformatted(lines, style):
    out = []
    for line in lines:
        text = line.rstrip("\n")
        fields = text.split(None, 3) if not text.startswith((" ", "\t")) else [""] + text.split(None, 2)
        if style == "tabs":
            text = _re.sub(r" +", "\t", text, count=2)
        elif style == "wide":
            text = _re.sub(r"^(\S*)\s+(\S+)\s*", lambda m: "%-12s%-10s  " % (m.group(1), m.group(2)), text)
        elif style == "lower":
            text = _re.sub(r"^(\S*\s+)(\S+)", lambda m: m.group(1) + m.group(2).lower(), text)
        elif style == "nocomment":
            text = text.split(";")[0] + " "
        elif style == "morecomment":
            text = text + " ; extra words, with #$ punctuation"
        out.append(text + "\n")
    return out


SUFFIX = prog("EXTRA1  LDA #1", "        BRA EXTRA1", "EXTRA2  FDB $1234", "        LDX EXTRA2,PCR", "        JMP EXTRA1")
for base in ("hello", "equates", "indexed", "pcr", "branches", "pcr_chain", "modes", "data", "fwd_equ", "register_names", "fwd_126", "bwd_126", "pcr_fwd_127", "pcr_bwd_128"):
    lines = CORPUS[base]
    for origin in (0x0000, 0x00F0, 0x0100, 0x0E00, 0x1234, 0x7F00, 0xF000, 0xFF00):
        CORPUS["%s @%04X" % (base, origin)] = relocated(["        ORG $0000\n"] + [l for l in lines if " ORG " not in l], origin)
    labels = sorted(set(_re.findall(r"^([A-Z@][\w@]*)", "".join(lines), flags=_re.M)), key=len, reverse=True)
    CORPUS[base + " renamed"] = renamed(lines, {label: "Q%dZZ" % index for index, label in enumerate(labels)})
    CORPUS[base + " renamed long"] = renamed(lines, {label: "LABEL%dWITHAVERYLONGNAME" % index for index, label in enumerate(labels)})
    CORPUS[base + " renamed lower"] = renamed(lines, {label: "q%dzz" % index for index, label in enumerate(labels)})
    CORPUS[base + " renamed registerish"] = renamed(lines, {label: "XYUS%dPCR" % index for index, label in enumerate(labels)})
    for style in ("tabs", "wide", "lower", "nocomment", "morecomment"):
        CORPUS["%s %s" % (base, style)] = reformatted(lines, style)
    CORPUS[base + " suffix"] = [l for l in lines if " END" not in l] + SUFFIX

# one tiny program per mnemonic x operand shape (accepted and rejected alike)
OPERAND_SHAPES = ["", "#1", "#$1234", "$20", "$2000", "<$20", ">$20", "[$2000]", ",X", "5,Y", "-17,U", "300,S", "[D,X]", ",X++", "A,B", "X,Y",
                  "SELF", "SELF+1", "#SELF", "SELF,PCR", "A,B,X,Y", "1,2,3", "'text'", "%1010", "12345", "-3"]
for instruction in INSTRUCTIONS:
    if instruction.is_include:
        continue
    for number, shape in enumerate(OPERAND_SHAPES):
        CORPUS["op %s %d" % (instruction.mnemonic, number)] = prog("        ORG $0200", "SELF    %s %s ; note" % (instruction.mnemonic, shape), "NEXT    RTS", "        FDB SELF", "        FDB NEXT")

# ------------------------------------------------------------------ history independence inside one interpreter
NAMES = list(CORPUS)
first_pass = {}
for name in NAMES:
    first_pass[name] = assemble(CORPUS[name])
    record("asm " + name, first_pass[name])

orders = {"reverse": list(reversed(NAMES)), "twice": [n for n in NAMES for _ in (0, 1)]}
shuffled = list(NAMES)
random.Random(1234).shuffle(shuffled)
orders["shuffled"] = shuffled
failing = [n for n in NAMES if "error" in first_pass[n]]
passing = [n for n in NAMES if "error" not in first_pass[n]]
orders["rejected_then_accepted"] = failing + passing
for order_name, order in orders.items():
    digest = hashlib.sha256()
    unstable = []
    for name in order:
        outcome = assemble(CORPUS[name])
        digest.update(json.dumps([name, outcome], sort_keys=True).encode())
        if outcome != first_pass[name]:
            unstable.append(name)
    record("history " + order_name, {"digest": digest.hexdigest(), "unstable": unstable})
record("corpus split", [len(passing), len(failing)])

# shared default instances must look the same after all that work
record("defaults after", {"code_pkg": package_info(CodePackage()), "none": value_info(NoneValue()),
                          "instructions": hashlib.sha256(repr(INSTRUCTIONS).encode()).hexdigest()})

# ------------------------------------------------------------------ constructors
VALUE_STRINGS = ["", "0", "1", "9", "10", "127", "128", "255", "256", "32767", "32768", "65535", "65536", "99999", "007", "-0", "-1", "-127", "-128", "-129", "-255", "-256",
                 "-32768", "-32769", "$0", "$F", "$FF", "$0FF", "$100", "$FFFF", "$00FF", "$10000", "$G", "$", "$ff", "$aBcD", "%0", "%1", "%00000000", "%11111111", "%1111111",
                 "%111111111", "%1010101010101010", "%10101010101010101", "%2", "'A", "'z", "'0", "' ", "''", "'ab", "'", "'\\", "'[", "'-", "'+", "'/", "'@", "LABEL", "label", "A", "PC",
                 "@X", "A@1", "A_B", "A.B", "1A", "A1", "A+1", "A-1", "1+1", "2*3", "7/2", "1/0", "$10+$20", "$FF+1", "$100-1", "A+B", "A*B", "A+", "+A", "A++B", "A+B+C", "1+A",
                 "$1+A", "A+$1", "-1+2", "1,2", "A,X", ",X", "A,", "1,2,3", ",", "#1", "#$FF", "#$100", "#A", "#-1", "#'A", "#%11110000", "##1", "#", "<$10", "<$1000", "<A", "<1", "<300",
                 "<", ">$10", ">$1000", ">A", ">1", ">%00001111", ">$FF", "><1", "<#1", "#<1", "#>$10", "[1]", "[A]", "\"str\"", "'s'", "/s/", "aa", "a", "'str", "str'", " 1", "1 ", "1 2",
                 "é", "١", "²"]
FCC = next(item for item in INSTRUCTIONS if item.mnemonic == "FCC")
LDX = next(item for item in INSTRUCTIONS if item.mnemonic == "LDX")
LDA = next(item for item in INSTRUCTIONS if item.mnemonic == "LDA")
for text in VALUE_STRINGS:
    for tag, instruction in (("none", None), ("lda", LDA), ("ldx", LDX), ("fcc", FCC)):
        for extended in (True, False):
            guarded("value %r %s %s" % (text, tag, extended),
                    lambda: value_info(Value.create_from_str(text, instruction, default_mode_extended=extended)))
for number in [0, 1, 15, 16, 17, 127, 128, 129, 255, 256, 4095, 4096, 32767, 32768, 65535, 65536, -1, -16, -17, -127, -128, -129, -255, -256, -32768, -32769, -65535, -70000]:
    for hint in (None, 2, 4, 0, 1, 3, 6):
        for mode in (ExplicitAddressingMode.NONE, ExplicitAddressingMode.IMMEDIATE, ExplicitAddressingMode.EXPLICIT_EXTENDED, ExplicitAddressingMode.DIRECT):
            guarded("numeric %d %r %s" % (number, hint, mode.name), lambda: value_info(NumericValue(number, size_hint=hint, mode=mode)))
    guarded("address %d" % number, lambda: value_info(AddressValue(number)))
    guarded("numeric hex sizes %d" % number, lambda: [NumericValue(number).hex(size=size) for size in range(0, 9)])
    guarded("address hex sizes %d" % number, lambda: [AddressValue(number).hex(size=size) for size in range(0, 9)])
for bad in (None, 1.5, "12", b"12", [1], True):
    guarded("numeric odd %r" % (bad,), lambda: value_info(NumericValue(bad)))
    guarded("address odd %r" % (bad,), lambda: value_info(AddressValue(bad)))
    guarded("create odd %r" % (bad,), lambda: value_info(Value.create_from_str(bad)))

OPERAND_STRINGS = OPERAND_SHAPES + ["[,X]", "[,--Y]", "[,X+]", "[,-X]", "[5,PCR]", "L,PCR", "[L,PCR]", "B,X", "D,S", "E,X", ",PC", "5,PC", ",", "[]", "[", "]", "#", "<", ">", "1,X,Y",
                                    "A,B,D", "X", "PC,S", "CC,A", "DP", "a,b", "x,y", "#'A", "#-129", "#256", "<$1234", ">$12", "$12,X", "$123,X", "-$10,X", "L+1,X", "[L+1,X]", "L-1,PCR"]
MNEMONICS = ["LDA", "LDX", "STA", "LEAX", "JMP", "JSR", "BRA", "LBRA", "NOP", "PSHS", "PULU", "TFR", "EXG", "NEG", "ADDD", "CMPY", "ORG", "EQU", "RMB", "FCB", "FDB", "FCC", "NAM", "END", "SETDP", "SET", "ANDCC", "CWAI"]
for mnemonic in MNEMONICS:
    instruction = next(item for item in INSTRUCTIONS if item.mnemonic == mnemonic)
    for text in OPERAND_STRINGS:
        def build():
            operand = Operand.create_from_str(text, instruction)
            out = {"class": type(operand).__name__, "type": str(operand.type), "string": operand.operand_string,
                   "value": value_info(operand.value), "left": value_info(operand.left) if not isinstance(operand.left, str) else operand.left,
                   "right": value_info(operand.right) if not isinstance(operand.right, str) else operand.right}
            try:
                resolved = operand.resolve_symbols({"L": AddressValue(3), "SELF": AddressValue(0), "N": NumericValue(5)})
                out["resolved"] = type(resolved).__name__
                out["package"] = package_info(resolved.translate())
            except BaseException as error:
                out["translate"] = describe_error(error)
            return out
        guarded("operand %s %r" % (mnemonic, text), build)

STATEMENT_LINES = ["", " ", "\t", "\n", ";", "; c", " ;c", "L", "L ", "L NOP", " NOP", " NOP ", " NOP ;c", " NOP c", "L NOP c", " LDA #1;c", " LDA #1 ;c ; d", " LDA #1 c ; d", "L: NOP",
                   "L.A NOP", " FCC \"A B\" c", " FCC \"A B\"", " FCC /A/", " FCC \"A", " FCC A", " FCC \"\"", " FCC \"A\"B", " FCC \"A;B\" ; c", " FCC 'A B C' tail ; x", " lda #1", " Lda #1",
                   " LDA  #1", "  LDA #1", "L  LDA #1", "1L NOP", "@ NOP", "L NOP\n", " NOP\r\n", " LDA #1\n", " LDA\t#1", "\tLDA #1", " LDA #'  ; space char", " LDA #'; ; semicolon char",
                   " INCLUDE f.asm", " INCLUDE", " include F.ASM ; c", " NAM x", " NAM", " END", " END L", " XYZ", " XYZ 1 ; c", "L XYZ", " LDA #1 #2", " LDA é", " LDA #1 é"]
for line in STATEMENT_LINES:
    def build():
        statement = Statement(line)
        out = {"empty": statement.is_empty, "comment_only": statement.is_comment_only, "label": statement.label, "mnemonic": statement.mnemonic,
               "comment": statement.comment, "instruction": statement.instruction.mnemonic if statement.instruction else None,
               "operand": type(statement.operand).__name__, "operand_string": getattr(statement.operand, "operand_string", None),
               "fixed": statement.fixed_size, "hint": statement.pcr_size_hint, "package": package_info(statement.code_pkg)}
        for name, fn in (("str", lambda: str(statement)), ("include", statement.get_include_filename),
                         ("addr1", lambda: statement.set_address(0x1234)), ("addr2", lambda: statement.set_address(0x4321)),
                         ("address", lambda: statement.code_pkg.address.hex())):
            try:
                out[name] = fn()
            except BaseException as error:
                out[name] = ["raise", type(error).__name__, str(error)]
        return out
    guarded("statement %r" % line, build)

# ------------------------------------------------------------------ includes and the command line
def run_cli(workdir, arguments, seed):
    env = dict(os.environ)
    env["PYTHONHASHSEED"] = seed
    env["PYTHONDONTWRITEBYTECODE"] = "1"
    env.pop("PYTHONPATH", None)
    proc = subprocess.run([sys.executable, os.path.join(TREE, "assembler.py")] + arguments, cwd=workdir, env=env,
                          stdout=subprocess.PIPE, stderr=subprocess.PIPE, universal_newlines=True)
    stderr_tail = [line for line in proc.stderr.replace(TREE, "<TREE>").splitlines() if line and not line.startswith(" ")]
    return {"rc": proc.returncode, "out": proc.stdout, "err": stderr_tail}


def snapshot(workdir, skip):
    out = {}
    for folder, _, entries in sorted(os.walk(workdir)):
        for entry in sorted(entries):
            relative = os.path.relpath(os.path.join(folder, entry), workdir)
            if relative in skip:
                continue
            with open(os.path.join(folder, entry), "rb") as handle:
                content = handle.read()
            out[relative] = [len(content), hashlib.sha256(content).hexdigest()]
    return out


def cli_sequence(files, invocations, seed):
    workdir = tempfile.mkdtemp(prefix="asm_")
    try:
        for name, lines in files.items():
            os.makedirs(os.path.dirname(os.path.join(workdir, name)), exist_ok=True)
            with open(os.path.join(workdir, name), "w") as handle:
                handle.write("".join(line.rstrip("\n") + "\n" for line in lines))
        runs = [[arguments, run_cli(workdir, arguments, seed)] for arguments in invocations]
        return {"runs": runs, "files": snapshot(workdir, set(files))}
    finally:
        shutil.rmtree(workdir, ignore_errors=True)


def cli_case(label, files, invocations):
    try:
        outcome = cli_sequence(files, invocations, "0")
        outcome["same_under_other_hash_seed"] = outcome == cli_sequence(files, invocations, "4242")
        record(label, outcome)
    except BaseException as error:
        record(label, ["probe-raise", type(error).__name__, str(error)])


for name in ("hello", "no_org", "equates", "data", "indexed", "pcr", "branches", "pcr_chain", "modes", "whitespace", "hash_seed_bait", "empty", "only_comments",
             "bad_mnemonic", "bad_line", "redefined", "undefined", "fwd_far", "bwd_far", "too_big", "bad_fcc", "include_missing", "over_64k", "fwd_127", "fwd_128", "bwd_129", "bwd_130"):
    cli_case("cli " + name, {"p.asm": CORPUS[name]}, [
        ["p.asm", "--print", "--symbols"],
        ["p.asm", "--to_bin", "o.bin", "--to_cas", "o.cas", "--to_dsk", "o.dsk", "--name", "given"],
        ["p.asm", "--to_cas", "o.cas", "--append", "--symbols"],
        ["p.asm", "--to_bin", "o.bin"],
    ])
cli_case("cli no name", {"p.asm": CORPUS["no_org"]}, [["p.asm", "--to_cas", "o.cas"], ["p.asm", "--to_dsk", "o.dsk"], ["p.asm", "--to_bin", "o.bin", "--print", "--width", "40"]])
cli_case("cli missing source", {}, [["absent.asm", "--print"], []])

MAIN = ["        ORG $3000", "START   LDA #1", "        INCLUDE first.asm", "MIDDLE  LDB SHARED", "        BRA INFIRST", "        LDX INSECOND,PCR", "        INCLUDE sub/second.asm", "FINISH  JMP START", "        LBRA INDEEP"]
FIRST = ["INFIRST STA SHARED", "        BNE FINISH", "        INCLUDE deep.asm", "SHARED  EQU $55", "        LDA MIDDLE,PCR"]
SECOND = ["INSECOND NOP", "        BRA START", "; comment in include", "", "        FDB INFIRST", "        FDB INDEEP", "        FDB 1,2"]
DEEP = ["INDEEP  LEAX FINISH,PCR", "        FCC \"deep\""]
cli_case("include tree", {"main.asm": MAIN, "first.asm": FIRST, "sub/second.asm": SECOND, "deep.asm": DEEP}, [["main.asm", "--print", "--symbols", "--to_bin", "o.bin"]])
FLAT = MAIN[:2] + FIRST[:2] + DEEP + FIRST[3:] + MAIN[3:6] + SECOND + MAIN[7:]
cli_case("include spliced", {"main.asm": FLAT}, [["main.asm", "--print", "--symbols", "--to_bin", "o.bin"]])
cli_case("include missing", {"main.asm": MAIN, "first.asm": FIRST}, [["main.asm", "--print"]])
cli_case("include cycle self", {"main.asm": ["        NOP", "        INCLUDE main.asm"]}, [["main.asm", "--print"]])
cli_case("include cycle two", {"main.asm": ["        INCLUDE a.asm"], "a.asm": ["        NOP", "        INCLUDE b.asm"], "b.asm": ["        INCLUDE a.asm"]}, [["main.asm", "--print"]])
cli_case("include twice", {"main.asm": ["        INCLUDE a.asm", "        INCLUDE a.asm"], "a.asm": ["        NOP"]}, [["main.asm", "--print", "--symbols"]])
cli_case("include twice labels", {"main.asm": ["        INCLUDE a.asm", "        INCLUDE a.asm"], "a.asm": ["L       NOP"]}, [["main.asm", "--print", "--symbols"]])
cli_case("include directory", {"main.asm": ["        INCLUDE sub"], "sub/x.asm": ["        NOP"]}, [["main.asm", "--print"]])
cli_case("include bad content", {"main.asm": ["        INCLUDE a.asm", "        RTS"], "a.asm": ["        FROB"]}, [["main.asm", "--print"]])
cli_case("include empty file", {"main.asm": ["        NOP", "        INCLUDE a.asm", "L       RTS"], "a.asm": []}, [["main.asm", "--print", "--symbols"]])
cli_case("include labelled", {"main.asm": ["HERE    INCLUDE a.asm ; why not", "        JMP HERE"], "a.asm": ["        NOP"]}, [["main.asm", "--print", "--symbols"]])
cli_case("include case", {"main.asm": ["        include a.asm", "        Include A.ASM"], "a.asm": ["        NOP"]}, [["main.asm", "--print", "--symbols"]])


def in_process_include():
    workdir = tempfile.mkdtemp(prefix="inc_")
    previous = os.getcwd()
    try:
        for name, lines in (("first.asm", FIRST), ("deep.asm", DEEP), ("sub/second.asm", SECOND)):
            os.makedirs(os.path.dirname(os.path.join(workdir, name)), exist_ok=True)
            with open(os.path.join(workdir, name), "w") as handle:
                handle.write("".join(line + "\n" for line in lines))
        os.chdir(workdir)
        split = assemble(prog(*MAIN))
        again = assemble(prog(*MAIN))
        flat = assemble(prog(*FLAT))
        statements = Program.process_mnemonics(Program.parse(prog(*MAIN)))
        return {"split": split, "stable": split == again, "same_image": split.get("image") == flat.get("image"),
                "same_symbols": split.get("symbols") == flat.get("symbols"), "expanded": [s.mnemonic + " " + s.label for s in statements]}
    finally:
        os.chdir(previous)
        shutil.rmtree(workdir, ignore_errors=True)


guarded("include in process", in_process_include)

json.dump(RESULTS, sys.stdout, sort_keys=True, default=repr)
'''


def start_probe(tree):
    tree = os.path.abspath(tree)
    env = dict(os.environ)
    env["PYTHONPATH"] = tree
    env["PYTHONDONTWRITEBYTECODE"] = "1"
    env["PYTHONHASHSEED"] = "0"
    return tree, subprocess.Popen([sys.executable, "-c", PROBE], cwd=tree, env=env,
                                  stdout=subprocess.PIPE, stderr=subprocess.PIPE, universal_newlines=True)


def finish_probe(started):
    tree, proc = started
    stdout, stderr = proc.communicate()
    if proc.returncode != 0:
        print("probe failed in", tree)
        print(stderr[-3000:])
        sys.exit(1)
    return json.loads(stdout)


def main():
    if len(sys.argv) != 3:
        print(__doc__)
        sys.exit(2)
    started = [start_probe(sys.argv[1]), start_probe(sys.argv[2])]
    result_a, result_b = [finish_probe(item) for item in started]
    differences = 0
    if len(result_a) != len(result_b):
        print("different number of cases: {} vs {}".format(len(result_a), len(result_b)))
        differences += 1
    for (label_a, value_a), (label_b, value_b) in zip(result_a, result_b):
        if label_a != label_b or value_a != value_b:
            differences += 1
            if differences <= 25:
                print("DIFF in case [{}] / [{}]".format(label_a, label_b))
                print("  A:", json.dumps(value_a, sort_keys=True)[:1200])
                print("  B:", json.dumps(value_b, sort_keys=True)[:1200])
    raised = sum(1 for _, value in result_a
                 if (isinstance(value, list) and value and value[0] in ("raise", "probe-raise"))
                 or (isinstance(value, dict) and "error" in value))
    print("{} cases compared ({} of them are errors), {} differences".format(len(result_a), raised, differences))
    sys.exit(1 if differences else 0)


if __name__ == "__main__":
    main()
