#!/usr/bin/env python
"""
Differential demonstration: runs the same inputs through the code of two
source trees (one subprocess per tree, the tree being cwd and the first entry
of sys.path) and compares every observable result.

usage: equiv.py <treeA> <treeB>      exit 0 = all cases agree, 1 = difference
"""
import json
import os
import subprocess
import sys

WORKER = r'''
import contextlib, enum, io, json, os, subprocess, sys, tempfile
tree = os.path.abspath(sys.argv[1])
os.chdir(tree)
sys.path.insert(0, tree)
sys.dont_write_bytecode = True

import cocoasm.values as values_mod
import cocoasm.operands as operands_mod
import cocoasm.instruction as instruction_mod
import cocoasm.statement as statement_mod
import cocoasm.program as program_mod
import cocoasm.exceptions as exceptions_mod
from cocoasm.values import *
from cocoasm.operands import *
from cocoasm.instruction import *
from cocoasm.statement import Statement
from cocoasm.program import Program
from cocoasm.exceptions import *


def safe(fn):
    try:
        return describe(fn())
    except Exception as error:
        return {"raised": type(error).__name__, "msg": str(error)}


def describe(obj, depth=0):
    if depth > 6:
        return "<deep>"
    if obj is None or isinstance(obj, (bool, int, str, float)):
        return obj
    if isinstance(obj, bytes):
        return obj.hex()
    if isinstance(obj, enum.Enum):
        return str(obj)
    if isinstance(obj, (list, tuple)):
        return [describe(x, depth + 1) for x in obj]
    if isinstance(obj, (set, frozenset)):
        return sorted(describe(x, depth + 1) for x in obj)
    if isinstance(obj, dict):
        return [[describe(k, depth + 1), describe(v, depth + 1)] for k, v in obj.items()]
    if isinstance(obj, values_mod.Value):
        out = {"cls": type(obj).__name__}
        for name in ("type", "int", "size_hint", "explict_addressing_mode", "negative", "resolved",
                     "original_string", "hex_array", "operation", "original_value"):
            if hasattr(obj, name):
                out[name] = describe(getattr(obj, name), depth + 1)
        for name in ("left", "right", "value"):
            if hasattr(obj, name):
                out[name] = describe(getattr(obj, name), depth + 1)
        out["hex()"] = safe(obj.hex)
        out["hex_len()"] = safe(obj.hex_len)
        out["byte_len()"] = safe(obj.byte_len)
        out["is_8_bit()"] = safe(obj.is_8_bit)
        out["is_16_bit()"] = safe(obj.is_16_bit)
        return out
    if isinstance(obj, instruction_mod.CodePackage):
        return {"cls": "CodePackage", "fields": [[k, describe(v, depth + 1)] for k, v in sorted(vars(obj).items())]}
    if isinstance(obj, operands_mod.Operand):
        out = {"cls": type(obj).__name__}
        for name in ("type", "operand_string", "requires_resolution", "operation", "value", "left", "right"):
            out[name] = describe(getattr(obj, name, "<missing>"), depth + 1)
        out["mnemonic"] = getattr(obj.instruction, "mnemonic", None)
        return out
    if isinstance(obj, instruction_mod.Instruction):
        return {"cls": "Instruction", "fields": describe(tuple(obj), depth + 1)}
    if isinstance(obj, instruction_mod.Mode):
        return {"cls": "Mode", "fields": list(obj)}
    if isinstance(obj, statement_mod.Statement):
        out = {"cls": "Statement"}
        for name in ("is_empty", "is_comment_only", "label", "mnemonic", "comment", "state", "fixed_size",
                     "pcr_size_hint", "operand", "original_operand", "code_pkg"):
            out[name] = describe(getattr(obj, name, "<missing>"), depth + 1)
        out["str"] = safe(lambda: str(obj))
        return out
    if isinstance(obj, BaseException):
        out = {"exc": type(obj).__name__, "msg": str(obj), "args": describe(obj.args, depth + 1)}
        if hasattr(obj, "value"):
            out["value"] = describe(obj.value, depth + 1)
        if hasattr(obj, "statement"):
            stmt = obj.statement
            out["statement"] = stmt if isinstance(stmt, str) else safe(lambda: str(stmt))
        return out
    return "<{}>".format(type(obj).__name__)


def run_program(lines, deep):
    program = Program()
    out = {}
    try:
        program.process([line + "\n" for line in lines])
    except BaseException as error:
        out["error"] = describe(error)
        out["statements_so_far"] = len(program.statements)
        return out
    out["binary"] = safe(program.get_binary_array)
    out["listing"] = safe(program.get_statements)
    out["symbols"] = safe(program.get_symbol_table)
    out["symbol_table"] = describe(program.symbol_table)
    out["origin"] = describe(program.origin)
    out["name"] = describe(program.name)
    out["layout"] = [
        [s.code_pkg.size, s.code_pkg.max_size, describe(s.code_pkg.address.hex()), s.fixed_size, s.pcr_size_hint]
        for s in program.statements
    ]
    if deep:
        out["statements"] = [describe(s) for s in program.statements]
    return out


def run_python(code):
    namespace = dict(globals())
    stream = io.StringIO()
    out = {}
    try:
        with contextlib.redirect_stdout(stream):
            exec(code, namespace)
        out["result"] = describe(namespace.get("result"))
    except BaseException as error:
        out["error"] = describe(error)
    out["stdout"] = stream.getvalue()
    return out


def run_cli(case):
    out = {"runs": []}
    with tempfile.TemporaryDirectory() as work:
        for name, content in case.get("files", {}).items():
            with open(os.path.join(work, name), "wb") as handle:
                handle.write(content.encode("latin-1"))
        env = dict(os.environ, PYTHONDONTWRITEBYTECODE="1")
        for argv in case["runs"]:
            done = subprocess.run(
                [sys.executable, os.path.join(tree, case["tool"])] + argv,
                cwd=work, env=env, stdout=subprocess.PIPE, stderr=subprocess.PIPE, timeout=120,
            )
            run = {"returncode": done.returncode}
            run["stdout"] = done.stdout.decode("latin-1").replace(tree, "<TREE>").replace(work, "<WORK>")
            stderr_lines = done.stderr.decode("latin-1").replace(tree, "<TREE>").replace(work, "<WORK>")
            stderr_lines = stderr_lines.strip().splitlines()
            # tracebacks carry line numbers of the tree, keep only the final line
            run["stderr_last"] = stderr_lines[-1] if stderr_lines else ""
            run["files"] = {}
            for name in sorted(os.listdir(work)):
                path = os.path.join(work, name)
                if os.path.isfile(path):
                    with open(path, "rb") as handle:
                        run["files"][name] = handle.read().hex()
                else:
                    run["files"][name] = sorted(os.listdir(path))
            out["runs"].append(run)
    return out


results = []
for case in json.load(sys.stdin):
    kind = case["k"]
    if kind == "prog":
        results.append(run_program(case["src"], case.get("deep", False)))
    elif kind == "py":
        results.append(run_python(case["code"]))
    elif kind == "cli":
        results.append(run_cli(case))
    else:
        results.append({"bad kind": kind})
json.dump(results, sys.stdout)
'''


def prog(*lines, deep=True):
    return {"k": "prog", "src": list(lines), "deep": deep}


def py(code):
    return {"k": "py", "code": code}


def cli(tool, argv, files=None):
    """One command line run (argv is a list of strings) or several in the same directory (a list of lists)."""
    runs = [list(argv)] if argv and isinstance(argv[0], str) else [list(a) for a in argv]
    return {"k": "cli", "tool": tool, "runs": runs, "files": files or {}}


def one(statement, *extra, deep=True):
    """A one-instruction program at $1000 with a few symbols available."""
    return prog(
        "        ORG   $1000",
        "SMALL   EQU   $12",
        "BIG     EQU   $1234",
        "START   NOP   ",
        "        " + statement,
        "NEXT    NOP   ",
        *extra, deep=deep
    )


def run_tree(tree, cases):
    env = dict(os.environ, PYTHONDONTWRITEBYTECODE="1")
    done = subprocess.run(
        [sys.executable, "-B", "-c", WORKER, tree],
        input=json.dumps(cases).encode(), stdout=subprocess.PIPE, stderr=subprocess.PIPE,
        cwd=tree, env=env,
    )
    if done.returncode != 0:
        sys.stderr.write(done.stderr.decode())
        raise SystemExit("worker failed for " + tree)
    return json.loads(done.stdout.decode())


def main():
    if len(sys.argv) != 3:
        raise SystemExit(__doc__)
    tree_a, tree_b = (os.path.abspath(p) for p in sys.argv[1:3])
    cases = build_cases()
    results_a = run_tree(tree_a, cases)
    results_b = run_tree(tree_b, cases)
    different = 0
    errors = 0
    for case, res_a, res_b in zip(cases, results_a, results_b):
        if "error" in res_a:
            errors += 1
        if res_a != res_b:
            different += 1
            if different <= 10:
                print("DIFFERENT:", json.dumps(case)[:400])
                print("   A:", json.dumps(res_a)[:600])
                print("   B:", json.dumps(res_b)[:600])
    print("{} cases ({} of them error cases in tree A), {} different".format(len(cases), errors, different))
    return 1 if different or len(results_a) != len(cases) or len(results_b) != len(cases) else 0


ELEMENTS = ["0", "1", "127", "128", "255", "256", "32767", "32768", "65535", "65536", "-1", "-127", "-128", "-129", "-255", "-256",
            "-32768", "-32769", "$0", "$F", "$FF", "$0FF", "$100", "$FFFF", "$10000", "%00001111", "%11111111",
            "%0000000011111111", "%101", "'A", "'z", "' ", "',", "SMALL", "BIG", "START", "NEG", "SMALL+1", "BIG-1", "START+1",
            "NOWHERE", "", "#5", "<5", ">5", "1.5", "1 2"]
LISTS = ["1,2", "1,2,3", "$FF,$00", "255,256", "-1,-2", "-128,-129", "65535,65536", "'A,'B", "%00000001,%10000000", "1,,2", ",1",
         "1,", ",", ",,", "1, 2", "SMALL,1", "1,SMALL", "START,START", "$1234,$56", "1,2,3,4,5,6,7,8,9,10,11,12,13,14,15,16",
         ",".join(str(n) for n in range(64)), ",".join("$%04X" % (n * 1000) for n in range(64)), "-1,255,$FF,%11111111,'A",
         "1;2", "1,2 ; comment", "1,2;comment", "$12,XY", "1,-32768", "1,#2"]
STRINGS = ['"HELLO"', "/HELLO/", "'HELLO'", '"HELLO WORLD"', '"A  B"', '"  A"', '"A  "', '" "', '""', '"', '"A', 'A"', "AHELLOA",
           '"A;B"', '"A ; B"', '"A" ; comment', '"A"; comment', '"A" comment', '"A"comment', '"A,B"', '"A""B"', "/A/B/", '"!#$%&()*+,-."',
           '"0123456789:;<=>?@"', '"[\\]^_`{|}~"', '"abc xyz"', "|A B|", "|A|B", ".A.", ",A,", ";A;", "#A#", "<A<", '"A\tB"',
           '"' + "X" * 255 + '"', '"' + "X Y " * 60 + '"', "", " ", '"A"  "B"', '"A" "', "1HELLO1", "$HELLO$", "%HELLO%"]
COUNTS = ["0", "1", "2", "10", "255", "256", "1000", "32767", "32768", "65535", "65536", "-1", "$10", "$0100", "%00000100", "'A",
          "SMALL", "BIG", "START", "SMALL+1", "NOWHERE", "", "1,2", "#5"]
SILENT = ["EQU   5", "EQU   $1234", "EQU   START", "EQU   ", "ORG   $2000", "ORG   ", "ORG   START", "SETDP $20", "SETDP ",
          "NAM   PROG", "NAM   ", "END   START", "END   ", "END   $2000", "INCLUDE"]


def directive(text, deep=True):
    """The directive between two labelled statements, so that the listing shows what it emitted and reserved."""
    return prog("        ORG   $1000", "SMALL   EQU   $12", "BIG     EQU   $1234", "NEG     EQU   -5", "START   NOP   ",
                "HERE    " + text, "NEXT    NOP   ", "        LDX   #NEXT", deep=deep)


def corpus():
    cases = []
    for element in ELEMENTS:
        cases.append(directive("FCB   " + element))
        cases.append(directive("FDB   " + element))
    for values in LISTS:
        cases.append(directive("FCB   " + values))
        cases.append(directive("FDB   " + values))
    for string in STRINGS:
        cases.append(directive("FCC   " + string))
    for count in COUNTS:
        cases.append(directive("RMB   " + count, deep=False))
    for line in SILENT:
        cases.append(directive(line))
        cases.append(prog("LBL     " + line, "        NOP   "))
    cases.append(prog("        FCB   1", "        FDB   2", '        FCC   "3"', "        RMB   4", "        FCB   5,6",
                      "        FDB   7,8", "LAST    NOP   "))
    cases.append(prog("        fcb   1", "        Fdb   2", '        fcc   "ab"', "        rmb   1"))
    source = "\n".join(["        NAM   DATA", "        ORG   $0E00", "START   LDX   #TEXT", "        RTS   ", "BYTES   FCB   1,2,$FF,-1",
                        "ONE     FCB   'A", "WORDS   FDB   $1234,5,-2", "WORD    FDB   START", 'TEXT    FCC   "HELLO, WORLD; BYE"',
                        "SPACE   RMB   16", "ENDING  FCB   0", "        END   START", ""])
    cases.append(cli("assembler.py", ["d.asm", "--print", "--symbols", "--to_bin", "d.bin"], {"d.asm": source}))
    cases.append(cli("assembler.py", ["e.asm", "--print"], {"e.asm": "        FCB   256,1\n"}))
    cases.append(cli("assembler.py", ["f.asm", "--print"], {"f.asm": "        FCC   \n"}))
    return cases


NUMBERS = [0, 1, 127, 128, 255, 256, 32767, 32768, 65535, 65536, 100000, -1, -127, -128, -129, -255, -256, -32768, -32769, -65535,
           -65536, -100000, True, False, 1.0, -1.0, None,
           "0", "00", "007", "1", "127", "128", "255", "256", "0256", "32767", "32768", "65535", "65536", "065535", "99999",
           "100000", "-0", "-00", "-1", "-01", "-127", "-128", "-129", "-255", "-256", "-32767", "-32768", "-032768", "-32769",
           "-65535", "-65536", "--1", "-", "+1", "1-", " 1", "1 ", "- 1", "1_000", "٣", "-٣", "1e3", "0x10", "", "-$10",
           "-%1", "-'A"]
MODES = ["NONE", "DIRECT", "EXTENDED", "IMMEDIATE", "EXPLICIT_DIRECT", "EXPLICIT_EXTENDED"]


def build_cases():
    cases = corpus()
    probe = (
        "v = {ctor}\n"
        "result = [v, v.is_negative(), v.is_4_bit(), v.hex(), v.hex(2), v.hex(size=4), v.get_negative(), v.get_negative(2),\n"
        "          v.get_negative(4), v.hex_len(), v.byte_len(), v.high_byte(), v.low_byte(), str(v), v.ascii()]\n")
    for number in NUMBERS:
        for mode in MODES:
            for hint in (None, 2, 4):
                cases.append(py(probe.format(
                    ctor="NumericValue({!r}, size_hint={!r}, mode=ExplicitAddressingMode.{})".format(number, hint, mode))))
        cases.append(py(probe.format(ctor="NumericValue({!r})".format(number))))
        cases.append(py(probe.format(ctor="DirectNumericValue({!r})".format(number))))
        cases.append(py(probe.format(ctor="ExtendedNumericValue({!r}, 4)".format(number))))
        if isinstance(number, str):
            for ins in ("None", "next(i for i in INSTRUCTIONS if i.mnemonic == 'FCB')",
                        "next(i for i in INSTRUCTIONS if i.mnemonic == 'FDB')"):
                cases.append(py("result = Value.create_from_str({!r}, {})".format(number, ins)))
            cases.append(py("result = MultiByteValue({!r})".format(number + "," + number)))
            cases.append(py("result = MultiWordValue({!r})".format("1," + number + ",2")))
            cases.append(directive("FCB   " + number, deep=False))
            cases.append(directive("FDB   " + number, deep=False))
            cases.append(directive("FCB   5," + number, deep=False))
            cases.append(directive("FDB   " + number + ",5", deep=False))
            cases.append(directive("RMB   " + number, deep=False))
            cases.append(directive("LDA   #" + number, deep=False))
            cases.append(directive("LDX   " + number + ",Y", deep=False))
    cases.append(py("rows = []\n"
                    "for args in ((5, 5, 'x'), (6, 5, 'too big'), (-6, 5, 'x'), (5, 5.0, 'x'), ('a', 5, 'x')):\n"
                    "    try:\n"
                    "        rows.append(describe(NumericValue(args[0]) if args[0] == 5 else NumericValue(int(args[0]) if "
                    "not isinstance(args[0], str) else args[0])))\n"
                    "    except Exception as error:\n"
                    "        rows.append(describe(error))\n"
                    "result = rows"))
    return cases


if __name__ == "__main__":
    sys.exit(main())
