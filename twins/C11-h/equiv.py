#!/usr/bin/env python
"""
Differential check: runs the same battery of cases against two source trees
(one subprocess per tree, the tree first on sys.path, a private scratch
directory as cwd) and compares every observable result.

usage: equiv.py <treeA> <treeB>      exit 0 = all cases agree, 1 = otherwise
"""
import json
import os
import subprocess
import sys
import tempfile

DRIVER = r'''
import contextlib, hashlib, io, json, os, sys, types, subprocess

TREE, WORK = sys.argv[1], sys.argv[2]
sys.path.insert(0, TREE)
os.chdir(WORK)
RESULTS = {}


def digest(data):
    data = bytes(data)
    return {"len": len(data), "sha": hashlib.sha256(data).hexdigest(), "head": data[:48].hex()}


def snapshot(directory="."):
    out = {}
    for root, _, files in os.walk(directory):
        for name in sorted(files):
            path = os.path.join(root, name)
            with open(path, "rb") as handle:
                out[os.path.relpath(path, directory)] = digest(handle.read())
    return dict(sorted(out.items()))


def outcome(func, *args, **kwargs):
    """Runs func, returns its (jsonable) value or the exception type/message, plus stdout."""
    stream = io.StringIO()
    try:
        with contextlib.redirect_stdout(stream):
            value = func(*args, **kwargs)
        result = {"value": value}
    except SystemExit as error:
        result = {"exit": repr(error.code)}
    except BaseException as error:
        result = {"raised": type(error).__name__, "message": str(error)}
    result["stdout"] = stream.getvalue()
    return result


def case(name, func, *args, **kwargs):
    assert name not in RESULTS, name
    RESULTS[name] = outcome(func, *args, **kwargs)


def describe(coco_file):
    """Everything observable about a CoCoFile returned by a reader."""
    def val(v):
        try:
            return [type(v).__name__, v.hex(), v.int]
        except Exception as error:
            return [type(v).__name__, "ERR", str(error)]
    return {
        "name": coco_file.name, "extension": coco_file.extension,
        "type": val(coco_file.type), "data_type": val(coco_file.data_type),
        "gaps": val(coco_file.gaps), "load": val(coco_file.load_addr), "exec": val(coco_file.exec_addr),
        "data": digest(coco_file.data), "ignore_gaps": coco_file.ignore_gaps, "str": str(coco_file),
    }


def in_dir(name):
    """Creates and enters a fresh sub-directory of the scratch dir; returns a function to leave."""
    path = os.path.join(WORK, name)
    os.makedirs(path)
    os.chdir(path)
    return lambda: os.chdir(WORK)


def assemble(case_name, source, to_bin=None, to_cas=None, to_dsk=None, name=None, append=False,
             symbols=False, listing=False, width=100, pre=None):
    """Runs assembler.main() in a fresh directory; records stdout, outcome, files and what the readers list."""
    import assembler
    import file_util
    leave = in_dir(case_name)
    try:
        with open("prog.asm", "w") as handle:
            handle.write(source)
        if pre:
            pre()
        args = types.SimpleNamespace(filename="prog.asm", symbols=symbols, print=listing, to_bin=to_bin,
                                     to_cas=to_cas, to_dsk=to_dsk, name=name, append=append, width=width)
        result = outcome(assembler.main, args)
        result["files"] = snapshot()
        listings = {}
        for image in (to_cas, to_dsk, to_bin):
            if image and os.path.exists(image):
                fu_args = types.SimpleNamespace(host_filename=image, append=False, list=True, to_bin=None,
                                                to_cas=None, to_dsk=None, files=None)
                listings[image] = outcome(file_util.main, fu_args)
        result["listings"] = listings
        RESULTS[case_name] = result
    finally:
        leave()


def program(origin=None, nam=None, size=4, end=None, fill=0x12):
    lines = []
    if nam is not None:
        lines.append("        NAM {}".format(nam))
    if origin is not None:
        lines.append("        ORG {}".format(origin))
    lines.append("START   LDA #$01")
    body = size - 2
    while body > 0:
        chunk = min(body, 8)
        lines.append("        FCB " + ",".join("${:02X}".format((fill + body + k) & 0xFF) for k in range(chunk)))
        body -= chunk
    lines.append("        END {}".format(end) if end else "        END")
    return "\n".join(lines) + "\n"


# ---- unit level: the reader side of DiskFile ---------------------------------------------------
from cocoasm.virtualfiles.disk import DiskFile, DiskConstants
from cocoasm.virtualfiles.coco_file import CoCoFile
from cocoasm.virtualfiles.virtual_file import VirtualFile
from cocoasm.virtualfiles.source_file import SourceFile, SourceFileType
from cocoasm.values import NumericValue

DIR, FAT = DiskConstants.DIR_OFFSET, DiskConstants.FAT_OFFSET


def make_file(name, kind, length, seed=0, ext="bin"):
    type_val, data_type = {"ml": (2, 0), "basic": (0, 0), "ascii": (1, 0xFF), "text": (3, 0xFF)}[kind]
    return CoCoFile(name=name, extension=ext, type=NumericValue(type_val), data_type=NumericValue(data_type),
                    load_addr=NumericValue(0x0E00 + seed), exec_addr=NumericValue(0x0E10 + seed),
                    data=[(i * 3 + seed) & 0xFF for i in range(length)])


def listing(buffer, filenames=None):
    return [describe(f) for f in DiskFile(buffer=buffer).list_files(filenames)]


def build(*files):
    disk = DiskFile()
    for coco_file in files:
        disk.add_file(coco_file)
    return disk.get_buffer()


def list_built(*specs):
    return listing(build(*[make_file(*spec) for spec in specs]))


for length in (0, 1, 250, 251, 2298, 2299, 2300, 4603, 4604, 7000):
    case("list_ml_{}".format(length), list_built, ("PROG", "ml", length))
    case("list_basic_{}".format(length), list_built, ("BAS", "basic", length, 1, "bas"))
case("list_ascii", list_built, ("TXT", "ascii", 700, 2, "txt"))
case("list_mixed", list_built, ("ONE", "ml", 10), ("TWO", "basic", 2400, 1), ("three", "ascii", 5, 2), ("FOUR4444", "ml", 4700, 3))
case("list_name_with_space", list_built, ("A B C", "ml", 10), ("  LEAD", "ml", 10, 1))
case("list_nine_char_name", list_built, ("NINECHARS", "ml", 10, 0, "binary"))


def with_deleted():
    buffer = build(*[make_file("F{}".format(n), "ml", 30 + n, n) for n in range(6)])
    buffer[DIR + 32] = 0x00            # entry 1 deleted
    buffer[DIR + 32 * 3] = 0xFF        # entry 3 never used
    buffer[DIR + 32 * 4] = 0x01        # entry 4 starts with a control character
    return listing(buffer)


case("list_with_deleted", with_deleted)


def many_files(count):
    return listing(build(*[make_file("N{}".format(n), "ml", 3, n) for n in range(count)]))


case("list_67_files", many_files, 67)
case("add_68_files", many_files, 68)
case("add_69_files", many_files, 69)


def last_entry_used():
    buffer = build(make_file("FIRST", "ml", 12))
    buffer[DIR + 32 * 71:DIR + 32 * 72] = buffer[DIR:DIR + 32]
    buffer[DIR + 32 * 71] = ord("Z")
    return listing(buffer)


case("list_entry_71", last_entry_used)
case("list_filter", lambda: listing(build(make_file("AA", "ml", 4), make_file("BB", "ml", 4, 1)), ["BB"]))
case("list_short_image", listing, [0xFF] * (DiskConstants.IMAGE_SIZE - 1))
case("list_empty_image", listing, [0xFF] * DiskConstants.IMAGE_SIZE)
case("list_zero_image", listing, [0x00] * DiskConstants.IMAGE_SIZE)
case("list_long_image", lambda: listing(build(make_file("LONG", "ml", 9)) + [0] * 100))


def bad_name():
    buffer = build(make_file("PROG", "ml", 12))
    buffer[DIR + 2] = 0xC3
    buffer[DIR + 3] = 0x28
    return listing(buffer)


case("list_undecodable_name", bad_name)


def bad_granule(value):
    buffer = build(make_file("PROG", "ml", 12))
    buffer[DIR + 13] = value
    return listing(buffer)


for value in (33, 34, 67, 68, 0xC0, 0xFF):
    case("list_start_granule_{}".format(value), bad_granule, value)


def zero_length_basic(fat_value, last_bytes):
    buffer = build(make_file("EMPTY", "basic", 0, 0, "bas"))
    first = buffer[DIR + 13]
    buffer[FAT + first] = fat_value
    buffer[DIR + 14] = last_bytes >> 8
    buffer[DIR + 15] = last_bytes & 0xFF
    return listing(buffer)


for fat_value in (0xC0, 0xC1, 0xC2, 0xC9, 0xDF, 0xE1, 0xFF, 0x21):
    for last_bytes in (0, 3, 256):
        case("list_zero_len_{:02X}_{}".format(fat_value, last_bytes), zero_length_basic, fat_value, last_bytes)


for args in ((0, [0xC1], 256), (0, [0xC2], 256), (0, [0x01, 0x02, 0xC2], 256), (0, [0xC0], 0), (0, [0xC0], 10),
             (1, [0xC5, 0x00], 77), (0, [0xBF] + [0] * 190 + [0xC9], 1), (0, [0xFF], 0), (2, [0xC3, 0, 1, 0xD1], 5),
             (0, [], 0), (5, [0xC1], 0), (0, [0xDF], 255)):
    case("file_length_{}".format(args), DiskFile.calculate_file_length, *args)


def read_seq(buffer, pointer, length, decode):
    result = DiskFile(buffer=buffer).read_sequence(pointer, length, decode=decode)
    return [type(result).__name__, result if isinstance(result, str) else list(result)]


TEXT = [ord(c) for c in "HELLO WORLD  "]
for pointer, length in ((0, 0), (0, 1), (0, 13), (0, 14), (5, 8), (5, 9), (12, 1), (13, 0), (13, 1), (20, 1), (0, 100)):
    for decode in (False, True):
        case("read_seq_{}_{}_{}".format(pointer, length, decode), read_seq, TEXT, pointer, length, decode)
case("read_seq_bad_utf8", read_seq, [0xC3, 0x28, 0x41], 0, 3, True)
case("read_seq_raw_high", read_seq, [0xC3, 0x28, 0x41], 0, 3, False)
case("read_seq_empty_buffer", read_seq, [], 0, 0, True)


def through_virtual_file(kind):
    leave = in_dir("vf_" + kind)
    try:
        if kind == "dsk":
            data = build(make_file("VF", "ml", 600), make_file("VFB", "basic", 60, 1, "bas"))
        elif kind == "junk":
            data = [1, 2, 3, 4] * 100
        else:
            data = []
        SourceFile.write_binary_contents("host.img", data)
        virtual_file = VirtualFile(SourceFile("host.img", file_type=SourceFileType.BINARY))
        virtual_file.open_virtual_file()
        return [str(virtual_file.virtual_file_type), [describe(f) for f in virtual_file.list_files()]]
    finally:
        leave()


for kind in ("dsk", "junk", "empty"):
    case("virtual_file_" + kind, through_virtual_file, kind)

# ---- end-to-end runs of assembler.main() ------------------------------------------------------
ALL = dict(to_bin="out.bin", to_cas="out.cas", to_dsk="out.dsk")
for size in (2, 3, 245, 246, 247, 254, 255, 256, 257, 510, 511, 2293, 2294, 2295, 2304, 4598, 4599, 4600):
    assemble("cli_size_{}".format(size), program("$0E00", "PROG", size), **ALL)
for label, origin in (("none", None), ("zero", "0"), ("ff", "$00FF"), ("100", "$0100"), ("7fff", "$7FFF"), ("fff0", "$FFF0")):
    assemble("cli_origin_" + label, program(origin, "ORGTEST", 20), **ALL)
for nam in ("A", "ab", "MixedCas", "eightchr", "ninechars", "twelvechars1", "UPPER"):
    assemble("cli_nam_" + nam, program("$2000", nam, 10), **ALL)
assemble("cli_name_switch", program("$2000", None, 10), name="fromarg", **ALL)
assemble("cli_name_switch_long", program("$2000", None, 10), name="averylongname", **ALL)
assemble("cli_nam_beats_switch", program("$2000", "INNER", 10), name="outer", **ALL)
assemble("cli_noname_all", program("$2000", None, 10), **ALL)
assemble("cli_noname_cas", program("$2000", None, 10), to_cas="out.cas")
assemble("cli_noname_dsk", program("$2000", None, 10), to_dsk="out.dsk")
assemble("cli_noname_bin", program("$2000", None, 10), to_bin="out.bin")
assemble("cli_only_cas", program("$3000", "ONE", 300), to_cas="out.cas")
assemble("cli_only_dsk", program("$3000", "ONE", 300), to_dsk="out.dsk")
assemble("cli_end_operand", program("$3000", "ENDOP", 30, end="START"), **ALL)
assemble("cli_listing", program("$3000", "LST", 12), symbols=True, listing=True, **ALL)
assemble("cli_parse_error", "        NAM X\n        FOO #1\n", **ALL)
assemble("cli_translate_error", "        NAM X\n        LDA MISSING\n", **ALL)


def first_image():
    import assembler
    with open("first.asm", "w") as handle:
        handle.write(program("$1000", "FIRST", 700))
    assembler.main(types.SimpleNamespace(filename="first.asm", symbols=False, print=False, name=None, append=False,
                                         width=100, **ALL))


assemble("cli_exists_no_append", program("$4000", "SECOND", 40), pre=first_image, **ALL)
assemble("cli_exists_append", program("$4000", "SECOND", 2400), pre=first_image, append=True, **ALL)
assemble("cli_cas_onto_dsk", program("$4000", "SECOND", 40), pre=first_image, append=True, to_cas="out.dsk")
assemble("cli_dsk_onto_cas", program("$4000", "SECOND", 40), pre=first_image, append=True, to_dsk="out.cas")


def real_cli():
    leave = in_dir("real_cli")
    try:
        with open("prog.asm", "w") as handle:
            handle.write(program("$0E00", "RealRun", 600))
        runs = []
        for argv in (["assembler.py", "prog.asm", "--to_bin", "r.bin", "--to_cas", "r.cas", "--to_dsk", "r.dsk"],
                     ["file_util.py", "r.cas", "--list"], ["file_util.py", "r.dsk", "--list"],
                     ["assembler.py", "prog.asm", "--to_dsk", "r.dsk"],
                     ["assembler.py", "prog.asm", "--to_dsk", "r.dsk", "--append"],
                     ["file_util.py", "r.dsk", "--list"]):
            proc = subprocess.run([sys.executable, os.path.join(TREE, argv[0])] + argv[1:], capture_output=True, text=True)
            runs.append([proc.returncode, proc.stdout, proc.stderr])
        return {"runs": runs, "files": snapshot()}
    finally:
        leave()


case("real_cli_subprocess", real_cli)

json.dump(RESULTS, sys.stdout)
'''


def run_tree(tree):
    tree = os.path.abspath(tree)
    with tempfile.TemporaryDirectory() as work:
        driver = os.path.join(work, "_driver.py")
        with open(driver, "w") as handle:
            handle.write(DRIVER)
        scratch = os.path.join(work, "w")
        os.mkdir(scratch)
        env = dict(os.environ, PYTHONPATH=tree, PYTHONDONTWRITEBYTECODE="1", PYTHONHASHSEED="0")
        proc = subprocess.run(
            [sys.executable, driver, tree, scratch],
            cwd=scratch, env=env, capture_output=True, text=True,
        )
        if proc.returncode != 0:
            print("driver failed for", tree)
            print(proc.stdout[-2000:])
            print(proc.stderr[-4000:])
            sys.exit(1)
        return json.loads(proc.stdout)


def main():
    if len(sys.argv) != 3:
        print(__doc__)
        sys.exit(2)
    res_a = run_tree(sys.argv[1])
    res_b = run_tree(sys.argv[2])
    names = list(res_a.keys())
    bad = 0
    if names != list(res_b.keys()):
        print("case lists differ")
        bad += 1
    for name in names:
        if res_a[name] != res_b.get(name):
            bad += 1
            print("DIFF in case", name)
            print("  A:", json.dumps(res_a[name])[:600])
            print("  B:", json.dumps(res_b.get(name))[:600])
    print("{} cases compared, {} differ".format(len(names), bad))
    sys.exit(1 if bad else 0)


if __name__ == "__main__":
    main()
