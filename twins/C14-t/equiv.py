#!/usr/bin/env python
"""
Differential demonstration for property C14 (cassette images are well-formed
CoCo tape streams).

usage: equiv.py <treeA> <treeB>

For each tree a driver is run in its own subprocess (tree as cwd and at the
front of sys.path). The driver exercises the cassette writer of that tree
(append_leader / append_blank / append_eof / append_name / append_header /
append_data_blocks / add_file / add_files / VirtualFile.save_virtual_file) and
dumps every observable result as JSON: return values, full buffer contents
(also the partial buffer left behind when an exception is raised), exception
type and message, bytes of files written, what the tree's own reader gets
back. On top of that both command line tools of each tree are run on the same
inputs; stdout, exit status and the produced files are compared.

Exit status 0 when everything agrees, 1 otherwise.
"""
import hashlib
import json
import os
import shutil
import subprocess
import sys
import tempfile

PYTHON = sys.executable

DRIVER = r'''
import json, os, sys, tempfile
tree = sys.argv[1]
sys.path.insert(0, tree)
os.chdir(tree)

from cocoasm.virtualfiles.cassette import CassetteFile
from cocoasm.virtualfiles.coco_file import CoCoFile
from cocoasm.virtualfiles.virtual_file import VirtualFile, VirtualFileType
from cocoasm.virtualfiles.source_file import SourceFile, SourceFileType
from cocoasm.values import NumericValue, NoneValue

import cocoasm.virtualfiles.cassette as cassette_module
assert os.path.realpath(cassette_module.__file__).startswith(os.path.realpath(tree)), cassette_module.__file__

RESULTS = {}
WORK = tempfile.mkdtemp(prefix="c14drv")


def enc(value):
    """JSON friendly encoding that keeps type information."""
    if isinstance(value, bool) or value is None:
        return value
    if isinstance(value, int):
        return value
    if isinstance(value, (list, tuple)):
        return [enc(x) for x in value]
    return "<{}>{!r}".format(type(value).__name__, value)


def record(label, func, cassette=None):
    assert label not in RESULTS, label
    entry = {}
    try:
        entry["ret"] = enc(func())
    except BaseException as error:
        entry["exc"] = [type(error).__name__, str(error).replace(WORK, "<WORK>").replace(tree, "<TREE>")]
    if cassette is not None:
        entry["buffer_type"] = type(cassette.buffer).__name__
        entry["buffer"] = enc(list(cassette.buffer))
        entry["get_buffer_is_buffer"] = cassette.get_buffer() is cassette.buffer
        entry["original_buffer"] = enc(list(cassette.original_buffer))
    RESULTS[label] = entry


def pattern(length, seed=0):
    return [(seed + index * 7 + (index >> 3)) & 0xFF for index in range(length)]


def make_file(name="TEST", type_=0x02, data_type=0x00, load=0x0E00, exec_=0x0E00, data=None, **kw):
    return CoCoFile(
        name=name,
        extension="BIN",
        type=NumericValue(type_) if isinstance(type_, int) else type_,
        data_type=NumericValue(data_type) if isinstance(data_type, int) else data_type,
        load_addr=NumericValue(load) if isinstance(load, int) else load,
        exec_addr=NumericValue(exec_) if isinstance(exec_, int) else exec_,
        data=[0x01, 0x02, 0x03] if data is None else data,
        **kw
    )

# ---------------------------------------------------------------- leader/blank/eof
for label, prefill in (("empty", []), ("prefilled", [0xDE, 0xAD, 0x55, 0x3C])):
    for method in ("append_leader", "append_blank", "append_eof"):
        c = CassetteFile(buffer=list(prefill))
        record("{}/{}".format(method, label), getattr(c, method), c)
    c = CassetteFile(buffer=list(prefill))
    def seq(c=c):
        out = []
        for method in ("append_blank", "append_leader", "append_eof", "append_eof", "append_leader", "append_blank"):
            out.append(getattr(c, method)())
        return out
    record("leader_blank_eof_sequence/{}".format(label), seq, c)

c = CassetteFile(buffer=bytearray(b"\x01\x02"))
record("append_leader/bytearray_buffer", c.append_leader, c)
c = CassetteFile(buffer=bytearray(b"\x01\x02"))
record("append_eof/bytearray_buffer", c.append_eof, c)

# ---------------------------------------------------------------- append_name
NAMES = [
    "", "A", "AB", "HELLO", "SEVENCH", "EIGHTCHR", "NINECHARS", "A_MUCH_LONGER_NAME",
    "lower", "a b", "   ", "\x00\x00", "\xe9t\xe9", "ĀBIG", "\U0001F600X", "12345678",
    ["A", "B"], ("X",), b"AB", bytearray(b"Q"), None, 42, ["AB"], [1], {"A": 1},
]
for index, name in enumerate(NAMES):
    c = CassetteFile()
    record("append_name/{:02d}/{!r}".format(index, name), lambda c=c, name=name: c.append_name(name), c)
c = CassetteFile(buffer=[9, 9])
record("append_name/prefilled", lambda: c.append_name("ZED"), c)

# ---------------------------------------------------------------- append_header
HEADER_FILES = {
    "plain": make_file(),
    "defaults": CoCoFile(),
    "defaults_named": CoCoFile(name="DEFAULTS"),
    "basic": make_file(name="BASPROG", type_=0x00, data_type=0xFF, load=0, exec_=0),
    "data_ascii": make_file(name="D", type_=0x01, data_type=0xFF, load=0x00FF, exec_=0x0100),
    "max_addr": make_file(name="MAXIMUMS", type_=0xFF, data_type=0xFF, load=0xFFFF, exec_=0xFFFF),
    "byte_addr": make_file(name="X", load=0x7F, exec_=0x80),
    "mixed_addr": make_file(name="LONGNAMEHERE", load=0x3F00, exec_=0x3F12),
    "addr_1234": make_file(name="A1234", load=0x1234, exec_=0xABCD),
    "word_type": make_file(name="WORDTYPE", type_=0x0102, data_type=0x1FF),
    "string_hex_addr": make_file(name="HEXS", load=NumericValue("$0E00"), exec_=NumericValue("$0E10")),
    "none_values": make_file(name="NONES", type_=NoneValue(), data_type=NoneValue(), load=NoneValue(), exec_=NoneValue()),
    "gaps_flagged": make_file(name="GAPS", gaps=NumericValue(0xFF)),
    "unicode_name": make_file(name="Āā"),
    "empty_name": make_file(name=""),
    "err_name_none": make_file(name=None),
    "err_type_none": make_file(type_=None),
    "err_data_type_none": make_file(data_type=None),
    "err_load_none": make_file(load=None),
    "err_exec_none": make_file(exec_=None),
    "err_type_plain_int": make_file()._replace(type=2),
    "err_load_plain_int": make_file()._replace(load_addr=0x0E00),
}
for label, coco_file in HEADER_FILES.items():
    c = CassetteFile()
    record("append_header/{}".format(label), lambda c=c, f=coco_file: c.append_header(f), c)
c = CassetteFile(buffer=[1, 2, 3])
record("append_header/prefilled", lambda: c.append_header(make_file(name="PRE")), c)
c = CassetteFile()
record("append_header/err_not_a_file", lambda: c.append_header(None), c)
c = CassetteFile()
record("append_header/twice", lambda: (c.append_header(make_file(name="ONE")), c.append_header(make_file(name="TWO"))), c)

# ---------------------------------------------------------------- append_data_blocks
LENGTHS = [0, 1, 2, 3, 100, 253, 254, 255, 256, 257, 300, 509, 510, 511, 512, 764, 765, 766, 1000, 1275, 4096]
for length in LENGTHS:
    for gaps in (None, False, True):
        c = CassetteFile()
        data = pattern(length, seed=length)
        if gaps is None:
            record("append_data_blocks/{}/default".format(length), lambda c=c, d=data: c.append_data_blocks(d), c)
        else:
            record("append_data_blocks/{}/gaps={}".format(length, gaps),
                   lambda c=c, d=data, g=gaps: c.append_data_blocks(d, gaps=g), c)
        # the caller's data must not be modified
        RESULTS["append_data_blocks/{}/{}/input_untouched".format(length, gaps)] = {"ret": data == pattern(length, seed=length)}

c = CassetteFile()
record("append_data_blocks/positional_gaps", lambda: c.append_data_blocks(pattern(600), True), c)
c = CassetteFile()
record("append_data_blocks/truthy_gaps", lambda: c.append_data_blocks(pattern(600), gaps=1), c)
c = CassetteFile()
record("append_data_blocks/all_ff_255", lambda: c.append_data_blocks([0xFF] * 255), c)
c = CassetteFile()
record("append_data_blocks/all_ff_254", lambda: c.append_data_blocks([0xFF] * 254), c)
c = CassetteFile()
record("append_data_blocks/all_zero_510", lambda: c.append_data_blocks([0x00] * 510), c)
c = CassetteFile(buffer=[7, 7, 7])
record("append_data_blocks/prefilled", lambda: c.append_data_blocks(pattern(260)), c)
for label, data in (
    ("bytes_3", bytes([1, 2, 3])), ("bytes_300", bytes(pattern(300))), ("bytearray_255", bytearray(pattern(255))),
    ("tuple_256", tuple(pattern(256))), ("range_300", range(300)), ("empty_bytes", b""), ("empty_tuple", ()),
    ("big_values", [256, 511, 1000, -1, 70000]), ("big_values_long", [300] * 256 + [-5] * 3),
    ("bools", [True, False, True]),
):
    for gaps in (False, True):
        c = CassetteFile()
        record("append_data_blocks/{}/gaps={}".format(label, gaps),
               lambda c=c, d=data, g=gaps: c.append_data_blocks(d, gaps=g), c)
for label, data in (
    ("err_none", None), ("err_int", 5), ("err_str_elements", [1, 2, "3", 4]), ("err_str_data", "ABC"),
    ("err_none_element", [1, None]), ("err_str_in_second_block", pattern(255) + [9, "x", 8]),
    ("err_str_at_255", pattern(254) + ["x"]), ("err_str_after_255", pattern(255) + ["x"]),
    ("err_set", {1, 2, 3}), ("err_dict", {0: 5, 1: 6}), ("err_float_elements", [1.5, 2]),
    ("err_generator", (x for x in [1, 2])),
):
    for gaps in (False, True):
        c = CassetteFile()
        record("append_data_blocks/{}/gaps={}".format(label, gaps),
               lambda c=c, d=data, g=gaps: c.append_data_blocks(d, gaps=g), c)
c = CassetteFile(buffer=bytearray())
record("append_data_blocks/bytearray_buffer_big_value", lambda: c.append_data_blocks([1, 300, 2]), c)

# ---------------------------------------------------------------- add_file / add_files
FILES = {
    "tiny": make_file(name="TINY", data=[0x39]),
    "exact255": make_file(name="EXACT255", data=pattern(255, 3), load=0x2000, exec_=0x2010),
    "two_blocks": make_file(name="TWOBLK", data=pattern(256, 5), load=0x0600, exec_=0x06FF),
    "three_blocks": make_file(name="THREEBLOCKS", data=pattern(700, 9), load=0x7F00, exec_=0x8000),
    "basic_ascii": make_file(name="LISTING", type_=0x00, data_type=0xFF, load=0, exec_=0, data=list(b'10 PRINT "HI"\r')),
    "empty_data": make_file(name="NODATA", data=[]),
    "defaults": CoCoFile(),
    "big": make_file(name="BIG", data=pattern(0x4000, 1), load=0x4000, exec_=0x4000),
}
for label, coco_file in FILES.items():
    c = CassetteFile()
    record("add_file/{}".format(label), lambda c=c, f=coco_file: c.add_file(f), c)
    # what does the tree's own reader make of it
    def reread(c=c):
        out = []
        for f in CassetteFile(buffer=list(c.buffer)).list_files():
            out.append([f.name, f.extension, f.type.hex(), f.data_type.hex(), f.gaps.hex(),
                        f.load_addr.hex(size=4), f.exec_addr.hex(size=4), list(f.data), str(f)])
        return out
    record("add_file/{}/reread".format(label), reread)
c = CassetteFile()
record("add_files/all", lambda: c.add_files(list(FILES.values())), c)
c = CassetteFile()
record("add_files/none", lambda: c.add_files([]), c)
c = CassetteFile(buffer=[0x55] * 10)
record("add_files/onto_existing_buffer", lambda: c.add_files([FILES["tiny"], FILES["two_blocks"]]), c)
c = CassetteFile()
record("add_files/error_in_second", lambda: c.add_files([FILES["tiny"], make_file(name="BAD", data=[1, "2"]), FILES["tiny"]]), c)
c = CassetteFile()
record("add_file/err_none", lambda: c.add_file(None), c)
c = CassetteFile()
record("add_file/err_exec_none", lambda: c.add_file(make_file(exec_=None)), c)
c = CassetteFile()
record("add_file/err_data_none", lambda: c.add_file(make_file()._replace(data=None)), c)

# ---------------------------------------------------------------- VirtualFile save path (files written)
work = WORK
def file_state(path):
    if not os.path.exists(path):
        return None
    with open(path, "rb") as handle:
        return list(handle.read())

def save_case(label, files, append_mode, pre_existing=None):
    path = os.path.join(work, label.replace("/", "_") + ".cas")
    if pre_existing is not None:
        with open(path, "wb") as handle:
            handle.write(bytes(pre_existing))
    def run():
        vf = VirtualFile(SourceFile(path, file_type=SourceFileType.BINARY), virtual_file_type=VirtualFileType.CASSETTE)
        vf.open_virtual_file()
        for f in files:
            vf.add_coco_file(f)
        vf.save_virtual_file(append_mode=append_mode)
        return [f.name for f in vf.list_files()] if hasattr(vf, "list_files") else None
    record("save/{}".format(label), run)
    RESULTS["save/{}/file".format(label)] = {"ret": file_state(path)}

save_case("new_single", [FILES["tiny"]], False)
save_case("new_multi", [FILES["tiny"], FILES["exact255"], FILES["three_blocks"]], False)
save_case("new_append_flag", [FILES["two_blocks"]], True)
c = CassetteFile(); c.add_file(FILES["basic_ascii"])
existing = list(c.get_buffer())
save_case("existing_no_append", [FILES["tiny"]], False, pre_existing=existing)
save_case("existing_append", [FILES["tiny"], FILES["two_blocks"]], True, pre_existing=existing)
save_case("unencodable_name", [make_file(name="ĀX")], False)
save_case("data_value_too_big", [make_file(name="BIGV", data=[1, 256])], False)
save_case("no_files", [], False)

import shutil
shutil.rmtree(work, ignore_errors=True)

json.dump(RESULTS, sys.stdout, sort_keys=True)
'''

ASM_SOURCES = {
    "small.asm": (
        "        NAM HELLO\n"
        "        ORG $0E00\n"
        "START   LDA #$01\n"
        "        LDB #$02\n"
        "        STA $0400\n"
        "        RTS\n"
        "        END START\n"
    ),
    "noname.asm": (
        "        ORG $3F00\n"
        "BEGIN   LDX #$0400\n"
        "LOOP    CLR ,X+\n"
        "        CMPX #$0600\n"
        "        BNE LOOP\n"
        "        RTS\n"
        "        END BEGIN\n"
    ),
    "block255.asm": "        NAM B255\n        ORG $1000\n" + "        FCB $AA\n" * 255 + "        END $1000\n",
    "block256.asm": "        NAM B256\n        ORG $1000\n" + "        FDB $1234\n" * 128 + "        END $1000\n",
    "large.asm": "        NAM LARGEPRG\n        ORG $2000\nGO      NOP\n" + "        FCC \"ABCDEFGHIJ\"\n" * 90 + "        END GO\n",
}


def run_driver(tree):
    with tempfile.NamedTemporaryFile("w", suffix="_c14_driver.py", delete=False) as handle:
        handle.write(DRIVER)
        driver_path = handle.name
    try:
        env = dict(os.environ, PYTHONDONTWRITEBYTECODE="1", PYTHONHASHSEED="0")
        env.pop("PYTHONPATH", None)
        proc = subprocess.run(
            [PYTHON, driver_path, tree], cwd=tree, env=env, stdout=subprocess.PIPE, stderr=subprocess.PIPE,
            universal_newlines=True,
        )
    finally:
        os.unlink(driver_path)
    if proc.returncode != 0:
        print("driver failed for tree {}:\n{}".format(tree, proc.stderr))
        sys.exit(1)
    return json.loads(proc.stdout)


def run_cli(tree):
    """Runs both command line tools of the tree in a scratch directory; returns observations."""
    observations = {}
    work = tempfile.mkdtemp(prefix="c14cli")
    env = dict(os.environ, PYTHONDONTWRITEBYTECODE="1", PYTHONHASHSEED="0")
    env.pop("PYTHONPATH", None)

    def snapshot():
        state = {}
        for entry in sorted(os.listdir(work)):
            with open(os.path.join(work, entry), "rb") as handle:
                content = handle.read()
            state[entry] = [len(content), hashlib.sha256(content).hexdigest(), content.hex() if len(content) < 6000 else None]
        return state

    def cli(label, script, *args):
        proc = subprocess.run(
            [PYTHON, os.path.join(tree, script)] + list(args), cwd=work, env=env,
            stdout=subprocess.PIPE, stderr=subprocess.PIPE, universal_newlines=True,
        )
        stderr_tail = proc.stderr.strip().splitlines()[-1:] if proc.stderr.strip() else []
        observations[label] = {
            "rc": proc.returncode,
            "stdout": proc.stdout.replace(tree, "<TREE>"),
            "stderr_tail": [line.replace(tree, "<TREE>") for line in stderr_tail],
            "files": snapshot(),
        }

    try:
        for name, text in ASM_SOURCES.items():
            with open(os.path.join(work, name), "w") as handle:
                handle.write(text)

        cli("asm/small_to_cas", "assembler.py", "small.asm", "--to_cas", "small.cas")
        cli("asm/small_to_cas_again_no_append", "assembler.py", "small.asm", "--to_cas", "small.cas")
        cli("asm/small_to_cas_again_append", "assembler.py", "small.asm", "--to_cas", "small.cas", "--append")
        cli("asm/noname_to_cas_without_name", "assembler.py", "noname.asm", "--to_cas", "noname.cas")
        cli("asm/noname_to_cas_with_name", "assembler.py", "noname.asm", "--to_cas", "noname.cas", "--name", "CLEARSCR")
        cli("asm/noname_to_cas_long_name", "assembler.py", "noname.asm", "--to_cas", "longname.cas", "--name", "AVERYLONGNAME")
        cli("asm/block255", "assembler.py", "block255.asm", "--to_cas", "b255.cas", "--print")
        cli("asm/block256", "assembler.py", "block256.asm", "--to_cas", "b256.cas", "--symbols")
        cli("asm/large", "assembler.py", "large.asm", "--to_cas", "large.cas")
        cli("asm/large_append_to_small", "assembler.py", "large.asm", "--to_cas", "small.cas", "--append")
        cli("asm/all_three_targets", "assembler.py", "small.asm", "--to_cas", "multi.cas", "--to_bin", "multi.bin", "--to_dsk", "multi.dsk")
        cli("futil/list_small", "file_util.py", "small.cas", "--list")
        cli("futil/list_large", "file_util.py", "large.cas", "--list")
        cli("futil/cas_to_cas", "file_util.py", "small.cas", "--to_cas", "copy.cas")
        cli("futil/cas_to_cas_exists", "file_util.py", "small.cas", "--to_cas", "copy.cas")
        cli("futil/cas_to_cas_append", "file_util.py", "large.cas", "--to_cas", "copy.cas", "--append")
        cli("futil/cas_to_cas_filtered", "file_util.py", "copy.cas", "--to_cas", "filtered.cas", "--files", "largeprg")
        cli("futil/cas_to_cas_filter_nothing", "file_util.py", "copy.cas", "--to_cas", "nothing.cas", "--files", "NOSUCH")
        cli("futil/dsk_to_cas", "file_util.py", "multi.dsk", "--to_cas", "fromdsk.cas")
        cli("futil/list_fromdsk", "file_util.py", "fromdsk.cas", "--list")
        cli("futil/list_copy", "file_util.py", "copy.cas", "--list")
        cli("futil/cas_to_bin", "file_util.py", "b256.cas", "--to_bin", "b256.bin")
        cli("futil/cas_to_dsk", "file_util.py", "copy.cas", "--to_dsk", "copy.dsk")
        cli("futil/missing_host", "file_util.py", "doesnotexist.cas", "--to_cas", "x.cas")
    finally:
        shutil.rmtree(work, ignore_errors=True)
    return observations


def compare(kind, first, second):
    differences = 0
    for key in sorted(set(first) | set(second)):
        if key not in first or key not in second:
            print("DIFF [{}] {}: present in only one tree".format(kind, key))
            differences += 1
        elif first[key] != second[key]:
            print("DIFF [{}] {}:\n  A: {}\n  B: {}".format(kind, key, str(first[key])[:600], str(second[key])[:600]))
            differences += 1
    return differences


def main():
    if len(sys.argv) != 3:
        print(__doc__)
        sys.exit(2)
    tree_a, tree_b = (os.path.realpath(path) for path in sys.argv[1:3])

    lib_a, lib_b = run_driver(tree_a), run_driver(tree_b)
    cli_a, cli_b = run_cli(tree_a), run_cli(tree_b)

    differences = compare("library", lib_a, lib_b) + compare("cli", cli_a, cli_b)
    raised = sum(1 for entry in lib_a.values() if "exc" in entry)
    print("{} library cases ({} raising), {} command line cases, {} differences".format(
        len(lib_a), raised, len(cli_a), differences))
    sys.exit(1 if differences else 0)


if __name__ == "__main__":
    main()
