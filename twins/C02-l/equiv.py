#!/usr/bin/env python
"""
Differential demonstration: runs the same inputs through the code of two source
trees (one subprocess per tree, the tree first on sys.path and as cwd) and
compares every observable result.

usage: equiv.py <treeA> <treeB>      exit 0 = all cases agree, 1 = a difference
"""
import json
import os
import subprocess
import sys
import tempfile

WORKER = r'''
import contextlib, io, json, os, subprocess, sys, tempfile

tree = os.path.abspath(sys.argv[1])
sys.path.insert(0, tree)
os.chdir(tree)
cases = json.load(sys.stdin)

from cocoasm.program import Program


def describe_exc(error):
    info = {"type": type(error).__name__, "str": str(error)}
    if hasattr(error, "value"):
        info["value"] = str(error.value)
    statement = getattr(error, "statement", None)
    if statement is not None:
        try:
            info["statement"] = str(statement)
        except Exception as inner:
            info["statement"] = "unprintable " + type(inner).__name__
    return info


def guarded(function):
    try:
        return function()
    except Exception as error:
        return {"error": describe_exc(error)}


def observe_program(lines):
    program = Program()
    try:
        program.process(lines)
    except Exception as error:
        return {"error": describe_exc(error)}
    return {
        "binary": guarded(program.get_binary_array),
        "listing": guarded(program.get_statements),
        "symbols": guarded(program.get_symbol_table),
        "origin": guarded(lambda: program.origin.hex()),
        "name": program.name,
        "detail": guarded(lambda: [
            [s.code_pkg.size, s.code_pkg.max_size, s.fixed_size, s.pcr_size_hint,
             type(s.operand).__name__, list(s.code_pkg.post_byte_choices),
             s.code_pkg.additional_needs_resolution, s.code_pkg.op_code.hex(),
             s.code_pkg.post_byte.hex(), s.code_pkg.additional.hex(), s.code_pkg.address.hex()]
            for s in program.statements]),
    }


def observe_call(code):
    namespace = {}
    try:
        exec(code, namespace)
        return {"result": namespace.get("result")}
    except Exception as error:
        return {"error": describe_exc(error)}


def observe_cli(lines, args, tool="assembler.py", extra_files=None):
    with tempfile.TemporaryDirectory() as work:
        with open(os.path.join(work, "prog.asm"), "w") as handle:
            handle.writelines(lines)
        for name, text in (extra_files or {}).items():
            with open(os.path.join(work, name), "w") as handle:
                handle.write(text)
        before = set(os.listdir(work))
        done = subprocess.run(
            [sys.executable, os.path.join(tree, tool)] + args,
            cwd=work, capture_output=True, text=True,
            env=dict(os.environ, PYTHONPATH=tree, PYTHONDONTWRITEBYTECODE="1"),
        )
        files = {}
        for name in sorted(set(os.listdir(work)) - before):
            with open(os.path.join(work, name), "rb") as handle:
                files[name] = handle.read().hex()
        stderr_tail = done.stderr.strip().splitlines()[-1:] if done.stderr.strip() else []
        return {"code": done.returncode, "stdout": done.stdout, "stderr_tail": stderr_tail, "files": files}


results = []
for case in cases:
    kind = case["kind"]
    if kind == "program":
        results.append(observe_program(case["lines"]))
    elif kind == "call":
        results.append(observe_call(case["code"]))
    elif kind == "cli":
        results.append(observe_cli(case["lines"], case["args"], case.get("tool", "assembler.py"),
                                   case.get("extra_files")))
    else:
        raise SystemExit("unknown case kind " + kind)
json.dump(results, sys.stdout)
'''


def prog(*lines):
    """A program case; every line gets its newline like a line read from a file."""
    return {"kind": "program", "lines": [line + "\n" for line in lines]}


def call(code):
    """A direct library call; the snippet leaves a JSON-friendly value in `result`."""
    return {"kind": "call", "code": code}


def cli(lines, args=("prog.asm", "--print", "--symbols", "--to_bin", "out.bin"), extra_files=None):
    return {"kind": "cli", "lines": [line + "\n" for line in lines], "args": list(args),
            "extra_files": extra_files}


def run_tree(tree, cases):
    with tempfile.TemporaryDirectory() as work:
        worker = os.path.join(work, "worker.py")
        with open(worker, "w") as handle:
            handle.write(WORKER)
        done = subprocess.run(
            [sys.executable, worker, tree], input=json.dumps(cases), capture_output=True, text=True,
            cwd=tree, env=dict(os.environ, PYTHONDONTWRITEBYTECODE="1"),
        )
    if done.returncode != 0:
        print("worker failed for", tree)
        print(done.stderr)
        sys.exit(1)
    return json.loads(done.stdout)


def main(cases):
    if len(sys.argv) != 3:
        print(__doc__)
        sys.exit(2)
    tree_a, tree_b = (os.path.abspath(p) for p in sys.argv[1:3])
    results_a = run_tree(tree_a, cases)
    results_b = run_tree(tree_b, cases)
    differences = 0
    accepted = 0
    for number, (case, a, b) in enumerate(zip(cases, results_a, results_b)):
        if "error" not in a:
            accepted += 1
        if a != b:
            differences += 1
            print("DIFFERENCE in case", number, json.dumps(case)[:300])
            print("   A:", json.dumps(a)[:600])
            print("   B:", json.dumps(b)[:600])
    print("{} cases, {} without error in tree A, {} differences".format(len(cases), accepted, differences))
    sys.exit(1 if differences or len(results_a) != len(cases) or len(results_b) != len(cases) else 0)


# ---------------------------------------------------------------------------
# cases
# ---------------------------------------------------------------------------
CASES = []

GOOD = ["      NAM HELLO", "      ORG $3F00", "START LDX #TEXT", "LOOP  LDA ,X+", "      BEQ DONE", "      JSR [$A002]",
        "      BRA LOOP", "DONE  RTS ", "TEXT  FCC 'HI THERE'", "      FCB 0", "SIZE  EQU 9", "      END START"]
NO_NAME = ["      ORG $E00", "BEGIN LDA #SIZE", "      STA <$10", "      LEAX BEGIN,PCR", "SIZE  EQU 3", "      RTS "]
NO_ORG = ["A     NOP ", "B     LDA B,PCR", "      FDB 1,2", "      JMP A"]
EMPTY = []
COMMENTS = ["; nothing", "", "   ; to see"]
PARSE_ERROR = ["      ORG $100", "      FOO 1"]
NO_SPACE = ["NOSPACE"]
TRANSLATION_ERROR = ["      ORG $100", "      LDA NOWHERE"]
DUPLICATE = ["A     NOP ", "A     NOP "]
RANGE = ["A     NOP ", "      RMB 300", "      BRA A"]
BAD_ORG = ["      ORG $FFFF", "      LDX #1"]

FLAGS = [
    [], ["--symbols"], ["--print"], ["--symbols", "--print"], ["--print", "--symbols", "--width", "40"],
    ["--to_bin", "out.bin"], ["--to_cas", "out.cas"], ["--to_dsk", "out.dsk"],
    ["--to_cas", "out.cas", "--name", "OTHER"], ["--to_dsk", "out.dsk", "--name", "OTHER"],
    ["--symbols", "--print", "--to_bin", "out.bin", "--to_cas", "out.cas", "--to_dsk", "out.dsk", "--name", "N", "--append"],
    ["--to_bin", "nodir/out.bin", "--print"],
]
for source in (GOOD, NO_NAME, NO_ORG):
    for flags in FLAGS:
        CASES.append(cli(source, ["prog.asm"] + flags))
for source in (EMPTY, COMMENTS, PARSE_ERROR, NO_SPACE, TRANSLATION_ERROR, DUPLICATE, RANGE, BAD_ORG):
    for flags in ([], ["--symbols", "--print", "--to_bin", "out.bin"], ["--to_cas", "out.cas", "--name", "X"]):
        CASES.append(cli(source, ["prog.asm"] + flags))
CASES.append(cli(GOOD, ["missing.asm", "--print"]))
CASES.append(cli(GOOD, []))
CASES.append(cli(GOOD, ["--help"]))
CASES.append(cli(["      INCLUDE extra.asm", "      JMP SUB"], ["prog.asm", "--print", "--symbols"],
                 extra_files={"extra.asm": "SUB    RTS \n"}))

# main() called as a function, the way the test-suite would
CASES.append(call('''
import argparse, contextlib, io, os, tempfile
import assembler
result = []
with tempfile.TemporaryDirectory() as work:
    os.chdir(work)
    with open("good.asm", "w") as handle:
        handle.write("      NAM T\\n      ORG $600\\nGO    LDA #1\\n      BNE GO\\n      END GO\\n")
    with open("bad.asm", "w") as handle:
        handle.write("GO    LDA NOWHERE\\n")
    for name in ("good.asm", "bad.asm"):
        for symbols in (False, True):
            for listing in (False, True):
                args = argparse.Namespace(filename=name, symbols=symbols, print=listing, to_bin="o.bin", to_cas=None,
                                          to_dsk=None, name=None, append=False, width=100)
                out = io.StringIO()
                code = None
                with contextlib.redirect_stdout(out):
                    try:
                        assembler.main(args)
                    except SystemExit as stop:
                        code = stop.code
                data = open("o.bin", "rb").read().hex() if os.path.exists("o.bin") else None
                if data is not None:
                    os.remove("o.bin")
                result.append([out.getvalue(), code, data])
'''))

main(CASES)
