#!/usr/bin/env python
"""
Differential demonstration: runs the same set of cases against two source
trees (one subprocess per tree, the tree at the front of sys.path and as the
working directory) and compares every observable result.

usage: equiv.py <treeA> <treeB>      exit 0 = all cases agree, 1 = otherwise
"""
import json
import os
import subprocess
import sys

PYTHON = "/venv/bin/python" if os.path.exists("/venv/bin/python") else sys.executable

DRIVER_HEAD = r'''
import contextlib, enum, hashlib, io, json, os, shutil, subprocess, sys, tempfile
TREE = os.path.abspath(sys.argv[1])
PYTHON = sys.argv[2]
sys.path.insert(0, TREE)
os.chdir(TREE)
RESULTS = []


def norm(text):
    return str(text).replace(TREE, "<TREE>")


def show(obj, depth=0):
    """Canonical, address-free, JSON-able rendering of a result."""
    if depth > 20:
        return "<deep>"
    if obj is None or isinstance(obj, (bool, int, float)):
        return obj
    if isinstance(obj, str):
        return norm(obj)
    if isinstance(obj, (bytes, bytearray)):
        return {"bytes": bytes(obj).hex()}
    if isinstance(obj, enum.Enum):
        return str(obj)
    if isinstance(obj, dict):
        return {"dict": [[show(k, depth), show(v, depth)] for k, v in obj.items()]}
    if hasattr(obj, "_asdict"):
        if type(obj).__name__ in ("Instruction", "Mode") and depth > 0:
            return "<{} {}>".format(type(obj).__name__, getattr(obj, "mnemonic", ""))
        return {"nt": type(obj).__name__, "f": show(obj._asdict(), depth + 1)}
    if isinstance(obj, (list, tuple, set, frozenset)):
        items = list(obj)
        if len(items) > 600 and all(isinstance(i, int) and not isinstance(i, bool) for i in items):
            blob = ",".join(map(str, items)).encode()
            return {type(obj).__name__: len(items), "sha": hashlib.sha256(blob).hexdigest(),
                    "head": items[:24], "tail": items[-24:]}
        return {type(obj).__name__: [show(i, depth + 1) for i in items]}
    if hasattr(obj, "__dict__"):
        return {"obj": type(obj).__name__, "vars": show(vars(obj), depth + 1)}
    return norm(repr(obj))


def case(label, fn):
    out_buf, err_buf = io.StringIO(), io.StringIO()
    try:
        with contextlib.redirect_stdout(out_buf), contextlib.redirect_stderr(err_buf):
            value = fn()
        out = {"ok": show(value)}
    except SystemExit as error:
        out = {"exit": show(error.code)}
    except BaseException as error:
        out = {"exc": type(error).__name__, "msg": norm(error)}
    out["stdout"] = norm(out_buf.getvalue())
    out["stderr"] = norm(err_buf.getvalue())
    RESULTS.append([label, out])


def cli(tool, argv, files=None, keep=None):
    """
    Runs <TREE>/<tool> with argv inside a fresh temporary directory that first
    receives `files` (name -> str or bytes). Returns return code, stdout, the
    last line of stderr and name/size/sha256 of every file left behind.
    """
    work = keep or tempfile.mkdtemp(prefix="equiv")
    try:
        for name, content in (files or {}).items():
            mode = "wb" if isinstance(content, (bytes, bytearray)) else "w"
            with open(os.path.join(work, name), mode) as handle:
                handle.write(content)
        env = dict(os.environ, PYTHONPATH=TREE, PYTHONDONTWRITEBYTECODE="1", COLUMNS="80")
        done = subprocess.run([PYTHON, os.path.join(TREE, tool)] + list(argv), cwd=work, env=env,
                              capture_output=True, text=True, timeout=600)
        left = {}
        for name in sorted(os.listdir(work)):
            with open(os.path.join(work, name), "rb") as handle:
                blob = handle.read()
            left[name] = [len(blob), hashlib.sha256(blob).hexdigest()]
        err_lines = [line for line in done.stderr.splitlines() if line.strip()]
        return {"rc": done.returncode, "stdout": norm(done.stdout).replace(work, "<WORK>"),
                "stderr_last": norm(err_lines[-1]).replace(work, "<WORK>") if err_lines else "",
                "files": left}
    finally:
        if not keep:
            shutil.rmtree(work, ignore_errors=True)


def read_back(work, name):
    with open(os.path.join(work, name), "rb") as handle:
        return handle.read()

'''

DRIVER_TAIL = r'''
print("@@RESULTS@@" + json.dumps(RESULTS))
'''

DRIVER_ASM = r'''
from cocoasm.exceptions import TranslationError, ParseError
from cocoasm.instruction import INSTRUCTIONS
from cocoasm.program import Program


def safe(fn):
    try:
        return fn()
    except Exception as error:
        return "<{}: {}>".format(type(error).__name__, error)


def assemble(lines):
    """Everything observable about assembling `lines` (a list of source lines)."""
    program = Program()
    try:
        program.process([line + "\n" for line in lines])
    except (TranslationError, ParseError) as error:
        return ["diagnostic", type(error).__name__, str(error.value), str(error), safe(lambda: str(error.statement))]
    except Exception as error:
        return ["crash", type(error).__name__, str(error)]
    shape = [[safe(lambda: s.code_pkg.size), safe(lambda: s.code_pkg.max_size), s.fixed_size, s.pcr_size_hint,
              type(s.operand).__name__, safe(lambda: s.code_pkg.address.hex(size=4))] for s in program.statements]
    return ["ok", safe(program.get_binary_array), safe(program.get_statements), safe(program.get_symbol_table),
            safe(lambda: program.origin.hex()), program.name, shape]


MNEMONICS = [instruction.mnemonic for instruction in INSTRUCTIONS]

OPERANDS = [
    "", "#0", "#1", "#$7F", "#$FF", "#255", "#256", "#-1", "#-128", "#-129", "#$1234", "#65535", "#65536", "#70000",
    "#%10101010", "#%1010", "#'A", "#SYM", "#BYTE", "#WORD", "#HERE",
    "0", "1", "$12", "$1234", "$12345", "255", "256", "65535", "65536", "70000", "-1", "-32768", "-32769",
    "<$12", "<$1234", "<256", "<WORD", "<BYTE", ">$12", ">$1234", ">1", ">BYTE", "<", ">",
    "%00001111", "%0000111100001111", "%101", "'A", "BYTE", "WORD", "HERE", "THERE", "UNDEFINED", "HERE+1", "WORD-BYTE",
    "BYTE+HERE", "HERE-THERE",
    "[$12]", "[$1234]", "[70000]", "[HERE]", "[WORD]", "[BYTE]", "[UNDEFINED]", "[,X]", "[,Y++]", "[,--U]", "[,S+]",
    "[,-X]", "[A,X]", "[B,Y]", "[D,U]", "[5,X]", "[-5,Y]", "[$7F,U]", "[$80,S]", "[$1234,X]", "[-129,Y]", "[HERE,X]",
    "[HERE,PCR]", "[5,PCR]", "[$1234,PCR]", "[WORD,X]", "[BYTE,Y]", "[0,X]", "[5,Z]", "[1,PC]", "[,X++]", "[]", "[,]",
    ",X", ",Y", ",U", ",S", ",X+", ",X++", ",-X", ",--X", ",Y+", ",--S", ",Z", ",PC", ",PCR", ",", "0,X", "1,X", "15,X",
    "16,X", "-16,X", "-17,Y", "127,U", "128,S", "-128,X", "-129,X", "255,X", "256,X", "$7FFF,Y", "65535,X", "70000,X",
    "-32768,X", "A,X", "B,Y", "D,U", "E,X", "5,Z", "1,PC", "5,PCR", "-5,PCR", "$1234,PCR", "HERE,PCR", "THERE,PCR",
    "HERE,X", "WORD,X", "BYTE,X", "UNDEFINED,X", "HERE+1,PCR", "HERE+1,X", "5,X+", "5,-X", "A,X+", "X,Y", "A,B",
    "A", "B", "D", "X", "Y", "U", "S", "PC", "CC", "DP", "Z", "A,B,X", "CC,A,B,DP,X,Y,U,PC", "CC,A,B,DP,X,Y,S,PC",
    "D,X", "X,D", "A,X ", "PC,X", "A,CC", "DP,B", "U,S", "a,b", "A,,B", ",A", "A,", "X,Y,U", "D,D", "A,D",
    '"text"', "/text/", "1,2,3", "$1234,$5678", "1,", "'", "#", "#,", "[", "]", "++", "--", "+", "-", "*", "*+2", "$", "%", "!",
]

PROLOGUE = ["BYTE EQU $12", "WORD EQU $1234", "SYM EQU 5"]


def wrap(mnemonic, operand):
    """A program with a label before and after the statement under test."""
    return PROLOGUE + ["HERE NOP", " {} {}".format(mnemonic, operand), "THERE NOP", " NOP"]


def sweep(mnemonic):
    return [[operand, assemble(wrap(mnemonic, operand))] for operand in OPERANDS]

'''

DRIVER_CASES = DRIVER_ASM + r'''
from cocoasm.operands import Operand, IndexedOperand, ExtendedIndexedOperand
from cocoasm.values import NumericValue, AddressValue, Value, NoneValue, StringValue, SymbolValue, ExpressionValue, \
    DirectNumericValue, ExtendedNumericValue, ExplicitAddressingMode

BY_NAME = {instruction.mnemonic: instruction for instruction in INSTRUCTIONS}

OFFSETS = ["", "0", "1", "15", "16", "17", "127", "128", "129", "255", "256", "32767", "32768", "65535", "65536",
           "-1", "-15", "-16", "-17", "-127", "-128", "-129", "-255", "-256", "-32767", "-32768", "-32769",
           "$00", "$0F", "$10", "$7F", "$80", "$FF", "$0000", "$000F", "$0010", "$007F", "$0080", "$0100", "$7FFF",
           "$8000", "$FFFF", "%00000101", "%11111111", "%0000000000000101", "'A", "A", "B", "D", "BYTE", "WORD", "SYM",
           "BIG", "ZERO", "HERE", "THERE", "UNDEFINED", "HERE+1", "THERE-1", "WORD+1", "SYM-10", "SYM+SYM", "BYTE*2",
           "<$12", ">$12", "<$1234", ">$1234", "<SYM", ">SYM", "<HERE", ">HERE", "#5"]
TAILS = ["X", "Y", "U", "S", "PCR", "PC", "Z", "X+", "-Y", "XY", "x", ""]
INDEXED_OPERANDS = [wrapper.format("{},{}".format(offset, tail))
                    for offset in OFFSETS for tail in TAILS for wrapper in ("{}", "[{}]")]
INDEXED_PROLOGUE = ["BYTE EQU $12", "WORD EQU $1234", "SYM EQU 5", "BIG EQU 40000", "ZERO EQU 0"]


def indexed_program(mnemonic, operand):
    return INDEXED_PROLOGUE + ["HERE NOP", " {} {}".format(mnemonic, operand), "THERE NOP", " NOP"]


# 1. a set of instructions with the full grid of offsets and index registers
for mnemonic in ("LDA", "STA", "LDD", "STX", "LEAX", "LEAS", "JMP", "JSR", "CLR", "TST", "CMPD", "CMPU", "ADDD", "NEG",
                 "LDY", "ORA", "SUBB", "NOP", "BRA", "PSHS", "TFR", "FCB", "ANDCC", "LBSR"):
    case("grid-" + mnemonic,
         lambda: [[operand, assemble(indexed_program(mnemonic, operand))] for operand in INDEXED_OPERANDS])

# 2. every mnemonic with the general operand list
for mnemonic in MNEMONICS:
    case("sweep-" + mnemonic, lambda: sweep(mnemonic))


# 3. translate() called directly on operands whose offset is set to all kinds of values
def package(operand):
    try:
        code = operand.translate()
    except Exception as error:
        return ["raised", type(error).__name__, str(error), show(operand)]
    return [show(code), safe(lambda: code.op_code.hex()), safe(lambda: code.post_byte.hex()),
            safe(lambda: code.additional.hex()), show(operand)]


def forced(left, right="X", mnemonic="LDA", kind=IndexedOperand):
    def run():
        text = "5,X" if kind is IndexedOperand else "[5,X]"
        operand = kind(text, BY_NAME[mnemonic])
        operand.left, operand.right = left(), right
        return package(operand)
    return run


LEFTS = {
    "num-0": lambda: NumericValue(0), "num-1": lambda: NumericValue(1), "num-15": lambda: NumericValue(15),
    "num-16": lambda: NumericValue(16), "num-127": lambda: NumericValue(127), "num-128": lambda: NumericValue(128),
    "num-65535": lambda: NumericValue(65535), "neg-1": lambda: NumericValue(-1), "neg-16": lambda: NumericValue(-16),
    "neg-17": lambda: NumericValue(-17), "neg-128": lambda: NumericValue(-128), "neg-129": lambda: NumericValue(-129),
    "neg-32768": lambda: NumericValue(-32768), "neg-65535": lambda: NumericValue(-65535),
    "hex-byte": lambda: NumericValue("$05"), "hex-word": lambda: NumericValue("$0005"),
    "hinted-2": lambda: NumericValue(5, size_hint=2), "hinted-4": lambda: NumericValue(5, size_hint=4),
    "hinted-4-big": lambda: NumericValue(300, size_hint=4), "hinted-2-big": lambda: NumericValue(300, size_hint=2),
    "direct": lambda: DirectNumericValue(0x44), "extended": lambda: ExtendedNumericValue(0x44),
    "extended-mode": lambda: NumericValue(200, mode=ExplicitAddressingMode.EXTENDED),
    "address": lambda: AddressValue(3), "address-0": lambda: AddressValue(0), "none": lambda: NoneValue(),
    "string": lambda: StringValue('"AB"'), "symbol": lambda: SymbolValue("LABEL"),
    "expression": lambda: ExpressionValue("1+2"), "address-expression": lambda: Value.create_from_str("HERE+1"),
    "text-A": lambda: "A", "text-B": lambda: "B", "text-D": lambda: "D", "text-empty": lambda: "", "text-5": lambda: "5",
    "python-none": lambda: None, "python-int": lambda: 5,
}
for name, left in LEFTS.items():
    for right in ("X", "Y", "PCR", "U+", "--S", ""):
        case("forced-{}-{}".format(name, right), forced(left, right))
    case("forced-indirect-{}".format(name), forced(left, "Y", kind=ExtendedIndexedOperand))
    case("forced-no-indexed-mode-{}".format(name), forced(left, "X", mnemonic="NOP"))
    case("forced-lea-{}".format(name), forced(left, "S", mnemonic="LEAU"))


# 4. resolve_symbols() followed by translate(), as the program does it
def resolved(text, table, mnemonic="LDB"):
    def run():
        operand = Operand.create_from_str(text, BY_NAME[mnemonic])
        operand = operand.resolve_symbols(table)
        return package(operand)
    return run


TABLE = {"SMALL": NumericValue(3), "NEG": NumericValue(-3), "BYTE": NumericValue("$12"), "WORD": NumericValue("$1234"),
         "ADDR": AddressValue(2), "TEXT": StringValue('"AB"'), "WIDE": NumericValue(5, size_hint=4)}
for text in ("SMALL,X", "NEG,X", "BYTE,Y", "WORD,U", "ADDR,S", "ADDR,PCR", "TEXT,X", "WIDE,X", "MISSING,X", "SMALL+1,X",
             "ADDR+1,X", "ADDR+1,PCR", "[SMALL,X]", "[ADDR,PCR]", "[NEG,Y]", "SMALL-NEG,X", "WORD-BYTE,Y"):
    case("resolved-" + text, resolved(text, dict(TABLE)))


# 5. the command line front end
def front_end(lines):
    return cli("assembler.py", ["p.asm", "--print", "--symbols", "--to_bin", "p.bin"],
               files={"p.asm": "\n".join(lines) + "\n"})


for operand in ("5,X", "-5,Y", "16,U", "-17,S", "127,X", "128,X", "-129,Y", "$1234,X", "HERE,PCR", "5,Z", "1,PC",
                "70000,X", "[-5,X]", "UNDEFINED,X"):
    case("cli-ldx-" + operand, lambda: front_end(indexed_program("LDX", operand)))
'''


def run_tree(tree):
    tree = os.path.abspath(tree)
    env = dict(os.environ, PYTHONDONTWRITEBYTECODE="1")
    done = subprocess.run([PYTHON, "-c", DRIVER_HEAD + DRIVER_CASES + DRIVER_TAIL, tree, PYTHON],
                          cwd=tree, env=env, capture_output=True, text=True)
    marker = done.stdout.rfind("@@RESULTS@@")
    if done.returncode != 0 or marker < 0:
        print("driver failed for", tree)
        print(done.stdout[-2000:])
        print(done.stderr[-4000:])
        sys.exit(1)
    return json.loads(done.stdout[marker + len("@@RESULTS@@"):])


def main():
    if len(sys.argv) != 3:
        print(__doc__)
        sys.exit(2)
    first, second = run_tree(sys.argv[1]), run_tree(sys.argv[2])
    bad = 0
    if [label for label, _ in first] != [label for label, _ in second]:
        print("case lists differ")
        bad += 1
    for (label, left), (_, right) in zip(first, second):
        if left != right:
            bad += 1
            print("DIFF in case", label)
            print("  A:", json.dumps(left)[:1500])
            print("  B:", json.dumps(right)[:1500])
    print("{} cases compared, {} differ".format(len(first), bad))
    sys.exit(1 if bad or len(first) < 30 else 0)


if __name__ == "__main__":
    main()
