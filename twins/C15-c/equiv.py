#!/usr/bin/env python
"""
Differential demonstration: runs the same set of cases against two source
trees (one subprocess per tree, the tree at the front of sys.path and as the
working directory) and compares every observable result.

usage: equiv.py <treeA> <treeB>      exit 0 = all cases agree, 1 = otherwise
"""
import json
import os
import subprocess
import sys

PYTHON = "/venv/bin/python" if os.path.exists("/venv/bin/python") else sys.executable

DRIVER_HEAD = r'''
import contextlib, enum, hashlib, io, json, os, shutil, subprocess, sys, tempfile
TREE = os.path.abspath(sys.argv[1])
PYTHON = sys.argv[2]
sys.path.insert(0, TREE)
os.chdir(TREE)
RESULTS = []


def norm(text):
    return str(text).replace(TREE, "<TREE>")


def show(obj, depth=0):
    """Canonical, address-free, JSON-able rendering of a result."""
    if depth > 20:
        return "<deep>"
    if obj is None or isinstance(obj, (bool, int, float)):
        return obj
    if isinstance(obj, str):
        return norm(obj)
    if isinstance(obj, (bytes, bytearray)):
        return {"bytes": bytes(obj).hex()}
    if isinstance(obj, enum.Enum):
        return str(obj)
    if isinstance(obj, dict):
        return {"dict": [[show(k, depth), show(v, depth)] for k, v in obj.items()]}
    if hasattr(obj, "_asdict"):
        if type(obj).__name__ in ("Instruction", "Mode") and depth > 0:
            return "<{} {}>".format(type(obj).__name__, getattr(obj, "mnemonic", ""))
        return {"nt": type(obj).__name__, "f": show(obj._asdict(), depth + 1)}
    if isinstance(obj, (list, tuple, set, frozenset)):
        items = list(obj)
        if len(items) > 600 and all(isinstance(i, int) and not isinstance(i, bool) for i in items):
            blob = ",".join(map(str, items)).encode()
            return {type(obj).__name__: len(items), "sha": hashlib.sha256(blob).hexdigest(),
                    "head": items[:24], "tail": items[-24:]}
        return {type(obj).__name__: [show(i, depth + 1) for i in items]}
    if hasattr(obj, "__dict__"):
        return {"obj": type(obj).__name__, "vars": show(vars(obj), depth + 1)}
    return norm(repr(obj))


def case(label, fn):
    out_buf, err_buf = io.StringIO(), io.StringIO()
    try:
        with contextlib.redirect_stdout(out_buf), contextlib.redirect_stderr(err_buf):
            value = fn()
        out = {"ok": show(value)}
    except SystemExit as error:
        out = {"exit": show(error.code)}
    except BaseException as error:
        out = {"exc": type(error).__name__, "msg": norm(error)}
    out["stdout"] = norm(out_buf.getvalue())
    out["stderr"] = norm(err_buf.getvalue())
    RESULTS.append([label, out])


def cli(tool, argv, files=None, keep=None):
    """
    Runs <TREE>/<tool> with argv inside a fresh temporary directory that first
    receives `files` (name -> str or bytes). Returns return code, stdout, the
    last line of stderr and name/size/sha256 of every file left behind.
    """
    work = keep or tempfile.mkdtemp(prefix="equiv")
    try:
        for name, content in (files or {}).items():
            mode = "wb" if isinstance(content, (bytes, bytearray)) else "w"
            with open(os.path.join(work, name), mode) as handle:
                handle.write(content)
        env = dict(os.environ, PYTHONPATH=TREE, PYTHONDONTWRITEBYTECODE="1", COLUMNS="80")
        done = subprocess.run([PYTHON, os.path.join(TREE, tool)] + list(argv), cwd=work, env=env,
                              capture_output=True, text=True, timeout=600)
        left = {}
        for name in sorted(os.listdir(work)):
            with open(os.path.join(work, name), "rb") as handle:
                blob = handle.read()
            left[name] = [len(blob), hashlib.sha256(blob).hexdigest()]
        err_lines = [line for line in done.stderr.splitlines() if line.strip()]
        return {"rc": done.returncode, "stdout": norm(done.stdout).replace(work, "<WORK>"),
                "stderr_last": norm(err_lines[-1]).replace(work, "<WORK>") if err_lines else "",
                "files": left}
    finally:
        if not keep:
            shutil.rmtree(work, ignore_errors=True)


def safe(fn):
    try:
        return fn()
    except Exception as error:
        return "<{}: {}>".format(type(error).__name__, error)


def read_back(work, name):
    with open(os.path.join(work, name), "rb") as handle:
        return handle.read()

'''

DRIVER_TAIL = r'''
print("@@RESULTS@@" + json.dumps(RESULTS))
'''

DRIVER_PROGS = r'''
def program(size, org="$0E00", nam=None, end=None, seed=7):
    """Assembly source producing `size` pseudo-random bytes at `org`."""
    lines = []
    if nam is not None:
        lines.append("\tNAM {}".format(nam))
    if org is not None:
        lines.append("\tORG {}".format(org))
    lines.append("START\tNOP") if size > 0 else None
    state, left = seed, max(size - 1, 0)
    while left > 0:
        count = min(left, 24)
        values = []
        for _ in range(count):
            state = (state * 1103515245 + 12345) & 0x7FFFFFFF
            values.append("${:02X}".format((state >> 16) & 0xFF))
        lines.append("\tFCB {}".format(",".join(values)))
        left -= count
    if end is not None:
        lines.append("\tEND {}".format(end))
    return "\n".join(lines) + "\n"


def data_bytes(size, seed=3):
    state, out = seed, []
    for _ in range(size):
        state = (state * 1103515245 + 12345) & 0x7FFFFFFF
        out.append((state >> 16) & 0xFF)
    return out

'''

DRIVER_DISK = r'''
import random
from cocoasm.virtualfiles.disk import DiskFile, DiskConstants, MLPreamble, BasicPreamble, ASCIIPreamble, Postamble
from cocoasm.virtualfiles.coco_file import CoCoFile
from cocoasm.virtualfiles.virtual_file import VirtualFile, VirtualFileType
from cocoasm.virtualfiles.source_file import SourceFile, SourceFileType
from cocoasm.values import NumericValue, NoneValue

GRANULE = 2304


def coco(name="PROG", size=100, kind=2, data_type=0, load=0x0E00, execute=0x0E00, extension="bin", seed=1):
    return CoCoFile(name=name, extension=extension, type=NumericValue(kind), data_type=NumericValue(data_type),
                    load_addr=NumericValue(load), exec_addr=NumericValue(execute), data=data_bytes(size, seed=seed))


def digest(buffer):
    return [len(buffer), hashlib.sha256(",".join(map(str, buffer)).encode()).hexdigest()]


def usage(buffer):
    """Which granules and directory slots an image says are taken (read straight from the bytes)."""
    fat = list(buffer[DiskConstants.FAT_OFFSET:DiskConstants.FAT_OFFSET + 68])
    slots = [buffer[DiskConstants.DIR_OFFSET + 32 * entry] for entry in range(72)]
    return [fat, slots]


def listing(buffer):
    try:
        files = DiskFile(buffer=list(buffer)).list_files()
    except Exception as error:
        return ["raised", type(error).__name__, str(error)]
    return [[f.name, f.extension, safe(f.type.hex), safe(f.data_type.hex), safe(f.load_addr.hex), safe(f.exec_addr.hex),
             digest(f.data)] for f in files]


def history(files, fill_order=None, start=None):
    """Adds the files one by one; after each step: outcome, image digest, FAT and directory usage."""
    disk = DiskFile(buffer=start, granule_fill_order=fill_order) if start is not None \
        else DiskFile(granule_fill_order=fill_order)
    steps = []
    for coco_file in files:
        try:
            outcome = show(disk.add_file(coco_file))
        except Exception as error:
            outcome = ["raised", type(error).__name__, str(error)]
        steps.append([coco_file.name, len(coco_file.data), outcome, digest(disk.buffer), usage(disk.buffer)])
    return [steps, listing(disk.buffer)]


def sizes_to_files(sizes, kinds=((2, 0, "bin"),)):
    files = []
    for number, size in enumerate(sizes):
        kind, data_type, extension = kinds[number % len(kinds)]
        files.append(coco("F{}".format(number), size, kind=kind, data_type=data_type, extension=extension, seed=number + 1))
    return files


ALL_KINDS = ((2, 0, "bin"), (0, 0, "bas"), (1, 0xFF, "txt"), (0, 0xFF, "bas"))
HISTORIES = {
    "slot exhaustion": sizes_to_files([10] * 75),
    "slot exhaustion empty files": sizes_to_files([0] * 75, ALL_KINDS),
    "granule exhaustion large": sizes_to_files([30000] * 7),
    "granule exhaustion exact": sizes_to_files([GRANULE * 10 - 10] * 8),
    "granule exhaustion one by one": sizes_to_files([GRANULE - 10] * 70),
    "boundary sizes": sizes_to_files([GRANULE - 11, GRANULE - 10, GRANULE - 9, GRANULE - 6, GRANULE - 5, GRANULE - 4,
                                      GRANULE - 3, GRANULE - 1, GRANULE, GRANULE + 1, 2 * GRANULE - 10, 2 * GRANULE - 5,
                                      2 * GRANULE - 3, 2 * GRANULE], ALL_KINDS),
    "sector boundary sizes": sizes_to_files([245, 246, 247, 250, 251, 252, 253, 255, 256, 257, 501, 502, 507, 512, 2293,
                                             2294, 2295, 2298, 2299], ALL_KINDS),
    "mixture": sizes_to_files([5000, 10, 0, 12000, 300, 2304, 40000, 1, 7000, 2294, 65535, 30000, 20000, 4608, 100],
                              ALL_KINDS),
    "too big first": sizes_to_files([65535, 65535, 65535, 10, 2000]),
    "whole disk in one file": sizes_to_files([65535, 65535, 26000, 100]),
    "too long for a length word": sizes_to_files([65536, 70000, 10]),
    "same name twice": [coco("SAME", 10), coco("SAME", 20, seed=2), coco("same", 30, seed=3)],
    "odd names": [coco("", 10), coco("A", 10), coco("LONGERTHAN8", 10), coco("SP ACE", 10), coco("\x00NUL", 10)],
}


def save_history(rounds, append=True):
    """Saves file lists to one host .dsk file through VirtualFile; host bytes before/after each save."""
    work = tempfile.mkdtemp(prefix="equiv")
    try:
        target = os.path.join(work, "host.dsk")
        steps = []
        for files in rounds:
            before = digest(read_back(work, "host.dsk")) if os.path.exists(target) else None
            virtual = VirtualFile(SourceFile(target, file_type=SourceFileType.BINARY), VirtualFileType.DISK)
            try:
                virtual.open_virtual_file()
                for coco_file in files:
                    virtual.add_coco_file(coco_file)
                virtual.save_virtual_file(append_mode=append)
                outcome = "saved"
            except Exception as error:
                outcome = ["raised", type(error).__name__, str(error).replace(work, "<WORK>")]
            after = digest(read_back(work, "host.dsk")) if os.path.exists(target) else None
            steps.append([outcome, before, after, before == after,
                          listing(list(read_back(work, "host.dsk"))) if os.path.exists(target) else None])
        return steps
    finally:
        shutil.rmtree(work, ignore_errors=True)

'''

DRIVER_CASES = DRIVER_PROGS + DRIVER_DISK + r'''
from cocoasm.virtualfiles.cassette import CassetteFile


def disk_image(files, fill_order=None):
    disk = DiskFile(granule_fill_order=fill_order)
    disk.add_files(files)
    return bytes(disk.buffer)


def tape_image(files):
    tape = CassetteFile()
    tape.add_files(files)
    return bytes(tape.buffer)


SOME = [coco("FIRST", 300, seed=2), coco("second", 2400, kind=0, extension="bas", seed=3),
        coco("THIRD", 10, kind=1, data_type=0xFF, extension="txt", seed=4)]
ONE = [coco("ONLY", 700, load=0x3000, execute=0x3010)]
ALMOST_FULL = disk_image(sizes_to_files([30000] * 4 + [20000]))
HOSTS = {
    "disk": disk_image(SOME), "tape": tape_image(SOME), "disk one": disk_image(ONE), "tape one": tape_image(ONE),
    "empty disk": disk_image([]), "empty tape": b"", "plain": bytes(data_bytes(500)), "plain disk sized": bytes(161280),
    "ff disk sized": b"\xff" * 161280, "cut disk": disk_image(SOME)[:100000], "cut tape": tape_image(SOME)[:400],
    "long disk": disk_image(SOME) + b"extra", "tape in disk sized": (tape_image(ONE) + bytes(161280))[:161280],
    "damaged disk": disk_image(SOME)[:78848 + 13] + b"\xc8" + disk_image(SOME)[78848 + 14:],
    "tape unknown block": tape_image(ONE).replace(b"\x55\x3c\x01", b"\x55\x3c\x07", 1),
    "full disk": disk_image(sizes_to_files([30000] * 4 + [20000, 6000])),
}


# 1. what kind of image a host file is taken to be, and what it is said to hold
def probing(content, expected=None):
    def run():
        work = tempfile.mkdtemp(prefix="equiv")
        try:
            steps = []
            host = os.path.join(work, "host.img")
            if content is not None:
                with open(host, "wb") as handle:
                    handle.write(content)
            virtual = VirtualFile(SourceFile(host, file_type=SourceFileType.BINARY), expected)
            try:
                steps.append(show(virtual.open_virtual_file()))
            except Exception as error:
                steps.append(["raised", type(error).__name__, str(error).replace(work, "<WORK>")])
            steps.append([str(virtual.virtual_file_type), virtual.file_exists,
                          [[f.name, f.extension, len(f.data)] for f in virtual.coco_file_list]])
            steps.append(safe(lambda: [[f.name, len(f.data)] for f in virtual.list_files()]))
            steps.append(safe(lambda: [[f.name, len(f.data)] for f in virtual.list_files(["SECOND", "ONLY", "FIRST   "])]))
            try:
                found, kind = virtual.get_coco_files()
                steps.append([str(kind), [[f.name, digest(f.data)] for f in found]])
            except Exception as error:
                steps.append(["raised", type(error).__name__, str(error)])
            return steps
        finally:
            shutil.rmtree(work, ignore_errors=True)
    return run


for name, content in HOSTS.items():
    for expected in (None, VirtualFileType.DISK, VirtualFileType.CASSETTE, VirtualFileType.BINARY, VirtualFileType.UNKNOWN):
        case("probe {} expecting {}".format(name, expected), probing(content, expected))
case("probe missing host", probing(None))
case("probe missing host expecting disk", probing(None, VirtualFileType.DISK))
case("probe without a source file", lambda: VirtualFile().get_coco_files())
case("probe never read", lambda: show(VirtualFile(SourceFile("nothing.img", file_type=SourceFileType.BINARY)).get_coco_files()))


# 2. the file utility: every host, every switch
def utility(content, switches, targets=None):
    def run():
        files = dict(targets or {})
        if content is not None:
            files["host.img"] = content
        work = tempfile.mkdtemp(prefix="equiv")
        try:
            first = cli("file_util.py", ["host.img"] + list(switches), files=files, keep=work)
            listings = {}
            for name in ("out.cas", "out.dsk", "out.bin"):
                if os.path.exists(os.path.join(work, name)):
                    listings[name] = cli("file_util.py", [name, "--list"], keep=work)["stdout"]
            return [first, listings]
        finally:
            shutil.rmtree(work, ignore_errors=True)
    return run


SWITCHES = {
    "list": ["--list"], "to cas": ["--to_cas", "out.cas"], "to dsk": ["--to_dsk", "out.dsk"], "to bin": ["--to_bin", "out.bin"],
    "to cas and dsk": ["--to_cas", "out.cas", "--to_dsk", "out.dsk"], "nothing": [],
    "to all": ["--to_dsk", "out.dsk", "--to_bin", "out.bin", "--to_cas", "out.cas"],
    "list and to cas": ["--list", "--to_cas", "out.cas"],
    "to cas some files": ["--to_cas", "out.cas", "--files", "second", "ONLY"],
    "to dsk some files": ["--to_dsk", "out.dsk", "--files", "FIRST", "third", "NOPE"],
    "to dsk no such files": ["--to_dsk", "out.dsk", "--files", "NOPE"],
    "to bin some files": ["--to_bin", "out.bin", "--files", "only"],
    "to cas append": ["--to_cas", "out.cas", "--append"], "to dsk append": ["--to_dsk", "out.dsk", "--append"],
}
for host_name, content in HOSTS.items():
    for switch_name, switches in SWITCHES.items():
        case("utility {} {}".format(host_name, switch_name), utility(content, switches))
case("utility missing host list", utility(None, ["--list"]))
case("utility missing host to dsk", utility(None, ["--to_dsk", "out.dsk"]))

# 3. targets that exist already: right kind, wrong kind, nearly full
EXISTING = {"tape": tape_image(ONE), "disk": disk_image(ONE), "plain": b"plain bytes", "almost full": ALMOST_FULL,
            "empty": b""}
for target_name, target in EXISTING.items():
    for switch_name in ("to cas", "to dsk", "to bin", "to cas append", "to dsk append", "to cas and dsk"):
        switches = SWITCHES[switch_name]
        for host_name in ("disk", "tape one"):
            case("utility {} {} onto existing {}".format(host_name, switch_name, target_name),
                 utility(HOSTS[host_name], switches, targets={"out.cas": target, "out.dsk": target, "out.bin": target}))
case("utility big files onto almost full disk", utility(disk_image(sizes_to_files([20000, 20000])),
                                                        ["--to_dsk", "out.dsk", "--append"], targets={"out.dsk": ALMOST_FULL}))
case("utility small file onto almost full disk", utility(HOSTS["disk one"], ["--to_dsk", "out.dsk", "--append"],
                                                         targets={"out.dsk": ALMOST_FULL}))
case("utility onto itself", utility(HOSTS["disk"], ["--to_dsk", "host.img", "--append"]))
case("utility onto itself as tape", utility(HOSTS["disk"], ["--to_cas", "host.img", "--append"]))
case("utility into missing directory", utility(HOSTS["disk"], ["--to_cas", "nowhere/out.cas"]))

# 4. saving through VirtualFile: a save that does not fit leaves the host file as it was
for name, files in HISTORIES.items():
    case("history " + name, lambda: history(files))
case("save grows until full", lambda: save_history([sizes_to_files([30000] * 2)] * 5))
case("save slots until full", lambda: save_history([sizes_to_files([10] * 30)] * 4))
case("save too big at once", lambda: save_history([sizes_to_files([65535] * 4)]))
case("save without append", lambda: save_history([sizes_to_files([10]), sizes_to_files([20])], append=False))


# 5. the assembler appending to one disk until it is full, listed by the file utility
def fill_by_cli(size, rounds):
    work = tempfile.mkdtemp(prefix="equiv")
    try:
        steps = [cli("assembler.py", ["p.asm", "--to_dsk", "p.dsk"], files={"p.asm": program(size, nam="FILLER")}, keep=work)]
        for _ in range(rounds):
            steps.append(cli("assembler.py", ["p.asm", "--to_dsk", "p.dsk", "--append"], keep=work))
        steps.append(cli("file_util.py", ["p.dsk", "--list"], keep=work))
        steps.append(cli("file_util.py", ["p.dsk", "--to_cas", "p.cas", "--to_dsk", "q.dsk"], keep=work))
        steps.append(cli("file_util.py", ["q.dsk", "--list"], keep=work))
        return steps
    finally:
        shutil.rmtree(work, ignore_errors=True)


case("cli fill with large programs", lambda: fill_by_cli(30000, 6))
case("cli fill with small programs", lambda: fill_by_cli(5, 4))
'''


def run_tree(tree):
    tree = os.path.abspath(tree)
    env = dict(os.environ, PYTHONDONTWRITEBYTECODE="1")
    done = subprocess.run([PYTHON, "-c", DRIVER_HEAD + DRIVER_CASES + DRIVER_TAIL, tree, PYTHON],
                          cwd=tree, env=env, capture_output=True, text=True)
    marker = done.stdout.rfind("@@RESULTS@@")
    if done.returncode != 0 or marker < 0:
        print("driver failed for", tree)
        print(done.stdout[-2000:])
        print(done.stderr[-4000:])
        sys.exit(1)
    return json.loads(done.stdout[marker + len("@@RESULTS@@"):])


def main():
    if len(sys.argv) != 3:
        print(__doc__)
        sys.exit(2)
    first, second = run_tree(sys.argv[1]), run_tree(sys.argv[2])
    bad = 0
    if [label for label, _ in first] != [label for label, _ in second]:
        print("case lists differ")
        bad += 1
    for (label, left), (_, right) in zip(first, second):
        if left != right:
            bad += 1
            print("DIFF in case", label)
            print("  A:", json.dumps(left)[:1500])
            print("  B:", json.dumps(right)[:1500])
    print("{} cases compared, {} differ".format(len(first), bad))
    sys.exit(1 if bad or len(first) < 30 else 0)


if __name__ == "__main__":
    main()
