#!/usr/bin/env python
"""
Differential check of two CoCoAssembler trees on the cassette container code
(writer, reader, container helpers and the file_util.py command line).

usage: equiv.py <treeA> <treeB>

Each tree is exercised in its own subprocess (tree at the front of sys.path and
used as the location of the command-line scripts). Every observable result is
serialised to JSON and the two result sets are compared key by key.
Exit status 0 = all cases agree, 1 = at least one difference.
"""
import json
import os
import subprocess
import sys
import tempfile

WORKER = r'''
import hashlib, io, json, os, random, subprocess, sys, tempfile, contextlib
tree = os.path.abspath(sys.argv[1])
sys.path.insert(0, tree)
sys.setrecursionlimit(5000)

from cocoasm.values import NumericValue, NoneValue
from cocoasm.virtualfiles.coco_file import CoCoFile
from cocoasm.virtualfiles.cassette import CassetteFile
from cocoasm.virtualfiles.virtual_file_container import VirtualFileContainer
from cocoasm.virtualfiles.virtual_file import VirtualFile, VirtualFileType
from cocoasm.virtualfiles.source_file import SourceFile, SourceFileType

results = {}
PY = sys.executable


def digest(seq):
    return hashlib.sha256(bytes(bytearray(seq))).hexdigest()


def describe(coco_file):
    if coco_file is None:
        return None
    return {
        "name": coco_file.name, "extension": coco_file.extension,
        "type": coco_file.type.hex(), "data_type": coco_file.data_type.hex(),
        "gaps": coco_file.gaps.hex(), "load": coco_file.load_addr.hex(size=4),
        "exec": coco_file.exec_addr.hex(size=4), "len": len(coco_file.data),
        "data": digest(coco_file.data), "ascii": coco_file.ascii,
        "ignore_gaps": coco_file.ignore_gaps, "str": str(coco_file),
    }


def record(key, thunk):
    assert key not in results, key
    try:
        results[key] = {"ok": thunk()}
    except BaseException as error:
        results[key] = {"error": type(error).__name__, "message": str(error)}


def make_data(length, style, seed=0):
    rnd = random.Random(length * 7 + seed)
    if style == "markers":
        pattern = [0x55, 0x3C, 0x00, 0x55, 0x3C, 0x01, 0x55, 0x3C, 0xFF, 0x00, 0x55]
        return [pattern[i % len(pattern)] for i in range(length)]
    if style == "zeros":
        return [0] * length
    if style == "ff":
        return [0xFF] * length
    return [rnd.randrange(256) for _ in range(length)]


def make_file(name, length, style="random", ftype=2, dtype=0, load=0x0E00, exe=0x0E00, seed=0):
    return CoCoFile(
        name=name, extension="BIN", type=NumericValue(ftype), data_type=NumericValue(dtype),
        gaps=NumericValue(0), load_addr=NumericValue(load), exec_addr=NumericValue(exe),
        data=make_data(length, style, seed),
    )


def write_and_list(files, filenames=None):
    cassette = CassetteFile()
    cassette.add_files(files)
    buffer = cassette.get_buffer()
    out = {"len": len(buffer), "digest": digest(buffer), "same_obj": buffer is cassette.buffer,
           "orig": list(cassette.original_buffer)}
    try:
        listed = CassetteFile(buffer=list(buffer)).list_files(filenames=filenames)
        out["listed"] = [describe(f) for f in listed]
    except BaseException as error:
        out["list_error"] = [type(error).__name__, str(error)]
    return out


# ---- writer followed by reader, single files of boundary lengths -------------------
LENGTHS = [0, 1, 2, 127, 254, 255, 256, 257, 509, 510, 511, 764, 765, 766, 1020, 1275, 4096]
for length in LENGTHS:
    for style in ("random", "markers", "zeros", "ff"):
        record("single/%d/%s" % (length, style),
               lambda: write_and_list([make_file("FILE%d" % (length % 1000), length, style)]))
record("single/65535", lambda: write_and_list([make_file("BIG", 65535, "random")]))
record("single/65280", lambda: write_and_list([make_file("BIGM", 65280, "markers")]))

# ---- names ------------------------------------------------------------------------
NAMES = ["", "A", "AB", "ABCDEFG", "ABCDEFGH", "ABCDEFGHI", "ABCDEFGHIJKL", "lower", "MiXeD.x",
         "!#$%&'()", "~^_`{|}", "12345678", "\x7f\x01", "NAME WITH", "  PAD  ", "éè"]
for index, name in enumerate(NAMES):
    record("name/%d" % index, lambda: write_and_list([make_file(name, 10)]))
    def direct(name=name):
        cassette = CassetteFile()
        checksum = cassette.append_name(name)
        return [checksum, list(cassette.buffer)]
    record("append_name/%d" % index, direct)
record("append_name/wide", lambda: (lambda c: [c.append_name("ĀAB"), list(c.buffer)])(CassetteFile()))
record("append_name/none", lambda: (lambda c: [c.append_name(None), list(c.buffer)])(CassetteFile()))
record("append_name/list", lambda: (lambda c: [c.append_name(["A", "B"]), list(c.buffer)])(CassetteFile()))
record("append_name/int", lambda: (lambda c: [c.append_name(5), list(c.buffer)])(CassetteFile()))

# ---- types, data types, addresses -----------------------------------------------------
for ftype in (0, 1, 2, 3):
    for dtype in (0x00, 0xFF):
        record("types/%d/%d" % (ftype, dtype),
               lambda: write_and_list([make_file("T%d" % ftype, 300, "random", ftype, dtype, 0x1234, 0xFEDC)]))
for load, exe in [(0, 0), (1, 0xFF), (0xFF, 0x100), (0x100, 0xFFFF), (0xFFFF, 0x8000), (0x553C, 0x3C55),
                  (0x00FF, 0xFF00), (0x7FFF, 0x0001)]:
    record("addr/%04X/%04X" % (load, exe),
           lambda: write_and_list([make_file("ADDR", 20, "random", 2, 0, load, exe)]))
record("nonevalues", lambda: write_and_list([CoCoFile(name="NV", data=[1, 2, 3])]))
record("noneaddr", lambda: write_and_list([CoCoFile(name="NV", type=NumericValue(2), data_type=NumericValue(0),
                                                    data=[1, 2, 3])]))

# ---- lists of files, filters ------------------------------------------------------------
record("list/empty", lambda: write_and_list([]))
record("list/three", lambda: write_and_list([make_file("ONE", 5), make_file("TWO", 255, "markers"),
                                             make_file("THREE", 600, "ff", 0, 0xFF)]))
record("list/with_empty_first", lambda: write_and_list([make_file("EMPTY", 0), make_file("FULL", 10)]))
record("list/with_empty_mid", lambda: write_and_list([make_file("A", 3), make_file("EMPTY", 0), make_file("B", 4)]))
record("list/dupes", lambda: write_and_list([make_file("SAME", 3), make_file("SAME", 4, seed=2)]))
record("list/ten", lambda: write_and_list([make_file("F%d" % i, i * 100, seed=i) for i in range(1, 11)]))
record("filter/hit", lambda: write_and_list([make_file("ONE", 5), make_file("TWO", 6)], ["TWO     "]))
record("filter/miss", lambda: write_and_list([make_file("ONE", 5), make_file("TWO", 6)], ["TWO"]))
record("filter/emptylist", lambda: write_and_list([make_file("ONE", 5), make_file("TWO", 6)], []))
record("filter/both", lambda: write_and_list([make_file("ONE", 5), make_file("TWO", 6)], ["ONE     ", "TWO     "]))

# ---- writer pieces called directly -----------------------------------------------------
def piece(method, *args, **kwargs):
    cassette = CassetteFile()
    value = getattr(cassette, method)(*args, **kwargs)
    return [repr(value), len(cassette.buffer), digest(cassette.buffer), list(cassette.buffer[:300])]
record("piece/leader", lambda: piece("append_leader"))
record("piece/blank", lambda: piece("append_blank"))
record("piece/eof", lambda: piece("append_eof"))
record("piece/header", lambda: piece("append_header", make_file("HDR", 1, load=0xABCD, exe=0x00EF)))
for length in (0, 1, 254, 255, 256, 510, 511):
    record("piece/blocks/%d" % length, lambda: piece("append_data_blocks", make_data(length, "random")))
    record("piece/blocks_gaps/%d" % length, lambda: piece("append_data_blocks", make_data(length, "markers"), gaps=True))
record("piece/blocks_bytes", lambda: piece("append_data_blocks", bytes(make_data(300, "random"))))
record("piece/add_file", lambda: piece("add_file", make_file("ADD", 3)))
def add_twice():
    cassette = CassetteFile()
    cassette.add_file(make_file("ONE", 2))
    first = len(cassette.buffer)
    cassette.add_file(make_file("TWO", 256))
    return [first, len(cassette.buffer), digest(cassette.buffer)]
record("piece/add_twice", add_twice)
def append_to_existing():
    cassette = CassetteFile()
    cassette.add_file(make_file("ONE", 2))
    second = CassetteFile(buffer=list(cassette.get_buffer()))
    second.add_files([make_file("TWO", 256)])
    return [len(second.buffer), digest(second.buffer), digest(second.original_buffer),
            [describe(f) for f in second.list_files()]]
record("piece/append_to_existing", append_to_existing)

# ---- reader on hand-built tapes ----------------------------------------------------------------
def header_block(name, ftype=2, dtype=0, gaps=0, load=0x0E00, exe=0x0E00, checksum=None):
    body = [0x00, 0x0F] + [ord(c) for c in name.ljust(8)[:8]] + [ftype, dtype, gaps, load >> 8, load & 255,
                                                                   exe >> 8, exe & 255]
    return [0x55, 0x3C] + body + [sum(body) & 255 if checksum is None else checksum, 0x55]

def data_block(payload, block_type=0x01):
    body = [block_type, len(payload)] + list(payload)
    return [0x55, 0x3C] + body + [sum(body) & 255, 0x55]

EOF = [0x55, 0x3C, 0xFF, 0x00, 0xFF, 0x55]

def listing(buffer, filenames=None):
    cassette = CassetteFile(buffer=buffer)
    return [describe(f) for f in cassette.list_files(filenames=filenames)]

def tape(leader, gap, blocks, name="TAPE", **kwargs):
    out = [0x55] * leader + header_block(name, **kwargs) + [0x00] * gap + [0x55] * leader
    for block in blocks:
        out += data_block(block) + [0x00] * gap + [0x55] * gap
    return out + EOF

for leader in (0, 1, 2, 3, 17, 128, 500):
    for gap in (0, 1, 128):
        record("tape/%d/%d" % (leader, gap),
               lambda: listing(tape(leader, gap, [make_data(255, "random"), make_data(255, "markers"), [9, 8, 7]])))
record("tape/two_files", lambda: listing(tape(10, 0, [[1, 2, 3]], "FIRST") + tape(0, 5, [[4] * 255, [5]], "SECOND", ftype=0, dtype=0xFF, gaps=0xFF)))
record("tape/empty_buffer", lambda: listing([]))
record("tape/none_buffer", lambda: listing(None))
record("tape/leader_only", lambda: listing([0x55] * 300))
record("tape/garbage", lambda: listing(make_data(2000, "random", seed=5)))
record("tape/marker_garbage", lambda: listing(make_data(700, "markers")))
record("tape/no_data_blocks", lambda: listing(header_block("NODATA") + EOF + tape(3, 0, [[1]], "AFTER")))
record("tape/zero_length_block", lambda: listing(header_block("ZERO") + data_block([]) + data_block([7]) + EOF))
record("tape/unknown_block", lambda: listing(header_block("UNK") + data_block([1, 2], block_type=0x02) + EOF))
record("tape/header_as_data", lambda: listing(header_block("HH") + header_block("II") + data_block([1]) + EOF))
record("tape/no_eof", lambda: listing(header_block("NOEOF") + data_block([1, 2, 3])))
record("tape/header_only", lambda: listing(header_block("HONLY")))
record("tape/bad_checksum", lambda: listing(header_block("BADCK", checksum=0) + data_block([1, 2, 3]) + EOF))
record("tape/bytes_buffer", lambda: listing(bytes(tape(4, 0, [[1, 2, 3]]))))
record("tape/bytearray_buffer", lambda: listing(bytearray(tape(4, 0, [[1, 2, 3]]))))
record("tape/tuple_buffer", lambda: listing(tuple(tape(4, 0, [[1, 2, 3]]))))
record("tape/non_utf8_name", lambda: listing(header_block("\xff\xfeX") + data_block([1]) + EOF))
record("tape/filter", lambda: listing(tape(1, 0, [[1]], "AA") + tape(1, 0, [[2]], "BB"), ["BB      "]))
record("tape/payload_has_header", lambda: listing(header_block("OUTER") + data_block(header_block("INNER") + data_block([5]) + EOF) + EOF))
small = tape(2, 1, [[1, 2, 3, 0x55, 0x3C, 0xFF], [4]], "TRUNC")
for cut in range(len(small) + 1):
    record("trunc/%d" % cut, lambda: listing(small[:cut]))
written = CassetteFile()
written.add_files([make_file("WRT", 300, "markers")])
written = list(written.get_buffer())
for cut in list(range(250, 300)) + list(range(len(written) - 60, len(written) + 1)):
    record("trunc_written/%d" % cut, lambda: listing(written[:cut]))

# ---- reader pieces called directly ---------------------------------------------------------------
probe = CassetteFile(buffer=list(small))
for start in (-30, -3, -1, 0, 1, 2, 3, 20, len(small) - 6, len(small) - 2, len(small), len(small) + 5):
    for sequence in ([0x55, 0x3C, 0x00], [0x55, 0x3C], [0x55], [], [0xAA], [0x55, 0x3C, 0xFF, 0x00, 0xFF, 0x55], small + [0]):
        record("skip/%d/%s" % (start, digest(sequence)[:8] + str(len(sequence))),
               lambda: probe.skip_to_sequence(sequence, start=start))
record("skip/default", lambda: probe.skip_to_sequence([0x55, 0x3C, 0xFF]))
record("skip/empty", lambda: CassetteFile().skip_to_sequence([0x55, 0x3C]))
record("skip/empty_empty", lambda: CassetteFile().skip_to_sequence([]))
for pointer in range(-4, len(small) + 3):
    record("read_word/%d" % pointer, lambda: probe.read_word(pointer).hex(size=4))
    record("read_name/%d" % pointer, lambda: list(probe.read_coco_file_name(pointer)))
    record("read_file/%d" % pointer, lambda: (lambda r: [describe(r[0]), r[1]])(probe.read_file(pointer)))
    record("read_blocks/%d" % pointer, lambda: (lambda r: [list(r[0]), r[1]])(probe.read_blocks(pointer)))
for buffer in ([], [1], [1, 2], [0xFF, 0xFF], [0x12, 0x34, 0x56], b"\x12\x34", bytearray(b"\x00\x01\x02"), ["1", "2"], [1.0, 2.0]):
    for pointer in (-3, -2, -1, 0, 1, 2, 3):
        def read_word(buffer=buffer, pointer=pointer):
            container = CassetteFile()
            container.buffer = buffer
            value = container.read_word(pointer)
            return [value.hex(), value.int, type(value).__name__]
        record("read_word_buf/%r/%d" % (buffer, pointer), read_word)

# ---- container construction --------------------------------------------------------------
for label, buffer in (("none", None), ("empty", []), ("list", [1, 2, 3]), ("bytes", b"abc"), ("emptybytes", b""),
                      ("nested", [[1], [2]]), ("zero", 0), ("tuple", (1, 2))):
    def construct(buffer=buffer):
        out = []
        for cls in (CassetteFile, VirtualFileContainer):
            container = cls(buffer=buffer)
            out.append([repr(container.buffer), repr(container.original_buffer), container.buffer is buffer,
                        container.original_buffer is buffer, container.get_buffer() is container.buffer,
                        container.buffer is container.original_buffer])
        out.append(repr(CassetteFile().buffer))
        return out
    record("construct/" + label, construct)
def mutation_isolated():
    source = [1, 2, 3]
    container = CassetteFile(source)
    source.append(4)
    return [container.buffer, container.original_buffer]
record("construct/mutation", mutation_isolated)
def nested_mutation():
    source = [[1], [2]]
    container = VirtualFileContainer(buffer=source)
    source[0].append(9)
    return [container.buffer, container.original_buffer]
record("construct/nested_mutation", nested_mutation)
def add_files_order():
    calls = []
    class Recorder(VirtualFileContainer):
        def add_file(self, coco_file):
            calls.append(coco_file)
        def list_files(self, filenames=None):
            return calls
    recorder = Recorder()
    value = recorder.add_files(iter([3, 1, 2]))
    return [calls, repr(value), recorder.list_files()]
record("construct/add_files_order", add_files_order)
record("construct/add_files_none", lambda: CassetteFile().add_files(None))

# ---- the file_util.py command line ---------------------------------------------------------------------
work = tempfile.mkdtemp(prefix="c06_")

def run_cli(script, args, cwd):
    before = set(os.listdir(cwd))
    proc = subprocess.run([PY, os.path.join(tree, script)] + args, cwd=cwd, capture_output=True, text=True,
                          env=dict(os.environ, PYTHONPATH=tree, PYTHONDONTWRITEBYTECODE="1"))
    files = {}
    for name in sorted(os.listdir(cwd)):
        with open(os.path.join(cwd, name), "rb") as handle:
            content = handle.read()
        files[name] = [len(content), hashlib.sha256(content).hexdigest(), name not in before]
    return {"rc": proc.returncode, "out": proc.stdout.replace(tree, "<TREE>"),
            "err": proc.stderr.replace(tree, "<TREE>"), "files": files}

def save(name, buffer):
    with open(os.path.join(work, name), "wb") as handle:
        handle.write(bytearray(buffer))

def image(files):
    cassette = CassetteFile()
    cassette.add_files(files)
    return cassette.get_buffer()

save("one.cas", image([make_file("ONE", 300, "markers", 2, 0, 0x3F00, 0x3F10)]))
save("three.cas", image([make_file("ALPHA", 5, ftype=0, dtype=0xFF), make_file("beta", 255, ftype=1),
                         make_file("GAMMAGAMMA", 1000, "ff", ftype=2, load=0x7000, exe=0x7005)]))
save("empty.cas", [])
save("emptyfile.cas", image([make_file("NIL", 0)]))
save("handmade.cas", tape(7, 3, [[1] * 255, [2] * 4], "HAND", gaps=0xFF))
save("trunc.cas", image([make_file("TRUNC", 300)])[:400])
save("noeof.cas", header_block("NOEOF") + data_block([1, 2, 3]))
save("unknown.cas", header_block("UNK") + data_block([1, 2], block_type=0x07) + EOF)
save("garbage.bin", make_data(999, "random", seed=3))
for name in ("one.cas", "three.cas", "empty.cas", "emptyfile.cas", "handmade.cas", "trunc.cas", "noeof.cas",
             "unknown.cas", "garbage.bin", "missing.cas"):
    record("cli/list/" + name, lambda: run_cli("file_util.py", [name, "--list"], work))
record("cli/list_files_filter", lambda: run_cli("file_util.py", ["three.cas", "--list", "--files", "beta"], work))
record("cli/no_action", lambda: run_cli("file_util.py", ["three.cas"], work))
record("cli/no_args", lambda: run_cli("file_util.py", [], work))
record("cli/to_cas", lambda: run_cli("file_util.py", ["three.cas", "--to_cas", "copy.cas"], work))
record("cli/to_cas_again", lambda: run_cli("file_util.py", ["three.cas", "--to_cas", "copy.cas"], work))
record("cli/to_cas_append", lambda: run_cli("file_util.py", ["one.cas", "--to_cas", "copy.cas", "--append"], work))
record("cli/list_copy", lambda: run_cli("file_util.py", ["copy.cas", "--list"], work))
record("cli/to_cas_filter", lambda: run_cli("file_util.py", ["three.cas", "--to_cas", "some.cas", "--files", "alpha", "GAMMAGAM"], work))
record("cli/list_some", lambda: run_cli("file_util.py", ["some.cas", "--list"], work))
record("cli/to_bin_one", lambda: run_cli("file_util.py", ["one.cas", "--to_bin", "one.bin"], work))
record("cli/to_bin_three", lambda: run_cli("file_util.py", ["three.cas", "--to_bin", "three.bin"], work))
record("cli/to_bin_empty", lambda: run_cli("file_util.py", ["empty.cas", "--to_bin", "none.bin"], work))
record("cli/list_and_to_cas", lambda: run_cli("file_util.py", ["one.cas", "--list", "--to_cas", "never.cas"], work))

# ---- the assembler command line writing a cassette ---------------------------------------------------
with open(os.path.join(work, "prog.asm"), "w") as handle:
    handle.write("        NAM  HELLO\n        ORG  $0E00\nSTART   LDA  #$55\n        LDB  #$3C\n"
                 "        STA  $0400\n        FCB  $55,$3C,$00,$55,$3C,$FF\n        RTS\n        END  START\n")
record("cli/asm_to_cas", lambda: run_cli("assembler.py", ["prog.asm", "--to_cas", "prog.cas"], work))
record("cli/asm_list", lambda: run_cli("file_util.py", ["prog.cas", "--list"], work))
record("cli/asm_to_cas_append", lambda: run_cli("assembler.py", ["prog.asm", "--to_cas", "prog.cas", "--append", "--name", "second"], work))
record("cli/asm_list2", lambda: run_cli("file_util.py", ["prog.cas", "--list"], work))

import shutil
shutil.rmtree(work, ignore_errors=True)
json.dump(results, sys.stdout, sort_keys=True)
'''


def run_tree(tree, worker_path):
    proc = subprocess.run(
        [sys.executable, worker_path, tree], cwd=tree, capture_output=True, text=True,
        env=dict(os.environ, PYTHONDONTWRITEBYTECODE="1", PYTHONHASHSEED="0"),
    )
    if proc.returncode != 0:
        print("worker failed for", tree)
        print(proc.stderr[-3000:])
        sys.exit(1)
    return json.loads(proc.stdout)


def main():
    if len(sys.argv) != 3:
        print(__doc__)
        sys.exit(2)
    tree_a, tree_b = (os.path.abspath(p) for p in sys.argv[1:3])
    with tempfile.TemporaryDirectory() as scratch:
        worker_path = os.path.join(scratch, "worker.py")
        with open(worker_path, "w") as handle:
            handle.write(WORKER)
        result_a = run_tree(tree_a, worker_path)
        result_b = run_tree(tree_b, worker_path)

    differences = 0
    for key in sorted(set(result_a) | set(result_b)):
        if result_a.get(key) != result_b.get(key):
            differences += 1
            print("DIFF", key)
            print("   A:", json.dumps(result_a.get(key))[:600])
            print("   B:", json.dumps(result_b.get(key))[:600])
    errors = sum(1 for value in result_a.values() if "error" in value)
    print("%d cases compared (%d raise in tree A), %d differences" % (len(result_a), errors, differences))
    sys.exit(1 if differences else 0)


if __name__ == "__main__":
    main()
