#!/venv/bin/python
"""
Differential check for the C05 'va' refactoring (Program.get_binary_array and the
FCC / RMB arms of PseudoOperand.translate).

usage: equiv.py <treeA> <treeB>

Runs the same inputs through the code of both trees (one subprocess per tree,
tree at the front of sys.path and as cwd) and compares binary image, listing
lines, symbol table, origin/name, code package fields, CLI output and exception
type + message.
"""
import json
import os
import subprocess
import sys

WORKER = r'''
import io, json, os, subprocess, sys, tempfile
tree = sys.argv[1]
sys.path.insert(0, tree)
from cocoasm.program import Program
from cocoasm.statement import Statement
from cocoasm.instruction import INSTRUCTIONS, CodePackage
from cocoasm.operands import PseudoOperand
from cocoasm.values import NumericValue, NoneValue, AddressValue, StringValue, MultiByteValue, MultiWordValue


def describe(package):
    return {
        "op_code": [type(package.op_code).__name__, package.op_code.hex()],
        "post_byte": [type(package.post_byte).__name__, package.post_byte.hex()],
        "additional": [type(package.additional).__name__, package.additional.hex(), package.additional.hex_len()],
        "address": [type(package.address).__name__, package.address.hex()],
        "size": package.size, "max_size": package.max_size,
        "needs": package.additional_needs_resolution, "choices": list(package.post_byte_choices),
    }


def run_program(lines):
    result = {}
    try:
        program = Program()
        program.process([line + " " for line in lines])
        result["binary"] = list(program.get_binary_array())
        result["listing"] = [str(s) for s in program.get_statements()]
        result["symbols"] = [str(s) for s in program.get_symbol_table()]
        result["origin"] = str(program.origin)
        result["name"] = str(program.name)
    except BaseException as error:
        result["error"] = [type(error).__name__, str(error)]
    return result


def run_translate(mnemonic, operand):
    result = {}
    try:
        instruction = next(i for i in INSTRUCTIONS if i.mnemonic == mnemonic)
        result["package"] = describe(PseudoOperand(operand, instruction).translate())
    except BaseException as error:
        result["error"] = [type(error).__name__, str(error)]
    return result


class FakeValue(NoneValue):
    """a value whose hex text and claimed length can disagree"""
    def __init__(self, text, length):
        super().__init__()
        self.text, self.length = text, length

    def hex(self, size=0):
        return self.text

    def hex_len(self):
        return self.length


def run_image(packages):
    """get_binary_array over hand-built code packages"""
    result = {}
    try:
        program = Program()
        program.statements = []
        for empty, comment, fields in packages:
            statement = Statement("X NOP ")
            statement.is_empty, statement.is_comment_only = empty, comment
            statement.code_pkg = CodePackage(**fields)
            program.statements.append(statement)
        result["binary"] = list(program.get_binary_array())
    except BaseException as error:
        result["error"] = [type(error).__name__, str(error)]
    return result


def run_cli(lines):
    result = {}
    with tempfile.TemporaryDirectory() as work:
        source = os.path.join(work, "in.asm")
        with open(source, "w") as handle:
            handle.write("\n".join(line + " " for line in lines) + "\n")
        done = subprocess.run([sys.executable, os.path.join(tree, "assembler.py"), source, "--print", "--symbols",
                               "--to_bin", os.path.join(work, "out.bin"), "--to_cas", os.path.join(work, "out.cas"), "--name", "T"], cwd=tree, capture_output=True, text=True)
        result["stdout"] = done.stdout.replace(work, "<work>")
        result["stderr"] = done.stderr.replace(work, "<work>").replace(tree, "<tree>")
        if "Traceback (most recent call last)" in result["stderr"]:
            # an uncaught exception: frames and line numbers are not behaviour, the exception line is
            result["stderr"] = "uncaught: " + result["stderr"].strip().splitlines()[-1]
        result["code"] = done.returncode
        result["files"] = {}
        for name in sorted(os.listdir(work)):
            with open(os.path.join(work, name), "rb") as handle:
                result["files"][name] = list(handle.read())
    return result


programs = {}
for n in [0, 1, 2, 3, 7, 8, 15, 16, 127, 128, 255, 256, 257, 1000, 4095, 32767, 32768, 65535]:
    programs["rmb %d" % n] = ["  ORG $1000", "A NOP", "B RMB %d" % n, "C RTS"]
for text in ["$0", "$10", "$FF", "$100", "$FFFF", "%101", "-1", "-5", "65536", "$10000", "SIZE", "SIZE+1", "NOPE", "", "'A",
             "1,2"]:
    programs["rmb operand %r" % text] = ["SIZE EQU 4", "  RMB %s" % text, "  FCB 9"]
strings = ["HELLO", "A", "", "TWO WORDS", "THREE  SPACED   WORDS", " LEAD", "TRAIL ", "A;B", "X ; Y", "a,b", "1+2", "$FF",
           "#<>[]", "Don't", 'say "hi"', "/slash/", "\\", "~tilde~", "{curly}", "`", "|", "  ", "a" * 255, "MiXeD 123 !?."]
for text in strings:
    for delim in ['"', "'", "/", "!", "|"]:
        programs["fcc %r %s" % (text, delim)] = ["  ORG $E00", "MSG FCC %s%s%s" % (delim, text, delim), "  FCB 0"]
programs["fcc comment"] = ["MSG FCC 'AB' ; remark", "  RTS"]
programs["fcc comment close"] = ["MSG FCC 'AB CD' trailing 'x'", "  RTS"]
programs["fcc unterminated"] = ["MSG FCC 'AB"]
programs["fcc mismatched"] = ["MSG FCC 'AB\""]
programs["fcc bare"] = ["MSG FCC AB"]
programs["fcc none"] = ["MSG FCC"]
programs["fcc single delim"] = ["MSG FCC '"]
for text in ["1", "255", "256", "-1", "-128", "-129", "$FF", "$100", "%11111111", "1,2,3", "$1,$22,%11", "-1,-2", "A,B", "'A",
             "1,,2", "1,", "300,1", "B", "B+1"]:
    programs["fcb %s" % text] = ["  ORG $200", "A FCB %s" % text, "B FDB %s" % text, "  END A"]
programs["all directives"] = ["  NAM demo", "V EQU $12", "  ORG $4000", "  SETDP $40", "S LDA #V", "T FCB 1,2", "  FDB S,T",
                              "  FCC /ok go/", "  RMB 3", "  FCB V", "  END S"]
programs["empty"] = []
programs["comments only"] = ["; just a comment", "", "   "]
programs["code"] = ["  ORG $100", "S LDX #$1234", "  LDA ,X+", "  STA [$10,Y]", "  LBRA S", "  BRA S", "  PSHS A,B", "  SWI2",
                     "  LDD <$10", "  JMP >$2000", "  LEAX S,PCR", "  TFR A,B"]

out = {}
for name, lines in programs.items():
    out["prog " + name] = run_program(lines)
for mnemonic in ["RMB", "FCC", "ORG", "EQU", "SETDP", "NAM", "END", "INCLUDE", "FCB", "FDB"]:
    for operand in ["", "0", "1", "5", "$10", "$0100", "-1", "'AB'", '"A B"', "//", "/", "AB", "1,2", "LABEL", "70000"]:
        out["translate %s %r" % (mnemonic, operand)] = run_translate(mnemonic, operand)
nv = NumericValue
images = {
    "no statements": [],
    "skipped": [(True, False, {"op_code": nv(1)}), (False, True, {"op_code": nv(2)}), (True, True, {"op_code": nv(3)})],
    "all fields": [(False, False, {"op_code": nv(0x10CE), "post_byte": nv(0x9F), "additional": nv(0x1234),
                                   "address": nv(0xFFFF)})],
    "order": [(False, False, {"additional": nv(1), "op_code": nv(3)}), (False, False, {"post_byte": nv(2)})],
    "wide hint": [(False, False, {"additional": nv(0, size_hint=10)})],
    "zero hint": [(False, False, {"additional": nv(0, size_hint=0)})],
    "narrow hint": [(False, False, {"additional": nv(0x100, size_hint=2)})],
    "address value": [(False, False, {"additional": AddressValue(0xABC)}), (False, False, {"additional": AddressValue(5)})],
    "string": [(False, False, {"additional": StringValue("'hi there'")})],
    "lists": [(False, False, {"additional": MultiByteValue("1,2,$FF")}), (False, False, {"additional": MultiWordValue("1,$FFEE")})],
    "short text": [(False, False, {"op_code": nv(0x12), "additional": FakeValue("ABC", 4)})],
    "short text op": [(False, False, {"op_code": FakeValue("A", 2), "additional": FakeValue("ZZ", 2)})],
    "odd length": [(False, False, {"additional": FakeValue("ABCD", 3)})],
    "long text": [(False, False, {"additional": FakeValue("ABCDEF", 2)})],
    "not hex": [(False, False, {"post_byte": FakeValue("GG", 2), "additional": FakeValue("A", 2)})],
    "zero length with text": [(False, False, {"additional": FakeValue("ABCD", 0)})],
    "negative length": [(False, False, {"additional": FakeValue("ABCD", -2)})],
}
for name, packages in images.items():
    out["image " + name] = run_image(packages)
for name in ["all directives", "rmb 3", "fcc 'TWO WORDS' /", "fcc unterminated", "rmb operand 'NOPE'", "fcb 300,1", "empty"]:
    out["cli " + name] = run_cli(programs[name])
json.dump(out, sys.stdout, sort_keys=True)
'''


def run(tree):
    tree = os.path.abspath(tree)
    done = subprocess.run([sys.executable, "-c", WORKER, tree], cwd=tree, capture_output=True, text=True)
    if done.returncode != 0:
        print("worker failed for", tree)
        print(done.stderr)
        sys.exit(1)
    return json.loads(done.stdout)


def main():
    if len(sys.argv) != 3:
        print(__doc__)
        return 1
    first, second = run(sys.argv[1]), run(sys.argv[2])
    bad = 0
    for key in sorted(set(first) | set(second)):
        if first.get(key) != second.get(key):
            bad += 1
            print("DIFFERENT:", key)
            print("   A:", str(first.get(key))[:300])
            print("   B:", str(second.get(key))[:300])
    errors = sum(1 for v in first.values() if "error" in v)
    print("%d cases (%d of them errors in tree A), %d differences" % (len(first), errors, bad))
    return 1 if bad else 0


if __name__ == "__main__":
    sys.exit(main())
