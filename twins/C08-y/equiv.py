#!/usr/bin/env python
"""
Differential check of two CoCoAssembler trees on the virtual file code: the
cassette and disk containers (writers, readers, helpers, pre/postambles),
VirtualFile / SourceFile on real temporary files, and both command lines
(assembler.py, file_util.py) run in a temporary directory.

usage: equiv.py <treeA> <treeB>

Each tree is exercised in its own subprocess (tree at the front of sys.path and
used as the location of the command-line scripts). Every observable result is
serialised to JSON and the two result sets are compared key by key.
Exit status 0 = all cases agree, 1 = at least one difference.
"""
import json
import os
import subprocess
import sys
import tempfile

WORKER = r'''
import hashlib, io, json, os, random, subprocess, sys, tempfile, contextlib
tree = os.path.abspath(sys.argv[1])
sys.path.insert(0, tree)
sys.setrecursionlimit(5000)

from cocoasm.values import NumericValue, NoneValue
from cocoasm.virtualfiles.coco_file import CoCoFile
from cocoasm.virtualfiles.cassette import CassetteFile
from cocoasm.virtualfiles.virtual_file_container import VirtualFileContainer
from cocoasm.virtualfiles.virtual_file import VirtualFile, VirtualFileType
from cocoasm.virtualfiles.source_file import SourceFile, SourceFileType

results = {}
PY = sys.executable


def digest(seq):
    return hashlib.sha256(bytes(bytearray(seq))).hexdigest()


def describe(coco_file):
    if coco_file is None:
        return None
    return {
        "name": coco_file.name, "extension": coco_file.extension,
        "type": coco_file.type.hex(), "data_type": coco_file.data_type.hex(),
        "gaps": coco_file.gaps.hex(), "load": coco_file.load_addr.hex(size=4),
        "exec": coco_file.exec_addr.hex(size=4), "len": len(coco_file.data),
        "data": digest(coco_file.data), "ascii": coco_file.ascii,
        "ignore_gaps": coco_file.ignore_gaps, "str": str(coco_file),
    }


def record(key, thunk):
    assert key not in results, key
    try:
        results[key] = {"ok": thunk()}
    except BaseException as error:
        results[key] = {"error": type(error).__name__, "message": str(error)}


def make_data(length, style, seed=0):
    rnd = random.Random(length * 7 + seed)
    if style == "markers":
        pattern = [0x55, 0x3C, 0x00, 0x55, 0x3C, 0x01, 0x55, 0x3C, 0xFF, 0x00, 0x55]
        return [pattern[i % len(pattern)] for i in range(length)]
    if style == "zeros":
        return [0] * length
    if style == "ff":
        return [0xFF] * length
    return [rnd.randrange(256) for _ in range(length)]


def make_file(name, length, style="random", ftype=2, dtype=0, load=0x0E00, exe=0x0E00, seed=0):
    return CoCoFile(
        name=name, extension="BIN", type=NumericValue(ftype), data_type=NumericValue(dtype),
        gaps=NumericValue(0), load_addr=NumericValue(load), exec_addr=NumericValue(exe),
        data=make_data(length, style, seed),
    )


def write_and_list(files, filenames=None):
    cassette = CassetteFile()
    cassette.add_files(files)
    buffer = cassette.get_buffer()
    out = {"len": len(buffer), "digest": digest(buffer), "same_obj": buffer is cassette.buffer,
           "orig": list(cassette.original_buffer)}
    try:
        listed = CassetteFile(buffer=list(buffer)).list_files(filenames=filenames)
        out["listed"] = [describe(f) for f in listed]
    except BaseException as error:
        out["list_error"] = [type(error).__name__, str(error)]
    return out


# ---- writer followed by reader, single files of boundary lengths -------------------
LENGTHS = [0, 1, 2, 127, 254, 255, 256, 257, 509, 510, 511, 764, 765, 766, 1020, 1275, 4096]
for length in LENGTHS:
    for style in ("random", "markers", "zeros", "ff"):
        record("single/%d/%s" % (length, style),
               lambda: write_and_list([make_file("FILE%d" % (length % 1000), length, style)]))
record("single/65535", lambda: write_and_list([make_file("BIG", 65535, "random")]))
record("single/65280", lambda: write_and_list([make_file("BIGM", 65280, "markers")]))

# ---- names ------------------------------------------------------------------------
NAMES = ["", "A", "AB", "ABCDEFG", "ABCDEFGH", "ABCDEFGHI", "ABCDEFGHIJKL", "lower", "MiXeD.x",
         "!#$%&'()", "~^_`{|}", "12345678", "\x7f\x01", "NAME WITH", "  PAD  ", "éè"]
for index, name in enumerate(NAMES):
    record("name/%d" % index, lambda: write_and_list([make_file(name, 10)]))
    def direct(name=name):
        cassette = CassetteFile()
        checksum = cassette.append_name(name)
        return [checksum, list(cassette.buffer)]
    record("append_name/%d" % index, direct)
record("append_name/wide", lambda: (lambda c: [c.append_name("ĀAB"), list(c.buffer)])(CassetteFile()))
record("append_name/none", lambda: (lambda c: [c.append_name(None), list(c.buffer)])(CassetteFile()))
record("append_name/list", lambda: (lambda c: [c.append_name(["A", "B"]), list(c.buffer)])(CassetteFile()))
record("append_name/int", lambda: (lambda c: [c.append_name(5), list(c.buffer)])(CassetteFile()))

# ---- types, data types, addresses -----------------------------------------------------
for ftype in (0, 1, 2, 3):
    for dtype in (0x00, 0xFF):
        record("types/%d/%d" % (ftype, dtype),
               lambda: write_and_list([make_file("T%d" % ftype, 300, "random", ftype, dtype, 0x1234, 0xFEDC)]))
for load, exe in [(0, 0), (1, 0xFF), (0xFF, 0x100), (0x100, 0xFFFF), (0xFFFF, 0x8000), (0x553C, 0x3C55),
                  (0x00FF, 0xFF00), (0x7FFF, 0x0001)]:
    record("addr/%04X/%04X" % (load, exe),
           lambda: write_and_list([make_file("ADDR", 20, "random", 2, 0, load, exe)]))
record("nonevalues", lambda: write_and_list([CoCoFile(name="NV", data=[1, 2, 3])]))
record("noneaddr", lambda: write_and_list([CoCoFile(name="NV", type=NumericValue(2), data_type=NumericValue(0),
                                                    data=[1, 2, 3])]))

# ---- lists of files, filters ------------------------------------------------------------
record("list/empty", lambda: write_and_list([]))
record("list/three", lambda: write_and_list([make_file("ONE", 5), make_file("TWO", 255, "markers"),
                                             make_file("THREE", 600, "ff", 0, 0xFF)]))
record("list/with_empty_first", lambda: write_and_list([make_file("EMPTY", 0), make_file("FULL", 10)]))
record("list/with_empty_mid", lambda: write_and_list([make_file("A", 3), make_file("EMPTY", 0), make_file("B", 4)]))
record("list/dupes", lambda: write_and_list([make_file("SAME", 3), make_file("SAME", 4, seed=2)]))
record("list/ten", lambda: write_and_list([make_file("F%d" % i, i * 100, seed=i) for i in range(1, 11)]))
record("filter/hit", lambda: write_and_list([make_file("ONE", 5), make_file("TWO", 6)], ["TWO     "]))
record("filter/miss", lambda: write_and_list([make_file("ONE", 5), make_file("TWO", 6)], ["TWO"]))
record("filter/emptylist", lambda: write_and_list([make_file("ONE", 5), make_file("TWO", 6)], []))
record("filter/both", lambda: write_and_list([make_file("ONE", 5), make_file("TWO", 6)], ["ONE     ", "TWO     "]))

# ---- writer pieces called directly -----------------------------------------------------
def piece(method, *args, **kwargs):
    cassette = CassetteFile()
    value = getattr(cassette, method)(*args, **kwargs)
    return [repr(value), len(cassette.buffer), digest(cassette.buffer), list(cassette.buffer[:300])]
record("piece/leader", lambda: piece("append_leader"))
record("piece/blank", lambda: piece("append_blank"))
record("piece/eof", lambda: piece("append_eof"))
record("piece/header", lambda: piece("append_header", make_file("HDR", 1, load=0xABCD, exe=0x00EF)))
for length in (0, 1, 254, 255, 256, 510, 511):
    record("piece/blocks/%d" % length, lambda: piece("append_data_blocks", make_data(length, "random")))
    record("piece/blocks_gaps/%d" % length, lambda: piece("append_data_blocks", make_data(length, "markers"), gaps=True))
record("piece/blocks_bytes", lambda: piece("append_data_blocks", bytes(make_data(300, "random"))))
record("piece/add_file", lambda: piece("add_file", make_file("ADD", 3)))
def add_twice():
    cassette = CassetteFile()
    cassette.add_file(make_file("ONE", 2))
    first = len(cassette.buffer)
    cassette.add_file(make_file("TWO", 256))
    return [first, len(cassette.buffer), digest(cassette.buffer)]
record("piece/add_twice", add_twice)
def append_to_existing():
    cassette = CassetteFile()
    cassette.add_file(make_file("ONE", 2))
    second = CassetteFile(buffer=list(cassette.get_buffer()))
    second.add_files([make_file("TWO", 256)])
    return [len(second.buffer), digest(second.buffer), digest(second.original_buffer),
            [describe(f) for f in second.list_files()]]
record("piece/append_to_existing", append_to_existing)

# ---- reader on hand-built tapes ----------------------------------------------------------------
def header_block(name, ftype=2, dtype=0, gaps=0, load=0x0E00, exe=0x0E00, checksum=None):
    body = [0x00, 0x0F] + [ord(c) for c in name.ljust(8)[:8]] + [ftype, dtype, gaps, load >> 8, load & 255,
                                                                   exe >> 8, exe & 255]
    return [0x55, 0x3C] + body + [sum(body) & 255 if checksum is None else checksum, 0x55]

def data_block(payload, block_type=0x01):
    body = [block_type, len(payload)] + list(payload)
    return [0x55, 0x3C] + body + [sum(body) & 255, 0x55]

EOF = [0x55, 0x3C, 0xFF, 0x00, 0xFF, 0x55]

def listing(buffer, filenames=None):
    cassette = CassetteFile(buffer=buffer)
    return [describe(f) for f in cassette.list_files(filenames=filenames)]

def tape(leader, gap, blocks, name="TAPE", **kwargs):
    out = [0x55] * leader + header_block(name, **kwargs) + [0x00] * gap + [0x55] * leader
    for block in blocks:
        out += data_block(block) + [0x00] * gap + [0x55] * gap
    return out + EOF

for leader in (0, 1, 2, 3, 17, 128, 500):
    for gap in (0, 1, 128):
        record("tape/%d/%d" % (leader, gap),
               lambda: listing(tape(leader, gap, [make_data(255, "random"), make_data(255, "markers"), [9, 8, 7]])))
record("tape/two_files", lambda: listing(tape(10, 0, [[1, 2, 3]], "FIRST") + tape(0, 5, [[4] * 255, [5]], "SECOND", ftype=0, dtype=0xFF, gaps=0xFF)))
record("tape/empty_buffer", lambda: listing([]))
record("tape/none_buffer", lambda: listing(None))
record("tape/leader_only", lambda: listing([0x55] * 300))
record("tape/garbage", lambda: listing(make_data(2000, "random", seed=5)))
record("tape/marker_garbage", lambda: listing(make_data(700, "markers")))
record("tape/no_data_blocks", lambda: listing(header_block("NODATA") + EOF + tape(3, 0, [[1]], "AFTER")))
record("tape/zero_length_block", lambda: listing(header_block("ZERO") + data_block([]) + data_block([7]) + EOF))
record("tape/unknown_block", lambda: listing(header_block("UNK") + data_block([1, 2], block_type=0x02) + EOF))
record("tape/header_as_data", lambda: listing(header_block("HH") + header_block("II") + data_block([1]) + EOF))
record("tape/no_eof", lambda: listing(header_block("NOEOF") + data_block([1, 2, 3])))
record("tape/header_only", lambda: listing(header_block("HONLY")))
record("tape/bad_checksum", lambda: listing(header_block("BADCK", checksum=0) + data_block([1, 2, 3]) + EOF))
record("tape/bytes_buffer", lambda: listing(bytes(tape(4, 0, [[1, 2, 3]]))))
record("tape/bytearray_buffer", lambda: listing(bytearray(tape(4, 0, [[1, 2, 3]]))))
record("tape/tuple_buffer", lambda: listing(tuple(tape(4, 0, [[1, 2, 3]]))))
record("tape/non_utf8_name", lambda: listing(header_block("\xff\xfeX") + data_block([1]) + EOF))
record("tape/filter", lambda: listing(tape(1, 0, [[1]], "AA") + tape(1, 0, [[2]], "BB"), ["BB      "]))
record("tape/payload_has_header", lambda: listing(header_block("OUTER") + data_block(header_block("INNER") + data_block([5]) + EOF) + EOF))
small = tape(2, 1, [[1, 2, 3, 0x55, 0x3C, 0xFF], [4]], "TRUNC")
for cut in range(len(small) + 1):
    record("trunc/%d" % cut, lambda: listing(small[:cut]))
written = CassetteFile()
written.add_files([make_file("WRT", 300, "markers")])
written = list(written.get_buffer())
for cut in list(range(250, 300)) + list(range(len(written) - 60, len(written) + 1)):
    record("trunc_written/%d" % cut, lambda: listing(written[:cut]))

# ---- reader pieces called directly ---------------------------------------------------------------
probe = CassetteFile(buffer=list(small))
for start in (-30, -3, -1, 0, 1, 2, 3, 20, len(small) - 6, len(small) - 2, len(small), len(small) + 5):
    for sequence in ([0x55, 0x3C, 0x00], [0x55, 0x3C], [0x55], [], [0xAA], [0x55, 0x3C, 0xFF, 0x00, 0xFF, 0x55], small + [0]):
        record("skip/%d/%s" % (start, digest(sequence)[:8] + str(len(sequence))),
               lambda: probe.skip_to_sequence(sequence, start=start))
record("skip/default", lambda: probe.skip_to_sequence([0x55, 0x3C, 0xFF]))
record("skip/empty", lambda: CassetteFile().skip_to_sequence([0x55, 0x3C]))
record("skip/empty_empty", lambda: CassetteFile().skip_to_sequence([]))
for pointer in range(-4, len(small) + 3):
    record("read_word/%d" % pointer, lambda: probe.read_word(pointer).hex(size=4))
    record("read_name/%d" % pointer, lambda: list(probe.read_coco_file_name(pointer)))
    record("read_file/%d" % pointer, lambda: (lambda r: [describe(r[0]), r[1]])(probe.read_file(pointer)))
    record("read_blocks/%d" % pointer, lambda: (lambda r: [list(r[0]), r[1]])(probe.read_blocks(pointer)))
for buffer in ([], [1], [1, 2], [0xFF, 0xFF], [0x12, 0x34, 0x56], b"\x12\x34", bytearray(b"\x00\x01\x02"), ["1", "2"], [1.0, 2.0]):
    for pointer in (-3, -2, -1, 0, 1, 2, 3):
        def read_word(buffer=buffer, pointer=pointer):
            container = CassetteFile()
            container.buffer = buffer
            value = container.read_word(pointer)
            return [value.hex(), value.int, type(value).__name__]
        record("read_word_buf/%r/%d" % (buffer, pointer), read_word)

# ---- container construction --------------------------------------------------------------
for label, buffer in (("none", None), ("empty", []), ("list", [1, 2, 3]), ("bytes", b"abc"), ("emptybytes", b""),
                      ("nested", [[1], [2]]), ("zero", 0), ("tuple", (1, 2))):
    def construct(buffer=buffer):
        out = []
        for cls in (CassetteFile, VirtualFileContainer):
            container = cls(buffer=buffer)
            out.append([repr(container.buffer), repr(container.original_buffer), container.buffer is buffer,
                        container.original_buffer is buffer, container.get_buffer() is container.buffer,
                        container.buffer is container.original_buffer])
        out.append(repr(CassetteFile().buffer))
        return out
    record("construct/" + label, construct)
def mutation_isolated():
    source = [1, 2, 3]
    container = CassetteFile(source)
    source.append(4)
    return [container.buffer, container.original_buffer]
record("construct/mutation", mutation_isolated)
def nested_mutation():
    source = [[1], [2]]
    container = VirtualFileContainer(buffer=source)
    source[0].append(9)
    return [container.buffer, container.original_buffer]
record("construct/nested_mutation", nested_mutation)
def add_files_order():
    calls = []
    class Recorder(VirtualFileContainer):
        def add_file(self, coco_file):
            calls.append(coco_file)
        def list_files(self, filenames=None):
            return calls
    recorder = Recorder()
    value = recorder.add_files(iter([3, 1, 2]))
    return [calls, repr(value), recorder.list_files()]
record("construct/add_files_order", add_files_order)
record("construct/add_files_none", lambda: CassetteFile().add_files(None))

# ---- the file_util.py command line ---------------------------------------------------------------------
work = tempfile.mkdtemp(prefix="c06_")

def run_cli(script, args, cwd):
    before = set(os.listdir(cwd))
    proc = subprocess.run([PY, os.path.join(tree, script)] + args, cwd=cwd, capture_output=True, text=True,
                          env=dict(os.environ, PYTHONPATH=tree, PYTHONDONTWRITEBYTECODE="1"))
    files = {}
    for name in sorted(os.listdir(cwd)):
        with open(os.path.join(cwd, name), "rb") as handle:
            content = handle.read()
        files[name] = [len(content), hashlib.sha256(content).hexdigest(), name not in before]
    return {"rc": proc.returncode, "out": proc.stdout.replace(tree, "<TREE>"),
            "err": proc.stderr.replace(tree, "<TREE>"), "files": files}

def save(name, buffer):
    with open(os.path.join(work, name), "wb") as handle:
        handle.write(bytearray(buffer))

def image(files):
    cassette = CassetteFile()
    cassette.add_files(files)
    return cassette.get_buffer()

save("one.cas", image([make_file("ONE", 300, "markers", 2, 0, 0x3F00, 0x3F10)]))
save("three.cas", image([make_file("ALPHA", 5, ftype=0, dtype=0xFF), make_file("beta", 255, ftype=1),
                         make_file("GAMMAGAMMA", 1000, "ff", ftype=2, load=0x7000, exe=0x7005)]))
save("empty.cas", [])
save("emptyfile.cas", image([make_file("NIL", 0)]))
save("handmade.cas", tape(7, 3, [[1] * 255, [2] * 4], "HAND", gaps=0xFF))
save("trunc.cas", image([make_file("TRUNC", 300)])[:400])
save("noeof.cas", header_block("NOEOF") + data_block([1, 2, 3]))
save("unknown.cas", header_block("UNK") + data_block([1, 2], block_type=0x07) + EOF)
save("garbage.bin", make_data(999, "random", seed=3))
for name in ("one.cas", "three.cas", "empty.cas", "emptyfile.cas", "handmade.cas", "trunc.cas", "noeof.cas",
             "unknown.cas", "garbage.bin", "missing.cas"):
    record("cli/list/" + name, lambda: run_cli("file_util.py", [name, "--list"], work))
record("cli/list_files_filter", lambda: run_cli("file_util.py", ["three.cas", "--list", "--files", "beta"], work))
record("cli/no_action", lambda: run_cli("file_util.py", ["three.cas"], work))
record("cli/no_args", lambda: run_cli("file_util.py", [], work))
record("cli/to_cas", lambda: run_cli("file_util.py", ["three.cas", "--to_cas", "copy.cas"], work))
record("cli/to_cas_again", lambda: run_cli("file_util.py", ["three.cas", "--to_cas", "copy.cas"], work))
record("cli/to_cas_append", lambda: run_cli("file_util.py", ["one.cas", "--to_cas", "copy.cas", "--append"], work))
record("cli/list_copy", lambda: run_cli("file_util.py", ["copy.cas", "--list"], work))
record("cli/to_cas_filter", lambda: run_cli("file_util.py", ["three.cas", "--to_cas", "some.cas", "--files", "alpha", "GAMMAGAM"], work))
record("cli/list_some", lambda: run_cli("file_util.py", ["some.cas", "--list"], work))
record("cli/to_bin_one", lambda: run_cli("file_util.py", ["one.cas", "--to_bin", "one.bin"], work))
record("cli/to_bin_three", lambda: run_cli("file_util.py", ["three.cas", "--to_bin", "three.bin"], work))
record("cli/to_bin_empty", lambda: run_cli("file_util.py", ["empty.cas", "--to_bin", "none.bin"], work))
record("cli/list_and_to_cas", lambda: run_cli("file_util.py", ["one.cas", "--list", "--to_cas", "never.cas"], work))

# ---- the assembler command line writing a cassette ---------------------------------------------------
with open(os.path.join(work, "prog.asm"), "w") as handle:
    handle.write("        NAM  HELLO\n        ORG  $0E00\nSTART   LDA  #$55\n        LDB  #$3C\n"
                 "        STA  $0400\n        FCB  $55,$3C,$00,$55,$3C,$FF\n        RTS\n        END  START\n")
record("cli/asm_to_cas", lambda: run_cli("assembler.py", ["prog.asm", "--to_cas", "prog.cas"], work))
record("cli/asm_list", lambda: run_cli("file_util.py", ["prog.cas", "--list"], work))
record("cli/asm_to_cas_append", lambda: run_cli("assembler.py", ["prog.asm", "--to_cas", "prog.cas", "--append", "--name", "second"], work))
record("cli/asm_list2", lambda: run_cli("file_util.py", ["prog.cas", "--list"], work))

import shutil
shutil.rmtree(work, ignore_errors=True)

# =====================================================================================================
# ---- DISK container ------------------------------------------------------------------------------------
# =====================================================================================================
from cocoasm.virtualfiles import disk as disk_module
from cocoasm.virtualfiles.disk import (DiskFile, DiskConstants, MLPreamble, BasicPreamble, ASCIIPreamble,
                                       Postamble, Preamble, DirectoryEntry, PreambleType)

FAT = DiskConstants.FAT_OFFSET
DIR = DiskConstants.DIR_OFFSET


def disk_state(disk):
    buffer = disk.get_buffer()
    return {"len": len(buffer), "digest": digest(buffer), "fat": list(buffer[FAT:FAT + 256]) if len(buffer) > FAT + 256 else None,
            "dir": digest(buffer[DIR:DIR + 72 * 32]) if len(buffer) > DIR else None,
            "used_dir": [list(buffer[DIR + 32 * n:DIR + 32 * n + 32]) for n in range(72)
                         if len(buffer) > DIR + 32 * n and buffer[DIR + 32 * n] not in (0x00, 0xFF)][:12]}


def disk_listing(buffer, filenames=None):
    try:
        return [describe(f) for f in DiskFile(buffer=buffer).list_files(filenames=filenames)]
    except BaseException as error:
        return ["ERR", type(error).__name__, str(error)]


def dfile(name, length, ftype=2, dtype=0, load=0x0E00, exe=0x0E10, ext="BIN", style="random", seed=0):
    return CoCoFile(name=name, extension=ext, type=NumericValue(ftype), data_type=NumericValue(dtype),
                    load_addr=NumericValue(load), exec_addr=NumericValue(exe), data=make_data(length, style, seed))


def disk_write_and_list(files, order=None, keep=False):
    disk = DiskFile(granule_fill_order=order)
    out = {}
    try:
        disk.add_files(files)
    except BaseException as error:
        out["add_error"] = [type(error).__name__, str(error)]
    out["state"] = disk_state(disk)
    out["listed"] = disk_listing(list(disk.get_buffer()))
    return out


DISK_LENGTHS = [0, 1, 2, 245, 246, 247, 250, 251, 252, 255, 256, 257, 500, 2293, 2294, 2295, 2296, 2298, 2299, 2300,
                2301, 2303, 2304, 2305, 4597, 4598, 4599, 4602, 4603, 4604, 4608, 6902, 6912, 9206, 9216, 20000]
for length in DISK_LENGTHS:
    record("disk/ml/%d" % length, lambda: disk_write_and_list([dfile("ML%d" % length, length)]))
    record("disk/basic/%d" % length, lambda: disk_write_and_list([dfile("BAS%d" % length, length, 0, 0, ext="BAS", style="markers")]))
    record("disk/ascii/%d" % length, lambda: disk_write_and_list([dfile("ASC%d" % length, length, 0, 0xFF, ext="BAS", style="ff")]))
for ftype in (0, 1, 2, 3):
    for dtype in (0x00, 0xFF):
        record("disk/types/%d/%d" % (ftype, dtype), lambda: disk_write_and_list([dfile("TY", 3000, ftype, dtype, 0xABCD, 0x1234)]))
for index, (name, ext) in enumerate([("", ""), ("a", "b"), ("lowercas", "bin"), ("TOOLONGNAME", "LONG"), ("NU\0L", "\0\0\0"),
                                     ("SP ACE", "A B"), ("straße", "ßx"), ("ÀÉ", "é"), ("12345678", "123"), ("ǆ", "ﬁ")]):
    record("disk/names/%d" % index, lambda: disk_write_and_list([dfile(name, 10, ext=ext)]))
for load, exe in [(0, 0), (0xFF, 0x100), (0xFFFF, 0x8000), (0x00FF, 0xFF00), (1, 2)]:
    record("disk/addr/%04X/%04X" % (load, exe), lambda: disk_write_and_list([dfile("ADDR", 700, load=load, exe=exe)]))
record("disk/none_values", lambda: disk_write_and_list([CoCoFile(name="NV", extension="BIN", data=[1, 2, 3])]))
record("disk/none_addr", lambda: disk_write_and_list([CoCoFile(name="NV", extension="BIN", type=NumericValue(2),
                                                               data_type=NumericValue(0), data=[1, 2, 3])]))
record("disk/empty_list", lambda: disk_write_and_list([]))
record("disk/multi", lambda: disk_write_and_list([dfile("ONE", 100), dfile("TWO", 5000, 0, 0, ext="BAS"), dfile("THREE", 2299, 1, 0xFF, ext="DAT"),
                                                  dfile("FOUR", 0), dfile("FIVE", 2304 * 3, style="markers")]))
record("disk/dupes", lambda: disk_write_and_list([dfile("SAME", 10), dfile("SAME", 20, seed=3)]))
record("disk/fill_68", lambda: disk_write_and_list([dfile("F%d" % i, 10 + i, seed=i) for i in range(68)]))
record("disk/fill_69", lambda: disk_write_and_list([dfile("F%d" % i, 10 + i, seed=i) for i in range(69)]))
record("disk/too_big", lambda: disk_write_and_list([dfile("HUGE", 65535), dfile("HUGE2", 65535, seed=1), dfile("HUGE3", 65535, seed=2)]))
record("disk/big_then_small", lambda: disk_write_and_list([dfile("BIG", 60000), dfile("SMALL", 10), dfile("MID", 40000, seed=4)]))
rnd_order = list(range(68))
random.Random(42).shuffle(rnd_order)
for label, order in (("reverse", list(range(67, -1, -1))), ("forward", list(range(68))), ("shuffled", rnd_order),
                     ("short", list(range(60))), ("empty", []), ("long", list(range(68)) + [0, 1]),
                     ("with68", [68] + list(range(68))), ("negative", [-1] + list(range(68))), ("dupes", [5] * 68),
                     ("tuple", tuple(range(68)))):
    record("disk/order/" + label, lambda: disk_write_and_list([dfile("ORD1", 7000), dfile("ORD2", 100, 0, 0), dfile("ORD3", 12000, seed=9)], order=order))

# appending to an existing image, and reading scattered chains written with another fill order
def disk_append():
    first = DiskFile(granule_fill_order=rnd_order)
    first.add_files([dfile("OLD1", 5000), dfile("OLD2", 30, 0, 0xFF)])
    second = DiskFile(buffer=list(first.get_buffer()))
    before = disk_listing(list(second.get_buffer()))
    second.add_files([dfile("NEW1", 2500, seed=5)])
    third = DiskFile(buffer=list(second.get_buffer()), granule_fill_order=list(range(68)))
    third.add_file(dfile("NEW2", 9000, 0, 0, seed=6))
    return [before, disk_state(second), disk_listing(list(second.get_buffer())), disk_state(third), disk_listing(list(third.get_buffer())),
            digest(second.original_buffer), digest(third.original_buffer)]
record("disk/append", disk_append)

# hand-made / damaged images
base_disk = DiskFile()
base_disk.add_files([dfile("GOOD", 3000), dfile("BASIC", 300, 0, 0, ext="BAS"), dfile("TEXT", 50, 1, 0xFF, ext="TXT")])
base_image = list(base_disk.get_buffer())
first_granule = base_image[DIR + 13]
def damaged(changes, cut=None, extend=0):
    image = list(base_image)
    for position, value in changes.items():
        image[position] = value
    if cut is not None:
        image = image[:cut]
    return image + [0] * extend
record("disk/image/base", lambda: disk_listing(list(base_image)))
record("disk/image/bytes", lambda: disk_listing(bytes(base_image)))
record("disk/image/bytearray", lambda: disk_listing(bytearray(base_image)))
record("disk/image/short", lambda: disk_listing(damaged({}, cut=DiskConstants.IMAGE_SIZE - 1)))
record("disk/image/long", lambda: disk_listing(damaged({}, extend=500)))
record("disk/image/empty", lambda: disk_listing([]))
record("disk/image/none", lambda: disk_listing(None))
record("disk/image/blank", lambda: disk_listing([0xFF] * DiskConstants.IMAGE_SIZE))
record("disk/image/zeros", lambda: disk_listing([0x00] * DiskConstants.IMAGE_SIZE))
record("disk/image/bad_ml_flag", lambda: disk_listing(damaged({DiskFile.seek_granule(first_granule): 0x01})))
record("disk/image/bad_post0", lambda: disk_listing(damaged({DiskFile.seek_granule(base_image[FAT + first_granule]) + 3000 + 5 - 2304: 0x12})))
record("disk/image/bad_post1", lambda: disk_listing(damaged({DiskFile.seek_granule(base_image[FAT + first_granule]) + 3000 + 6 - 2304: 0x13})))
record("disk/image/bad_post2", lambda: disk_listing(damaged({DiskFile.seek_granule(base_image[FAT + first_granule]) + 3000 + 7 - 2304: 0x14})))
record("disk/image/zero_length_preamble", lambda: disk_listing(damaged({DiskFile.seek_granule(first_granule) + 1: 0, DiskFile.seek_granule(first_granule) + 2: 0})))
record("disk/image/bad_basic_flag", lambda: disk_listing(damaged({DiskFile.seek_granule(base_image[DIR + 32 + 13]): 0x00})))
record("disk/image/deleted_first", lambda: disk_listing(damaged({DIR: 0x00})))
record("disk/image/deleted_second", lambda: disk_listing(damaged({DIR + 32: 0xFF})))
record("disk/image/type_changed", lambda: disk_listing(damaged({DIR + 11: 0x00})))
record("disk/image/ascii_changed", lambda: disk_listing(damaged({DIR + 32 + 12: 0xFF})))
record("disk/image/non_utf8_name", lambda: disk_listing(damaged({DIR + 2: 0xFE})))
record("disk/image/non_utf8_ext", lambda: disk_listing(damaged({DIR + 9: 0xFE})))
record("disk/image/granule_67", lambda: disk_listing(damaged({DIR + 64 + 13: 67})))
record("disk/image/granule_200", lambda: disk_listing(damaged({DIR + 64 + 13: 200})))
record("disk/image/huge_length", lambda: disk_listing(damaged({DiskFile.seek_granule(first_granule) + 1: 0xFF, DiskFile.seek_granule(first_granule) + 2: 0xFF})))
record("disk/image/filter_hit", lambda: [describe(f) for f in DiskFile(buffer=list(base_image)).list_files(filenames=["GOOD"])])
record("disk/image/last_entry", lambda: disk_listing(damaged(dict((DIR + 71 * 32 + i, v) for i, v in enumerate(base_image[DIR + 64:DIR + 96])))))
def all_entries_used():
    image = list(base_image)
    for entry in range(72):
        if image[DIR + 32 * entry] in (0x00, 0xFF):
            image[DIR + 32 * entry:DIR + 32 * entry + 32] = base_image[DIR + 64:DIR + 96]
    disk = DiskFile(buffer=image)
    found = disk.find_empty_directory_entry()
    out = [found, len(disk.list_files())]
    try:
        disk.add_file(dfile("NOSLOT", 5))
    except BaseException as error:
        out.append([type(error).__name__, str(error)])
    out.append(disk_state(disk))
    return out
record("disk/image/all_entries_used", all_entries_used)
def slot_70_only():
    image = list(base_image)
    for entry in range(72):
        if image[DIR + 32 * entry] in (0x00, 0xFF) and entry not in (70, 71):
            image[DIR + 32 * entry:DIR + 32 * entry + 32] = base_image[DIR + 64:DIR + 96]
    disk = DiskFile(buffer=image)
    out = [disk.find_empty_directory_entry()]
    disk.add_file(dfile("SLOT70", 5))
    out.append(disk.find_empty_directory_entry())
    out.append(disk_state(disk))
    return out
record("disk/image/slot_70_only", slot_70_only)

# ---- static arithmetic ---------------------------------------------------------------------------------------
def ambles(kind):
    if kind == "ml":
        return MLPreamble(), Postamble()
    if kind == "basic":
        return BasicPreamble(), None
    return ASCIIPreamble(), None
for kind in ("ml", "basic", "ascii"):
    def arithmetic(kind=kind):
        out = []
        for length in list(range(0, 30)) + list(range(230, 270)) + list(range(2280, 2320)) + list(range(4590, 4620)) + [6902, 6912, 65535, 100000]:
            preamble, postamble = ambles(kind)
            data = [0] * length
            out.append([length, DiskFile.calculate_granules_needed(data, preamble, postamble),
                        DiskFile.calculate_last_sector_bytes_used(data, preamble, postamble),
                        DiskFile.calculate_last_granules_sectors_used(data, preamble, postamble)])
        return out
    record("disk/arith/" + kind, arithmetic)
record("disk/arith/sectors", lambda: [[n, repr(DiskFile.calculate_sectors_needed(n))] for n in
                                       list(range(-3, 5)) + [255, 256, 257, 511, 512, 2303, 2304, 2305, 0.5, 255.9, 256.0, -256, -257, 10 ** 6]])
record("disk/arith/seek", lambda: [[g, DiskFile.seek_granule(g)] for g in list(range(-2, 72)) + [200, 255]])
record("disk/arith/seek_float", lambda: [repr(DiskFile.seek_granule(g)) for g in (33.0, 33.5, 34.0, True, False)])
record("disk/arith/seek_instance", lambda: [DiskFile().seek_granule(34), DiskFile().seek_granule(33)])
record("disk/arith/no_postamble_obj", lambda: DiskFile.calculate_granules_needed([1] * 2300, MLPreamble(), 0))
def file_lengths():
    fat = [0xFF] * 68
    fat[3], fat[9], fat[20] = 9, 20, 0xC4
    fat[5] = 0xC1
    fat[6] = 0xC0
    fat[7] = 0xC9
    fat[8] = 0xDF
    fat[10] = 0xE2
    return [DiskFile.calculate_file_length(g, fat, b) for g in (3, 9, 20, 5, 6, 7, 8, 10) for b in (0, 1, 255, 256)]
record("disk/arith/file_length", file_lengths)
record("disk/arith/file_length_badidx", lambda: DiskFile.calculate_file_length(0, [70] + [0xC1] * 5, 3))

# ---- small helpers ---------------------------------------------------------------------------------------------
helper_disk = DiskFile(buffer=list(base_image))
record("disk/helper/in_use_dir", lambda: [[n, helper_disk.directory_entry_in_use(n)] for n in range(0, 72)])
for n in (-2, -1, 72, 73, 1000):
    record("disk/helper/in_use_dir/%d" % n, lambda: helper_disk.directory_entry_in_use(n))
    record("disk/helper/granule_in_use/%d" % n, lambda: helper_disk.granule_in_use(n))
record("disk/helper/granule_in_use", lambda: [[n, helper_disk.granule_in_use(n)] for n in range(0, 68)])
record("disk/helper/granule_in_use_68", lambda: helper_disk.granule_in_use(68))
record("disk/helper/find_dir", lambda: helper_disk.find_empty_directory_entry())
record("disk/helper/find_granule", lambda: helper_disk.find_empty_granule())
record("disk/helper/find_blank", lambda: [DiskFile().find_empty_directory_entry(), DiskFile().find_empty_granule()])
record("disk/helper/ctor", lambda: [len(DiskFile().buffer), len(DiskFile(buffer=[]).buffer), len(DiskFile(buffer=[1]).buffer),
                                     DiskFile().granule_fill_order is DiskConstants.GRANULE_FILL_ORDER, DiskFile(granule_fill_order=[]).granule_fill_order == DiskConstants.GRANULE_FILL_ORDER,
                                     DiskFile(granule_fill_order=[1]).granule_fill_order, DiskFile().original_buffer, DiskFile(buffer=[1, 2]).original_buffer,
                                     set(DiskFile().buffer) == {0xFF}])
record("disk/helper/find_granule_empty_buffer", lambda: DiskFile(buffer=[]).find_empty_granule())
record("disk/helper/add_to_short_buffer", lambda: DiskFile(buffer=[1, 2, 3]).add_file(dfile("X", 3)))
seq_disk = DiskFile(buffer=[ord(c) for c in "HELLO WORLD"] + [0xC3, 0xA9, 0xFF])
for pointer in (-20, -14, -3, -2, -1, 0, 1, 6, 10, 11, 12, 13, 14, 20):
    for length in (0, 1, 2, 3, 5, 11, 14, 15):
        record("disk/helper/read_sequence/%d/%d" % (pointer, length), lambda: seq_disk.read_sequence(pointer, length))
        record("disk/helper/read_sequence_decode/%d/%d" % (pointer, length), lambda: seq_disk.read_sequence(pointer, length, decode=True))
    for sequence in ([], [ord("H")], [ord("H"), ord("E")], [ord("W"), ord("O")], [0xFF], [0xC3, 0xA9, 0xFF], [0] * 20):
        record("disk/helper/validate/%d/%r" % (pointer, sequence), lambda: seq_disk.validate_sequence(pointer, sequence))
def write_bytes(pointer, data, size=10):
    disk = DiskFile(buffer=[0xAA] * size)
    out = []
    try:
        out.append(disk.write_bytes_to_buffer(pointer, data))
    except BaseException as error:
        out.append([type(error).__name__, str(error)])
    out.append(list(disk.buffer))
    return out
for pointer in (-11, -10, -1, 0, 3, 8, 9, 10, 11):
    for label, maker in (("empty", lambda: []), ("three", lambda: [1, 2, 3]), ("bytes", lambda: b"\x09\x08"), ("gen", lambda: (n for n in (7, 6, 5))),
                         ("str", lambda: ["a"]), ("twelve", lambda: list(range(12)))):
        record("disk/helper/write_bytes/%d/%s" % (pointer, label), lambda: write_bytes(pointer, maker()))
def write_fat(granules, sectors):
    disk = DiskFile()
    out = []
    try:
        out.append(repr(disk.write_to_fat(granules, sectors)))
    except BaseException as error:
        out.append([type(error).__name__, str(error)])
    out.append(list(disk.buffer[FAT - 2:FAT + 70]))
    out.append(digest(disk.buffer))
    return out
for index, (granules, sectors) in enumerate([([], 1), (None, 1), ([5], 1), ([5], 9), ([5], 0), ([5, 6], 3), ([32, 33, 34, 35, 30], 2), ([3, 3, 3], 4),
                                             ([1, 2, 1], 5), ((4, 9), 1), ([67], 9), ([68], 1), ([-1, 0], 2), ([0, 100000000], 1), ([7, 8], 200)]):
    record("disk/helper/write_fat/%d" % index, lambda: write_fat(granules, sectors))
def write_granules(length, granules, kind, first=True):
    disk = DiskFile()
    preamble, postamble = ambles(kind)
    preamble.data_length = NumericValue(min(length, 65535))
    preamble.load_addr = NumericValue(0x2000)
    if postamble:
        postamble.exec_addr = NumericValue(0x2010)
    out = []
    try:
        out.append(repr(disk.write_to_granules(make_data(length, "random"), granules, preamble, postamble, first_granule=first)))
    except BaseException as error:
        out.append([type(error).__name__, str(error)])
    out.append(digest(disk.buffer))
    out.append([[g, digest(disk.buffer[DiskFile.seek_granule(g):DiskFile.seek_granule(g) + 2304])] for g in (0, 1, 2, 33, 34, 66, 67)])
    return out
for kind in ("ml", "basic", "ascii"):
    for length in (0, 1, 2293, 2294, 2295, 2298, 2299, 2300, 2301, 2304, 4603, 4608, 5000):
        record("disk/helper/write_granules/%s/%d" % (kind, length), lambda: write_granules(length, [33, 34, 0, 67], kind))
    record("disk/helper/write_granules/%s/short_list" % kind, lambda: write_granules(5000, [1], kind))
    record("disk/helper/write_granules/%s/empty_list" % kind, lambda: write_granules(50, [], kind))
    record("disk/helper/write_granules/%s/not_first" % kind, lambda: write_granules(2400, [2, 1], kind, first=False))
    record("disk/helper/write_granules/%s/tuple" % kind, lambda: write_granules(2400, (66, 67), kind))
    record("disk/helper/write_granules/%s/last_granule_overflow" % kind, lambda: write_granules(2304 * 2, [67, 68], kind))
def write_dir(entry, name, ext, ftype, dtype, granule, last):
    disk = DiskFile()
    out = []
    try:
        out.append(repr(disk.write_dir_entry(entry, CoCoFile(name=name, extension=ext, type=NumericValue(ftype), data_type=NumericValue(dtype)), granule, last)))
    except BaseException as error:
        out.append([type(error).__name__, str(error)])
    out.append(digest(disk.buffer))
    if isinstance(entry, int):
        out.append(list(disk.buffer[DIR + 32 * entry - 2:DIR + 32 * entry + 36]))
    return out
for index, arguments in enumerate([(0, "NAME", "BIN", 2, 0, 32, 100), (1, "lower", "bas", 0, 0xFF, 0, 0), (71, "LAST", "DAT", 1, 0, 67, 256),
                                   (72, "BEYOND", "X", 3, 0xFF, 5, 255), (-1, "BEFORE", "Y", 2, 0, 5, 1), (5, "", "", 2, 0, 1, 65535), (6, "A\0B", "\0", 2, 0, 1, 65536),
                                   (7, "straße", "ß", 2, 0, 1, -1), (8, "VERYLONGNAME", "LONGEXT", 2, 0, 1, 257), (9, "N", "E", 2, 0, 300, 3), (10, None, "E", 2, 0, 3, 3)]):
    record("disk/helper/write_dir/%d" % index, lambda: write_dir(*arguments))

# ---- preambles and postambles ----------------------------------------------------------------------------------------
def amble_io(cls, pointer, size, fill):
    out = []
    obj = cls()
    buffer = list(fill)[:size]
    try:
        out.append(obj.read(buffer, pointer))
        out.append([getattr(obj, attr).hex() for attr in ("data_length", "load_addr", "exec_addr") if hasattr(obj, attr)])
        if hasattr(obj, "get_data_length"):
            out.append(obj.get_data_length())
    except BaseException as error:
        out.append([type(error).__name__, str(error)])
    obj = cls()
    for attr, value in (("data_length", 0x1234), ("load_addr", 0xABCD), ("exec_addr", 0x00EF)):
        if hasattr(obj, attr):
            setattr(obj, attr, NumericValue(value))
    target = [0x77] * size
    try:
        out.append(obj.write(target, pointer))
    except BaseException as error:
        out.append([type(error).__name__, str(error)])
    out.append(target)
    out.append([obj.length, obj.is_ml() if hasattr(obj, "is_ml") else None])
    return out
FILLS = {"ml": [0x00, 0x12, 0x34, 0x56, 0x78, 0xFF, 0x00, 0x00, 0x9A, 0xBC, 0x00, 0x00], "basic": [0xFF, 0x01, 0x02, 0xFF, 0x00, 0x00, 0x11, 0x22, 0xFF, 0x01, 0x00, 0x00],
         "post_bad": [0xFF, 0x05, 0x00, 0x01, 0x02, 0xFF, 0x00, 0x06, 0x01, 0x02, 0xFE, 0x00]}
for cls in (MLPreamble, BasicPreamble, ASCIIPreamble, Postamble):
    for fill_name, fill in FILLS.items():
        for size in (0, 2, 3, 5, 12):
            for pointer in (-6, -5, -3, -1, 0, 1, 5, 7, 8, 9, 10, 12, 13):
                record("disk/amble/%s/%s/%d/%d" % (cls.__name__, fill_name, size, pointer), lambda: amble_io(cls, pointer, size, fill))
record("disk/amble/defaults", lambda: [[cls.__name__, cls().length, getattr(cls(), "data_length", NoneValue()).hex(), getattr(cls(), "load_addr", NoneValue()).hex(),
                                         getattr(cls(), "exec_addr", NoneValue()).hex()] for cls in (MLPreamble, BasicPreamble, ASCIIPreamble, Postamble)])
record("disk/amble/none_write", lambda: (lambda b: [MLPreamble().write(b, 0), Postamble().write(b, 5), b])([9] * 10))
record("disk/constants", lambda: {k: v for k, v in vars(DiskConstants).items() if k.isupper()})
record("disk/dir_entry_defaults", lambda: list(DirectoryEntry()))

# =====================================================================================================
# ---- VirtualFile / SourceFile on real temporary files ------------------------------------------------------
# =====================================================================================================
vf_work = tempfile.mkdtemp(prefix="vf_")

def snapshot(directory):
    out = {}
    for name in sorted(os.listdir(directory)):
        with open(os.path.join(directory, name), "rb") as handle:
            content = handle.read()
        out[name] = [len(content), hashlib.sha256(content).hexdigest()]
    return out

def vf_path(name):
    return os.path.join(vf_work, name)

def put(name, content):
    with open(vf_path(name), "wb") as handle:
        handle.write(bytearray(content))

def vf_session(target, kind, files, append=False, source_type=SourceFileType.BINARY):
    """open / add / save as the front ends do; report everything observable."""
    out = {}
    virtual_file = VirtualFile(SourceFile(vf_path(target), file_type=source_type), kind)
    try:
        out["open"] = repr(virtual_file.open_virtual_file())
        out["opened_type"] = str(virtual_file.virtual_file_type)
        out["exists"] = virtual_file.file_exists
        out["opened_files"] = [describe(f) for f in virtual_file.list_files()]
        for coco_file in files:
            virtual_file.add_coco_file(coco_file)
        out["save"] = repr(virtual_file.save_virtual_file(append_mode=append))
    except BaseException as error:
        out["error"] = [type(error).__name__, str(error).replace(vf_work, "<WORK>")]
    out["final_type"] = str(virtual_file.virtual_file_type)
    out["final_exists"] = virtual_file.file_exists
    out["count"] = len(virtual_file.coco_file_list)
    out["files"] = snapshot(vf_work)
    return out

def vf_relist(target):
    virtual_file = VirtualFile(SourceFile(vf_path(target), file_type=SourceFileType.BINARY))
    try:
        virtual_file.open_virtual_file()
        return [str(virtual_file.virtual_file_type), virtual_file.file_exists, [describe(f) for f in virtual_file.list_files()]]
    except BaseException as error:
        return ["ERR", type(error).__name__, str(error).replace(vf_work, "<WORK>")]

KINDS = {"cas": VirtualFileType.CASSETTE, "dsk": VirtualFileType.DISK, "bin": VirtualFileType.BINARY}
new_files = [dfile("NEWONE", 700, load=0x3000, exe=0x3005), dfile("NEWTWO", 10, 0, 0xFF, ext="BAS")]
for label, kind in KINDS.items():
    name = "fresh." + label
    record("vf/%s/create" % label, lambda: vf_session(name, kind, new_files))
    record("vf/%s/relist1" % label, lambda: vf_relist(name))
    record("vf/%s/again_no_append" % label, lambda: vf_session(name, kind, [dfile("THIRD", 300, seed=8)]))
    record("vf/%s/relist2" % label, lambda: vf_relist(name))
    record("vf/%s/again_append" % label, lambda: vf_session(name, kind, [dfile("THIRD", 300, seed=8)], append=True))
    record("vf/%s/relist3" % label, lambda: vf_relist(name))
    record("vf/%s/append_twice" % label, lambda: vf_session(name, kind, [dfile("FOURTH", 2600, 0, 0, seed=9), dfile("FIFTH", 1, seed=1)], append=True))
    record("vf/%s/relist4" % label, lambda: vf_relist(name))
    record("vf/%s/append_nothing" % label, lambda: vf_session(name, kind, [], append=True))
    record("vf/%s/empty_create" % label, lambda: vf_session("nothing." + label, kind, []))
    record("vf/%s/relist_empty" % label, lambda: vf_relist("nothing." + label))
    record("vf/%s/append_new_path" % label, lambda: vf_session("appendnew." + label, kind, new_files[:1], append=True))
    record("vf/%s/type_none_new" % label, lambda: vf_session("untyped." + label, None, new_files[:1]))
    record("vf/%s/assembly_source_type" % label, lambda: vf_session("asmtype." + label, kind, new_files[:1], source_type=SourceFileType.ASSEMBLY))
# cross-kind targets: existing content of another kind, with and without append
for existing in ("cas", "dsk", "bin"):
    for wanted in ("cas", "dsk", "bin"):
        for append in (False, True):
            def cross(existing=existing, wanted=wanted, append=append):
                target = "cross_%s_%s_%d.img" % (existing, wanted, append)
                seed_session = vf_session(target, KINDS[existing], [dfile("SEED", 40, seed=2)])
                return [seed_session.get("error"), vf_session(target, KINDS[wanted], [dfile("ADDED", 50, seed=3)], append=append), vf_relist(target)]
            record("vf/cross/%s/%s/%d" % (existing, wanted, append), cross)
put("zero.img", [])
put("garbage.img", make_data(5000, "random", seed=11))
put("bigzeros.img", [0] * 161280)
put("bigff.img", [0xFF] * 161280)
put("biggarbage.img", make_data(161280, "random", seed=12))
put("cas_truncated.img", image([make_file("TRUNC", 300)])[:400])
put("cas_noeof.img", header_block("NOEOF") + data_block([1, 2, 3]))
put("cas_padded_to_disk_size.img", (image([make_file("PADDED", 300)]) + [0] * 161280)[:161280])
big_cas = image([make_file("BIG%d" % i, 60000, seed=i) for i in range(3)])
put("cas_bigger_than_disk.img", big_cas)
for name in ("zero.img", "garbage.img", "bigzeros.img", "bigff.img", "biggarbage.img", "cas_truncated.img", "cas_noeof.img",
             "cas_padded_to_disk_size.img", "cas_bigger_than_disk.img", "absent.img"):
    record("vf/sniff/" + name, lambda: vf_relist(name))
    for label, kind in KINDS.items():
        for append in (False, True):
            def onto(name=name, kind=kind, append=append, label=label):
                target = "onto_%s_%d_%s" % (label, int(append), name)
                if os.path.exists(vf_path(name)):
                    shutil.copy(vf_path(name), vf_path(target))
                out = vf_session(target, kind, [dfile("ONTO", 20, seed=4)], append=append)
                out["relist"] = vf_relist(target)
                out["files"] = out["files"].get(target)
                return out
            record("vf/onto/%s/%s/%d" % (name, label, append), onto)
def vf_misc():
    virtual_file = VirtualFile()
    out = [repr(virtual_file.source_file), repr(virtual_file.virtual_file_type), list(virtual_file.coco_file_list), virtual_file.file_exists,
           list(virtual_file.list_files()), list(virtual_file.list_files(filenames=["X"])), repr(virtual_file.delete_coco_file("X")), repr(virtual_file.save_virtual_file())]
    virtual_file.add_coco_file(dfile("AA", 1))
    virtual_file.add_coco_file(dfile("BB", 2))
    out.append([f.name for f in virtual_file.list_files(filenames=["BB"])])
    out.append([f.name for f in virtual_file.list_files(filenames=[])])
    out.append(virtual_file.list_files() is virtual_file.coco_file_list)
    return out
record("vf/misc", vf_misc)
record("vf/open_without_source", lambda: VirtualFile().open_virtual_file())
record("vf/get_coco_files_direct", lambda: (lambda r: [[describe(f) for f in r[0]], str(r[1])])(
    VirtualFile(type("S", (), {"get_buffer": lambda self: list(base_image)})()).get_coco_files()))
record("vf/get_coco_files_cas", lambda: (lambda r: [[describe(f) for f in r[0]], str(r[1])])(
    VirtualFile(type("S", (), {"get_buffer": lambda self: image([make_file("CC", 5)])})()).get_coco_files()))
record("vf/get_coco_files_junk", lambda: (lambda r: [[describe(f) for f in r[0]], str(r[1])])(
    VirtualFile(type("S", (), {"get_buffer": lambda self: [1, 2, 3]})()).get_coco_files()))

# SourceFile primitives
def source_file_cases():
    out = []
    put("sf.bin", [0, 1, 2, 254, 255, 10, 13, 0])
    with open(vf_path("sf.asm"), "w") as handle:
        handle.write("  NAM X\n\n; comment\r\n  END")
    for name, kind in (("sf.bin", SourceFileType.BINARY), ("sf.asm", SourceFileType.ASSEMBLY), ("sf.asm", SourceFileType.BINARY),
                       ("sf_absent", SourceFileType.BINARY), ("sf_absent", SourceFileType.ASSEMBLY), ("zero.img", SourceFileType.BINARY),
                       ("zero.img", SourceFileType.ASSEMBLY), ("sf.bin", None)):
        source = SourceFile(vf_path(name), file_type=kind) if kind is not None else SourceFile(vf_path(name))
        try:
            out.append([repr(source.read_file()), repr(source.get_buffer()), source.get_file_name().replace(vf_work, "<WORK>"), str(source.file_type)])
        except BaseException as error:
            out.append([type(error).__name__, str(error).replace(vf_work, "<WORK>")])
    for name, kind, buffer in (("w1.bin", SourceFileType.BINARY, [1, 2, 3]), ("w2.bin", SourceFileType.BINARY, []), ("w3.bin", SourceFileType.ASSEMBLY, [1, 2]),
                               ("w4.bin", SourceFileType.BINARY, b"xyz"), ("w5.bin", SourceFileType.BINARY, [256]), ("w6.bin", SourceFileType.BINARY, ["a"]),
                               ("sf.bin", SourceFileType.BINARY, [9]), ("nodir/w7.bin", SourceFileType.BINARY, [1])):
        source = SourceFile(vf_path(name), file_type=kind)
        try:
            source.set_buffer(buffer)
            out.append([repr(source.write_file()), repr(source.get_buffer())])
        except BaseException as error:
            out.append([type(error).__name__, str(error).replace(vf_work, "<WORK>")])
    out.append(repr(SourceFile.read_binary_contents(vf_path("sf.bin"))))
    out.append(repr(SourceFile.read_assembly_contents(vf_path("sf.asm"))))
    out.append(repr(SourceFile.write_binary_contents(vf_path("w8.bin"), [65, 66])))
    out.append([repr(SourceFile().file_name), str(SourceFile().file_type), SourceFile().buffer])
    out.append({k: v for k, v in snapshot(vf_work).items() if k.startswith(("w", "sf"))})
    return out
record("sourcefile", source_file_cases)

# =====================================================================================================
# ---- both command lines on disk / cassette / binary targets -----------------------------------------------
# =====================================================================================================
cli_work = tempfile.mkdtemp(prefix="cli_")
def cli(script, *args):
    return run_cli(script, list(args), cli_work)
def cli_put(name, content):
    with open(os.path.join(cli_work, name), "wb") as handle:
        handle.write(bytearray(content))
with open(os.path.join(cli_work, "prog.asm"), "w") as handle:
    handle.write("        NAM  HELLO\n        ORG  $0E00\nSTART   LDA  #$55\n        LDB  #$3C\n"
                 "        STA  $0400\nLOOP    FCB  $55,$3C,$00,$55,$3C,$FF\n        BRA  LOOP\n        RTS\n        END  START\n")
with open(os.path.join(cli_work, "noname.asm"), "w") as handle:
    handle.write("        ORG  $2000\nBEGIN   CLRA\n        RMB  300\n        FDB  BEGIN\n        RTS\n")
with open(os.path.join(cli_work, "bad.asm"), "w") as handle:
    handle.write("        ORG  $2000\n        LDA  #$1FF\n        FOO  1\n")
with open(os.path.join(cli_work, "undefined.asm"), "w") as handle:
    handle.write("        NAM  UNDEF\n        JMP  NOWHERE\n")
cli_put("three.cas", image([make_file("ALPHA", 5, ftype=0, dtype=0xFF), make_file("beta", 255, ftype=1),
                            make_file("GAMMAGAMMA", 1000, "ff", ftype=2, load=0x7000, exe=0x7005)]))
cli_put("one.cas", image([make_file("ONE", 300, "markers", 2, 0, 0x3F00, 0x3F10)]))
cli_put("base.dsk", base_image)
cli_put("junk.bin", make_data(999, "random", seed=3))
cli_put("zero.bin", [])
STEPS = [
    ("asm_plain", "assembler.py", ["prog.asm"]),
    ("asm_print_symbols", "assembler.py", ["prog.asm", "--print", "--symbols", "--width", "80"]),
    ("asm_bad", "assembler.py", ["bad.asm", "--to_bin", "bad.bin"]),
    ("asm_undefined", "assembler.py", ["undefined.asm", "--to_cas", "undef.cas", "--print"]),
    ("asm_missing", "assembler.py", ["missing.asm", "--to_bin", "missing.bin"]),
    ("asm_to_bin", "assembler.py", ["prog.asm", "--to_bin", "prog.bin"]),
    ("asm_to_bin_again", "assembler.py", ["prog.asm", "--to_bin", "prog.bin"]),
    ("asm_to_bin_append", "assembler.py", ["prog.asm", "--to_bin", "prog.bin", "--append"]),
    ("asm_to_cas", "assembler.py", ["prog.asm", "--to_cas", "prog.cas"]),
    ("asm_to_cas_again", "assembler.py", ["prog.asm", "--to_cas", "prog.cas"]),
    ("asm_to_cas_append", "assembler.py", ["prog.asm", "--to_cas", "prog.cas", "--append", "--name", "ignored"]),
    ("list_prog_cas", "file_util.py", ["prog.cas", "--list"]),
    ("asm_to_dsk", "assembler.py", ["prog.asm", "--to_dsk", "prog.dsk"]),
    ("asm_to_dsk_again", "assembler.py", ["prog.asm", "--to_dsk", "prog.dsk"]),
    ("asm_to_dsk_append", "assembler.py", ["noname.asm", "--to_dsk", "prog.dsk", "--append", "--name", "second"]),
    ("list_prog_dsk", "file_util.py", ["prog.dsk", "--list"]),
    ("asm_noname_cas", "assembler.py", ["noname.asm", "--to_cas", "noname.cas", "--to_dsk", "noname.dsk"]),
    ("asm_noname_dsk", "assembler.py", ["noname.asm", "--to_dsk", "noname.dsk"]),
    ("asm_noname_bin", "assembler.py", ["noname.asm", "--to_bin", "noname.bin", "--to_dsk", "noname.dsk"]),
    ("asm_named", "assembler.py", ["noname.asm", "--name", "given", "--to_cas", "named.cas", "--to_dsk", "named.dsk", "--to_bin", "named.bin"]),
    ("list_named_cas", "file_util.py", ["named.cas", "--list"]),
    ("list_named_dsk", "file_util.py", ["named.dsk", "--list"]),
    ("asm_all_three_again", "assembler.py", ["noname.asm", "--name", "given", "--to_cas", "named.cas", "--to_dsk", "named.dsk", "--to_bin", "named.bin"]),
    ("asm_cas_onto_dsk", "assembler.py", ["prog.asm", "--to_cas", "prog.dsk", "--append"]),
    ("asm_dsk_onto_cas", "assembler.py", ["prog.asm", "--to_dsk", "prog.cas", "--append"]),
    ("asm_dsk_onto_cas_noappend", "assembler.py", ["prog.asm", "--to_dsk", "prog.cas"]),
    ("asm_bin_onto_cas", "assembler.py", ["prog.asm", "--to_bin", "prog.cas", "--append"]),
    ("asm_cas_onto_junk", "assembler.py", ["prog.asm", "--to_cas", "junk.bin", "--append"]),
    ("asm_dsk_onto_junk", "assembler.py", ["prog.asm", "--to_dsk", "junk.bin", "--append"]),
    ("asm_bin_onto_junk", "assembler.py", ["prog.asm", "--to_bin", "junk.bin", "--append"]),
    ("asm_cas_onto_zero", "assembler.py", ["prog.asm", "--to_cas", "zero.bin"]),
    ("asm_cas_onto_zero_append", "assembler.py", ["prog.asm", "--to_cas", "zero.bin", "--append"]),
    ("asm_to_dir", "assembler.py", ["prog.asm", "--to_cas", "."]),
    ("asm_to_missing_dir", "assembler.py", ["prog.asm", "--to_dsk", "nodir/x.dsk"]),
    ("fu_list_dsk", "file_util.py", ["base.dsk", "--list"]),
    ("fu_list_cas", "file_util.py", ["three.cas", "--list"]),
    ("fu_list_junk", "file_util.py", ["junk.bin", "--list"]),
    ("fu_list_missing", "file_util.py", ["missing.cas", "--list"]),
    ("fu_list_dir", "file_util.py", [".", "--list"]),
    ("fu_cas_to_dsk", "file_util.py", ["three.cas", "--to_dsk", "three.dsk"]),
    ("fu_cas_to_dsk_again", "file_util.py", ["three.cas", "--to_dsk", "three.dsk"]),
    ("fu_cas_to_dsk_append", "file_util.py", ["one.cas", "--to_dsk", "three.dsk", "--append"]),
    ("fu_list_three_dsk", "file_util.py", ["three.dsk", "--list"]),
    ("fu_dsk_to_cas", "file_util.py", ["base.dsk", "--to_cas", "base.cas"]),
    ("fu_dsk_to_cas_again", "file_util.py", ["base.dsk", "--to_cas", "base.cas"]),
    ("fu_dsk_to_cas_append_filter", "file_util.py", ["base.dsk", "--to_cas", "base.cas", "--append", "--files", "basic", "Nope"]),
    ("fu_list_base_cas", "file_util.py", ["base.cas", "--list"]),
    ("fu_both_targets", "file_util.py", ["three.cas", "--to_cas", "both.cas", "--to_dsk", "both.dsk", "--files", "ALPHA", "beta"]),
    ("fu_list_both_dsk", "file_util.py", ["both.dsk", "--list"]),
    ("fu_to_bin_one", "file_util.py", ["one.cas", "--to_bin", "one.bin"]),
    ("fu_to_bin_one_again", "file_util.py", ["one.cas", "--to_bin", "one.bin"]),
    ("fu_to_bin_one_append", "file_util.py", ["one.cas", "--to_bin", "one.bin", "--append"]),
    ("fu_to_bin_filter_miss", "file_util.py", ["one.cas", "--to_bin", "miss.bin", "--files", "other"]),
    ("fu_to_bin_filter_hit", "file_util.py", ["one.cas", "--to_bin", "hit.bin", "--files", "one"]),
    ("fu_to_bin_many", "file_util.py", ["three.cas", "--to_bin", "many.bin"]),
    ("fu_to_bin_none", "file_util.py", ["junk.bin", "--to_bin", "none.bin"]),
    ("fu_to_bin_missing_source", "file_util.py", ["missing.cas", "--to_bin", "none2.bin"]),
    ("fu_to_cas_missing_source", "file_util.py", ["missing.cas", "--to_cas", "none.cas"]),
    ("fu_to_dsk_onto_cas", "file_util.py", ["one.cas", "--to_dsk", "base.cas", "--append"]),
    ("fu_to_cas_onto_dsk", "file_util.py", ["one.cas", "--to_cas", "base.dsk", "--append"]),
    ("fu_to_cas_onto_dsk_noappend", "file_util.py", ["one.cas", "--to_cas", "base.dsk"]),
    ("fu_to_cas_onto_junk", "file_util.py", ["one.cas", "--to_cas", "junk.bin", "--append"]),
    ("fu_to_bin_onto_cas", "file_util.py", ["one.cas", "--to_bin", "three.cas", "--append"]),
    ("fu_to_self", "file_util.py", ["one.cas", "--to_cas", "one.cas", "--append"]),
    ("fu_all_with_list", "file_util.py", ["one.cas", "--list", "--to_cas", "never.cas", "--to_dsk", "never.dsk", "--to_bin", "never.bin"]),
    ("fu_cas_dsk_bin", "file_util.py", ["one.cas", "--to_cas", "all.cas", "--to_dsk", "all.dsk", "--to_bin", "all.bin"]),
    ("fu_no_action", "file_util.py", ["one.cas"]),
    ("fu_help", "file_util.py", ["--help"]),
    ("asm_help", "assembler.py", ["--help"]),
    ("fu_bad_flag", "file_util.py", ["one.cas", "--bogus"]),
    ("asm_no_args", "assembler.py", []),
]
for index, (label, script, arguments) in enumerate(STEPS):
    record("cli2/%02d_%s" % (index, label), lambda: cli(script, *arguments))

shutil.rmtree(vf_work, ignore_errors=True)
shutil.rmtree(cli_work, ignore_errors=True)
json.dump(results, sys.stdout, sort_keys=True)
'''


def run_tree(tree, worker_path):
    proc = subprocess.run(
        [sys.executable, worker_path, tree], cwd=tree, capture_output=True, text=True,
        env=dict(os.environ, PYTHONDONTWRITEBYTECODE="1", PYTHONHASHSEED="0"),
    )
    if proc.returncode != 0:
        print("worker failed for", tree)
        print(proc.stderr[-3000:])
        sys.exit(1)
    return json.loads(proc.stdout)


def main():
    if len(sys.argv) != 3:
        print(__doc__)
        sys.exit(2)
    tree_a, tree_b = (os.path.abspath(p) for p in sys.argv[1:3])
    with tempfile.TemporaryDirectory() as scratch:
        worker_path = os.path.join(scratch, "worker.py")
        with open(worker_path, "w") as handle:
            handle.write(WORKER)
        result_a = run_tree(tree_a, worker_path)
        result_b = run_tree(tree_b, worker_path)

    differences = 0
    for key in sorted(set(result_a) | set(result_b)):
        if result_a.get(key) != result_b.get(key):
            differences += 1
            print("DIFF", key)
            print("   A:", json.dumps(result_a.get(key))[:600])
            print("   B:", json.dumps(result_b.get(key))[:600])
    errors = sum(1 for value in result_a.values() if "error" in value)
    print("%d cases compared (%d raise in tree A), %d differences" % (len(result_a), errors, differences))
    sys.exit(1 if differences else 0)


if __name__ == "__main__":
    main()
