#!/venv/bin/python
"""
Differential demonstration for property C05 (data directives emit exactly the
bytes they specify).

usage: equiv.py <treeA> <treeB>

Both trees are exercised in separate subprocesses (one worker per tree, the
tree at the front of sys.path, a private scratch directory as cwd) on the same
set of inputs. Every observable result is recorded - emitted bytes, listing
lines, symbol table lines, origin, name, exception type and message, parsed
statement fields, code package fields, value renderings, CLI stdout / exit
code / files written - and the two records are compared. Exit status 0 when
everything agrees, 1 otherwise.

FOCUS (set per refactoring) selects which layer gets the extra white-box
probes; the program-level and CLI-level cases are always run.
"""
import json
import os
import random
import shutil
import subprocess
import sys
import tempfile

FOCUS = "value"

PYTHON = sys.executable or "/venv/bin/python"

INCLUDE_NAME = "inc_c05.asm"
INCLUDE_BODY = [
    "INCV    EQU   $42      ; included constant",
    "INCD    FCB   1,2,3    ; included data",
    "        FCC   /inc/    ; included string",
]

PRINTABLE = "".join(chr(c) for c in range(0x20, 0x7F))
DELIMS = ['"', "'", "/", "|", "!", ".", ":", "#", "@", "*", "=", "+", "-", "$", "%", "^", "&", "(", ",", "?", "<", ">"]


# ---------------------------------------------------------------------------
# case construction (shared by both workers: pure function of a fixed seed)
# ---------------------------------------------------------------------------

def program_cases():
    cases = []

    def add(name, lines):
        cases.append({"name": name, "lines": lines})

    # --- FCB -------------------------------------------------------------
    add("fcb-one-hex", ["  FCB $AB"])
    add("fcb-one-dec", ["  FCB 200"])
    add("fcb-one-zero", ["  FCB 0"])
    add("fcb-one-255", ["  FCB 255"])
    add("fcb-one-256", ["  FCB 256"])
    add("fcb-one-65535", ["  FCB 65535"])
    add("fcb-one-65536", ["  FCB 65536"])
    add("fcb-one-neg1", ["  FCB -1"])
    add("fcb-one-neg128", ["  FCB -128"])
    add("fcb-one-neg129", ["  FCB -129"])
    add("fcb-one-neg32768", ["  FCB -32768"])
    add("fcb-one-neg32769", ["  FCB -32769"])
    add("fcb-one-bin8", ["  FCB %10100101"])
    add("fcb-one-bin16", ["  FCB %1010010111110000"])
    add("fcb-one-bin7", ["  FCB %1010010"])
    add("fcb-one-char", ["  FCB 'A"])
    add("fcb-one-hex4", ["  FCB $1234"])
    add("fcb-one-hex5", ["  FCB $12345"])
    add("fcb-one-hex1", ["  FCB $F"])
    add("fcb-one-symbol", ["V EQU $12", "  FCB V"])
    add("fcb-one-fwd-symbol", ["  FCB V", "V EQU $12"])
    add("fcb-one-label-symbol", ["  ORG $0E00", "L NOP ", "  FCB L"])
    add("fcb-one-undefined", ["  FCB NOPE"])
    add("fcb-one-expr", ["V EQU 3", "  FCB V+1"])
    add("fcb-empty", ["  FCB "])
    add("fcb-empty-comment", ["  FCB ; nothing"])
    add("fcb-list-basic", ["  FCB $DE,$AD,$BE,$EF"])
    add("fcb-list-mixed", ["  FCB 1,$2,%00000011,'4,5"])
    add("fcb-list-neg", ["  FCB -1,-2,-127,-128"])
    add("fcb-list-neg129", ["  FCB 1,-129"])
    add("fcb-list-big", ["  FCB 1,256"])
    add("fcb-list-big-hex", ["  FCB 1,$1234"])
    add("fcb-list-65536", ["  FCB 1,65536"])
    add("fcb-list-symbol", ["V EQU 2", "  FCB 1,V"])
    add("fcb-list-trailing-comma", ["  FCB 1,2,"])
    add("fcb-list-leading-comma", ["  FCB ,1,2"])
    add("fcb-list-double-comma", ["  FCB 1,,2"])
    add("fcb-list-only-comma", ["  FCB ,"])
    add("fcb-list-space-after-comma", ["  FCB 1, 2, 3"])
    add("fcb-list-64", ["  FCB " + ",".join(str(i * 4) for i in range(64))])
    add("fcb-list-comment", ["DATA FCB 1,2,3 ; three bytes"])
    add("fcb-list-char-comma", ["  FCB 1,',"])
    add("fcb-lowercase", ["  fcb $aa,$bb"])
    add("fcb-two-elements", ["  FCB 9,8"])

    # --- FDB -------------------------------------------------------------
    add("fdb-one-hex", ["  FDB $ABCD"])
    add("fdb-one-hex2", ["  FDB $AB"])
    add("fdb-one-dec-small", ["  FDB 5"])
    add("fdb-one-dec", ["  FDB 40000"])
    add("fdb-one-zero", ["  FDB 0"])
    add("fdb-one-65535", ["  FDB 65535"])
    add("fdb-one-65536", ["  FDB 65536"])
    add("fdb-one-neg1", ["  FDB -1"])
    add("fdb-one-neg128", ["  FDB -128"])
    add("fdb-one-neg129", ["  FDB -129"])
    add("fdb-one-neg32768", ["  FDB -32768"])
    add("fdb-one-neg32769", ["  FDB -32769"])
    add("fdb-one-char", ["  FDB 'z"])
    add("fdb-one-bin8", ["  FDB %00001111"])
    add("fdb-one-symbol", ["V EQU $1234", "  FDB V"])
    add("fdb-one-label", ["  ORG $3F00", "START NOP ", "  FDB START"])
    add("fdb-one-undefined", ["  FDB MISSING"])
    add("fdb-empty", ["  FDB "])
    add("fdb-list-basic", ["  FDB $DEAD,$BEEF"])
    add("fdb-list-mixed", ["  FDB 1,$22,%0000001100000011,'4,500"])
    add("fdb-list-neg", ["  FDB -1,-128,-129,-32768"])
    add("fdb-list-neg-toobig", ["  FDB 1,-32769"])
    add("fdb-list-65536", ["  FDB 1,65536"])
    add("fdb-list-hex5", ["  FDB 1,$12345"])
    add("fdb-list-symbol", ["V EQU 2", "  FDB 1,V"])
    add("fdb-list-trailing-comma", ["  FDB 1,2,"])
    add("fdb-list-double-comma", ["  FDB 1,,2"])
    add("fdb-list-only-comma", ["  FDB ,"])
    add("fdb-list-64", ["  FDB " + ",".join(str(i * 1000) for i in range(64))])
    add("fdb-list-comment", ["TBL FDB $0102,$0304 ; words"])

    # --- RMB -------------------------------------------------------------
    for n in ["0", "1", "2", "10", "255", "256", "1000", "$10", "$100", "%00000100", "65535", "65536", "-1", "'A"]:
        add("rmb-" + n, ["  ORG $0100", "BUF RMB " + n, "AFTER FCB 1"])
    add("rmb-empty", ["  RMB "])
    add("rmb-symbol", ["N EQU 4", "  RMB N", "  FCB 1"])
    add("rmb-list", ["  RMB 1,2"])

    # --- FCC -------------------------------------------------------------
    add("fcc-basic", ['  FCC "HELLO"'])
    add("fcc-single-spaces", ['  FCC "HELLO BIG WORLD"'])
    add("fcc-double-spaces", ['  FCC "A  B"'])
    add("fcc-triple-spaces", ['  FCC "A   B    C"'])
    add("fcc-leading-space", ['  FCC " A"'])
    add("fcc-trailing-space", ['  FCC "A "'])
    add("fcc-only-space", ['  FCC " "'])
    add("fcc-only-spaces", ['  FCC "   "'])
    add("fcc-empty", ['  FCC ""'])
    add("fcc-semicolon", ['  FCC "A;B"'])
    add("fcc-semicolon-space", ['  FCC "A ; B"'])
    add("fcc-semicolons", ['  FCC ";;"'])
    add("fcc-comment", ['  FCC "ABC" ; a comment'])
    add("fcc-comment-nosemi", ['  FCC "ABC" trailing words'])
    add("fcc-comment-tight", ['  FCC "ABC";tight'])
    add("fcc-comment-quote", ['  FCC "ABC" ; say "hi"'])
    add("fcc-slash", ["  FCC /SLASHED TEXT/"])
    add("fcc-apostrophe", ["  FCC 'it is'"])
    add("fcc-pipe", ["  FCC |pipe|"])
    add("fcc-pipe-space", ["  FCC |pi pe|"])
    add("fcc-unterminated", ['  FCC "ABC'])
    add("fcc-unterminated-space", ['  FCC "ABC DEF'])
    add("fcc-single-delim", ['  FCC "'])
    add("fcc-no-operand", ["  FCC "])
    add("fcc-no-operand-semi", ["  FCC ;"])
    add("fcc-no-operand-comment", ["  FCC ; comment only"])
    add("fcc-no-delims", ["  FCC HELLO"])
    add("fcc-x-delim", ["  FCC xABCx"])
    add("fcc-tab", ['  FCC "A\tB"'])
    add("fcc-tilde", ['  FCC "A~B"'])
    add("fcc-backslash", ['  FCC "A\\B"'])
    add("fcc-braces", ['  FCC "{A}"'])
    add("fcc-lowctl", ['  FCC "\x01\x0f"'])
    add("fcc-label", ['MSG FCC "HI" ; greeting', "  FDB MSG"])
    add("fcc-255", ['  FCC "' + "A" * 255 + '"'])
    add("fcc-254-mixed", ['  FCC /' + ("ab cd;" * 43)[:254] + "/"])
    add("fcc-all-printable-dq", ["  FCC \"" + PRINTABLE.replace('"', "") + "\""])
    add("fcc-all-printable-slash", ["  FCC /" + PRINTABLE.replace("/", "") + "/"])
    for d in DELIMS:
        add("fcc-delim-" + d, ["  FCC {0}A B;C  D{0} ; note".format(d)])

    # --- non-emitting directives ------------------------------------------
    add("equ-hex2", ["V EQU $12", "  LDA #V"])
    add("equ-hex4", ["V EQU $1234", "  LDX #V"])
    add("equ-dec-small", ["V EQU 10", "  LDA V"])
    add("equ-dec-big", ["V EQU 1000", "  LDA V"])
    add("equ-neg", ["V EQU -1"])
    add("equ-char", ["V EQU 'A"])
    add("equ-bin", ["V EQU %11110000"])
    add("equ-empty", ["V EQU "])
    add("equ-symbol", ["A EQU 1", "B EQU A"])
    add("equ-hex3", ["V EQU $123"])
    add("equ-dup", ["V EQU 1", "V EQU 2"])
    add("org-hex", ["  ORG $0E00", "  FCB 1"])
    add("org-dec", ["  ORG 3584", "  FCB 1"])
    add("org-small", ["  ORG $10", "  FCB 1"])
    add("org-empty", ["  ORG ", "  FCB 1"])
    add("org-twice", ["  ORG $1000", "  FCB 1", "  ORG $2000", "  FCB 2"])
    add("org-symbol", ["S EQU $2000", "  ORG S", "  FCB 2"])
    add("setdp", ["  SETDP $0E", "  FCB 1"])
    add("setdp-empty", ["  SETDP ", "  FCB 1"])
    add("nam", ["  NAM PROG", "  FCB 1"])
    add("nam-long", ["  NAM LONGPROGRAMNAME", "  FCB 1"])
    add("nam-empty", ["  NAM ", "  FCB 1"])
    add("end-bare", ["  FCB 1", "  END "])
    add("end-operand", ["  ORG $0E00", "START FCB 1", "  END START"])
    add("end-undefined", ["  FCB 1", "  END NOWHERE"])
    add("set", ["V SET 5", "  FCB 1"])
    add("include", ["  INCLUDE " + INCLUDE_NAME, "  FCB INCV"])
    add("include-missing", ["  INCLUDE does_not_exist.asm"])
    add("include-empty", ["  INCLUDE "])

    # --- combinations / surrounding instructions --------------------------
    add("combo-all", [
        "        NAM   ALLDIR",
        "        ORG   $0E00",
        "CONST   EQU   $7F",
        "START   LDA   #CONST        ; load",
        "        LDX   #TEXT",
        "        BRA   DONE",
        "BYTES   FCB   1,2,-3,$FF    ; bytes",
        "ONE     FCB   CONST",
        "WORDS   FDB   $0102,-2,START",
        "W1      FDB   TEXT",
        "TEXT    FCC   \"Hi  there; you\"  ; text",
        "GAP     RMB   5",
        "DONE    RTS   ",
        "        END   START",
    ])
    add("combo-nosym-lists", [
        "        NAM   ALLDIR",
        "        ORG   $0E00",
        "CONST   EQU   $7F",
        "START   LDA   #CONST        ; load",
        "        LDX   #TEXT",
        "        BRA   DONE",
        "BYTES   FCB   1,2,-3,$FF    ; bytes",
        "ONE     FCB   CONST",
        "WORDS   FDB   $0102,-2,513",
        "W1      FDB   TEXT",
        "TEXT    FCC   \"Hi  there; you\"  ; text",
        "GAP     RMB   5",
        "DONE    RTS   ",
        "        END   START",
    ])
    add("combo-branch-over-data", [
        "  ORG $1000",
        "A BRA B",
        "  FCC /0123456789/",
        "  RMB 100",
        "  FDB 1,2,3,4",
        "B LBRA A",
        "  LDA B,PCR",
    ])
    add("combo-branch-too-far", ["A BRA B", "  RMB 200", "B NOP "])
    add("bad-mnemonic", ["  FCX 1,2"])
    add("bad-line", ["FCB"])
    add("comment-blank", ["; only a comment", "", "   ", "  FCB 7 ; seven"])

    # --- pseudo-random sweep (fixed seed) ----------------------------------
    rng = random.Random(0xC05)

    def rand_value(width):
        kind = rng.randrange(8)
        top = 0xFF if width == 1 else 0xFFFF
        if kind == 0:
            return str(rng.randint(0, top))
        if kind == 1:
            return "$%X" % rng.randint(0, top)
        if kind == 2:
            return "$%02X" % rng.randint(0, 0xFF)
        if kind == 3:
            return "-%d" % rng.randint(1, 0x80 if width == 1 else 0x8000)
        if kind == 4:
            return "%" + format(rng.randint(0, 0xFF), "08b")
        if kind == 5:
            return "'" + rng.choice("ABCxyz019#$%&*")
        if kind == 6:
            return rng.choice(["SYMA", "SYMB", "SYMC"])
        return str(rng.randint(0, 70000))

    prelude = ["SYMA EQU $11", "SYMB EQU $2233", "SYMC EQU 7"]
    for i in range(40):
        width = 1 + (i % 2)
        count = rng.choice([1, 1, 2, 3, 5, 8, 16, 33, 64])
        values = ",".join(rand_value(width) for _ in range(count))
        add("rand-%s-%d" % ("fcb" if width == 1 else "fdb", i),
            prelude + ["D%d %s %s ; random" % (i, "FCB" if width == 1 else "FDB", values)])
    for i in range(40):
        delim = rng.choice(DELIMS)
        alphabet = PRINTABLE.replace(delim, "") + "   ;;"
        text = "".join(rng.choice(alphabet) for _ in range(rng.choice([0, 1, 2, 3, 7, 20, 63, 128, 255])))
        tail = rng.choice(["", " ; c", "   ; more  words", " bare"])
        add("rand-fcc-%d" % i, ["S%d FCC %s%s%s%s" % (i, delim, text, delim, tail)])
    for i in range(12):
        add("rand-rmb-%d" % i, ["  ORG $%04X" % rng.randint(0, 0x7000), "R RMB %d" % rng.randint(0, 3000), "  FCB $AA"])
    return cases


def statement_cases():
    lines = [
        '  FCC "ABC"', '  FCC "A B"', '  FCC "A  B"', '  FCC "A B" ; c', '  FCC "A B" c d', '  FCC "AB";c',
        '  FCC ""', '  FCC "" ; empty', '  FCC " "', '  FCC "', '  FCC "AB', '  FCC "A B', "  FCC ", "  FCC ;",
        "  FCC ; x", "  FCC /a;b/ ; x", "  FCC /a;b/;x", "  FCC /a/b/", "  FCC /a/ /b/", "  FCC ABCA", "  FCC AB",
        "  FCC A", "  FCC 'x' 'y'", '  FCC "ABC"   ;   spaced   comment  ', 'LBL FCC "T" ;c', 'lbl fcc "t" ;c',
        '  FCC "A~B"', '  FCC "A" ~', '  FCC ~A~', '  FCC "A\tB"', '  FCC "AB"\t; tab comment',
        "  FCB 1,2,3", "  FCB 1,2,3 ; c", "  FCB 1, 2", "  FCB ", "  FCB ;c", "  FCB 1 ;; c", "  FCB $FF",
        "  FDB $FFFF,1", "  FDB X", "  FDB ", "  RMB 10", "  RMB ", "  RMB X+1", "V EQU $10", "V EQU $1000",
        "V EQU 16", "V EQU ", "V EQU $XY", "  ORG $0E00", "  ORG ", "  END START", "  END ", "  END",
        "  NAM FOO", "  SETDP 0", "  INCLUDE foo.asm", "  INCLUDE ", "  FCB 1,$XYZ", "  FDB 1,99999", "  FCB ~",
        "  FCQ 1", "X", "", "   ", "; c", "  ; c", "  LDA #$10 ; imm", "  FCB [1]", "  FCB 1,2,3,4,5,6,7,8,9,10,11,12",
    ]
    return lines


def operand_cases():
    cases = []
    for mnemonic, strings in [
        ("FCB", ["1", "$FF", "255", "256", "-1", "-128", "-129", "'A", "%11111111", "SYM", "1,2", "1,2,3", ",", "1,",
                 "1,X", "1,256", "1,-129", "$1234", "", "A+1", "65536", "$12345", "1,,2"]),
        ("FDB", ["1", "$FF", "$FFFF", "65535", "65536", "-1", "-32768", "-32769", "'A", "SYM", "1,2", "$1234,$5678", ",",
                 "1,", "1,X", "1,65536", "1,-32769", "", "A+1", "%1111111100000000"]),
        ("RMB", ["0", "1", "2", "255", "256", "$10", "$1000", "65535", "65536", "-2", "SYM", "", "1,2", "'A", "3+4"]),
        ("ORG", ["$0E00", "0", "3584", "$10", "SYM", "", "-1", "$12345"]),
        ("FCC", ['"ABC"', '""', '"A B"', "/x y/", '"A', "AB", "A", "", "xx", "|a;b|", '"\xe9"', '"' + "Q" * 255 + '"']),
        ("EQU", ["$10", "$100", "$1000", "16", "256", "-1", "'A", "%00000001", "SYM", "", "$1", "$123", "A+B", "1,2"]),
        ("END", ["", "START", "$1000"]),
        ("NAM", ["", "NAME", "a.b"]),
        ("SETDP", ["", "$0E", "300"]),
        ("SET", ["", "5"]),
        ("INCLUDE", ["", "file.asm", "a,b"]),
        ("LDA", ["#1", ""]),
        ("EXG", ["A,B"]),
    ]:
        for s in strings:
            cases.append([mnemonic, s])
    return cases


def value_cases():
    cases = []
    lists = ["1,2", "1,2,3", "$FF,$00", "255,256", "-1,-128", "-129,1", "1,-32768", "1,-32769", "'A,'B", "%00000001,%1111111100000000",
             "1", "", ",", "1,", ",1", "1,,2", "1,X", "X,1", "1, 2", "65535,65536", "$1234,$12345", "$1,$12,$123,$1234",
             "%1,2", "0,0,0,0", ",".join(str(i) for i in range(64)), "',,1", "1,'", "-0,0", "00012,012"]
    for s in lists:
        cases.append(["MultiByteValue", s])
        cases.append(["MultiWordValue", s])
    strings = ['"ABC"', '""', '"', "AA", "A", "AB", "/a b/", '" "', '"  "', "|;|", '"\t"', '"\x01"', '"\x0f\x10"', "'it''", '"a"b"',
               '"' + PRINTABLE + '"', "/" + "z" * 255 + "/", '"\xe9Ā"', "xyzx", '"A', 'A"', "", ";;", '";"', "' '"]
    for s in strings:
        cases.append(["StringValue", s])
    return cases


def cli_cases():
    return [
        {"name": "cli-all", "args": ["--print", "--symbols", "--to_bin", "out.bin"], "lines": [
            "        NAM   CLIPROG",
            "        ORG   $0E00",
            "K       EQU   $20",
            "START   LDA   #K",
            "DATA    FCB   1,2,-1,K",
            "WORDS   FDB   $1234,-2,START",
            "TEXT    FCC   \"two  spaces; semi\" ; trailing",
            "BUF     RMB   3",
            "        RTS   ",
            "        END   START",
        ]},
        {"name": "cli-fcc-error", "args": ["--print", "--symbols"], "lines": ['  FCC "unterminated']},
        {"name": "cli-fcb-list-error", "args": ["--print", "--symbols"], "lines": ["  FCB 1,-129"]},
        {"name": "cli-fdb-undefined", "args": ["--print", "--symbols"], "lines": ["  FDB 1", "  FDB NOPE"]},
        {"name": "cli-rmb-only", "args": ["--print", "--symbols", "--to_bin", "out.bin"], "lines": ["  ORG $2000", "B RMB 16", "E FCB $FF"]},
        {"name": "cli-include", "args": ["--print", "--symbols", "--to_bin", "out.bin"], "lines": ["  INCLUDE " + INCLUDE_NAME, "  FCB INCV,1"]},
        {"name": "cli-fcb-overflow", "args": ["--print", "--symbols", "--to_bin", "out.bin"], "lines": ["  FCB 1,300"]},
        {"name": "cli-cas", "args": ["--print", "--to_cas", "out.cas"], "lines": ["  NAM T", "  ORG $0E00", "  FCC /tape  data/", "  FDB 1,2"]},
    ]


# ---------------------------------------------------------------------------
# worker: runs inside one tree
# ---------------------------------------------------------------------------

def describe_error(error):
    record = {"error_type": type(error).__name__, "error_str": str(error), "error_args": repr(error.args)}
    if hasattr(error, "value"):
        record["error_value"] = repr(error.value)
    if hasattr(error, "statement"):
        try:
            record["error_statement"] = str(error.statement)
        except Exception as inner:
            record["error_statement"] = "<unprintable %s: %s>" % (type(inner).__name__, inner)
    return record


def describe_value(value):
    if value is None:
        return None
    record = {"class": type(value).__name__}
    for attr in ("type", "original_string", "int", "size_hint", "explict_addressing_mode", "negative", "resolved", "hex_array"):
        if hasattr(value, attr):
            record[attr] = repr(getattr(value, attr))
    for method in ("hex", "hex_len", "byte_len", "ascii", "is_8_bit", "is_16_bit", "is_multi_byte", "is_multi_word",
                   "is_string", "is_numeric", "is_none", "high_byte", "low_byte", "__str__"):
        try:
            record[method + "()"] = repr(getattr(value, method)())
        except Exception as error:
            record[method + "()"] = describe_error(error)
    try:
        record["hex(2)"] = repr(value.hex(size=2))
        record["hex(4)"] = repr(value.hex(size=4))
    except Exception as error:
        record["hex(n)"] = describe_error(error)
    return record


def describe_package(pkg):
    return {
        "op_code": describe_value(pkg.op_code),
        "address": describe_value(pkg.address),
        "post_byte": describe_value(pkg.post_byte),
        "additional": describe_value(pkg.additional),
        "size": repr(pkg.size),
        "max_size": repr(pkg.max_size),
        "needs_resolution": repr(pkg.additional_needs_resolution),
        "post_byte_choices": repr(pkg.post_byte_choices),
    }


def describe_operand(operand):
    if operand is None:
        return None
    return {
        "class": type(operand).__name__,
        "type": repr(operand.type),
        "operand_string": repr(operand.operand_string),
        "requires_resolution": repr(operand.requires_resolution),
        "value": describe_value(operand.value),
        "left": describe_value(operand.left),
        "right": describe_value(operand.right),
    }


def worker(tree):
    sys.path.insert(0, tree)
    from cocoasm.program import Program
    from cocoasm.statement import Statement
    from cocoasm.instruction import INSTRUCTIONS
    from cocoasm import operands as operands_module
    from cocoasm import values as values_module
    import cocoasm
    assert os.path.realpath(cocoasm.__file__).startswith(os.path.realpath(tree)), cocoasm.__file__

    out = {"program": {}, "statement": {}, "operand": {}, "value": {}}

    for case in program_cases():
        record = {}
        program = Program()
        try:
            program.process(list(case["lines"]))
            record["binary"] = program.get_binary_array()
        except Exception as error:
            record.update(describe_error(error))
        for key, getter in (("binary_after", program.get_binary_array), ("listing", program.get_statements),
                            ("symbols", program.get_symbol_table)):
            try:
                record[key] = getter()
            except Exception as error:
                record[key] = describe_error(error)
        record["origin"] = describe_value(program.origin)
        record["name"] = repr(program.name)
        record["sizes"] = [[repr(s.code_pkg.size), repr(s.code_pkg.max_size)] for s in program.statements]
        out["program"][case["name"]] = record

    if FOCUS in ("statement", "all"):
        for index, line in enumerate(statement_cases()):
            record = {}
            try:
                statement = Statement(line)
            except Exception as error:
                record.update(describe_error(error))
            else:
                record["label"] = repr(statement.label)
                record["mnemonic"] = repr(statement.mnemonic)
                record["comment"] = repr(statement.comment)
                record["is_empty"] = repr(statement.is_empty)
                record["is_comment_only"] = repr(statement.is_comment_only)
                record["instruction"] = repr(statement.instruction.mnemonic if statement.instruction else None)
                record["operand"] = describe_operand(statement.operand)
                record["original_operand"] = describe_operand(statement.original_operand)
                record["same_object"] = repr(statement.operand is statement.original_operand)
                try:
                    record["include"] = repr(statement.get_include_filename())
                except Exception as error:
                    record["include"] = describe_error(error)
                try:
                    record["str"] = str(statement)
                except Exception as error:
                    record["str"] = describe_error(error)
            out["statement"]["%03d %r" % (index, line)] = record

    if FOCUS in ("operand", "all"):
        for mnemonic, operand_string in operand_cases():
            instruction = next(i for i in INSTRUCTIONS if i.mnemonic == mnemonic)
            record = {}
            try:
                operand = operands_module.PseudoOperand(operand_string, instruction)
            except Exception as error:
                record.update(describe_error(error))
            else:
                record["operand"] = describe_operand(operand)
                record["resolve_is_self"] = repr(operand.resolve_symbols({}) is operand)
                try:
                    record["package"] = describe_package(operand.translate())
                except Exception as error:
                    record["package"] = describe_error(error)
                try:
                    record["package_again"] = describe_package(operand.translate())
                except Exception as error:
                    record["package_again"] = describe_error(error)
            try:
                created = operands_module.Operand.create_from_str(operand_string, instruction)
                record["created"] = describe_operand(created)
            except Exception as error:
                record["created"] = describe_error(error)
            out["operand"]["%s %r" % (mnemonic, operand_string)] = record

    if FOCUS in ("value", "all"):
        for class_name, text in value_cases():
            record = {}
            try:
                value = getattr(values_module, class_name)(text)
            except Exception as error:
                record.update(describe_error(error))
            else:
                record["value"] = describe_value(value)
                record["resolve_is_self"] = repr(value.resolve({}) is value)
                record["bases"] = repr(isinstance(value, values_module.Value))
            out["value"]["%s %r" % (class_name, text)] = record

    json.dump(out, sys.stdout, sort_keys=True)


# ---------------------------------------------------------------------------
# driver
# ---------------------------------------------------------------------------

def run_tree(tree):
    tree = os.path.abspath(tree)
    workdir = tempfile.mkdtemp(prefix="c05-equiv-")
    env = dict(os.environ, PYTHONDONTWRITEBYTECODE="1", PYTHONHASHSEED="0")
    env.pop("PYTHONPATH", None)
    try:
        with open(os.path.join(workdir, INCLUDE_NAME), "w") as handle:
            handle.write("\n".join(INCLUDE_BODY) + "\n")
        proc = subprocess.run([PYTHON, os.path.abspath(__file__), "--worker", tree], cwd=workdir, env=env,
                              stdout=subprocess.PIPE, stderr=subprocess.PIPE, universal_newlines=True)
        if proc.returncode != 0:
            sys.stderr.write(proc.stderr)
            raise SystemExit("worker failed for %s" % tree)
        result = json.loads(proc.stdout)
        result["worker_stderr"] = proc.stderr

        result["cli"] = {}
        for case in cli_cases():
            for leftover in ("out.bin", "out.cas"):
                path = os.path.join(workdir, leftover)
                if os.path.exists(path):
                    os.remove(path)
            with open(os.path.join(workdir, "case.asm"), "w") as handle:
                handle.write("\n".join(case["lines"]) + "\n")
            proc = subprocess.run([PYTHON, os.path.join(tree, "assembler.py"), "case.asm"] + case["args"], cwd=workdir,
                                  env=env, stdout=subprocess.PIPE, stderr=subprocess.PIPE, universal_newlines=True)
            stderr_lines = [l for l in proc.stderr.splitlines() if l.strip()]
            record = {
                "returncode": proc.returncode,
                "stdout": proc.stdout.replace(tree, "<TREE>"),
                # tracebacks carry file names / line numbers of the tree; the final line is the error itself
                "stderr_last": stderr_lines[-1] if stderr_lines else "",
                "files": {},
            }
            for name in sorted(os.listdir(workdir)):
                if name in ("case.asm", INCLUDE_NAME):
                    continue
                with open(os.path.join(workdir, name), "rb") as handle:
                    record["files"][name] = handle.read().hex()
            result["cli"][case["name"]] = record
        return result
    finally:
        shutil.rmtree(workdir, ignore_errors=True)


def diff(path, a, b, problems):
    if type(a) != type(b):
        problems.append("%s: %r != %r" % (path, a, b))
    elif isinstance(a, dict):
        for key in sorted(set(a) | set(b)):
            if key not in a or key not in b:
                problems.append("%s/%s: present in only one tree" % (path, key))
            else:
                diff("%s/%s" % (path, key), a[key], b[key], problems)
    elif isinstance(a, list):
        if len(a) != len(b):
            problems.append("%s: length %d != %d" % (path, len(a), len(b)))
        for index, (x, y) in enumerate(zip(a, b)):
            diff("%s[%d]" % (path, index), x, y, problems)
    elif a != b:
        problems.append("%s: %r != %r" % (path, a, b))


def main():
    if len(sys.argv) == 3 and sys.argv[1] == "--worker":
        worker(sys.argv[2])
        return 0
    if len(sys.argv) != 3:
        sys.stderr.write(__doc__)
        return 2
    result_a = run_tree(sys.argv[1])
    result_b = run_tree(sys.argv[2])
    problems = []
    diff("", result_a, result_b, problems)
    counts = {section: len(result_a[section]) for section in ("program", "statement", "operand", "value", "cli")}
    total = sum(counts.values())
    errors = sum(1 for r in result_a["program"].values() if "error_type" in r)
    print("cases: %d %r (program cases ending in an error: %d)" % (total, counts, errors))
    if problems:
        print("DIFFERENCES: %d" % len(problems))
        for problem in problems[:50]:
            print("  " + problem)
        return 1
    print("all observations agree")
    return 0


if __name__ == "__main__":
    sys.exit(main())
